//go:build verif

package main

import (
	"context"
	"fmt"
	"sync/atomic"
	"time"

	"github.com/NethermindEth/juno/core"
	"github.com/NethermindEth/juno/core/felt"
	"github.com/NethermindEth/juno/core/pending"
	"github.com/NethermindEth/juno/feed"
	"github.com/NethermindEth/juno/starknet"
	junosync "github.com/NethermindEth/juno/sync"
	"github.com/NethermindEth/juno/sync/preconfirmed"
	"github.com/NethermindEth/juno/utils/log"
	"verif/harness/lib"
)

// ---------------------------------------------------------------------------------------------
// Run probe (round 5): what the pscript stage cannot reach because it starts on a chain that has a
// head — Poller.Run around the ticks and the readers' entry point WITHOUT a canonical head:
//
//   (a) before genesis (empty Blockchain): the real Poller, ticking every 100 µs, must stay silent (no
//       endpoint call, no warning, storage empty: Poller.lean `runLoop`, theorem
//       poller_run_guard_and_ticks) and Synchronizer.PreConfirmedChain must hand out NO view
//       (`preConfirmedChain none … = error`);
//   (b) genesis arrives: the poller leaves its guard loop and polls; the reader's view is block 1;
//   (c) genesis is reverted under the running poller: every tick now fails in Height() ("reading chain
//       height") BEFORE touching anything — no endpoint call, the storage keeps what it had
//       (`tick_without_height`), and the readers again get an error instead of a view;
//   (d) polling disabled (interval 0): Run returns at once.
//
// Only schedule-independent facts are judged: "no call happened" is never made false by a slow
// machine; every wait for something that MUST happen has a generous deadline and is Fatal.
// ---------------------------------------------------------------------------------------------

type countSource struct {
	latest atomic.Int64
	other  atomic.Int64
	bc     interface{ Height() (uint64, error) }
}

func (s *countSource) PreConfirmedBlockLatest(context.Context, string, uint64) (starknet.PreConfirmedUpdate, uint64, error) {
	s.latest.Add(1)
	ht, err := s.bc.Height()
	if err != nil {
		return nil, 0, errScript
	}
	u := &UpdateSpec{Kind: "B", Ident: "g1", VerOk: true}
	return u.wire(ht + 1), ht + 1, nil
}

func (s *countSource) PreConfirmedBlockByNumber(context.Context, uint64, string, uint64) (starknet.PreConfirmedUpdate, error) {
	s.other.Add(1)
	return nil, errScript
}

func (s *countSource) Class(context.Context, *felt.Felt) (core.ClassDefinition, error) {
	s.other.Add(1)
	return nil, errScript
}

func (h *harness) askProbe(what, line, impl string) {
	if h.drv == nil {
		return
	}
	model, err := h.drv.Ask(line)
	if err != nil || model == "bad-op" {
		h.res.Fatalf("run probe: the Lean driver failed on %q: %v %s", line, err, model)
		return
	}
	h.res.Compared(1)
	if model != impl {
		h.res.Mismatch(lib.Mismatch{Sig: "model-differs:" + firstWord(line), Input: map[string]any{"probe": what, "line": line},
			Model: clip(model), Impl: clip(impl)})
	}
}

func (h *harness) runProbe() {
	for _, newState := range []bool{false, true} {
		h.runProbeOne(newState)
	}
}

func (h *harness) runProbeOne(newState bool) {
	replay := map[string]any{"kind": "run-probe", "new_state": newState}
	node := newNode(newState)
	syn := junosync.New(node.bc, nil, log.NewNopZapLogger(), 0, false, nil)
	var store *preconfirmed.ChainStorage
	if f, err := unexportedField(syn, "preConfirmed"); err != nil {
		h.res.Fatalf("run probe: cannot reach the Synchronizer's chain storage: %v", err)
		return
	} else if st, ok := f.Interface().(*preconfirmed.ChainStorage); !ok || st == nil {
		h.res.Fatalf("run probe: Synchronizer.preConfirmed is not a *ChainStorage")
		return
	} else {
		store = st
	}
	readerTok := func() string {
		var v preconfirmed.ChainReader
		var cerr error
		err, panicked, _ := lib.Try(func() error { v, cerr = syn.PreConfirmedChain(); return nil })
		switch {
		case panicked:
			h.res.Violate(lib.Violation{Sig: "reader-entry-panics", What: fmt.Sprintf("PreConfirmedChain panicked on a chain without a head: %v", err), Replay: replay})
			return "panic"
		case cerr != nil:
			return "err"
		}
		return canonView(&v)
	}
	noHead := func(phase string) {
		tok := readerTok()
		if tok != "err" && tok != "panic" {
			h.res.Violate(lib.Violation{Sig: "reader-entry-view-without-canonical-head",
				What:   fmt.Sprintf("%s: the chain has no head, yet Synchronizer.PreConfirmedChain handed out a view (%s): there is no canonical head it could start one above", phase, clip(tok)),
				Replay: replay})
		}
		impl := tok
		if tok == "err" {
			impl = "err:height"
		}
		h.askProbe(phase, "pcc - - 1", impl)
		h.res.Hit("run-probe-reader-without-head")
	}
	src := &countSource{bc: node.bc}
	logger := &captureLogger{}
	var highest atomic.Pointer[core.Header]
	out := feed.New[*pending.PreConfirmed]()
	poller := preconfirmed.NewPoller(src, store, node.bc, out, &highest, 100*time.Microsecond, logger)
	ctx, cancel := context.WithCancel(context.Background())
	runDone := make(chan string, 1)
	go func() {
		err, panicked, stack := lib.Try(func() error { poller.Run(ctx); return nil })
		if panicked {
			runDone <- fmt.Sprintf("%v\n%s", err, clip(stack))
		} else {
			runDone <- ""
		}
	}()
	defer func() {
		cancel()
		select {
		case msg := <-runDone:
			if msg != "" {
				h.res.Violate(lib.Violation{Sig: "poller-run-panics", What: "preconfirmed.Poller.Run panicked: " + msg, Replay: replay})
			}
		case <-time.After(60 * time.Second):
			h.res.Fatalf("run probe: Poller.Run did not return within 60s of cancellation")
		}
	}()
	calls := func() int64 { return src.latest.Load() + src.other.Load() }
	storeEmpty := func() bool {
		for b := uint64(0); b <= 3; b++ {
			if v := store.SnapshotForBlock(b); v.Length() != 0 {
				return false
			}
		}
		return true
	}
	waitFor := func(what string, cond func() bool) bool {
		deadline := time.Now().Add(300 * time.Second)
		for !cond() {
			if time.Now().After(deadline) {
				h.res.Fatalf("run probe: %s did not happen within 300s", what)
				return false
			}
			time.Sleep(200 * time.Microsecond)
		}
		return true
	}

	// ---- (a) before genesis
	noHead("before genesis")
	time.Sleep(15 * time.Millisecond) // ~150 ticker periods
	silent := calls() == 0 && len(logger.take()) == 0 && storeEmpty()
	impl := "wwww"
	if !silent {
		impl = fmt.Sprintf("not-silent(calls=%d,empty=%v)", calls(), storeEmpty())
	}
	h.askProbe("before genesis", "runloop 0 n nnnn", impl)
	h.res.Hit("run-probe-pre-genesis-silent")

	// ---- (b) genesis arrives
	if err := node.finalise(DiffSpec{D: [][2]uint64{{100, 300}}}.coreDiff(), nil); err != nil {
		h.res.Fatalf("run probe: genesis rejected: %v", err)
		return
	}
	hd, err := node.bc.HeadsHeader()
	if err != nil {
		h.res.Fatalf("run probe: no header after genesis: %v", err)
		return
	}
	highest.Store(hd)
	if !waitFor("the second latest poll after genesis", func() bool { return src.latest.Load() >= 2 }) {
		return
	}
	v := store.SnapshotForBlock(1)
	if msg := validateView(&v, 1); msg != "" || v.Length() != 1 {
		h.res.Violate(lib.Violation{Sig: "run-probe-" + orStr(msg, "view-not-block-1"),
			What: fmt.Sprintf("after genesis and a completed tick the view for head 0 is %s", canonView(&v)), Replay: replay})
	}
	entry := v.Head()
	if tok := readerTok(); tok != canonView(&v) {
		h.res.Violate(lib.Violation{Sig: "reader-entry-view-is-not-the-aligned-snapshot",
			What: fmt.Sprintf("head 0, storage holds block 1: PreConfirmedChain returned %s", clip(tok)), Replay: replay})
	}
	h.res.Hit("run-probe-polls-after-genesis")

	// ---- (c) genesis reverted under the running poller
	if err := node.bc.RevertHead(); err != nil {
		h.res.Fatalf("run probe: RevertHead of genesis: %v", err)
		return
	}
	node.height = 0
	heightErrs := 0
	countHeightErrs := func() int {
		for _, e := range logger.take() {
			if tickStatus([]error{e}) == "err:height" {
				heightErrs++
			}
		}
		return heightErrs
	}
	if !waitFor("a tick failing in Height() after the revert of genesis", func() bool { return countHeightErrs() >= 1 }) {
		return
	}
	c1 := calls()
	if !waitFor("three more ticks failing in Height()", func() bool { return countHeightErrs() >= 4 }) {
		return
	}
	c2 := calls()
	after := store.SnapshotForBlock(1)
	impl = "untouched"
	if c2 != c1 || after.Head() != entry {
		impl = fmt.Sprintf("calls %d -> %d, stored entry replaced: %v", c1, c2, after.Head() != entry)
		h.res.Mismatch(lib.Mismatch{Sig: "model-differs:tick-without-height", Input: replay,
			Model: "Poller.lean tick: Height() fails -> (storage unchanged, no call, err:height)", Impl: impl})
	}
	h.res.Compared(1)
	noHead("genesis reverted")
	h.res.Hit("run-probe-ticks-without-height")
	h.res.HitN("run-probe-height-errors-seen", heightErrs)
	h.res.Case(fmt.Sprintf("runprobe/%v", newState), true)

	// ---- (d) polling disabled
	src0 := &countSource{bc: node.bc}
	p0 := preconfirmed.NewPoller(src0, preconfirmed.NewChainStorage(), node.bc, out, &highest, 0, logger)
	ret := lib.WithDeadline(60*time.Second, func() { p0.Run(context.Background()) })
	impl = "off"
	if !ret || src0.latest.Load()+src0.other.Load() != 0 {
		impl = fmt.Sprintf("returned=%v calls=%d", ret, src0.latest.Load()+src0.other.Load())
	}
	h.askProbe("interval 0", "runloop 1 o nn", impl)
}

func orStr(a, b string) string {
	if a != "" {
		return a
	}
	return b
}

// ---------------------------------------------------------------------------------------------
// Raced-reader probe (round 5): Synchronizer.PreConfirmedChain reads the canonical chain several times
// with nothing held in between. juno's own read listener (blockchain.WithListener) lets the harness move
// the head DETERMINISTICALLY between two of those reads: when HeadsHeader() is entered — i.e. after
// Height() and SnapshotForBlock, before the fallback block is built — the hook reverts the head or
// finalises one more block. Model: Model.lean `preConfirmedChain (height₁) store (height₂) hashOf`,
// theorem reader_view_under_head_movement. Oracle: a view that is handed out is not empty, gap-free, and
// starts one above a canonical head observed during the call: h₁+1 when it is the stored snapshot, h₂+1
// when it is the blank fallback block, whose state then reads like the canonical state at h₂.
// ---------------------------------------------------------------------------------------------

func (h *harness) racedReaderProbe(rng *lib.RNG) {
	for _, newState := range []bool{false, true} {
		h.racedReaderOne(rng.Fork(uint64(len(fmt.Sprint(newState)))), newState)
	}
}

func (h *harness) racedReaderOne(rng *lib.RNG, newState bool) {
	const nBase = 13
	base, _ := genBase(rng, nBase+1)
	var hook func(method string)
	node := newNodeWithListener(newState, func(m string) {
		if f := hook; f != nil {
			f(m)
		}
	})
	for i := 0; i < nBase; i++ {
		if err := node.finalise(base[i].Diff.coreDiff(), classMap(base[i].Classes)); err != nil {
			h.res.Fatalf("raced-reader probe: setup failed: %v", err)
			return
		}
	}
	syn := junosync.New(node.bc, nil, log.NewNopZapLogger(), 0, false, nil)
	f, err := unexportedField(syn, "preConfirmed")
	if err != nil {
		h.res.Fatalf("raced-reader probe: cannot reach the Synchronizer's chain storage: %v", err)
		return
	}
	store, ok := f.Interface().(*preconfirmed.ChainStorage)
	if !ok || store == nil {
		h.res.Fatalf("raced-reader probe: Synchronizer.preConfirmed is not a *ChainStorage")
		return
	}
	height := func() uint64 { return uint64(node.height - 1) }
	// storage shapes relative to the head H the call starts with: offsets of the stored slots from H
	shapes := map[string][]uint64{"empty": nil, "at-H+1": {1, 2}, "at-H+2": {2, 3}, "at-H": {0, 1}}
	for _, shape := range []string{"empty", "at-H+1", "at-H+2", "at-H"} {
		for _, move := range []string{"none", "revert", "advance"} {
			h0 := height()
			replay := map[string]any{"kind": "raced-reader-probe", "new_state": newState, "head": h0, "storage": shape, "head_move_before_HeadsHeader": move}
			store.AdvanceTo(1 << 40) // drop whatever is stored
			var lines []string
			lines = append(lines, "reset")
			for i, off := range shapes[shape] {
				num, oldest := h0+off, h0+shapes[shape][0]
				o := blockOp(num, oldest, fmt.Sprintf("q%d", i), nil)
				if _, err := store.ApplyUpdate(o.U.wire(num), num, 0, oldest, nil); err != nil {
					h.res.Fatalf("raced-reader probe: storage setup rejected: %v", err)
					return
				}
				lines = append(lines, o.applyLine())
			}
			fired := false
			hook = func(m string) {
				if m != "HeadsHeader" || fired {
					return
				}
				fired = true
				hook = nil // one shot; the move below reads the chain itself
				switch move {
				case "revert":
					if err := node.bc.RevertHead(); err != nil {
						h.res.Fatalf("raced-reader probe: RevertHead: %v", err)
						return
					}
					node.height--
				case "advance":
					nb := base[node.height]
					if hd, err := node.bc.HeadsHeader(); err == nil {
						node.lastHash, node.lastRoot = hd.Hash, hd.GlobalStateRoot
					}
					if err := node.finalise(nb.Diff.coreDiff(), classMap(nb.Classes)); err != nil {
						h.res.Fatalf("raced-reader probe: finalise: %v", err)
					}
				}
			}
			var v preconfirmed.ChainReader
			var cerr error
			perr, panicked, stack := lib.Try(func() error { v, cerr = syn.PreConfirmedChain(); return nil })
			hook = nil
			h2 := height()
			h.res.Case(fmt.Sprintf("raced/%v/%s/%s", newState, shape, move), true)
			h.res.Hit("raced-reader-calls")
			if fired && move != "none" {
				h.res.Hit("raced-reader-head-moved-between-the-reads:" + move)
			}
			impl := ""
			switch {
			case panicked:
				impl = "panic"
				h.res.Violate(lib.Violation{Sig: "reader-entry-panics", What: fmt.Sprintf("%v\n%s", perr, clip(stack)), Replay: replay})
			case cerr != nil:
				impl = "err"
				h.res.Violate(lib.Violation{Sig: "reader-entry-fails", What: fmt.Sprintf("head %d -> %d during the call, storage %s: PreConfirmedChain failed: %v", h0, h2, shape, cerr), Replay: replay})
			default:
				snap := store.SnapshotForBlock(h0 + 1)
				want := h2 + 1 // the fallback is built above the head the SECOND read saw
				if snap.Length() > 0 {
					want = h0 + 1
					impl = canonView(&v)
				} else {
					impl = fmt.Sprintf("fallback %d", vFirst(&v))
				}
				msg := validateView(&v, want)
				if v.Length() == 0 {
					msg = "view-empty"
				}
				if msg != "" {
					h.res.Violate(lib.Violation{Sig: "reader-entry-" + msg,
						What: fmt.Sprintf("canonical head %d when Height() was read, %d when HeadsHeader() was read (the head moved in between: %s), storage %s: "+
							"PreConfirmedChain handed out %s; it must be a gap-free run starting at %d", h0, h2, move, shape, clip(canonView(&v)), want), Replay: replay})
				} else if snap.Length() == 0 {
					// the fallback block reads like the canonical state at the head it was built on
					sr, _, e1 := v.PreConfirmedStateAt(want, node.bc)
					br, _, e2 := node.bc.StateAtBlockNumber(h2)
					if e1 != nil || e2 != nil {
						h.res.Violate(lib.Violation{Sig: "reader-entry-fallback-state-unavailable", What: fmt.Sprintf("PreConfirmedStateAt(%d): %v; StateAtBlockNumber(%d): %v", want, e1, h2, e2), Replay: replay})
					} else if a, b := reads(sr), reads(br); a != b {
						h.res.Violate(lib.Violation{Sig: "reader-entry-fallback-state-differs-from-head-state",
							What: fmt.Sprintf("fallback block %d (head moved %d -> %d during the call):\n through the view: %s\n canonical at %d : %s", want, h0, h2, a, h2, b), Replay: replay})
					}
				}
			}
			if h.drv != nil && impl != "panic" {
				for _, l := range lines {
					if out, err := h.drv.Ask(l); err != nil || out == "bad-op" {
						h.res.Fatalf("raced-reader probe: the Lean driver failed on %q: %v %s", clip(l), err, out)
						return
					}
				}
				impl2 := impl
				if impl == "err" {
					impl2 = "err:?"
				}
				h.askProbe("raced reader", fmt.Sprintf("pcc %d %d 1", h0, h2), impl2)
			}
			// restore the head for the next case
			switch {
			case fired && move == "revert":
				nb := base[node.height]
				if hd, err := node.bc.HeadsHeader(); err == nil {
					node.lastHash, node.lastRoot = hd.Hash, hd.GlobalStateRoot
				}
				if err := node.finalise(nb.Diff.coreDiff(), classMap(nb.Classes)); err != nil {
					h.res.Fatalf("raced-reader probe: re-finalising the reverted block: %v", err)
					return
				}
			case fired && move == "advance":
				if err := node.bc.RevertHead(); err != nil {
					h.res.Fatalf("raced-reader probe: RevertHead: %v", err)
					return
				}
				node.height--
				if hd, err := node.bc.HeadsHeader(); err == nil {
					node.lastHash, node.lastRoot = hd.Hash, hd.GlobalStateRoot
				}
			}
		}
	}
}

func vFirst(v *preconfirmed.ChainReader) uint64 {
	for e := range v.OldestFirst() {
		if e != nil && e.Block != nil {
			return e.Block.Number
		}
	}
	return 0
}
