//go:build verif

package main

import (
	"fmt"
	"go/ast"
	"go/parser"
	"go/token"
	"os"
	"path/filepath"
	"reflect"
	"sort"
	"strings"

	"github.com/NethermindEth/juno/core"
	"github.com/NethermindEth/juno/core/felt"
	"github.com/NethermindEth/juno/core/pending"
	"github.com/NethermindEth/juno/sync/preconfirmed"
)

// ---------------------------------------------------------------------------------------------
// deepPrint renders EVERYTHING reachable from a value (exported and unexported fields, through
// pointers, slices, maps in sorted key order, interfaces): the immutability fingerprint of a held
// view is the hash of this text for every entry, so a write to any field of anything a reader can
// reach — revert reasons, messages, execution resources, event contents, transaction fields, gas
// prices, bloom bits, class definitions — changes it. Addresses are not printed.
// ---------------------------------------------------------------------------------------------

func deepPrint(b *strings.Builder, v reflect.Value, depth int) {
	if depth > 40 {
		b.WriteString("<deep>")
		return
	}
	switch v.Kind() {
	case reflect.Invalid:
		b.WriteString("nil")
	case reflect.Pointer:
		if v.IsNil() {
			b.WriteString("nil")
			return
		}
		b.WriteByte('&')
		deepPrint(b, v.Elem(), depth+1)
	case reflect.Interface:
		if v.IsNil() {
			b.WriteString("nil")
			return
		}
		b.WriteString(v.Elem().Type().String())
		b.WriteByte(':')
		deepPrint(b, v.Elem(), depth+1)
	case reflect.Struct:
		b.WriteByte('{')
		for i := 0; i < v.NumField(); i++ {
			b.WriteString(v.Type().Field(i).Name)
			b.WriteByte('=')
			deepPrint(b, v.Field(i), depth+1)
			b.WriteByte(' ')
		}
		b.WriteByte('}')
	case reflect.Slice:
		if v.IsNil() {
			b.WriteString("nil[]")
			return
		}
		fallthrough
	case reflect.Array:
		b.WriteByte('[')
		for i := 0; i < v.Len(); i++ {
			deepPrint(b, v.Index(i), depth+1)
			b.WriteByte(',')
		}
		b.WriteByte(']')
	case reflect.Map:
		if v.IsNil() {
			b.WriteString("nilmap")
			return
		}
		type kv struct{ k, v string }
		var es []kv
		it := v.MapRange()
		for it.Next() {
			var kb, vb strings.Builder
			deepPrint(&kb, it.Key(), depth+1)
			deepPrint(&vb, it.Value(), depth+1)
			es = append(es, kv{kb.String(), vb.String()})
		}
		sort.Slice(es, func(i, j int) bool { return es[i].k < es[j].k })
		b.WriteString("map[")
		for _, e := range es {
			b.WriteString(e.k)
			b.WriteByte(':')
			b.WriteString(e.v)
			b.WriteByte(';')
		}
		b.WriteByte(']')
	case reflect.Bool:
		fmt.Fprint(b, v.Bool())
	case reflect.Int, reflect.Int8, reflect.Int16, reflect.Int32, reflect.Int64:
		fmt.Fprint(b, v.Int())
	case reflect.Uint, reflect.Uint8, reflect.Uint16, reflect.Uint32, reflect.Uint64, reflect.Uintptr:
		fmt.Fprint(b, v.Uint())
	case reflect.Float32, reflect.Float64:
		fmt.Fprint(b, v.Float())
	case reflect.String:
		fmt.Fprintf(b, "%q", v.String())
	case reflect.Func, reflect.Chan, reflect.UnsafePointer:
		b.WriteString("<" + v.Kind().String() + ">")
	default:
		b.WriteString("<?>")
	}
}

func entryFingerprint(e *pending.PreConfirmed) uint64 {
	var b strings.Builder
	deepPrint(&b, reflect.ValueOf(e), 0)
	return fnv64([]byte(b.String()))
}

// ---------------------------------------------------------------------------------------------
// Pointer identity of the real maps: what the map-object model (Alias.lean) predicts and the
// theorems conclude — every map of a freshly built StateDiff (outer StorageDiffs map, inner
// per-contract maps, single-level maps) is a NEW object, shared with nothing published before —
// observed on the Go objects themselves.
// ---------------------------------------------------------------------------------------------

func mapPtr(m any) uintptr {
	v := reflect.ValueOf(m)
	if v.Kind() != reflect.Map || v.IsNil() {
		return 0
	}
	return v.Pointer()
}

// diffMaps lists the map objects of a state diff with a label.
func diffMaps(d *core.StateDiff) map[uintptr]string {
	out := map[uintptr]string{}
	if d == nil {
		return out
	}
	add := func(m any, name string) {
		if p := mapPtr(m); p != 0 {
			out[p] = name
		}
	}
	add(d.StorageDiffs, "StorageDiffs")
	for a, inner := range d.StorageDiffs {
		add(inner, "StorageDiffs["+fv(&a)+"]")
	}
	add(d.Nonces, "Nonces")
	add(d.DeployedContracts, "DeployedContracts")
	add(d.DeclaredV1Classes, "DeclaredV1Classes")
	add(d.ReplacedClasses, "ReplacedClasses")
	add(d.MigratedClasses, "MigratedClasses")
	return out
}

// aliasTracker remembers every map object that belongs to a published entry (block diff and
// per-transaction diffs) and every published entry pointer.
type aliasTracker struct {
	maps    map[uintptr]string
	entries map[*pending.PreConfirmed]uint64 // entry -> block number
	updates map[*core.StateUpdate]bool       // published StateUpdate objects
	shared  int                              // entries that re-publish a whole, unchanged StateUpdate object (no-change)
	// NewClasses map objects of published entries (ClassAlias.lean); keep holds the maps themselves so
	// that an address is never reused by a later allocation while it is in classMaps
	classMaps map[uintptr]string
	keep      []any
}

func newAliasTracker() *aliasTracker {
	return &aliasTracker{maps: map[uintptr]string{}, entries: map[*pending.PreConfirmed]uint64{}, updates: map[*core.StateUpdate]bool{},
		classMaps: map[uintptr]string{}}
}

// publish checks a newly published entry and records it. Returns a description of the first
// sharing found, "" if none.
func (t *aliasTracker) publish(e *pending.PreConfirmed) (sig, what string) {
	if _, seen := t.entries[e]; seen {
		return "published-entry-object-reused", fmt.Sprintf("ApplyUpdate published, for block %d, the very *pending.PreConfirmed object it had already published (an entry a reader may hold was updated in place)", e.Block.Number)
	}
	if t.updates[e.StateUpdate] {
		// the class-only update (no-change) copies the entry struct and keeps pointing at the SAME,
		// never again written StateUpdate object: whole-object sharing of immutable data, not a fresh
		// diff aliasing published maps
		t.shared++
		t.entries[e] = e.Block.Number
		return "", ""
	}
	t.updates[e.StateUpdate] = true
	block := diffMaps(e.StateUpdate.StateDiff)
	for p, name := range block {
		if owner, ok := t.maps[p]; ok {
			return "new-block-diff-shares-a-map-with-a-published-entry", fmt.Sprintf("block %d: map %s of the new entry's StateUpdate.StateDiff is the same Go map object as %s", e.Block.Number, name, owner)
		}
	}
	// per-transaction diffs: the pointers may be carried over from the previous version of the entry
	// (delta), but their maps must not be maps of the new block diff
	for i, td := range e.TransactionStateDiffs {
		for p, name := range diffMaps(td) {
			if bn, ok := block[p]; ok {
				return "block-diff-shares-a-map-with-a-transaction-diff", fmt.Sprintf("block %d: %s of the block diff is the same Go map object as %s of transaction diff %d", e.Block.Number, bn, name, i)
			}
		}
	}
	for p, name := range block {
		t.maps[p] = fmt.Sprintf("%s of block %d (%s)", name, e.Block.Number, e.BlockIdentifier)
	}
	for i, td := range e.TransactionStateDiffs {
		for p, name := range diffMaps(td) {
			t.maps[p] = fmt.Sprintf("%s of transaction diff %d of block %d (%s)", name, i, e.Block.Number, e.BlockIdentifier)
		}
	}
	t.entries[e] = e.Block.Number
	return "", ""
}

// classOrigin says which OBJECT the NewClasses map of a newly published entry is, relative to the map the
// caller passed to ApplyUpdate and to the maps of the entries published before: nil | caller | shared |
// fresh (what ClassAlias.lean `origin` predicts), and records it as published.
func (t *aliasTracker) classOrigin(e *pending.PreConfirmed, caller map[felt.Felt]core.ClassDefinition) string {
	p := mapPtr(e.NewClasses)
	tok := "fresh"
	switch {
	case p == 0:
		return "nil"
	case p == mapPtr(caller):
		tok = "caller"
	case t.classMaps[p] != "":
		tok = "shared"
	}
	if t.classMaps[p] == "" {
		t.classMaps[p] = fmt.Sprintf("NewClasses of block %d (%s)", e.Block.Number, e.BlockIdentifier)
		t.keep = append(t.keep, e.NewClasses)
	}
	return tok
}

// stateClassOrigin: the class table of a state built over a view (pending.State.newClasses, read by
// reflection) must be nil or a map of its own — never a map object of a published entry (the readers'
// loop writes INTO its accumulator).
func (t *aliasTracker) stateClassOrigin(ps *pending.State) (tok, owner string) {
	f, err := unexportedField(ps, "newClasses")
	if err != nil {
		return "no-field", ""
	}
	if f.Kind() != reflect.Map {
		return "no-field", ""
	}
	if f.IsNil() {
		return "nil", ""
	}
	if o, ok := t.classMaps[f.Pointer()]; ok {
		return "published", o
	}
	return "fresh", ""
}

// stateDiffShares checks the merged diff of a state built over a view: none of its maps may be a
// map of a published entry.
func (t *aliasTracker) stateDiffShares(d *core.StateDiff) string {
	for p, name := range diffMaps(d) {
		if owner, ok := t.maps[p]; ok {
			return fmt.Sprintf("map %s of the state's merged diff is the same Go map object as %s", name, owner)
		}
	}
	return ""
}

// ---------------------------------------------------------------------------------------------
// Source guard: the premise of Heap.lean ("no instruction of chain_storage.go assigns to a field
// of an existing node") checked on the source the harness was built against.
// ---------------------------------------------------------------------------------------------

// nodeFieldAssignments returns the positions of assignments to .parent / .preconfirmed (fields of
// `node`) and to .head / .length of a ChainReader outside composite literals.
func nodeFieldAssignments() ([]string, error) {
	repo := os.Getenv("VERIF_REPO")
	if repo == "" {
		repo = "/repo"
	}
	path := filepath.Join(repo, "sync", "preconfirmed", "chain_storage.go")
	fset := token.NewFileSet()
	f, err := parser.ParseFile(fset, path, nil, 0)
	if err != nil {
		return nil, err
	}
	guarded := map[string]bool{"parent": true, "preconfirmed": true, "head": true, "length": true}
	var out []string
	check := func(e ast.Expr) {
		if sel, ok := e.(*ast.SelectorExpr); ok && guarded[sel.Sel.Name] {
			out = append(out, fmt.Sprintf("%s: assignment to .%s", fset.Position(e.Pos()), sel.Sel.Name))
		}
	}
	ast.Inspect(f, func(n ast.Node) bool {
		switch s := n.(type) {
		case *ast.AssignStmt:
			for _, l := range s.Lhs {
				check(l)
			}
		case *ast.IncDecStmt:
			check(s.X)
		}
		return true
	})
	return out, nil
}

var (
	_ = felt.Zero
	_ = preconfirmed.NewChainStorage
)
