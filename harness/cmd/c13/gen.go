//go:build verif

package main

import (
	"strconv"
	"strings"

	"verif/harness/lib"
)

// genCfg draws a validator set in which no single validator reaches a quorum alone (otherwise a
// node would commit height after height without any input and the driver never returns to its
// select loop).
func genCfg(r *lib.RNG) *Cfg {
	n := lib.Pick(r, []int{4, 4, 4, 4, 3, 5, 7})
	c := &Cfg{Powers: make([]uint64, n), PMul: lib.Pick(r, []int{1, 1, 3, 0}), C0: uint64(r.Intn(4)), AppMode: "stable"}
	for {
		for i := range c.Powers {
			c.Powers[i] = 1
			if r.Chance(1, 4) {
				c.Powers[i] = uint64(1 + r.Intn(3))
			}
		}
		ok := true
		for _, p := range c.Powers {
			if p >= c.quorum() {
				ok = false
			}
		}
		if ok {
			break
		}
	}
	c.Me = r.Intn(n)
	tl := n
	if r.Chance(1, 3) {
		tl = 2 + r.Intn(5)
	}
	c.Tbl = make([]int, tl)
	for i := range c.Tbl {
		c.Tbl[i] = r.Intn(n)
		if r.Chance(1, 4) {
			c.Tbl[i] = c.Me
		}
	}
	return c
}

// world is what the script generator knows: it watches the node like the other validators would
// (its broadcasts) and additionally which timers the node armed.
type world struct {
	cfg       *Cfg
	ep        *epoch
	r         *lib.RNG
	cursor    int
	h         uint64
	round     int
	prop      map[[2]int]uint64 // (h, r) -> value proposed / going to be proposed
	sentP     map[[2]int]bool   // (h, r) proposal already handed to the node (or its own)
	early     map[[2]int]bool   // (h, r) that proposal was handed over at an earlier height
	happyBias bool
	sentV     map[[3]int]bool // (h, r, sender) prevote sent
	sentC     map[[3]int]bool
	timers    []Input
	plan      []Input
	planAt    [2]int
	hist      []Input
	fresh     uint64
}

func newWorld(cfg *Cfg, ep *epoch, r *lib.RNG) *world {
	return &world{cfg: cfg, ep: ep, r: r, prop: map[[2]int]uint64{}, sentP: map[[2]int]bool{}, early: map[[2]int]bool{}, sentV: map[[3]int]bool{}, sentC: map[[3]int]bool{},
		planAt: [2]int{-1, -1}}
}

func atoi(s string) int { n, _ := strconv.Atoi(s); return n }

func (w *world) observe() {
	h := uint64(w.ep.real.Height())
	if h != w.h {
		w.h, w.round = h, 0
	}
	for ; w.cursor < len(w.ep.calls); w.cursor++ {
		for _, a := range w.ep.calls[w.cursor].Acts {
			f := strings.Split(a, ":")
			switch f[0] {
			case "ST":
				w.timers = append(w.timers, Input{K: "t", Step: atoi(f[1]), H: uint64(atoi(f[2])), R: atoi(f[3])})
				if uint64(atoi(f[2])) == w.h && atoi(f[3]) > w.round {
					w.round = atoi(f[3])
				}
			case "BP":
				v, _ := strconv.ParseUint(f[4], 10, 64)
				w.prop[[2]int{atoi(f[1]), atoi(f[2])}] = v
				w.sentP[[2]int{atoi(f[1]), atoi(f[2])}] = true
				if uint64(atoi(f[1])) == w.h && atoi(f[2]) > w.round {
					w.round = atoi(f[2])
				}
			case "BV", "BC":
				if uint64(atoi(f[1])) == w.h && atoi(f[2]) > w.round {
					w.round = atoi(f[2])
				}
			}
		}
	}
}

func (w *world) others() []int {
	var o []int
	for i := range w.cfg.Powers {
		if i != w.cfg.Me {
			o = append(o, i)
		}
	}
	return o
}

func (w *world) newValue(valid bool) uint64 {
	w.fresh++
	v := w.h*1000 + 500 + w.fresh*7
	for validVal(v) != valid {
		v++
	}
	return v
}

func (w *world) vote(kind string, h uint64, r, s int, val uint64, isNil bool) Input {
	return Input{K: kind, H: h, R: r, Sender: s, Val: val, Nil: isNil}
}

// mkPlan lays out what the other validators do in round (h, r).
func (w *world) mkPlan() []Input {
	h, r := w.h, w.round
	var p []Input
	key := [2]int{int(h), r}
	val, have := w.prop[key]
	prIdx := w.cfg.proposerIdx(h, r)
	kind := lib.Pick(w.r, []string{"happy", "happy", "happy", "nil", "split", "late"})
	if w.happyBias && !w.r.Chance(1, 8) {
		kind = "happy"
	}
	if w.early[key] {
		// the proposal of this round arrived while the node was at an earlier height and is not
		// sent again: the (now obsolete, if the node kept the proposal) propose timer fires first
		p = append(p, Input{K: "t", Step: 0, H: h, R: r})
	}
	if prIdx != w.cfg.Me && !w.sentP[key] && kind != "nil" {
		vr := -1
		if !have {
			val = w.newValue(!w.r.Chance(1, 8))
			if r > 0 && w.r.Chance(1, 2) {
				// re-propose a value seen in an earlier round, with that round as valid round
				for rr := r - 1; rr >= 0; rr-- {
					if v, ok := w.prop[[2]int{int(h), rr}]; ok {
						val, vr = v, rr
						break
					}
				}
			}
		}
		p = append(p, Input{K: "p", H: h, R: r, Sender: prIdx, VR: vr, Val: val})
		have = true
	}
	if prIdx == w.cfg.Me && !have {
		have = false
	}
	oth := w.others()
	lib.Shuffle(w.r, oth)
	switch {
	case kind == "nil" || !have:
		p = append(p, Input{K: "t", Step: 0, H: h, R: r})
		for _, s := range oth {
			p = append(p, w.vote("v", h, r, s, 0, true))
		}
		p = append(p, Input{K: "t", Step: 1, H: h, R: r})
		for _, s := range oth {
			p = append(p, w.vote("c", h, r, s, 0, true))
		}
		p = append(p, Input{K: "t", Step: 2, H: h, R: r})
	case kind == "split":
		for _, s := range oth {
			p = append(p, w.vote("v", h, r, s, val, false))
		}
		for i, s := range oth {
			p = append(p, w.vote("c", h, r, s, val, i != 0))
		}
		p = append(p, Input{K: "t", Step: 2, H: h, R: r})
	case kind == "late":
		// votes arrive before the proposal
		var prop []Input
		if len(p) > 0 {
			prop, p = p, nil
		}
		for _, s := range oth {
			p = append(p, w.vote("v", h, r, s, val, false))
		}
		for _, s := range oth {
			p = append(p, w.vote("c", h, r, s, val, false))
		}
		p = append(p, prop...)
	default:
		for _, s := range oth {
			p = append(p, w.vote("v", h, r, s, val, false))
		}
		for _, s := range oth {
			p = append(p, w.vote("c", h, r, s, val, false))
		}
	}
	return p
}

// planned: the value that will be proposed in round 0 of height h (the node's own value if it
// is the proposer and its value source is the stable one).
func (w *world) planned(h uint64) uint64 {
	key := [2]int{int(h), 0}
	if v, ok := w.prop[key]; ok {
		return v
	}
	v := h*1000 + 600
	if w.cfg.proposerIdx(h, 0) == w.cfg.Me {
		v = h*1000 + 1
	}
	for !validVal(v) {
		v++
	}
	w.prop[key] = v
	return v
}

func (w *world) noise() Input {
	h, r := w.h, w.round
	oth := w.others()
	s := lib.Pick(w.r, oth)
	switch w.r.Intn(7) {
	case 0, 6: // future height — including enough precommits from different senders to form a quorum
		// of the future height (the state machine then answers TriggerSync; the harness keeps that
		// action from the driver, see smWrap.call)
		// one, two or three heights ahead: the early-message buffer must keep what is more than one
		// height early across the height changes in between (the log keeps it: pruning only removes
		// heights up to the committed one)
		hf := h + uint64(lib.Pick(w.r, []int{1, 1, 1, 2, 2, 3}))
		pv := w.planned(hf)
		switch w.r.Intn(4) {
		case 0:
			if w.r.Chance(1, 4) {
				return w.vote("v", hf, w.r.Intn(2), s, w.newValue(true), w.r.Chance(1, 2))
			}
			return w.vote("v", hf, 0, s, pv, false)
		case 2:
			if w.r.Chance(1, 3) {
				return w.vote("c", hf, 0, s, pv, false) // may complete a quorum of the future height
			}
			return w.vote("c", hf, 0, oth[0], pv, false)
		}
		pi := w.cfg.proposerIdx(hf, 0)
		if pi == w.cfg.Me || w.sentP[[2]int{int(hf), 0}] {
			return w.vote("v", hf, 0, s, pv, false)
		}
		w.sentP[[2]int{int(hf), 0}] = true
		w.early[[2]int{int(hf), 0}] = true
		return Input{K: "p", H: hf, R: 0, Sender: pi, VR: -1, Val: pv}
	case 1: // future round
		return w.vote(lib.Pick(w.r, []string{"v", "c"}), h, r+1+w.r.Intn(2), s, w.newValue(true), w.r.Bool())
	case 2: // stale height
		if h > 0 {
			return w.vote(lib.Pick(w.r, []string{"v", "c"}), h-1, 0, s, 5, false)
		}
		fallthrough
	case 3: // duplicate
		if len(w.hist) > 0 {
			return lib.Pick(w.r, w.hist)
		}
		fallthrough
	case 4: // a timer that is armed (possibly long obsolete)
		if len(w.timers) > 0 {
			return lib.Pick(w.r, w.timers)
		}
		fallthrough
	default: // conflicting vote of a peer / proposal from a non-proposer
		if w.r.Bool() {
			return w.vote(lib.Pick(w.r, []string{"v", "c"}), h, r, s, w.newValue(true), false)
		}
		return Input{K: "p", H: h, R: r, Sender: s, VR: -1, Val: w.newValue(true)}
	}
}

// next produces the next input; timeouts are only produced for timers the node has armed.
func (w *world) next() Input {
	w.observe()
	for tries := 0; tries < 50; tries++ {
		var in Input
		if w.r.Chance(1, 5) {
			in = w.noise()
		} else {
			if w.planAt != [2]int{int(w.h), w.round} || len(w.plan) == 0 {
				w.plan = w.mkPlan()
				w.planAt = [2]int{int(w.h), w.round}
			}
			in, w.plan = w.plan[0], w.plan[1:]
		}
		if in.K == "t" {
			armed := -1
			for i, t := range w.timers {
				if t == in {
					armed = i
				}
			}
			if armed < 0 {
				continue
			}
			w.timers = append(w.timers[:armed], w.timers[armed+1:]...)
		}
		if in.K == "p" && in.Sender == w.cfg.proposerIdx(in.H, in.R) {
			if _, ok := w.prop[[2]int{int(in.H), in.R}]; !ok {
				w.prop[[2]int{int(in.H), in.R}] = in.Val
			}
			w.sentP[[2]int{int(in.H), in.R}] = true
		}
		w.hist = append(w.hist, in)
		return in
	}
	in := w.vote("v", w.h, w.round, w.others()[0], 1, true)
	w.hist = append(w.hist, in)
	return in
}
