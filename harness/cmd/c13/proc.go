//go:build verif

package main

import (
	"context"
	"fmt"
	"io"
	"iter"
	"math/big"
	"os"
	"path/filepath"
	"reflect"
	"strconv"
	"strings"
	"sync"
	"sync/atomic"
	"time"
	"unsafe"

	"github.com/NethermindEth/juno/builder"
	"github.com/NethermindEth/juno/consensus/driver"
	"github.com/NethermindEth/juno/consensus/p2p"
	"github.com/NethermindEth/juno/consensus/proposal"
	"github.com/NethermindEth/juno/consensus/starknet"
	consensusSync "github.com/NethermindEth/juno/consensus/sync"
	"github.com/NethermindEth/juno/consensus/tendermint"
	"github.com/NethermindEth/juno/consensus/types"
	"github.com/NethermindEth/juno/consensus/types/actions"
	"github.com/NethermindEth/juno/consensus/types/wal"
	"github.com/NethermindEth/juno/consensus/walstore"
	"github.com/NethermindEth/juno/core"
	"github.com/NethermindEth/juno/core/felt"
	"github.com/NethermindEth/juno/core/pending"
	"github.com/NethermindEth/juno/db"
	p2psync "github.com/NethermindEth/juno/p2p/sync"
	junosync "github.com/NethermindEth/juno/sync"
	"github.com/NethermindEth/juno/utils/log"
	"github.com/NethermindEth/juno/utils/verifhook"
)

type (
	V = starknet.Value
	H = starknet.Hash
	A = starknet.Address

	walStore = walstore.TendermintWALStore[V, H, A]
	SM       = tendermint.StateMachine[V, H, A]
)

// ---------------------------------------------------------------------------------------------
// numbers <-> felts, tokens (the same token syntax as lean/JunoModel/C13/Driver.lean)

func feltU(f *felt.Felt) string { return f.BigInt(new(big.Int)).String() }

func isU64(f *felt.Felt) bool { return f.BigInt(new(big.Int)).IsUint64() }

func valOf(n uint64) V  { return felt.FromUint64[V](n) }
func hashOf(n uint64) H { return felt.FromUint64[H](n) }
func addrOf(i int) A    { return felt.FromUint64[A](uint64(i + 1)) }
func valS(v *V) string  { return feltU((*felt.Felt)(v)) }
func addrS(a *A) string { return feltU((*felt.Felt)(a)) }
func idS(h *H) string {
	if h == nil {
		return "nil"
	}
	return feltU((*felt.Felt)(h))
}

func entryTok(e wal.Entry[V, H, A]) string {
	switch e := e.(type) {
	case *wal.Start:
		return fmt.Sprintf("s:%d", uint64(*e))
	case *wal.Proposal[V, H, A]:
		return fmt.Sprintf("p:%d:%d:%s:%d:%s", e.Height, e.Round, addrS(&e.Sender), e.ValidRound, valS(e.Value))
	case *wal.Prevote[H, A]:
		return fmt.Sprintf("v:%d:%d:%s:%s", e.Height, e.Round, addrS(&e.Sender), idS(e.ID))
	case *wal.Precommit[H, A]:
		return fmt.Sprintf("c:%d:%d:%s:%s", e.Height, e.Round, addrS(&e.Sender), idS(e.ID))
	case *wal.Timeout:
		return fmt.Sprintf("t:%d:%d:%d", e.Step, e.Height, e.Round)
	}
	return fmt.Sprintf("?%T", e)
}

func actionTok(a actions.Action[V, H, A]) string {
	switch a := a.(type) {
	case *actions.WriteWAL[V, H, A]:
		return "W/" + entryTok(a.Entry)
	case *actions.BroadcastProposal[V, H, A]:
		return fmt.Sprintf("BP:%d:%d:%d:%s", a.Height, a.Round, a.ValidRound, valS(a.Value))
	case *actions.BroadcastPrevote[H, A]:
		return fmt.Sprintf("BV:%d:%d:%s", a.Height, a.Round, idS(a.ID))
	case *actions.BroadcastPrecommit[H, A]:
		return fmt.Sprintf("BC:%d:%d:%s", a.Height, a.Round, idS(a.ID))
	case *actions.ScheduleTimeout:
		return fmt.Sprintf("ST:%d:%d:%d", a.Step, a.Height, a.Round)
	case *actions.Commit[V, H, A]:
		return fmt.Sprintf("CM:%d:%s", a.Height, valS(a.Value))
	case *actions.TriggerSync:
		return fmt.Sprintf("TS:%d:%d", a.Start, a.End)
	}
	return fmt.Sprintf("?%T", a)
}

// ---------------------------------------------------------------------------------------------
// scripted inputs

// Input is one thing handed to the node by the outside world.
type Input struct {
	K      string `json:"k"` // p | v | c | t
	H      uint64 `json:"h"`
	R      int    `json:"r"`
	Sender int    `json:"s,omitempty"`  // validator index
	VR     int    `json:"vr,omitempty"` // proposal valid round
	Val    uint64 `json:"val,omitempty"`
	Nil    bool   `json:"nil,omitempty"` // vote for nil
	Step   int    `json:"step,omitempty"`
}

func (in Input) String() string {
	switch in.K {
	case "p":
		return fmt.Sprintf("p:%d:%d:%d:%d:%d", in.H, in.R, in.Sender+1, in.VR, in.Val)
	case "v", "c":
		id := strconv.FormatUint(in.Val, 10)
		if in.Nil {
			id = "nil"
		}
		return fmt.Sprintf("%s:%d:%d:%d:%s", in.K, in.H, in.R, in.Sender+1, id)
	case "t":
		return fmt.Sprintf("t:%d:%d:%d", in.Step, in.H, in.R)
	case "sb":
		return fmt.Sprintf("sb:%d:%d:%d", in.H, in.Sender+1, in.Val)
	case "se":
		return "se"
	case "pv", "pc":
		id := strconv.FormatUint(in.Val, 10)
		if in.Nil {
			id = "nil"
		}
		return fmt.Sprintf("%s:%d:%d:%s", in.K, in.H, in.R, id)
	}
	return "?"
}

func (in Input) header() types.MessageHeader[A] {
	return types.MessageHeader[A]{Height: types.Height(in.H), Round: types.Round(in.R), Sender: addrOf(in.Sender)}
}

func (in Input) id() *H {
	if in.Nil {
		return nil
	}
	h := hashOf(in.Val)
	return &h
}

// ---------------------------------------------------------------------------------------------
// environment of a case: validator set + application

type Cfg struct {
	Powers  []uint64 `json:"powers"`
	Tbl     []int    `json:"tbl"` // proposer(h, r) = Tbl[(h*PMul + r) mod len]
	PMul    int      `json:"pmul"`
	Me      int      `json:"me"`
	C0      uint64   `json:"c0"`      // chain height at first boot
	AppMode string   `json:"appmode"` // stable | fresh | store
	// Sync: the driver runs with the real block fetcher and message extractor, TriggerSync actions are
	// handed to it, and the pseudo-sender of consensus/sync carries the total voting power (as in
	// consensus/mock.go)
	Sync bool `json:"sync,omitempty"`
	// everStored: values for which some process instance of this case held a build result (mode
	// "store"), to recognise a validity answer that changed only because the store was lost.
	everStored map[uint64]bool
}

func (c *Cfg) TotalVotingPower(types.Height) types.VotingPower {
	var t uint64
	for _, p := range c.Powers {
		t += p
	}
	return types.VotingPower(t)
}

func (c *Cfg) idx(a *A) int {
	f := (*felt.Felt)(a)
	if !isU64(f) {
		return -1
	}
	i := int(f.Uint64()) - 1
	if i < 0 || i >= len(c.Powers) {
		return -1
	}
	return i
}

func (c *Cfg) ValidatorVotingPower(h types.Height, a *A) types.VotingPower {
	if c.Sync && a != nil && *a == pseudoSender {
		return c.TotalVotingPower(h)
	}
	if i := c.idx(a); i >= 0 {
		return types.VotingPower(c.Powers[i])
	}
	return 0
}

func (c *Cfg) proposerIdx(h uint64, r int) int {
	k := (int(h)*c.PMul + r) % len(c.Tbl)
	if k < 0 {
		k += len(c.Tbl)
	}
	return c.Tbl[k]
}

func (c *Cfg) Proposer(h types.Height, r types.Round) A {
	return addrOf(c.proposerIdx(uint64(h), int(r)))
}

func (c *Cfg) quorum() uint64 {
	t := uint64(c.TotalVotingPower(0))
	return (2*t + 2) / 3
}

const invalidMod, invalidRem = 7, 3

func validVal(v uint64) bool { return v%invalidMod != invalidRem }

// app is the tendermint.Application. Within one process the k-th Value() call at a height returns
// a fixed function of (height, k) — and, in mode "fresh", of the process instance (epoch), which
// is how the real proposer behaves (its block depends on the wall clock and the mempool).
type app struct {
	mode   string
	epoch  uint64
	height uint64
	k      uint64
	calls  int
	// mode "store": validity is what the real proposer answers — "a build result for this value
	// is in the proposal store" (consensus/proposer.Valid) — with the REAL proposal.ProposalStore,
	// which consensus.Init creates empty, in memory, at every process start.
	store     *proposal.ProposalStore[H]
	cfg       *Cfg
	lostValid []uint64 // values judged invalid now although an earlier process instance held them
	restored  []uint64 // lost values whose build result arrived again in this process instance
}

func (a *app) storeResult(v, h uint64) {
	if a.store == nil {
		return
	}
	for _, l := range a.lostValid {
		if l == v {
			a.restored = append(a.restored, v)
		}
	}
	a.store.Store(hashOf(v), &builder.BuildResult{PreConfirmed: &pending.PreConfirmed{
		Block: &core.Block{Header: &core.Header{Number: h}}}})
	if a.cfg.everStored == nil {
		a.cfg.everStored = map[uint64]bool{}
	}
	a.cfg.everStored[v] = true
}

func (a *app) Value() V {
	a.calls++
	v := a.height*1000 + a.k*10 + 1
	if a.mode == "fresh" {
		v += a.epoch * 100
	}
	a.k++
	for !validVal(v) {
		v++
	}
	a.storeResult(v, a.height) // proposer.finish stores its own build result
	return valOf(v)
}

func (a *app) Valid(v V) bool {
	f := (*felt.Felt)(&v)
	if a.store != nil {
		ok := a.store.Get(v.Hash()) != nil
		if !ok && isU64(f) && a.cfg.everStored[f.Uint64()] {
			a.lostValid = append(a.lostValid, f.Uint64())
		}
		return ok
	}
	return !isU64(f) || validVal(f.Uint64())
}

func (a *app) committed(h uint64) { a.height, a.k = h+1, 0 }

// ---------------------------------------------------------------------------------------------
// observation of one process instance ("epoch")

// Effect is one effect performed by the real driver, observed at a sink.
type Effect struct {
	Tok   string // same syntax as the Lean driver's effects
	Pend  int    // number of un-flushed records when the effect was performed (harness' own count)
	Call  int    // index of the state machine call whose actions were being executed
	Input int    // script index of the input being processed (-1: replay / boot)
}

func (e Effect) visible() bool {
	return strings.HasPrefix(e.Tok, "sp:") || strings.HasPrefix(e.Tok, "sv:") || strings.HasPrefix(e.Tok, "sc:") ||
		strings.HasPrefix(e.Tok, "deliver:")
}

// smCall is one call of the driver into the state machine.
type smCall struct {
	Kind    string // start | wal | p | v | c | t
	In      string // entry token (wal) or input token
	HBefore uint64
	HAfter  uint64
	Acts    []string // what the driver gets to execute
	Sync    string   // the TriggerSync action the state machine returned, if any (kept from the driver, see smWrap.call)
	Input   int
	Replay  bool
	Dump    string // state of the machine after the call
	LQ      uint64 // sync mode: the driver's lastQuorum when the call was made
}

type epoch struct {
	cfg      *Cfg
	app      *app
	dir      string // working directory of this process instance (the "db path")
	base     string // parent of all snapshot dirs of this epoch
	chain    uint64 // chain height at boot
	boot     uint64 // state machine height at boot
	real     SM
	effects  []Effect
	calls    []smCall
	loaded   []string // tokens of LoadAllEntries at boot
	snaps    []string // crash images (directories), snapshot 0 = right after open
	snapAt   []int    // snapAt[k] = image to use for a crash before effect k (len = len(effects)+1)
	chainAt  []uint64 // chain height at boundary k
	pendAt   []int    // number of un-flushed records at boundary k (harness' own count)
	flushedN []int    // number of appended entries that are durable at boundary k
	appended []string // entry tokens in SetWALEntry order
	timers   []types.Timeout

	noDumps    bool
	gossip     bool   // the input being fed is a gossiped message (not a fetched block)
	noSentinel bool   // feed does not wait for the select loop (the sentinel would replace `actions`)
	failAt     int    // fault injection: the effect with this index fails (flush error / commit refused); -1 = none
	failedAt   int    // number of effects performed when the injected fault hit (-1: not yet)
	closedSnap string // image after a regular stop (Run returned, store closed)
	inner      driver.CommitListener[V, H]
	side       *syncSide // sync mode (cfg.Sync)
	// mode "store": the harness is the block persister behind the real commit listener. `persisted`
	// is the last height whose block it acknowledged — what blockchain.Height() is after a restart.
	persisted   atomic.Uint64
	heightCalls atomic.Uint64 // calls of stateMachine.Height() by the driver (a handshake, see feed "se")
	// fault kinds "the process is told to stop while a commit is in progress": 1 = the persister is
	// gone and the context cancelled before the block can be handed over (first select of OnCommit),
	// 2 = the persister has taken the block and the context is cancelled before it acknowledges
	// (second select of OnCommit), 3 = the persister answers with an ERROR (the block could not be
	// stored; nothing is cancelled)
	cancelInCommit int
	closeWhich     int // regular stop by a closed listener: 0 precommit, 1 prevote, 2 proposal listener
	// real timers (probe only): TimeoutFn answers 1 ms, the timer the driver arms fires by itself and
	// reaches the select loop through the driver's own AfterFunc closure; firedCh gets the timeout the
	// state machine is then called with
	realTimers    bool
	firedCh       chan string
	persistErr    atomic.Bool
	handed        atomic.Uint64 // blocks the persister has received from the commit listener
	commitObs     []commitOb    // mode "store": one record per call of the REAL commit listener
	cancelOnBlock atomic.Bool
	// fault kind "the REAL walstore fails": the flush that is effect `failAt` reaches walstore.Flush
	// with a failure installed at one of walstore's own injection points (utils/verifhook, build tag
	// verif): walPoint = "before-write" (the write of the batch fails) or "after-sync" (written and
	// synced, the sync is reported as failed). walPersistent: the store stays broken (every later
	// append of this process — the one `Close` makes — fails the same way). preFail / postFail: the
	// log directory right before and right after the failing call.
	walPoint      string
	walPersistent bool
	preFail       string
	postFail      string
	persistStop   chan struct{}
	persistGone   chan struct{}

	curInput         int
	replayDone       bool
	dumpBoot         string // deep dump of the state machine right after replay
	pending          int
	nAppDur          int
	chainNow         uint64
	unflushedVisible []string // oracle: visible effect while records pending
	errs             []string
	timeoutCh        chan types.Timeout
	syncCh           chan p2psync.BlockBody
	sentinel         *starknet.Prevote
	sentinelCh       chan struct{}
	propCh           chan *starknet.Proposal
	prevCh           chan *starknet.Prevote
	precCh           chan *starknet.Precommit
	done             chan error
	cancel           context.CancelFunc
}

func (ep *epoch) boundary() {
	ep.snapAt = append(ep.snapAt, len(ep.snaps)-1)
	ep.chainAt = append(ep.chainAt, ep.chainNow)
	ep.pendAt = append(ep.pendAt, ep.pending)
	ep.flushedN = append(ep.flushedN, ep.nAppDur)
}

// record is called by every sink BEFORE it performs its effect.
func (ep *epoch) record(tok string) {
	ep.boundary()
	e := Effect{Tok: tok, Pend: ep.pending, Call: len(ep.calls) - 1, Input: ep.curInput}
	if e.visible() && ep.pending != 0 {
		ep.unflushedVisible = append(ep.unflushedVisible, tok)
	}
	ep.effects = append(ep.effects, e)
}

// ---- state machine wrapper ------------------------------------------------------------------

type smWrap struct{ ep *epoch }

func (w *smWrap) Height() types.Height {
	w.ep.heightCalls.Add(1)
	return w.ep.real.Height()
}

func (w *smWrap) call(kind, in string, replay bool, f func() []actions.Action[V, H, A]) []actions.Action[V, H, A] {
	ep := w.ep
	hb := uint64(ep.real.Height())
	ep.calls = append(ep.calls, smCall{Kind: kind, In: in, HBefore: hb, Input: ep.curInput, Replay: replay})
	if ep.side != nil && ep.side.lq != nil {
		ep.calls[len(ep.calls)-1].LQ = uint64(*ep.side.lq)
	}
	acts := f()
	c := &ep.calls[len(ep.calls)-1]
	c.HAfter = uint64(ep.real.Height())
	// A TriggerSync action is recorded and NOT handed to the driver: driver.triggerSync would start
	// a block fetch over p2p (no fetcher here). What the state machine did with the input that
	// produced it (vote counted, nothing logged) is what this harness looks at.
	out := acts[:0:0]
	for _, a := range acts {
		if _, isSync := a.(*actions.TriggerSync); isSync && ep.side == nil {
			c.Sync = actionTok(a)
			continue
		}
		c.Acts = append(c.Acts, actionTok(a))
		out = append(out, a)
	}
	if ep.cfg.AppMode == "stable" && !ep.noDumps {
		c.Dump = dumpSM(ep.real)
	}
	return out
}

func (w *smWrap) ProcessStart(r types.Round) []actions.Action[V, H, A] {
	if !w.ep.replayDone {
		w.ep.replayDone = true
		w.ep.dumpBoot = dumpSM(w.ep.real)
	}
	return w.call("start", "start", false, func() []actions.Action[V, H, A] { return w.ep.real.ProcessStart(r) })
}

func (w *smWrap) ProcessTimeout(t types.Timeout) []actions.Action[V, H, A] {
	if w.ep.firedCh != nil {
		defer func() { w.ep.firedCh <- fmt.Sprintf("t:%d:%d:%d", t.Step, t.Height, t.Round) }()
	}
	return w.call("t", fmt.Sprintf("t:%d:%d:%d", t.Step, t.Height, t.Round), false,
		func() []actions.Action[V, H, A] { return w.ep.real.ProcessTimeout(t) })
}

func (w *smWrap) ProcessProposal(p *starknet.Proposal) []actions.Action[V, H, A] {
	return w.call("p", entryTok((*wal.Proposal[V, H, A])(p)), false,
		func() []actions.Action[V, H, A] { return w.ep.real.ProcessProposal(p) })
}

func (w *smWrap) ProcessPrevote(p *starknet.Prevote) []actions.Action[V, H, A] {
	if w.ep.side != nil && p.Sender == pseudoSender {
		// driver.listen must have dropped it (isSyncPseudoSender); the extractor never fabricates prevotes
		w.ep.side.reached = append(w.ep.side.reached, entryTok((*wal.Prevote[H, A])(p)))
		return nil
	}
	if p == w.ep.sentinel {
		w.ep.sentinelCh <- struct{}{}
		return nil
	}
	return w.call("v", entryTok((*wal.Prevote[H, A])(p)), false,
		func() []actions.Action[V, H, A] { return w.ep.real.ProcessPrevote(p) })
}

func (w *smWrap) ProcessPrecommit(p *starknet.Precommit) []actions.Action[V, H, A] {
	if w.ep.side != nil && p.Sender == pseudoSender && w.ep.gossip {
		w.ep.side.reached = append(w.ep.side.reached, entryTok((*wal.Precommit[H, A])(p)))
	}
	return w.call("c", entryTok((*wal.Precommit[H, A])(p)), false,
		func() []actions.Action[V, H, A] { return w.ep.real.ProcessPrecommit(p) })
}

func (w *smWrap) ProcessWAL(e wal.Entry[V, H, A]) []actions.Action[V, H, A] {
	return w.call("wal", entryTok(e), true, func() []actions.Action[V, H, A] { return w.ep.real.ProcessWAL(e) })
}

func (w *smWrap) ProcessSync(p *starknet.Proposal, pc []starknet.Precommit) []actions.Action[V, H, A] {
	toks := []string{entryTok((*wal.Proposal[V, H, A])(p))}
	for i := range pc {
		toks = append(toks, entryTok((*wal.Precommit[H, A])(&pc[i])))
	}
	return w.call("sync", strings.Join(toks, " "), false, func() []actions.Action[V, H, A] { return w.ep.real.ProcessSync(p, pc) })
}

// ---- log store wrapper ----------------------------------------------------------------------

type storeWrap struct {
	ep   *epoch
	real walStore
}

func (s *storeWrap) snapshot() {
	ep := s.ep
	dst := filepath.Join(ep.base, fmt.Sprintf("snap%d", len(ep.snaps)))
	if err := copyDir(ep.dir, dst); err != nil {
		ep.errs = append(ep.errs, "snapshot: "+err.Error())
	}
	ep.snaps = append(ep.snaps, dst)
}

// hookMu: walstore's failure-injection hook (verifhook.SetFail) is one per process, and the workers
// of this harness run their process histories concurrently. Every call into a real store that can
// reach the hook holds the lock shared; the one call that is to fail holds it exclusively and has
// the failure installed only meanwhile.
var hookMu sync.RWMutex

var errInjectedIO = fmt.Errorf("injected: input/output error")

// withWALFault runs f (a call into the real store) with walstore's append failing at `point`.
func withWALFault(point string, f func() error) error {
	hookMu.Lock()
	defer hookMu.Unlock()
	verifhook.SetFail(func(name string) error {
		if name == "walstore:append:"+point {
			return errInjectedIO
		}
		return nil
	})
	defer verifhook.SetFail(nil)
	return f()
}

func (s *storeWrap) realFlush() error {
	if s.ep.walPoint != "" && s.ep.failedAt >= 0 && s.ep.walPersistent {
		return withWALFault(s.ep.walPoint, s.real.Flush) // the store stays broken
	}
	hookMu.RLock()
	defer hookMu.RUnlock()
	return s.real.Flush()
}

func (s *storeWrap) Flush() error {
	if s.ep.failAt == len(s.ep.effects) && s.ep.failedAt < 0 {
		s.ep.failedAt = len(s.ep.effects)
		if s.ep.walPoint == "" {
			return fmt.Errorf("injected: flush fails")
		}
		// the failure happens INSIDE the real store: its own error path runs (abortUncommitted, the
		// tail repair that truncates the log file to the last synced offset, pending batch kept)
		s.ep.preFail = filepath.Join(s.ep.base, "prefail")
		if err := copyDir(s.ep.dir, s.ep.preFail); err != nil {
			s.ep.errs = append(s.ep.errs, "snapshot: "+err.Error())
		}
		err := withWALFault(s.ep.walPoint, s.real.Flush)
		s.ep.postFail = filepath.Join(s.ep.base, "postfail")
		if e := copyDir(s.ep.dir, s.ep.postFail); e != nil {
			s.ep.errs = append(s.ep.errs, "snapshot: "+e.Error())
		}
		if err == nil {
			s.ep.errs = append(s.ep.errs, "walfault: Flush returned nil although the append failed")
		}
		return err
	}
	s.ep.record("flush")
	err := s.realFlush()
	if err != nil {
		s.ep.errs = append(s.ep.errs, "flush: "+err.Error())
		return err
	}
	if s.ep.pending != 0 {
		s.ep.pending = 0
		s.ep.nAppDur = len(s.ep.appended)
		s.snapshot()
	}
	return nil
}

func (s *storeWrap) SetWALEntry(e wal.Entry[V, H, A]) error {
	tok := entryTok(e)
	if s.ep.failAt == len(s.ep.effects) && s.ep.failedAt < 0 {
		s.ep.failedAt = len(s.ep.effects)
		return fmt.Errorf("injected: SetWALEntry fails")
	}
	s.ep.record("append/" + tok)
	err := s.real.SetWALEntry(e)
	if err != nil {
		s.ep.errs = append(s.ep.errs, "setwalentry: "+err.Error())
		return err
	}
	s.ep.pending++
	s.ep.appended = append(s.ep.appended, tok)
	return nil
}

func (s *storeWrap) DeleteWALEntries(h types.Height) error {
	s.ep.record(fmt.Sprintf("prune:%d", uint64(h)))
	err := s.real.DeleteWALEntries(h)
	if err != nil {
		s.ep.errs = append(s.ep.errs, "deletewalentries: "+err.Error())
		return err
	}
	s.ep.pending++
	return nil
}

func (s *storeWrap) LoadAllEntries() iter.Seq2[wal.Entry[V, H, A], error] {
	var es []wal.Entry[V, H, A]
	var firstErr error
	for e, err := range s.real.LoadAllEntries() {
		if err != nil {
			firstErr = err
			break
		}
		es = append(es, e)
		s.ep.loaded = append(s.ep.loaded, entryTok(e))
	}
	return func(yield func(wal.Entry[V, H, A], error) bool) {
		for _, e := range es {
			if !yield(e, nil) {
				return
			}
		}
		if firstErr != nil {
			yield(nil, firstErr)
		}
	}
}

func (s *storeWrap) Close() error {
	if s.ep.walPoint != "" && s.ep.failedAt >= 0 && s.ep.walPersistent {
		err := withWALFault(s.ep.walPoint, s.real.Close) // the flush of Close fails, too
		if err == nil && s.ep.pending > 0 {
			s.ep.errs = append(s.ep.errs, "walfault: Close returned nil although its flush failed")
		}
		return err
	}
	hookMu.RLock()
	defer hookMu.RUnlock()
	return s.real.Close()
}

// ---- broadcasters, listeners, commit listener, timers ------------------------------------------

type bcProposal struct{ ep *epoch }
type bcPrevote struct{ ep *epoch }
type bcPrecommit struct{ ep *epoch }

func (b bcProposal) Broadcast(_ context.Context, m *starknet.Proposal) {
	b.ep.record(fmt.Sprintf("sp:%d:%d:%d:%s", m.Height, m.Round, m.ValidRound, valS(m.Value)))
	if m.Sender != addrOf(b.ep.cfg.Me) {
		b.ep.errs = append(b.ep.errs, "broadcast proposal with foreign sender")
	}
}

func (b bcPrevote) Broadcast(_ context.Context, m *starknet.Prevote) {
	b.ep.record(fmt.Sprintf("sv:%d:%d:%s", m.Height, m.Round, idS(m.ID)))
	if m.Sender != addrOf(b.ep.cfg.Me) {
		b.ep.errs = append(b.ep.errs, "broadcast prevote with foreign sender")
	}
}

func (b bcPrecommit) Broadcast(_ context.Context, m *starknet.Precommit) {
	b.ep.record(fmt.Sprintf("sc:%d:%d:%s", m.Height, m.Round, idS(m.ID)))
	if m.Sender != addrOf(b.ep.cfg.Me) {
		b.ep.errs = append(b.ep.errs, "broadcast precommit with foreign sender")
	}
}

type lst[M any] struct{ ch chan M }

func (l lst[M]) Listen() <-chan M { return l.ch }

type commitSink struct{ ep *epoch }

// commitOb: one call of the real commitListener.OnCommit — the environment the harness set up for it
// and what was observed (compared with ModelCommit.lean through the driver op `oncommit`).
type commitOb struct {
	H                          uint64
	Found, HandedOver          bool   // environment: build result in the store; the persister takes the block
	Persist                    string // environment: ack | error | ctx
	CtxEnded                   bool
	Result                     bool // observed: what OnCommit returned
	Handover, Acked, Finalized bool // observed: block reached the persister / acknowledged / FinalizeHeight ran
}

func (c commitSink) OnCommit(ctx context.Context, h types.Height, v V) bool {
	if c.ep.failAt == len(c.ep.effects) && c.ep.failedAt < 0 {
		c.ep.failedAt = len(c.ep.effects)
		if c.ep.cancelInCommit == 0 || c.ep.inner == nil {
			return false
		}
		// the process is told to stop while the commit is in progress; the real commit listener must
		// answer false (the block is not persisted)
		switch c.ep.cancelInCommit {
		case 1:
			close(c.ep.persistStop)
			<-c.ep.persistGone
			c.ep.cancel()
		case 2:
			c.ep.cancelOnBlock.Store(true)
		default: // 3: nothing is cancelled, the persister reports that it could not store the block
			c.ep.persistErr.Store(true)
		}
	}
	if c.ep.inner != nil {
		// the real commit listener: looks the build result up in the proposal store, hands the
		// block to the persister (this harness acknowledges it), finalises the height in the store
		ob := commitOb{H: uint64(h), Found: c.ep.app.store.Get(v.Hash()) != nil, HandedOver: true, Persist: "ack"}
		if c.ep.failedAt == len(c.ep.effects) && c.ep.cancelInCommit > 0 { // this is the call the fault is for
			switch c.ep.cancelInCommit {
			case 1:
				ob.HandedOver, ob.CtxEnded = false, true
			case 2:
				ob.Persist, ob.CtxEnded = "ctx", true
			case 3:
				ob.Persist = "error"
			}
		}
		handedBefore, persistedBefore := c.ep.handed.Load(), c.ep.persisted.Load()
		ok := c.ep.inner.OnCommit(ctx, h, v)
		ob.Result = ok
		ob.Handover = c.ep.handed.Load() > handedBefore
		ob.Acked = c.ep.persisted.Load() == uint64(h) && persistedBefore != uint64(h)
		ob.Finalized = c.ep.app.store.IsFinalized(h)
		c.ep.commitObs = append(c.ep.commitObs, ob)
		if !ok {
			if c.ep.failedAt < 0 {
				c.ep.errs = append(c.ep.errs, fmt.Sprintf("commitlistener: refused height %d (no build result in the proposal store)", uint64(h)))
			}
			return false
		}
		if c.ep.persisted.Load() != uint64(h) {
			// OnCommit answered true (the driver will prune the log of this height) although the block
			// was never acknowledged by the persister: after a restart the chain is still below h
			c.ep.errs = append(c.ep.errs, fmt.Sprintf("unpersisted: OnCommit returned true for height %d, the persister has acknowledged up to %d", uint64(h), c.ep.persisted.Load()))
		}
	}
	c.ep.record(fmt.Sprintf("deliver:%d:%s", uint64(h), valS(&v)))
	c.ep.chainNow = uint64(h)
	c.ep.app.committed(uint64(h))
	return true
}

func (c commitSink) Listen() <-chan junosync.CommittedBlock { return nil }

// pathOnly is what NewTendermintWALStore needs from the database: its path.
type pathOnly struct {
	db.KeyValueStore
	path string
}

func (p pathOnly) Path() string { return p.path }

func copyDir(src, dst string) error {
	return filepath.Walk(src, func(p string, info os.FileInfo, err error) error {
		if err != nil {
			return err
		}
		rel, _ := filepath.Rel(src, p)
		t := filepath.Join(dst, rel)
		if info.IsDir() {
			return os.MkdirAll(t, 0o755)
		}
		in, err := os.Open(p)
		if err != nil {
			return err
		}
		defer in.Close()
		out, err := os.Create(t)
		if err != nil {
			return err
		}
		if _, err := io.Copy(out, in); err != nil {
			out.Close()
			return err
		}
		return out.Close()
	})
}

// timeoutChan finds the driver's internal channel on which fired timers are delivered (the only
// non-public access of this harness: real timers would make schedules irreproducible). The field
// is located by its type, not by its name.
func timeoutChan(d any) chan types.Timeout {
	v := reflect.ValueOf(d).Elem()
	want := reflect.TypeOf((chan types.Timeout)(nil))
	for i := 0; i < v.NumField(); i++ {
		if v.Field(i).Type() == want {
			return *(*chan types.Timeout)(unsafe.Pointer(v.Field(i).UnsafeAddr()))
		}
	}
	return nil
}

// syncChan finds the channel on which the block fetcher reports to the driver's select loop.
func syncChan(d any) chan p2psync.BlockBody {
	v := reflect.ValueOf(d).Elem()
	want := reflect.TypeOf((chan p2psync.BlockBody)(nil))
	for i := 0; i < v.NumField(); i++ {
		if v.Field(i).Type() == want {
			return *(*chan p2psync.BlockBody)(unsafe.Pointer(v.Field(i).UnsafeAddr()))
		}
	}
	return nil
}

var stepDeadline = func() time.Duration {
	if d, err := time.ParseDuration(os.Getenv("C13_DEADLINE")); err == nil && d > 0 {
		return d // debugging aid
	}
	return 120 * time.Second
}()

// The harness' own starvation detector. A "driver hangs" verdict needs a wait in which the HARNESS
// was running: on a machine shared with many other jobs (or a paused VM) a wall-clock deadline can
// expire although the driver under test never had a chance to run. A heartbeat goroutine wakes every
// 20 ms; the time by which its wake-ups come late is accumulated in lostNanos. A deadline that expires
// while more than a few seconds were lost that way is extended (bounded), so that a hang is reported
// only after stepDeadline of time in which this process was actually scheduled.
var lostNanos atomic.Int64

func init() {
	go func() {
		const tick = 20 * time.Millisecond
		last := time.Now()
		for {
			time.Sleep(tick)
			now := time.Now()
			if late := now.Sub(last) - 3*tick; late > 0 {
				lostNanos.Add(int64(late))
			}
			last = now
		}
	}()
}

// patient returns a channel that is closed when the step deadline has passed in time during which
// the harness itself was running, and a function that releases the watcher.
func patient() (<-chan struct{}, func()) {
	ch, stop := make(chan struct{}), make(chan struct{})
	go func() {
		t := time.NewTimer(stepDeadline)
		defer t.Stop()
		for i := 0; ; i++ {
			l0 := lostNanos.Load()
			select {
			case <-stop:
				return
			case <-t.C:
			}
			if i < 15 && lostNanos.Load()-l0 > int64(stepDeadline/20) {
				t.Reset(stepDeadline) // the harness was starved meanwhile: that wait does not count
				continue
			}
			close(ch)
			return
		}
	}()
	return ch, func() { close(stop) }
}

var errNoTimeoutChannel = fmt.Errorf("the driver's timeout channel was not found (reflect lookup by type): timeouts cannot be injected")

// startEpoch boots a process instance on a copy of the crash image `image` ("" = empty disk) with
// the chain at height `chain`, and waits until replay and the first ProcessStart are done.
func startEpoch(cfg *Cfg, base, image string, chain, epochNo uint64, failAt int, opts ...func(*epoch)) (*epoch, error) {
	ep := &epoch{cfg: cfg, base: base, chain: chain, boot: chain + 1, chainNow: chain, curInput: -1, failAt: failAt, failedAt: -1,
		sentinelCh: make(chan struct{}, 1), done: make(chan error, 1),
		propCh: make(chan *starknet.Proposal), prevCh: make(chan *starknet.Prevote), precCh: make(chan *starknet.Precommit)}
	for _, o := range opts {
		o(ep)
	}
	ep.dir = filepath.Join(base, "db")
	if err := os.MkdirAll(ep.dir, 0o755); err != nil {
		return nil, err
	}
	if image != "" {
		if err := copyDir(image, ep.dir); err != nil {
			return nil, err
		}
	}
	ep.persisted.Store(chain)
	ep.persistStop, ep.persistGone = make(chan struct{}), make(chan struct{})
	ep.app = &app{mode: cfg.AppMode, epoch: epochNo, height: chain + 1, cfg: cfg}
	if cfg.AppMode == "store" {
		ep.app.store = &proposal.ProposalStore[H]{}
		ep.inner = driver.NewCommitListener[V, H](log.NewNopZapLogger(), ep.app.store)
	}
	ep.real = tendermint.New[V, H, A](log.NewNopZapLogger(), addrOf(cfg.Me), ep.app, cfg, types.Height(chain+1))
	hookMu.RLock()
	st, err := walstore.NewTendermintWALStore[V, H, A](pathOnly{path: ep.dir})
	hookMu.RUnlock()
	if err != nil {
		return nil, fmt.Errorf("open wal store: %w", err)
	}
	sw := &storeWrap{ep: ep, real: st}
	sw.snapshot()
	s := starknet.Prevote{MessageHeader: starknet.MessageHeader{Sender: felt.FromUint64[A](0xdead)}}
	ep.sentinel = &s
	var fetcher *p2psync.BlockFetcher
	var extractor *consensusSync.MessageExtractor[V, H, A]
	if cfg.Sync {
		// the select loop is awaited with a prevote of the sync pseudo-sender: the driver drops it
		// (`continue`) without calling the state machine and without touching its `actions` variable
		s.Sender = pseudoSender
		ep.side = &syncSide{store: &proposal.ProposalStore[H]{}, release: make(chan struct{})}
		var err error
		if fetcher, err = newFetcher(ep.side); err != nil {
			return nil, err
		}
		ex := consensusSync.New[V, H, A](cfg, toValueOf, ep.side.store)
		extractor = &ex
	}
	d := driver.New[V, H, A](log.NewNopZapLogger(), sw, &smWrap{ep}, commitSink{ep},
		p2p.Broadcasters[V, H, A]{ProposalBroadcaster: bcProposal{ep}, PrevoteBroadcaster: bcPrevote{ep}, PrecommitBroadcaster: bcPrecommit{ep}},
		p2p.Listeners[V, H, A]{ProposalListener: lst[*starknet.Proposal]{ep.propCh}, PrevoteListener: lst[*starknet.Prevote]{ep.prevCh},
			PrecommitListener: lst[*starknet.Precommit]{ep.precCh}},
		fetcher, extractor,
		func(step types.Step, round types.Round) time.Duration {
			ep.record(fmt.Sprintf("timer:%d:%d", step, round))
			if ep.realTimers {
				return time.Millisecond
			}
			return 24 * time.Hour
		})
	ep.timeoutCh = timeoutChan(&d)
	ep.syncCh = syncChan(&d)
	if ep.side != nil {
		ep.side.lq = lastQuorumPtr(&d)
	}
	ctx, cancel := context.WithCancel(context.Background())
	ep.cancel = cancel
	if ep.inner != nil {
		go func() { // the block persister
			for {
				select {
				case cb := <-ep.inner.Listen():
					ep.handed.Add(1)
					if ep.cancelOnBlock.Load() {
						cancel() // taken but never acknowledged: the process is going down
						return
					}
					if ep.persistErr.Load() {
						cb.Persisted <- fmt.Errorf("injected: the block could not be stored")
						continue
					}
					ep.persisted.Store(cb.Block.Number)
					cb.Persisted <- nil
				case <-ep.persistStop:
					close(ep.persistGone)
					return
				case <-ctx.Done():
					return
				}
			}
		}()
	}
	go func() {
		defer func() {
			if r := recover(); r != nil {
				ep.done <- fmt.Errorf("panic: %v", r)
			}
		}()
		ep.done <- d.Run(ctx)
	}()
	if err := ep.sync(); err != nil {
		return ep, err
	}
	return ep, nil
}

// sync returns when the driver is back in its select loop (everything handed over so far has
// been processed completely): the sentinel is only taken there, and the state machine wrapper
// swallows it.
func (ep *epoch) sync() error {
	dl, release := patient()
	defer release()
	select {
	case ep.prevCh <- ep.sentinel:
	case err := <-ep.done:
		ep.done <- err
		return fmt.Errorf("driver stopped: %v", err)
	case <-dl:
		return fmt.Errorf("driver hangs (no select within %s)", stepDeadline)
	}
	if ep.side != nil {
		// taken by the select loop and dropped there; one more round makes sure the loop is back in
		// its select (the send can only complete at a select)
		select {
		case ep.prevCh <- ep.sentinel:
			return nil
		case err := <-ep.done:
			ep.done <- err
			return fmt.Errorf("driver stopped: %v", err)
		case <-dl:
			return fmt.Errorf("driver hangs (no select within %s)", stepDeadline)
		}
	}
	select {
	case <-ep.sentinelCh:
		return nil
	case <-dl:
		return fmt.Errorf("driver hangs after sentinel")
	}
}

// feed hands one input to the running driver and waits until it has been processed.
func (ep *epoch) feed(idx int, in Input) error {
	ep.curInput = idx
	defer func() { ep.curInput = -1 }()
	var sent bool
	dl, release := patient()
	defer release()
	switch in.K {
	case "p":
		if validVal(in.Val) {
			// consensus/p2p/validator stores the build result of a proposal it could execute
			// before the proposal reaches the state machine
			ep.app.storeResult(in.Val, in.H)
		}
		v := valOf(in.Val)
		m := &starknet.Proposal{MessageHeader: in.header(), ValidRound: types.Round(in.VR), Value: &v}
		select {
		case ep.propCh <- m:
			sent = true
		case <-dl:
		}
	case "v":
		m := &starknet.Prevote{MessageHeader: in.header(), ID: in.id()}
		select {
		case ep.prevCh <- m:
			sent = true
		case <-dl:
		}
	case "c":
		m := &starknet.Precommit{MessageHeader: in.header(), ID: in.id()}
		select {
		case ep.precCh <- m:
			sent = true
		case <-dl:
		}
	case "sb":
		// a fetched block arrives on the driver's sync channel
		if ep.syncCh == nil {
			return fmt.Errorf("the driver's sync channel was not found")
		}
		select {
		case ep.syncCh <- blockBody(in.H, in.Val, in.Sender):
			sent = true
		case <-dl:
		}
		// the channel is buffered: wait until the select loop has taken the block (then the sentinel
		// below is only taken after the block has been processed)
		for sent && len(ep.syncCh) > 0 {
			select {
			case <-dl:
				return fmt.Errorf("driver does not take the fetched block")
			default:
				time.Sleep(50 * time.Microsecond)
			}
		}
	case "se":
		// the block fetcher reports a failed fetch; the branch calls stateMachine.Height() (through
		// syncCurrentHeight): when that has happened the report has been taken
		if ep.syncCh == nil {
			return fmt.Errorf("the driver's sync channel was not found")
		}
		before := ep.heightCalls.Load()
		select {
		case ep.syncCh <- p2psync.BlockBody{Err: fmt.Errorf("injected: block fetch failed")}:
			sent = true
		case <-dl:
		}
		for sent && ep.heightCalls.Load() == before {
			select {
			case <-dl:
				return fmt.Errorf("driver does not take the fetch error")
			default:
				time.Sleep(50 * time.Microsecond)
			}
		}
	case "pv", "pc":
		// a gossiped prevote / precommit that claims to come from the sync pseudo-sender
		ep.gossip = true
		defer func() { ep.gossip = false }()
		hd := in.header()
		hd.Sender = pseudoSender
		if in.K == "pv" {
			select {
			case ep.prevCh <- &starknet.Prevote{MessageHeader: hd, ID: in.id()}:
				sent = true
			case <-dl:
			}
		} else {
			select {
			case ep.precCh <- &starknet.Precommit{MessageHeader: hd, ID: in.id()}:
				sent = true
			case <-dl:
			}
		}
	case "syncerr":
		// the block fetcher reports a failed fetch (driver.listen, sync branch with p.Err != nil)
		if ep.syncCh == nil {
			return fmt.Errorf("the driver's sync channel was not found")
		}
		// the channel is buffered (1): when the second send returns the first report has been
		// taken by the select loop
		for k := 0; k < 2; k++ {
			select {
			case ep.syncCh <- p2psync.BlockBody{Err: fmt.Errorf("injected: block fetch failed")}:
				sent = true
			case <-dl:
				sent = false
			}
		}
	case "t":
		if ep.timeoutCh == nil {
			return errNoTimeoutChannel
		}
		select {
		case ep.timeoutCh <- types.Timeout{Step: types.Step(in.Step), Height: types.Height(in.H), Round: types.Round(in.R)}:
			sent = true
		case <-dl:
		}
	default:
		return fmt.Errorf("bad input kind %q", in.K)
	}
	if !sent {
		return fmt.Errorf("driver does not take input %s", in)
	}
	if ep.noSentinel {
		return nil
	}
	return ep.sync()
}

// stop ends the process instance regularly (context cancelled, Run returns, the store is closed)
// and seals the observation.
func (ep *epoch) stop() { ep.stopVia(false) }

// stopVia ends the process either by cancelling its context or — the other regular way out of
// `listen` — by closing a message listener's channel.
func (ep *epoch) stopVia(closeListener bool) {
	dl, release := patient()
	defer release()
	ep.boundary()
	if closeListener {
		switch ep.closeWhich {
		case 1:
			close(ep.prevCh)
		case 2:
			close(ep.propCh)
		default:
			close(ep.precCh)
		}
	} else if ep.cancel != nil {
		ep.cancel()
	}
	if ep.side != nil {
		if closeListener && ep.cancel != nil {
			ep.cancel()
		}
		ep.side.releaseAll()
	}
	select {
	case err := <-ep.done:
		if err != nil {
			ep.errs = append(ep.errs, "run: "+err.Error())
		}
	case <-dl:
		ep.errs = append(ep.errs, "run does not return after cancel")
	}
	if closeListener && ep.cancel != nil {
		ep.cancel()
	}
	ep.closedSnap = filepath.Join(ep.base, "closed")
	if err := copyDir(ep.dir, ep.closedSnap); err != nil {
		ep.errs = append(ep.errs, "snapshot: "+err.Error())
	}
}

func (ep *epoch) cleanup() {
	if ep.side != nil {
		ep.side.releaseAll()
	}
	os.RemoveAll(ep.base)
}
