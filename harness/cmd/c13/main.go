//go:build verif

// Harness for C13: runs the REAL consensus driver (driver.New) with the real tendermint state
// machine and the real walstore, records every effect the driver performs at recording sinks,
// simulates a process death at every effect boundary (crash image = copy of the log directory as
// of that boundary, everything in memory lost), restarts a new process on the image, and checks
//   - the property's oracle on the real code (no conflicting vote after recovery, resume height,
//     recovered state = uncrashed twin fed the durable inputs, visible effects only after a flush),
//   - the correspondence with the Lean model of the driver (effect order of execute, log content
//     of every crash image, replay skip rule, effects of replay).
package main

import (
	"encoding/json"
	"fmt"
	"os"
	"path/filepath"
	"strconv"
	"strings"
	"sync"

	"github.com/NethermindEth/juno/consensus/starknet"
	"github.com/NethermindEth/juno/consensus/tendermint"
	"github.com/NethermindEth/juno/consensus/types"
	"github.com/NethermindEth/juno/consensus/types/actions"
	"github.com/NethermindEth/juno/consensus/types/wal"
	"github.com/NethermindEth/juno/utils/log"
	"verif/harness/lib"
)

// Kill describes one simulated process death: before effect K of the running process instance;
// Redeliver = the input that was being processed is handed to the restarted node again.
type Kill struct {
	K         int  `json:"k"`
	Redeliver bool `json:"redeliver"`
}

// Replay is the self-contained description of one run (written on violations, read by --replay).
type Replay struct {
	Cfg    Cfg     `json:"cfg"`
	Script []Input `json:"script"`
	Kills  []Kill  `json:"kills"`
	Note   string  `json:"note,omitempty"`
	// Fault: instead of process deaths, the REAL log store fails at effect K of the uncrashed run
	// (a flush with records pending); re-run by --replay
	Fault *WalFault `json:"walfault,omitempty"`
}

// WalFault: the flush that is effect K of the uncrashed run fails inside walstore — Point
// "before-write": the write of the batch fails; "after-sync": it is written and synced and the sync
// reports an error (hook points walstore:append:*). Persistent: the store stays broken, the flush
// `Close` makes fails the same way (else the failure is transient and `Close` gets the batch out).
type WalFault struct {
	K          int    `json:"k"`
	Point      string `json:"point"`
	Persistent bool   `json:"persistent"`
}

type vote struct {
	kind string // sv | sc
	h, r int
	id   string
}

func votesOf(effs []Effect) []vote {
	var vs []vote
	for _, e := range effs {
		f := strings.Split(e.Tok, ":")
		if f[0] == "sv" || f[0] == "sc" {
			vs = append(vs, vote{f[0], atoi(f[1]), atoi(f[2]), f[3]})
		}
	}
	return vs
}

func proposalsOf(effs []Effect) map[[2]int][]string {
	m := map[[2]int][]string{}
	for _, e := range effs {
		f := strings.Split(e.Tok, ":")
		if f[0] == "sp" {
			k := [2]int{atoi(f[1]), atoi(f[2])}
			m[k] = append(m[k], f[4])
		}
	}
	return m
}

// viol keeps, per signature, the violation with the smallest replay (fewest crashes, shortest
// script); they are handed to the result at the end.
var viol = struct {
	sync.Mutex
	m map[string]lib.Violation
}{m: map[string]lib.Violation{}}

func size(v lib.Violation) int {
	if rp, ok := v.Replay.(Replay); ok {
		n := len(rp.Kills)*1000 + len(rp.Script)
		if rp.Note != "" {
			n += 100000 // prefer replays that --replay can re-run (crash points) over stop/fault variants
		}
		return n
	}
	return 0
}

func violate(v lib.Violation) {
	viol.Lock()
	defer viol.Unlock()
	if old, ok := viol.m[v.Sig]; !ok || size(v) < size(old) {
		viol.m[v.Sig] = v
	}
}

func flushViolations(res *lib.Result) {
	viol.Lock()
	defer viol.Unlock()
	for _, v := range viol.m {
		res.Violate(v)
	}
}

type runner struct {
	exhaustive bool // crash the current root run at EVERY boundary, with and without re-delivery
	minInput   int  // first level: only crash points within the effects of script inputs >= minInput
	deep       bool // second level exhaustive, too (long-run family)
	noFault    bool
	replayWF   *WalFault // --replay of a wal-fault case
	earlyLong  bool      // long-run variant whose first log file must SURVIVE the cleanup
	f          lib.Flags
	res        *lib.Result
	drv        *lib.Driver
	base       string
	seq        int
	mu         *sync.Mutex
}

func (rn *runner) dir() string {
	rn.seq++
	return filepath.Join(rn.base, fmt.Sprintf("e%d", rn.seq))
}

func (rn *runner) ask(line string) string {
	if rn.drv == nil {
		return ""
	}
	a, err := rn.drv.Ask(line)
	if err != nil {
		rn.res.Fatalf("Lean driver died: %v (line %q)", err, line)
		rn.drv = nil
		return ""
	}
	if a == "bad-op" {
		rn.res.Fatalf("Lean driver answered bad-op to %q", line)
	}
	if strings.HasSuffix(a, " !seq") {
		// the model of listen's loop structure (ModelListen.driverSeq): the real driver called the state
		// machine with something `listen` cannot call it with at this point (a start that is not at boot
		// / after a commit, or an event of the select where ProcessStart(0) is due)
		a = strings.TrimSuffix(a, " !seq")
		rn.res.Mismatch(lib.Mismatch{Sig: "listen-call-sequence", Input: line, Model: "not a call listen makes here", Impl: line})
	}
	if strings.HasPrefix(line, "in ") || strings.HasPrefix(line, "x") {
		rn.res.Hit("listen-call-sequence-checked")
	}
	return a
}

func effToks(effs []Effect) string {
	s := make([]string, len(effs))
	for i, e := range effs {
		s[i] = e.Tok
	}
	return strings.Join(s, " ")
}

// canonEffs / canonModel: the effects of the real driver and of the model, compared MODULO flushes
// with nothing pending (walstore.Flush returns at once then; a driver that skips such a flush, or
// performs one more, behaves the same).
func canonEffs(effs []Effect) string {
	var s []string
	for _, e := range effs {
		if e.Tok == "flush" && e.Pend == 0 {
			continue
		}
		s = append(s, e.Tok)
	}
	return strings.Join(s, " ")
}

// canonIdx: the number of effects among the first k of the process that are not no-op flushes — how
// crash points and fault positions are counted towards the Lean driver.
func canonIdx(ep *epoch, k int) int {
	n := 0
	for i := 0; i < k && i < len(ep.effects); i++ {
		if !(ep.effects[i].Tok == "flush" && ep.effects[i].Pend == 0) {
			n++
		}
	}
	return n
}

func canonModel(ans string) string {
	var s []string
	for _, t := range strings.Fields(ans) {
		if t != "flush0" {
			s = append(s, t)
		}
	}
	return strings.Join(s, " ")
}

// tie sends the observed state machine outputs of one process instance to the Lean model of the
// driver and compares the effects the model performs with the ones the real driver performed.
func (rn *runner) tie(ep *epoch, rp Replay) {
	if rn.drv == nil {
		return
	}
	byCall := map[int][]Effect{}
	for _, e := range ep.effects {
		byCall[e.Call] = append(byCall[e.Call], e)
	}
	if len(byCall[-1]) > 0 {
		rn.res.Mismatch(lib.Mismatch{Sig: "effect-outside-state-machine-call", Input: rp, Impl: effToks(byCall[-1])})
	}
	check := func(ci int, mode string) {
		c := ep.calls[ci]
		ans := rn.ask(mode + " " + strings.Join(c.Acts, " "))
		want := canonModel(strings.TrimSpace(strings.TrimPrefix(strings.TrimPrefix(ans, "0"), "1")))
		got := canonEffs(byCall[ci])
		rn.res.Compared(1)
		if ans == "bad-op" || want != got {
			rn.res.Mismatch(lib.Mismatch{Sig: "execute-effects-" + mode, Input: map[string]any{"replay": rp, "call": c},
				Model: ans, Impl: got})
		}
	}
	// In the stable-application cases the Lean driver EXECUTES the model of the state machine
	// (C12's transcription) itself: it is given the inputs, and both the actions it computes and
	// the effects of executing them are compared with the real machine / the real driver.
	machine := ep.cfg.AppMode == "stable"
	checkM := func(ci int, ans, what string) {
		c := ep.calls[ci]
		f := strings.SplitN(ans, " | ", 2)
		if len(f) == 1 {
			f = strings.SplitN(ans, " |", 2)
		}
		wantEff, wantActs := "", ""
		if len(f) == 2 {
			wantEff = canonModel(strings.TrimSpace(strings.TrimPrefix(strings.TrimPrefix(f[0], "0"), "1")))
			wantActs = strings.TrimSpace(f[1])
		}
		real := append([]string{}, c.Acts...)
		if c.Sync != "" {
			real = append(real, c.Sync)
		}
		rn.res.Compared(2)
		if len(f) != 2 || wantActs != strings.Join(real, " ") {
			rn.res.Mismatch(lib.Mismatch{Sig: "state-machine-actions-" + what, Input: map[string]any{"replay": rp, "call": c},
				Model: ans, Impl: strings.Join(real, " ")})
		} else if got := canonEffs(byCall[ci]); wantEff != got {
			rn.res.Mismatch(lib.Mismatch{Sig: "execute-effects-" + what, Input: map[string]any{"replay": rp, "call": c},
				Model: ans, Impl: got})
		}
	}
	ci := 0
	h := ep.boot
	for _, tok := range ep.loaded {
		fed := ci < len(ep.calls) && ep.calls[ci].Replay && ep.calls[ci].In == tok && ep.calls[ci].HBefore == h
		var ans string
		if machine {
			ans = rn.ask("rin " + tok)
		} else {
			ans = rn.ask(fmt.Sprintf("rentry %d %s", h, tok))
		}
		rn.res.Compared(1)
		switch {
		case ans != "skip" && ans != "" && fed:
			if machine {
				checkM(ci, ans, "ract")
			} else {
				check(ci, "ract")
			}
			h = ep.calls[ci].HAfter
			ci++
			rn.res.Hit("replay-entry-fed")
		case ans == "skip" && !fed:
			rn.res.Hit("replay-entry-skipped")
		default:
			rn.res.Mismatch(lib.Mismatch{Sig: "replay-skip-rule", Input: rp, Model: ans + " " + tok,
				Impl: fmt.Sprintf("fed=%v smHeight=%d", fed, h)})
			if fed {
				ci++
			}
		}
	}
	for ; ci < len(ep.calls); ci++ {
		if ep.calls[ci].Replay {
			rn.res.Mismatch(lib.Mismatch{Sig: "replay-call-not-in-log", Input: rp, Impl: ep.calls[ci].In})
			continue
		}
		if machine {
			checkM(ci, rn.ask("in "+ep.calls[ci].In), "live")
		} else {
			check(ci, "live")
		}
	}
}

// bootModel tells the Lean driver which validator set / node the model machine has and creates it.
func (rn *runner) bootModel(cfg *Cfg, height uint64) {
	if cfg.AppMode != "stable" {
		return
	}
	pw := make([]string, len(cfg.Powers))
	for i, p := range cfg.Powers {
		pw[i] = strconv.FormatUint(p, 10)
	}
	tb := make([]string, len(cfg.Tbl))
	for i, t := range cfg.Tbl {
		tb[i] = strconv.Itoa(t)
	}
	rn.ask(fmt.Sprintf("env %d %d %s %s", cfg.Me+1, cfg.PMul, strings.Join(pw, ","), strings.Join(tb, ",")))
	rn.ask(fmt.Sprintf("boot %d", height))
}

// futureQuorumLogged: does the real state machine log the precommit that completes a quorum of a
// future height (proposed-fixes/C13-future-quorum-precommit-not-logged.diff applied)? Probed once on
// the real machine; C12's model transcribes the behaviour without it.
var futureQuorumLogged = func() bool {
	cfg := &Cfg{Powers: []uint64{1, 1, 1, 1}, Tbl: []int{1}, Me: 3, AppMode: "stable"}
	sm := tendermint.New[V, H, A](log.NewNopZapLogger(), addrOf(cfg.Me), &app{mode: "stable", height: 1, cfg: cfg}, cfg, 1)
	sm.ProcessStart(0)
	var last []actions.Action[V, H, A]
	for s := 0; s < 3; s++ {
		id := hashOf(9)
		last = sm.ProcessPrecommit(&starknet.Precommit{MessageHeader: starknet.MessageHeader{Height: 3, Round: 0, Sender: addrOf(s)}, ID: &id})
	}
	for _, a := range last {
		if _, ok := a.(*actions.WriteWAL[V, H, A]); ok {
			return true
		}
	}
	return false
}()

// pendingCommitScript: the situation of finding F5 for 4 equal validators, node index 3, height h,
// proposer of round 1 = index p1 (round 0's proposal never reaches the node), value val. After it
// the node has broadcast its round-1 precommit for val, its own vote completes the quorum, and the
// commit is PENDING: `process` looked at the commit rule for round 0 only (the round of the late
// prevote that started the chain of rules). The obsolete timers t:0:h:1 and t:1:h:1 are armed.
func pendingCommitScript(h uint64, p1 int, val uint64) []Input {
	return []Input{
		{K: "t", Step: 0, H: h, R: 0},
		{K: "v", H: h, R: 0, Sender: 0, Val: val}, {K: "v", H: h, R: 0, Sender: 1, Val: val},
		{K: "t", Step: 1, H: h, R: 0},
		{K: "c", H: h, R: 0, Sender: 0, Nil: true}, {K: "c", H: h, R: 0, Sender: 1, Nil: true},
		{K: "t", Step: 2, H: h, R: 0},
		{K: "p", H: h, R: 1, Sender: p1, VR: 0, Val: val},
		{K: "v", H: h, R: 1, Sender: 0, Val: val}, {K: "v", H: h, R: 1, Sender: 1, Val: val},
		{K: "c", H: h, R: 1, Sender: 0, Val: val}, {K: "c", H: h, R: 1, Sender: 1, Val: val},
		{K: "v", H: h, R: 0, Sender: 2, Val: val},
	}
}

// ignoredTimeoutInert: does ProcessTimeout leave the rules alone when the timeout does not apply
// (proposed-fixes/C13-ignored-timeout-runs-rules.diff applied)? Probed once on the real machine in
// the situation of F5; selects the variant of the model machine in c13drv (tmMachineT / tmMachineL).
// The probe never decides about a violation: on the code as it is the directed scripts reproduce
// F5 through the real driver.
var ignoredTimeoutInert = func() bool {
	cfg := &Cfg{Powers: []uint64{1, 1, 1, 1}, Tbl: []int{1, 0}, Me: 3, AppMode: "stable"}
	sm := tendermint.New[V, H, A](log.NewNopZapLogger(), addrOf(cfg.Me), &app{mode: "stable", height: 1, cfg: cfg}, cfg, 1)
	sm.ProcessStart(0)
	for _, in := range pendingCommitScript(1, 0, 41) {
		switch in.K {
		case "t":
			sm.ProcessTimeout(types.Timeout{Step: types.Step(in.Step), Height: types.Height(in.H), Round: types.Round(in.R)})
		case "p":
			v := valOf(in.Val)
			sm.ProcessProposal(&starknet.Proposal{MessageHeader: in.header(), ValidRound: types.Round(in.VR), Value: &v})
		case "v":
			sm.ProcessPrevote(&starknet.Prevote{MessageHeader: in.header(), ID: in.id()})
		case "c":
			sm.ProcessPrecommit(&starknet.Precommit{MessageHeader: in.header(), ID: in.id()})
		}
	}
	return len(sm.ProcessTimeout(types.Timeout{Step: 0, Height: 1, Round: 1})) == 0
}()

// fetchErrorResetsActions: does driver.listen forget the previous input's actions when the block
// fetcher reports an error (`actions = nil` in that branch)? Set by staleActionsProbe before any
// model is started; the code as it is does not (it executes them again).
var fetchErrorResetsActions bool

// startModel starts one Lean driver process and tells it which variant of the state machine the
// real code is.
func startModel(f lib.Flags, res *lib.Result) *lib.Driver {
	drv, err := lib.StartDriver(f.Driver)
	if err != nil {
		res.Fatalf("Lean driver did not start: %v", err)
		return drv
	}
	v := "0"
	if ignoredTimeoutInert {
		v = "1"
	}
	if a, err := drv.Ask("variant timeout-inert " + v); err != nil || a != "ok" {
		res.Fatalf("Lean driver did not accept the machine variant: %q %v", a, err)
	}
	v = "0"
	if fetchErrorResetsActions {
		v = "1"
	}
	if a, err := drv.Ask("variant fetch-error-resets-actions " + v); err != nil || a != "ok" {
		res.Fatalf("Lean driver did not accept the listen variant: %q %v", a, err)
	}
	return drv
}

func entryHeight(tok string) int {
	f := strings.Split(tok, ":")
	switch f[0] {
	case "s", "p", "v", "c":
		return atoi(f[1])
	case "t":
		return atoi(f[2])
	}
	return -1
}

func parseID(s string) *H {
	if s == "nil" {
		return nil
	}
	n, _ := strconv.ParseUint(s, 10, 64)
	h := hashOf(n)
	return &h
}

func parseEntry(tok string) wal.Entry[V, H, A] {
	f := strings.Split(tok, ":")
	u := func(s string) uint64 { n, _ := strconv.ParseUint(s, 10, 64); return n }
	hdr := func() types.MessageHeader[A] {
		return types.MessageHeader[A]{Height: types.Height(u(f[1])), Round: types.Round(atoi(f[2])), Sender: addrOf(int(u(f[3])) - 1)}
	}
	switch f[0] {
	case "s":
		s := wal.Start(u(f[1]))
		return &s
	case "p":
		v := valOf(u(f[5]))
		return &wal.Proposal[V, H, A]{MessageHeader: hdr(), ValidRound: types.Round(atoi(f[4])), Value: &v}
	case "v":
		return &wal.Prevote[H, A]{MessageHeader: hdr(), ID: parseID(f[4])}
	case "c":
		return &wal.Precommit[H, A]{MessageHeader: hdr(), ID: parseID(f[4])}
	case "t":
		return &wal.Timeout{Step: types.Step(atoi(f[1])), Height: types.Height(u(f[2])), Round: types.Round(atoi(f[3]))}
	}
	return nil
}

// twinDump: the state an UNCRASHED state machine, created at height `boot`, is in after it has
// been handed exactly `entries` (the durably recorded inputs, in recording order).
func twinDump(cfg *Cfg, boot uint64, entries []string) string {
	ap := &app{mode: "stable", height: boot}
	sm := tendermint.New[V, H, A](log.NewNopZapLogger(), addrOf(cfg.Me), ap, cfg, types.Height(boot))
	for _, tok := range entries {
		e := parseEntry(tok)
		if e == nil || e.GetHeight() < sm.Height() {
			continue
		}
		for _, a := range sm.ProcessWAL(e) {
			if c, ok := a.(*actions.Commit[V, H, A]); ok {
				ap.committed(uint64(c.Height))
			}
		}
	}
	return dumpSM(sm)
}

// hypotheses checks the shape assumptions of the Lean theorems (ReplaySafe) on every observed
// state machine call; a failure is reported as a model/implementation difference.
func (rn *runner) hypotheses(ep *epoch, rp Replay) {
	for ci, c := range ep.calls {
		if c.Kind == "sync" {
			continue // ProcessSync is several calls in one (proposal, precommits): covered by the sync family's tie
		}
		// a Start entry must carry the height that is being started
		if len(c.Acts) > 0 && strings.HasPrefix(c.Acts[0], "W/s:") && (c.Kind == "start" || strings.HasPrefix(c.In, "s:")) &&
			uint64(entryHeight(c.Acts[0][2:])) != c.HBefore {
			rn.res.Hit("start-entry-with-other-height")
			violate(lib.Violation{Sig: "start-entry-logged-with-next-height",
				What: fmt.Sprintf("ProcessStart at height %d returned %s: the log entry carries the height AFTER the commit that the same call performed (actions %v)",
					c.HBefore, c.Acts[0], c.Acts), Replay: rp})
		}
		nW, commitAt := 0, -1
		for i, a := range c.Acts {
			if strings.HasPrefix(a, "W/") {
				nW++
				if i != 0 {
					rn.res.Mismatch(lib.Mismatch{Sig: "hyp-log-entry-not-first-action", Input: rp, Impl: c})
				}
			}
			if strings.HasPrefix(a, "CM:") {
				commitAt = i
			}
			f := strings.Split(a, ":")
			if (f[0] == "BV" || f[0] == "BC" || f[0] == "BP") && uint64(atoi(f[1])) != c.HBefore {
				rn.res.Mismatch(lib.Mismatch{Sig: "hyp-vote-not-at-current-height", Input: rp, Impl: c})
			}
		}
		if nW > 1 {
			rn.res.Mismatch(lib.Mismatch{Sig: "hyp-two-log-entries-for-one-input", Input: rp, Impl: c})
		}
		if nW == 1 {
			ent := c.Acts[0][2:]
			if c.Kind != "start" && !strings.HasPrefix(c.In, "s:") && ent != c.In {
				rn.res.Mismatch(lib.Mismatch{Sig: "hyp-logged-entry-differs-from-input", Input: rp, Impl: c})
			}
			if uint64(entryHeight(ent)) < c.HBefore {
				rn.res.Mismatch(lib.Mismatch{Sig: "hyp-entry-height-below-current", Input: rp, Impl: c})
			}
			if strings.HasPrefix(ent, "t:") && uint64(entryHeight(ent)) != c.HBefore {
				rn.res.Mismatch(lib.Mismatch{Sig: "hyp-timeout-entry-not-current-height", Input: rp, Impl: c})
			}
		}
		if c.Sync != "" {
			rn.res.Hit("trigger-sync")
			if nW == 0 {
				// the quorum-completing precommit of a future height is counted by the vote counter
				// (a second delivery is rejected as duplicate) but no WriteWAL is returned for it
				violate(lib.Violation{Sig: "future-quorum-precommit-counted-but-not-logged",
					What:   fmt.Sprintf("at height %d input %s returned only %s: the vote is stored in the vote counter, nothing is written to the log", c.HBefore, c.In, c.Sync),
					Replay: rp})
			}
		}
		if nW == 0 && len(c.Acts) > 0 {
			involvesRestored := false
			for _, v := range ep.app.restored {
				for _, a := range c.Acts {
					if strings.HasSuffix(a, ":"+strconv.FormatUint(v, 10)) {
						involvesRestored = true
					}
				}
			}
			visible := false
			for _, a := range c.Acts {
				if k := strings.SplitN(a, ":", 2)[0]; k == "BP" || k == "BV" || k == "BC" || k == "CM" {
					visible = true
				}
			}
			switch {
			case ep.cfg.AppMode == "store" && involvesRestored:
				// consequence of the lost proposal store: validity of a replayed proposal flips back to
				// "valid" when the build result arrives again, the rules become enabled without any
				// input being processed, and the next input of any kind (e.g. an obsolete timeout,
				// which is not logged) fires them — only filed here when the actions are for a value
				// that was lost and has arrived again in this process instance
				violate(lib.Violation{Sig: "unlogged-input-made-visible-proposal-store-not-durable",
					What: fmt.Sprintf("input %s wrote nothing to the log but produced %v", c.In, c.Acts), Replay: rp})
			case c.Kind == "t" && len(c.Acts) == 1 && strings.HasPrefix(c.Acts[0], "CM:") && obsoleteTimeout(ep, ci):
				// F5: ProcessTimeout runs the rules although onTimeout* ignored the timeout (it is for an
				// earlier round or step), and the rules take a commit that an earlier call left pending
				// (process checks the commit rule only for the round of the message just received)
				rn.res.Hit("obsolete-timeout-takes-pending-commit")
				violate(lib.Violation{Sig: "obsolete-timeout-takes-pending-commit-unlogged",
					What: fmt.Sprintf("at height %d the timeout %s — obsolete: the machine is past that round/step, nothing is written to the log for it — returned %v: the decision is delivered because of an input a restarted node does not find in its log",
						c.HBefore, c.In, c.Acts), Replay: rp})
			case visible:
				// the property's last sentence, directly: an input made something visible and is not logged
				violate(lib.Violation{Sig: "unlogged-input-made-visible",
					What: fmt.Sprintf("at height %d input %s wrote nothing to the log but produced %v", c.HBefore, c.In, c.Acts), Replay: rp})
			default:
				rn.res.Mismatch(lib.Mismatch{Sig: "hyp-unlogged-input-with-actions", Input: rp, Impl: c})
			}
		}
		if commitAt >= 0 && commitAt != len(c.Acts)-1 {
			rn.res.Mismatch(lib.Mismatch{Sig: "hyp-commit-not-last-action", Input: rp, Impl: c})
		}
		if (commitAt >= 0) != (c.HAfter == c.HBefore+1) || (commitAt < 0 && c.HAfter != c.HBefore) {
			rn.res.Mismatch(lib.Mismatch{Sig: "hyp-height-changes-iff-commit", Input: rp, Impl: c})
		}
	}
}

type lineage struct {
	unlogged bool // an ancestor counted a future-height precommit without logging it (F4)
	trigger  bool // the process being restarted took a commit on an obsolete, unlogged timeout before the crash point (F5)
	aliased  bool // an ancestor logged a Start entry with a height other than the one it started
	votes    []vote
	props    map[[2]int][]string
	kills    []Kill
}

func (l lineage) extend(ep *epoch, k int, kl Kill) lineage {
	n := lineage{votes: append(append([]vote{}, l.votes...), votesOf(ep.effects[:k])...), props: map[[2]int][]string{},
		kills: append(append([]Kill{}, l.kills...), kl)}
	for key, v := range l.props {
		n.props[key] = append([]string{}, v...)
	}
	for key, v := range proposalsOf(ep.effects[:k]) {
		n.props[key] = append(n.props[key], v...)
	}
	return n
}

// oracle evaluates the property on one process instance, given what its ancestors had made
// visible before they died.
func (rn *runner) oracle(cfg *Cfg, ep *epoch, lin lineage, rp Replay, bootEffects int, twin string) {
	res := rn.res
	// (1) nothing visible while a log record is pending
	if len(ep.unflushedVisible) > 0 {
		sig := "visible-effect-before-log-flush"
		if strings.HasPrefix(ep.unflushedVisible[0], "deliver:") {
			sig = "commit-delivered-before-log-flush"
		}
		violate(lib.Violation{Sig: sig, What: fmt.Sprintf("the driver performed %q while log records were pending (not flushed); "+
			"a crash right after it loses the input that caused it", ep.unflushedVisible[0]), Replay: rp})
	}
	// (1b) a call that logs its input makes nothing visible before the entry has been appended (and,
	// by (1), flushed): the entry is the FIRST thing the driver does for the input
	appendedBy := map[int]bool{}
	for _, e := range ep.effects {
		if e.Call < 0 || e.Call >= len(ep.calls) || ep.calls[e.Call].Replay {
			continue
		}
		if strings.HasPrefix(e.Tok, "append/") {
			appendedBy[e.Call] = true
		}
		hasW := false
		for _, a := range ep.calls[e.Call].Acts {
			hasW = hasW || strings.HasPrefix(a, "W/")
		}
		if e.visible() && hasW && !appendedBy[e.Call] {
			violate(lib.Violation{Sig: "visible-effect-before-own-log-entry",
				What: fmt.Sprintf("input %s: the driver performed %q before it appended the input's log entry (actions %v)", ep.calls[e.Call].In, e.Tok, ep.calls[e.Call].Acts), Replay: rp})
			break
		}
	}
	// (2) no vote conflicting with one broadcast before the crash
	own := proposalsOf(ep.effects)
	for _, w := range votesOf(ep.effects) {
		for _, v := range lin.votes {
			if v.kind != w.kind || v.h != w.h || v.r != w.r || v.id == w.id {
				continue
			}
			kind := map[string]string{"sv": "prevote", "sc": "precommit"}[w.kind]
			sig := "conflicting-" + kind + "-after-recovery"
			// the specific known way: the node is the proposer of (h, r); its own value is not in the
			// log; replay asked the application again and RE-PROPOSED A DIFFERENT VALUE for (h, r)
			// (both proposals were observed at the broadcaster)
			// Attribution to a known cause needs direct evidence that THIS conflict has that cause.
			// (F3, mode "store") one of the two ids is a value the application of this process
			// instance judged invalid only because the proposal store of the dead process is gone:
			lost := func(id string) bool {
				for _, l := range ep.app.lostValid {
					if id == strconv.FormatUint(l, 10) {
						return true
					}
				}
				return false
			}
			if cfg.AppMode == "store" && (lost(v.id) || lost(w.id)) {
				sig += "-proposal-store-not-durable"
			} else if cfg.AppMode == "fresh" {
				// (F1, mode "fresh") the node is the proposer of this round or an earlier round of the
				// height, both differing own proposals for that round were seen at the broadcaster, and
				// — if it is this very round — the votes are for those values (or nil against one)
				for r0 := 0; r0 <= w.r; r0++ {
					key := [2]int{w.h, r0}
					if cfg.proposerIdx(uint64(w.h), r0) != cfg.Me || !differs(lin.props[key], own[key]) {
						continue
					}
					if r0 < w.r || isOneOf(v.id, lin.props[key]) || isOneOf(w.id, own[key]) {
						sig += "-own-proposal-value-changed"
						break
					}
				}
			}
			violate(lib.Violation{Sig: sig, What: fmt.Sprintf("before the crash the node broadcast %s h=%d r=%d id=%s, after recovery it broadcast %s h=%d r=%d id=%s",
				kind, v.h, v.r, v.id, kind, w.h, w.r, w.id), Replay: rp})
		}
	}
	// (3) deliveries continue exactly after the last delivered height; machine height = chain + 1
	chain := ep.chain
	for _, e := range ep.effects {
		if strings.HasPrefix(e.Tok, "deliver:") {
			h := uint64(atoi(strings.Split(e.Tok, ":")[1]))
			if h != chain+1 {
				sig := "commit-delivery-gap-after-recovery"
				if h <= chain {
					sig = "height-delivered-twice-after-recovery"
				}
				violate(lib.Violation{Sig: sig, What: fmt.Sprintf("chain at height %d, driver delivered height %d", chain, h), Replay: rp})
			}
			chain = h
		}
	}
	if bootEffects >= 0 {
		bootChain := ep.chainAt[bootEffects]
		var hBoot uint64
		for _, c := range ep.calls {
			if !c.Replay {
				hBoot = c.HBefore
				break
			}
		}
		if hBoot != bootChain+1 {
			violate(lib.Violation{Sig: "resume-height-wrong", What: fmt.Sprintf("after replay the state machine is at height %d, last delivered height is %d",
				hBoot, bootChain), Replay: rp})
		}
	}
	// (4) recovered state = uncrashed twin that processed the durable inputs
	if twin != "" && (cfg.AppMode == "stable" || (cfg.AppMode == "store" && len(ep.app.lostValid) == 0)) {
		res.Compared(1)
		if ep.dumpBoot != twin {
			sig := "recovered-state-differs-from-uncrashed-twin"
			if lin.unlogged {
				sig += f4
			}
			if lin.trigger {
				// the twin is fed the log only: it lacks the obsolete timeout that made the dead process commit
				sig += f5
			}
			if lin.aliased {
				// known cause: the Start entry of a height that committed inside ProcessStart carries
				// the NEXT height, survives the prune and is replayed as the start of the next height
				sig += "-start-entry-with-next-height"
			}
			violate(lib.Violation{Sig: sig,
				What:   "state machine after replay differs from an uncrashed machine fed the durably recorded inputs: " + diffHint(ep.dumpBoot, twin),
				Replay: rp})
		}
	}
	storeLost := len(ep.app.lostValid) > 0
	for _, e := range ep.errs {
		kind := strings.SplitN(e, ":", 2)[0]
		if ep.failAt >= 0 && kind == "run" && !strings.Contains(e, "panic") {
			continue // the injected fault makes Run return its error: expected
		}
		if kind == "unpersisted" {
			violate(lib.Violation{Sig: "commit-acknowledged-without-persisted-block", What: e, Replay: rp})
			continue
		}
		if cfg.AppMode == "store" && (kind == "commitlistener" || (kind == "run" && strings.Contains(e, "commit listener failed"))) {
			// the replayed commit cannot be delivered: the build result of the decided value was
			// only in the in-memory proposal store of the dead process
			violate(lib.Violation{Sig: "replayed-commit-refused-proposal-store-not-durable", What: e, Replay: rp})
			continue
		}
		violate(lib.Violation{Sig: "driver-error-" + kind, What: e, Replay: rp})
	}
	_ = storeLost
}

// smPos: (round, step) of the state machine before call n of the process, reconstructed from the
// actions it returned so far (a process starts in round 0, step propose; a commit starts the next
// height the same way). Own messages and timers tell: ST:0 / BP = a round was started (step
// propose), BV = step prevote, BC = step precommit.
func smPos(ep *epoch, n int) (round, step int) {
	for j := 0; j < n && j < len(ep.calls); j++ {
		for _, a := range ep.calls[j].Acts {
			f := strings.Split(a, ":")
			switch f[0] {
			case "ST":
				if f[1] == "0" {
					round, step = atoi(f[3]), 0
				}
			case "BP":
				round, step = atoi(f[2]), 0
			case "BV":
				round, step = atoi(f[2]), 1
			case "BC":
				round, step = atoi(f[2]), 2
			case "CM":
				round, step = 0, 0
			}
		}
	}
	return round, step
}

// obsoleteTimeout: call ci is a timeout that onTimeoutPropose/Prevote/Precommit ignores — it is
// for another height or round than the machine's, or (propose, prevote) for another step.
func obsoleteTimeout(ep *epoch, ci int) bool {
	c := ep.calls[ci]
	if c.Kind != "t" {
		return false
	}
	f := strings.Split(c.In, ":")
	st, h, r := atoi(f[1]), uint64(atoi(f[2])), atoi(f[3])
	round, step := smPos(ep, ci)
	return h != c.HBefore || r != round || (st < 2 && st != step)
}

// unloggedTrigger: among the first n calls of the process, an obsolete timeout (nothing logged)
// made the state machine act (F5). From then on the log does not determine the machine's state: an
// uncrashed machine fed the log stays where the trigger was needed.
func unloggedTrigger(ep *epoch, n int) bool {
	for j := 0; j < n && j < len(ep.calls); j++ {
		if isTriggerCall(ep, j) {
			return true
		}
	}
	return false
}

func isTriggerCall(ep *epoch, j int) bool {
	if j < 0 || j >= len(ep.calls) {
		return false
	}
	c := ep.calls[j]
	return c.Kind == "t" && len(c.Acts) > 0 && !strings.HasPrefix(c.Acts[0], "W/") && obsoleteTimeout(ep, j)
}

const f5 = "-commit-taken-by-obsolete-timeout"

// unloggedQuorumVote: among the first n calls of the process, one returned TriggerSync without a
// WriteWAL — the machine counted a precommit that is not in the log (F4). From then on the log
// does not determine the machine's state, which is what the state-equality oracles presuppose.
func unloggedQuorumVote(ep *epoch, n int) bool {
	for j := 0; j < n && j < len(ep.calls); j++ {
		if c := ep.calls[j]; c.Sync != "" && (len(c.Acts) == 0 || !strings.HasPrefix(c.Acts[0], "W/")) {
			return true
		}
	}
	return false
}

const f4 = "-future-quorum-precommit-not-logged"

func isOneOf(x string, xs []string) bool {
	for _, y := range xs {
		if x == y {
			return true
		}
	}
	return false
}

// differs: both non-empty and some value of ys is not among xs.
func differs(xs, ys []string) bool {
	if len(xs) == 0 || len(ys) == 0 {
		return false
	}
	for _, y := range ys {
		found := false
		for _, x := range xs {
			if x == y {
				found = true
			}
		}
		if !found {
			return true
		}
	}
	return false
}

func diffHint(a, b string) string {
	i := 0
	for i < len(a) && i < len(b) && a[i] == b[i] {
		i++
	}
	lo := max(0, i-60)
	return fmt.Sprintf("recovered …%s… / twin …%s…", a[lo:min(len(a), i+60)], b[lo:min(len(b), i+60)])
}

// bootBoundary: number of effects of the replay phase (everything before the first live call).
func bootBoundary(ep *epoch) int {
	first := -1
	for i, c := range ep.calls {
		if !c.Replay {
			first = i
			break
		}
	}
	if first < 0 {
		return len(ep.effects)
	}
	n := 0
	for _, e := range ep.effects {
		if e.Call < first {
			n++
		}
	}
	return n
}

// explore: simulate a process death of `ep` before each selected effect boundary, restart, check.
func (rn *runner) explore(cfg *Cfg, script []Input, startIdx int, ep *epoch, lin lineage, depth int, r *lib.RNG, fixed []Kill) {
	n := len(ep.effects)
	var kills []Kill
	if fixed != nil {
		if len(fixed) > 0 {
			kills = fixed[:1]
		}
	} else {
		maxK := rn.f.Scale(48, 120)
		if depth > 0 {
			maxK = rn.f.Scale(3, 5)
		}
		var ks []int
		for i := 0; i <= n; i++ {
			if depth == 0 && rn.minInput > 0 && i < n && ep.effects[i].Input < rn.minInput {
				continue
			}
			ks = append(ks, i)
		}
		if len(ks) > maxK && !(rn.exhaustive && depth == 0) && !(rn.deep && depth == 1) {
			lib.Shuffle(r, ks)
			ks = ks[:maxK]
		}
		for _, k := range ks {
			if rn.exhaustive && depth == 0 {
				kills = append(kills, Kill{K: k}, Kill{K: k, Redeliver: true})
				continue
			}
			kills = append(kills, Kill{K: k, Redeliver: r.Chance(1, 3)})
		}
	}
	for _, kl := range kills {
		k := kl.K
		if k > n {
			continue
		}
		nl := lin.extend(ep, k, kl)
		rp := Replay{Cfg: *cfg, Script: script, Kills: nl.kills}
		// Which inputs the restarted process still gets: a crash in the middle of input j loses j
		// (unless it is re-delivered); a crash between two inputs that had effects happens right
		// after the earlier one, so the inputs in between (which the dead process ignored, without
		// any effect) reach the restarted process instead.
		inputOf := func(i int) int {
			if ep.effects[i].Input < 0 {
				return startIdx - 1
			}
			return ep.effects[i].Input
		}
		jprev := startIdx - 1
		if k > 0 {
			jprev = inputOf(k - 1)
		}
		next := jprev + 1
		if k < n && inputOf(k) == jprev && jprev >= startIdx {
			next = jprev
			if !kl.Redeliver {
				next++
			}
		}
		rn.ask("push")
		ans := rn.ask(fmt.Sprintf("crash %d", canonIdx(ep, k)))
		rec, err := startEpoch(cfg, rn.dir(), ep.snaps[ep.snapAt[k]], ep.chainAt[k], uint64(depth+1), -1)
		if err != nil {
			violate(lib.Violation{Sig: "restart-fails", What: err.Error(), Replay: rp})
			if rec != nil {
				rec.stop()
				rec.cleanup()
			}
			rn.ask("pop")
			continue
		}
		armed := map[string]bool{}
		seen := 0
		for i := next; i < len(script); i++ {
			for ; seen < len(rec.calls); seen++ {
				for _, a := range rec.calls[seen].Acts {
					if strings.HasPrefix(a, "ST:") {
						armed["t:"+a[3:]] = true
					}
				}
			}
			if script[i].K == "t" {
				if !armed[script[i].String()] {
					rn.res.Hit("continuation-timeout-not-armed-skipped")
					continue
				}
				delete(armed, script[i].String())
			}
			if err := rec.feed(i, script[i]); err != nil {
				violate(lib.Violation{Sig: "driver-hangs-after-recovery", What: err.Error(), Replay: rp})
				break
			}
		}
		rec.stop()
		// correspondence: content of the crash image, then the recovered process
		if rn.drv != nil {
			want := fmt.Sprintf("h=%d log=%s", rec.boot, joinOrDash(rec.loaded))
			got := stripPruned(ans)
			rn.res.Compared(1)
			if want != got {
				rn.res.Mismatch(lib.Mismatch{Sig: "crash-image-log", Input: rp, Model: ans, Impl: want})
			}
			rn.bootModel(cfg, rec.boot)
			rn.tie(rec, rp)
			rn.tieCommits(rec, rp)
		}
		rn.hypotheses(rec, rp)
		twin := twinDump(cfg, ep.boot, append(append([]string{}, ep.loaded...), ep.appended[:ep.flushedN[k]]...))
		nl.aliased = lin.aliased || aliasedStart(ep)
		callsBefore := len(ep.calls)
		if k < n {
			callsBefore = ep.effects[k].Call + 1
		}
		nl.unlogged = lin.unlogged || unloggedQuorumVote(ep, callsBefore)
		nl.trigger = unloggedTrigger(ep, callsBefore)
		if os.Getenv("C13_DEBUG") != "" {
			fmt.Fprintf(os.Stderr, "KILL %+v parent effects[:k]=%s\n  image chain=%d loaded=%v\n  durable(recording order)=%v\n  rec calls:\n", kl, effToks(ep.effects[:k]), ep.chainAt[k], rec.loaded,
				append(append([]string{}, ep.loaded...), ep.appended[:ep.flushedN[k]]...))
			for _, c := range rec.calls {
				fmt.Fprintf(os.Stderr, "    %+v\n", c)
			}
		}
		rn.oracle(cfg, rec, nl, rp, bootBoundary(rec), twin)
		// a commit that is refused DURING REPLAY (the restarted process re-executes a commit whose
		// delivery the dead process had not completed): replay must return the error, Run must end
		if depth == 0 && (rn.exhaustive || r.Chance(1, 3)) {
			for j, e := range rec.effects[:bootBoundary(rec)] {
				if strings.HasPrefix(e.Tok, "deliver:") {
					rn.replayFault(cfg, ep, k, j, Replay{Cfg: *cfg, Script: script, Kills: nl.kills,
						Note: fmt.Sprintf("the commit listener refuses the commit that the restarted process re-executes while replaying (its effect %d)", j)})
					break
				}
			}
		}
		// Recovered state against the UNCRASHED LIVE process: when nothing was pending at the crash
		// point, the restarted node must be exactly where the dead process was — after the call in
		// progress if its entry had been appended (then it was flushed), else after the previous call.
		if cfg.AppMode == "stable" && ep.pendAt[k] == 0 && len(ep.calls) > 0 {
			ci := len(ep.calls) - 1
			if k < n {
				ci = ep.effects[k].Call
				if k == 0 || ep.effects[k-1].Call != ci {
					ci-- // no effect of that call performed yet: its entry is not in the log
				}
			}
			ref := ""
			if ci >= 0 {
				ref = ep.calls[ci].Dump
			}
			if bb := bootBoundary(ep); k <= bb && bb > 0 {
				// the parent was itself replaying: replay writes nothing, a node restarted on the same
				// log replays ALL of it and must end where the parent's replay ended
				ref, ci = ep.dumpBoot, len(ep.calls)-1
				for j, c := range ep.calls {
					if !c.Replay {
						ci = j - 1
						break
					}
				}
			}
			if ref != "" {
				rn.res.Compared(1)
				if ref != rec.dumpBoot {
					sig := "recovered-state-differs-from-live-run"
					if nl.unlogged {
						sig += f4
					}
					if k < n && isTriggerCall(ep, ep.effects[k].Call) {
						// the dead process was executing the commit an obsolete timeout had triggered; the
						// trigger is not in the log, the restarted node is back in front of the commit
						sig += f5
					}
					violate(lib.Violation{Sig: sig, What: "nothing was pending at the crash point, yet the restarted node is not in the state the dead process was in: " +
						diffHint(rec.dumpBoot, ref), Replay: rp})
				}
				rn.res.Hit("live-state-compared")
			}
		}
		// pending timers: a timer the dead process had armed for the height the restarted node is at,
		// and that had not fired, must be armed again by the restart (replay executes
		// ScheduleTimeout; a pending timer has no log entry of its own)
		if ep.pendAt[k] == 0 && (cfg.AppMode == "stable" || (cfg.AppMode == "store" && len(rec.app.lostValid) == 0)) && !nl.unlogged {
			nCalls := len(ep.calls)
			if k < n {
				nCalls = ep.effects[k].Call + 1
			}
			fired := timersFired(ep, nCalls)
			bootEff := 0
			for bootEff < len(rec.effects) && rec.effects[bootEff].Input == -1 {
				bootEff++
			}
			again := map[string]bool{}
			for _, t := range timersArmed(rec, bootEff) {
				again[t] = true
			}
			var hNow uint64
			for _, c := range rec.calls {
				if c.Input == -1 {
					hNow = c.HAfter
				}
			}
			for _, t := range timersArmed(ep, k) {
				if fired[t] || again[t] || uint64(atoi(strings.Split(t, ":")[2])) != hNow {
					continue
				}
				violate(lib.Violation{Sig: "pending-timer-not-armed-again-after-recovery",
					What: fmt.Sprintf("the dead process had armed %s (not fired, its cause durable); the restarted node, at height %d, did not arm it", t, hNow), Replay: rp})
			}
			rn.res.Hit("pending-timers-compared")
		}
		// statistics
		rn.res.Case(fmt.Sprintf("%v|%v|%v", *cfg, script, nl.kills), len(rec.loaded) > 0 || len(nl.votes) > 0)
		rn.res.Hit(fmt.Sprintf("crash-depth-%d", depth+1))
		if k < n {
			rn.res.Hit("crash-before-" + strings.SplitN(strings.SplitN(ep.effects[k].Tok, ":", 2)[0], "/", 2)[0])
		} else {
			rn.res.Hit("crash-after-last-effect")
		}
		if ep.pendAt[k] > 0 {
			rn.res.Hit("crash-with-pending-records")
		}
		for _, e := range rec.effects[:bootBoundary(rec)] {
			rn.res.Hit("replay-effect-" + strings.SplitN(e.Tok, ":", 2)[0])
		}
		if len(nl.votes) > 0 && len(votesOf(rec.effects)) > 0 {
			rn.res.Hit("votes-before-and-after-crash")
		}
		if depth < 1 && (fixed == nil || len(fixed) > 1) {
			var f2 []Kill
			if fixed != nil {
				f2 = fixed[1:]
			}
			rn.explore(cfg, script, next, rec, nl, depth+1, r, f2)
		}
		rec.cleanup()
		rn.ask("pop")
	}
}

func aliasedStart(ep *epoch) bool {
	for _, c := range ep.calls {
		if len(c.Acts) > 0 && strings.HasPrefix(c.Acts[0], "W/s:") && uint64(entryHeight(c.Acts[0][2:])) != c.HBefore {
			return true
		}
	}
	return false
}

// timersArmed: the timers (as timeout tokens t:step:h:r) the process armed with its first `upto`
// effects; the j-th `timer:` effect of a call belongs to the j-th ScheduleTimeout action of that call.
func timersArmed(ep *epoch, upto int) []string {
	next := map[int]int{} // call -> number of ST actions already matched
	var out []string
	for i := 0; i < upto && i < len(ep.effects); i++ {
		e := ep.effects[i]
		if !strings.HasPrefix(e.Tok, "timer:") || e.Call < 0 {
			continue
		}
		n := 0
		for _, a := range ep.calls[e.Call].Acts {
			if strings.HasPrefix(a, "ST:") {
				if n == next[e.Call] {
					out = append(out, "t:"+a[3:])
					break
				}
				n++
			}
		}
		next[e.Call]++
	}
	return out
}

// timersFired: the timeouts handed to the state machine by the first nCalls calls.
func timersFired(ep *epoch, nCalls int) map[string]bool {
	f := map[string]bool{}
	for j := 0; j < nCalls && j < len(ep.calls); j++ {
		if ep.calls[j].Kind == "t" {
			f[ep.calls[j].In] = true
		}
	}
	return f
}

// quiesce: a silent network — no more messages; every pending timer of the current height fires
// (in the order armed), again and again until nothing new is armed. Returns what the node made
// visible meanwhile and its final state.
func quiesce(ep *epoch) (string, string, error) {
	start := len(ep.effects)
	done := map[string]bool{}
	for round := 0; round < 12; round++ {
		fired := timersFired(ep, len(ep.calls))
		h := uint64(ep.real.Height())
		var todo []Input
		for _, t := range timersArmed(ep, len(ep.effects)) {
			f := strings.Split(t, ":")
			if fired[t] || done[t] || uint64(atoi(f[2])) != h {
				continue
			}
			done[t] = true
			todo = append(todo, Input{K: "t", Step: atoi(f[1]), H: h, R: atoi(f[3])})
		}
		if len(todo) == 0 {
			break
		}
		for _, in := range todo {
			if err := ep.feed(-2, in); err != nil {
				return "", "", err
			}
		}
	}
	var vis []string
	for _, e := range ep.effects[start:] {
		if e.visible() {
			vis = append(vis, e.Tok)
		}
	}
	return strings.Join(vis, " "), dumpSM(ep.real), nil
}

// silentNetwork: restart on the image of crash point k and, separately, run an UNCRASHED twin
// process over the inputs the dead process had taken; then let both face a silent network
// (quiesce). The restarted node must do what the twin does: in particular a timer that was pending
// at the crash exists after recovery only because replay executes ScheduleTimeout again.
func (rn *runner) silentNetwork(cfg *Cfg, script []Input, ep *epoch, k int) {
	j := -1
	if k > 0 {
		j = ep.effects[k-1].Input
	}
	rp := Replay{Cfg: *cfg, Script: script, Kills: []Kill{{K: k}}, Note: "after the restart the network is silent: only the pending timers fire"}
	rec, err := startEpoch(cfg, rn.dir(), ep.snaps[ep.snapAt[k]], ep.chainAt[k], 1, -1)
	if err != nil {
		if rec != nil {
			rec.stop()
			rec.cleanup()
		}
		return // reported by explore
	}
	defer rec.cleanup()
	rec.noDumps = true
	tw, err := startEpoch(cfg, rn.dir(), "", cfg.C0, 0, -1)
	if err != nil {
		rn.res.Fatalf("silent-network twin could not start: %v", err)
		rec.stop()
		return
	}
	defer tw.cleanup()
	tw.noDumps = true
	for i := 0; i <= j && i < len(script); i++ {
		if err := tw.feed(i, script[i]); err != nil {
			rn.res.Fatalf("silent-network twin: %v", err)
			break
		}
	}
	visR, dumpR, errR := quiesce(rec)
	visT, dumpT, errT := quiesce(tw)
	rec.stop()
	tw.stop()
	if errR != nil || errT != nil {
		violate(lib.Violation{Sig: "driver-hangs-in-silent-network", What: fmt.Sprint(errR, errT), Replay: rp})
		return
	}
	rn.res.Compared(2)
	rn.res.Hit("silent-network-compared")
	if visT != "" {
		rn.res.Hit("silent-network-twin-acts-on-timers")
	}
	sfx := ""
	if k < len(ep.effects) && isTriggerCall(ep, ep.effects[k].Call) {
		sfx = f5
	}
	if visR != visT {
		violate(lib.Violation{Sig: "restarted-node-differs-from-uncrashed-twin-in-silent-network" + sfx,
			What:   fmt.Sprintf("with no more messages and all pending timers firing the uncrashed twin broadcasts [%s], the restarted node [%s]", visT, visR),
			Replay: rp})
	} else if dumpR != dumpT {
		violate(lib.Violation{Sig: "restarted-node-state-differs-from-uncrashed-twin-in-silent-network" + sfx,
			What: "after the pending timers fired: " + diffHint(dumpR, dumpT), Replay: rp})
	}
}

// graceful: the uncrashed process was stopped regularly (context cancelled in the select loop, Run
// returned, the deferred Close flushed the pending batch). A new process on that image must be in
// exactly the state the old one was in, and must not contradict it.
func (rn *runner) graceful(cfg *Cfg, script []Input, ep *epoch) {
	rp := Replay{Cfg: *cfg, Script: script, Note: "regular stop after the script, then restart"}
	rn.ask("push")
	rn.ask("close")
	ans := rn.ask("crash all")
	rec, err := startEpoch(cfg, rn.dir(), ep.closedSnap, ep.chainNow, 1, -1)
	if err != nil {
		violate(lib.Violation{Sig: "restart-fails-after-regular-stop", What: err.Error(), Replay: rp})
		if rec != nil {
			rec.stop()
			rec.cleanup()
		}
		rn.ask("pop")
		return
	}
	rec.stop()
	if rn.drv != nil {
		want := fmt.Sprintf("h=%d log=%s", rec.boot, joinOrDash(rec.loaded))
		rn.res.Compared(1)
		if got := stripPruned(ans); want != got {
			rn.res.Mismatch(lib.Mismatch{Sig: "image-after-regular-stop", Input: rp, Model: ans, Impl: want})
		}
		rn.bootModel(cfg, rec.boot)
		rn.tie(rec, rp)
	}
	rn.hypotheses(rec, rp)
	lin := lineage{props: map[[2]int][]string{}}.extend(ep, len(ep.effects), Kill{K: len(ep.effects)})
	lin.unlogged = unloggedQuorumVote(ep, len(ep.calls))
	lin.trigger = unloggedTrigger(ep, len(ep.calls))
	rn.oracle(cfg, rec, lin, rp, bootBoundary(rec), twinDump(cfg, ep.boot, append(append([]string{}, ep.loaded...), ep.appended...)))
	if cfg.AppMode == "stable" {
		rn.res.Compared(1)
		if live := dumpSM(ep.real); live != rec.dumpBoot {
			sig := "state-lost-across-regular-restart"
			if unloggedQuorumVote(ep, len(ep.calls)) {
				sig += f4
			}
			violate(lib.Violation{Sig: sig,
				What: "after a regular stop and restart the replayed state machine differs from the one that was stopped: " + diffHint(rec.dumpBoot, live), Replay: rp})
		}
	}
	rn.res.Hit("regular-stop-restart")
	rn.res.Case(fmt.Sprintf("%v|%v|graceful", *cfg, script), len(rec.loaded) > 0)
	rec.cleanup()
	rn.ask("pop")
}

// faulty: re-run the script with an injected fault at effect k of the uncrashed run (the k-th
// effect is a Flush that returns an error, or a commit the listener refuses). The driver must stop
// without making anything further visible; a restart must not contradict what was sent.
func (rn *runner) faulty(cfg *Cfg, script []Input, ref *epoch, k int, cancelInCommit int) {
	rp := Replay{Cfg: *cfg, Script: script, Note: fmt.Sprintf("injected fault at effect %d (%s)", k, ref.effects[k].Tok)}
	if cancelInCommit > 0 {
		rp.Note = fmt.Sprintf("the context is cancelled while the commit listener %s, at effect %d (%s)",
			[]string{"", "tries to hand the block to the persister", "waits for the persister's acknowledgement"}[min(cancelInCommit, 2)], k, ref.effects[k].Tok)
		if cancelInCommit == 3 {
			rp.Note = fmt.Sprintf("the block persister answers the commit listener with an error, at effect %d (%s)", k, ref.effects[k].Tok)
		}
	}
	ep, err := startEpoch(cfg, rn.dir(), "", cfg.C0, 0, k)
	if ep == nil {
		rn.res.Fatalf("fault-injection run could not start: %v", err)
		return
	}
	ep.cancelInCommit = cancelInCommit
	defer ep.cleanup()
	for i := 0; err == nil && i < len(script) && ep.failedAt < 0; i++ {
		err = ep.feed(i, script[i])
	}
	ep.stop()
	kind := strings.SplitN(strings.SplitN(ref.effects[k].Tok, ":", 2)[0], "/", 2)[0]
	if cancelInCommit > 0 {
		kind = fmt.Sprintf("deliver-by-cancel-%d", cancelInCommit)
	}
	if cancelInCommit == 3 {
		kind = "deliver-persist-error"
	}
	rn.res.Hit("fault-injected-" + kind)
	if ep.failedAt < 0 {
		rn.res.Hit("fault-not-reached")
		return
	}
	stopped := cancelInCommit == 1 || cancelInCommit == 2 // the context was cancelled: Run returns nil or the context's error
	for _, e := range ep.errs {
		if strings.HasPrefix(e, "run: ") && !strings.Contains(e, "panic") {
			stopped = true
		}
		if strings.HasPrefix(e, "unpersisted:") {
			violate(lib.Violation{Sig: "commit-acknowledged-without-persisted-block", What: e, Replay: rp})
		}
	}
	rn.tieCommits(ep, rp)
	if !stopped {
		violate(lib.Violation{Sig: "driver-continues-after-failed-" + kind, What: "Run did not return an error after the injected fault", Replay: rp})
	}
	for _, e := range ep.effects[ep.failedAt:] {
		if e.visible() {
			violate(lib.Violation{Sig: "visible-effect-after-failed-" + kind,
				What: fmt.Sprintf("after the injected fault the driver still performed %q", e.Tok), Replay: rp})
		}
	}
	// restart on what the stopped process left behind
	rec, err := startEpoch(cfg, rn.dir(), ep.closedSnap, ep.chainNow, 1, -1)
	if err != nil {
		violate(lib.Violation{Sig: "restart-fails-after-fault", What: err.Error(), Replay: rp})
		if rec != nil {
			rec.stop()
			rec.cleanup()
		}
		return
	}
	// correspondence with the model of the error exit (ModelStop.lean, `stopTrace`): the stopped
	// process performed exactly the effects in front of the failing one, then Close flushed; the
	// image it left is the model's
	if rn.drv != nil {
		rn.ask("push")
		ans := rn.ask(fmt.Sprintf("stop %d 1", canonIdx(ref, k)))
		rn.res.Compared(2)
		got := canonEffs(ep.effects)
		if ep.pending > 0 {
			got = strings.TrimSpace(got + " flush")
		}
		if got != canonModel(ans) {
			rn.res.Mismatch(lib.Mismatch{Sig: "effects-of-process-stopped-by-error", Input: rp, Model: ans, Impl: got})
		}
		img := rn.ask("crash all")
		if want := fmt.Sprintf("h=%d log=%s", rec.boot, joinOrDash(rec.loaded)); want != stripPruned(img) {
			rn.res.Mismatch(lib.Mismatch{Sig: "image-after-error-stop", Input: rp, Model: img, Impl: want})
		}
		rn.ask("pop")
		rn.res.Hit("error-stop-compared-" + kind)
	}
	for i := 0; i < len(script); i++ { // everything is delivered again (peers resend)
		if script[i].K == "t" {
			continue
		}
		if rec.feed(i, script[i]) != nil {
			break
		}
	}
	rec.stop()
	lin := lineage{props: map[[2]int][]string{}}.extend(ep, len(ep.effects), Kill{K: k})
	lin.unlogged = unloggedQuorumVote(ep, len(ep.calls))
	lin.trigger = unloggedTrigger(ep, len(ep.calls))
	// Close has flushed whatever was pending, and a refused commit must not have pruned anything:
	// the restarted node must be where an uncrashed machine fed ALL logged inputs is
	rn.oracle(cfg, rec, lin, rp, bootBoundary(rec), twinDump(cfg, ep.boot, ep.appended))
	rn.res.Case(fmt.Sprintf("%v|%v|fault%d", *cfg, script, k), true)
	rec.cleanup()
}

// replayFault: restart on the image of crash point k of `ep` with a commit listener that refuses
// the delivery which is effect j of the new process (a replayed commit).
func (rn *runner) replayFault(cfg *Cfg, ep *epoch, k, j int, rp Replay) {
	rec, err := startEpoch(cfg, rn.dir(), ep.snaps[ep.snapAt[k]], ep.chainAt[k], 1, j)
	if rec == nil {
		rn.res.Fatalf("replay-fault run could not start: %v", err)
		return
	}
	defer rec.cleanup()
	rec.stop()
	rn.res.Hit("fault-injected-deliver-during-replay")
	if rec.failedAt < 0 {
		rn.res.Hit("fault-not-reached")
		return
	}
	if err == nil {
		violate(lib.Violation{Sig: "driver-continues-after-failed-deliver-during-replay",
			What: "the commit listener refused a commit re-executed by replay; Run did not return, the driver went on to listen", Replay: rp})
	}
	for _, e := range rec.effects[rec.failedAt:] {
		if e.visible() {
			violate(lib.Violation{Sig: "visible-effect-after-failed-deliver-during-replay",
				What: fmt.Sprintf("after the refused commit the driver still performed %q", e.Tok), Replay: rp})
		}
	}
	rn.res.Case(fmt.Sprintf("%v|%v|rfault%d", *cfg, rp.Kills, j), true)
}

// tieCommits: every call of the real commit listener (mode "store") against ModelCommit.lean — the
// answer, whether the block reached the persister, whether it was acknowledged, whether the build
// results of the height were dropped, and how Run ended when the answer was false.
func (rn *runner) tieCommits(ep *epoch, rp Replay) {
	if rn.drv == nil {
		return
	}
	b := func(x bool) string {
		if x {
			return "1"
		}
		return "0"
	}
	for i, ob := range ep.commitObs {
		ans := rn.ask(fmt.Sprintf("oncommit %s %s %s %s", b(ob.Found), b(ob.HandedOver), ob.Persist, b(ob.CtxEnded)))
		f := strings.Fields(ans)
		rn.res.Compared(1)
		rn.res.Hit("commit-listener-call-compared")
		if len(f) != 3 {
			rn.res.Mismatch(lib.Mismatch{Sig: "commit-listener-model", Input: rp, Model: ans, Impl: ob})
			continue
		}
		var steps []string
		if ob.Handover {
			steps = append(steps, "handover")
		}
		if ob.Acked {
			steps = append(steps, "acked")
		}
		if ob.Finalized {
			// hooks are not observable (none registered); the model lists them between acked and finalize
			steps = append(steps, "hooks", "finalize")
		}
		got := "-"
		if len(steps) > 0 {
			got = strings.Join(steps, ",")
		}
		res := "ok"
		if !ob.Result {
			res = "refused"
			if ob.CtxEnded {
				res = "ctxerr"
			}
		}
		// how Run ended: only known for the last call of a stopped process
		if !ob.Result && i == len(ep.commitObs)-1 {
			for _, e := range ep.errs {
				if strings.HasPrefix(e, "run: ") {
					switch {
					case strings.Contains(e, "commit listener failed"):
						res = "refused"
					case strings.Contains(e, "context canceled"):
						res = "ctxerr"
					}
				}
			}
		}
		want := fmt.Sprintf("%s %s %s", res, b(ob.Result), got)
		if want != ans {
			rn.res.Mismatch(lib.Mismatch{Sig: "commit-listener-model", Input: map[string]any{"replay": rp, "call": ob}, Model: ans, Impl: want})
		}
		rn.res.Hit("commit-listener-" + f[0])
	}
}

func firstOther(cfg *Cfg) int {
	if cfg.Me == 0 {
		return 1
	}
	return 0
}

func joinOrDash(xs []string) string {
	if len(xs) == 0 {
		return "-"
	}
	return strings.Join(xs, ",")
}

// stripPruned removes the " pruned=<n>" field (the real store does not expose its watermark).
func stripPruned(ans string) string {
	f := strings.Fields(ans)
	var out []string
	for _, x := range f {
		if !strings.HasPrefix(x, "pruned=") {
			out = append(out, x)
		}
	}
	return strings.Join(out, " ")
}

// rootCase runs one uncrashed process (generating the script on the way unless it is given), then
// explores its crash points.
func (rn *runner) rootCase(cfg *Cfg, script []Input, genLen int, r *lib.RNG, fixed []Kill) {
	ep, err := startEpoch(cfg, rn.dir(), "", cfg.C0, 0, -1)
	if err != nil {
		violate(lib.Violation{Sig: "boot-fails", What: err.Error(), Replay: Replay{Cfg: *cfg}})
		if ep != nil {
			ep.stop()
			ep.cleanup()
		}
		return
	}
	defer ep.cleanup()
	if script == nil {
		w := newWorld(cfg, ep, r)
		w.happyBias = genLen > 40
		for i := 0; i < genLen; i++ {
			in := w.next()
			script = append(script, in)
			if err := ep.feed(i, in); err != nil {
				if err == errNoTimeoutChannel {
					rn.res.Fatalf("%v", err)
					break
				}
				violate(lib.Violation{Sig: "driver-hangs", What: err.Error(), Replay: Replay{Cfg: *cfg, Script: script}})
				break
			}
		}
	} else {
		for i, in := range script {
			if err := ep.feed(i, in); err != nil {
				if err == errNoTimeoutChannel {
					rn.res.Fatalf("%v", err)
					break
				}
				violate(lib.Violation{Sig: "driver-hangs", What: err.Error(), Replay: Replay{Cfg: *cfg, Script: script[:i+1]}})
				break
			}
		}
	}
	viaListener := r.Bool()
	ep.closeWhich = r.Intn(3)
	ep.stopVia(viaListener)
	if viaListener {
		rn.res.Hit("stopped-by-closed-listener")
		rn.res.Hit([]string{"stopped-by-closed-precommit-listener", "stopped-by-closed-prevote-listener", "stopped-by-closed-proposal-listener"}[ep.closeWhich])
	} else {
		rn.res.Hit("stopped-by-context")
	}
	rp := Replay{Cfg: *cfg, Script: script}
	if rn.deep {
		// did the store's periodic cleanup run (first log file removed => numbering gap)?
		names, _ := filepath.Glob(filepath.Join(ep.closedSnap, "*", "*"))
		first := false
		for _, n := range names {
			if strings.HasPrefix(filepath.Base(n), "000001.") {
				first = true
			}
		}
		second := false
		for _, n := range names {
			if strings.HasPrefix(filepath.Base(n), "000002.") {
				second = true
			}
		}
		switch {
		case rn.earlyLong && first && second:
			rn.res.Hit("long-run-log-file-000001-kept-by-cleanup-for-early-messages")
		case rn.earlyLong:
			// the early messages of the heights still to come live in the first file: not a harness
			// failure but a loss the oracles below report with the concrete history
			rn.res.Hit("long-run-early-first-log-file-missing-after-cleanup")
		case !first && len(names) > 0:
			rn.res.Hit("long-run-log-file-000001-removed-by-cleanup")
		default:
			rn.res.Fatalf("long run: the log store's cleanup did not remove the first log file (%d files): the family does not reach the situation it is for", len(names))
		}
	}
	// statistics of the uncrashed run
	for _, in := range script {
		rn.res.Hit("input-" + in.K)
	}
	for _, c := range ep.calls {
		if len(c.Acts) == 0 {
			rn.res.Hit("input-ignored")
		}
		for _, a := range c.Acts {
			rn.res.Hit("action-" + strings.SplitN(strings.SplitN(a, ":", 2)[0], "/", 2)[0])
			f := strings.Split(a, ":")
			if (f[0] == "BV" || f[0] == "BC" || f[0] == "BP") && atoi(f[2]) > 0 {
				rn.res.Hit("own-message-in-round>0")
			}
			if f[0] == "BP" && atoi(f[3]) >= 0 {
				rn.res.Hit("own-proposal-with-valid-round")
			}
			if strings.HasPrefix(a, "W/") && uint64(entryHeight(a[2:])) > c.HBefore {
				rn.res.Hit("logged-future-height-entry")
			}
		}
	}
	if ep.chainNow > cfg.C0 {
		rn.res.Hit(fmt.Sprintf("heights-committed-%d", min(int(ep.chainNow-cfg.C0), 4)))
	}
	if len(script) < 100 {
		rn.res.Sample(6, map[string]any{"cfg": cfg, "script": scriptToks(script), "effects": effToks(ep.effects)})
	}
	rn.res.SetExtra("driver_timeout_channel_found", ep.timeoutCh != nil)
	// correspondence of the uncrashed run
	rn.ask(fmt.Sprintf("reset %d", cfg.C0))
	rn.bootModel(cfg, cfg.C0+1)
	rn.tie(ep, rp)
	rn.tieCommits(ep, rp)
	rn.hypotheses(ep, rp)
	rn.oracle(cfg, ep, lineage{props: map[[2]int][]string{}}, rp, -1, "")
	// the live state is a function of the log: same state as a fresh machine fed the node's own log
	if cfg.AppMode == "stable" {
		rn.res.Compared(1)
		if live, tw := dumpSM(ep.real), twinDump(cfg, ep.boot, ep.appended); live != tw {
			if unloggedQuorumVote(ep, len(ep.calls)) {
				rn.res.Hit("root-run-with-unlogged-future-quorum-precommit")
				violate(lib.Violation{Sig: "live-state-not-function-of-log" + f4,
					What: "the live machine's state is not what a fresh machine reaches on the node's own log: " + diffHint(live, tw), Replay: rp})
			} else if unloggedTrigger(ep, len(ep.calls)) {
				violate(lib.Violation{Sig: "live-state-not-function-of-log" + f5,
					What: "the live machine committed on an obsolete timeout that is not in the log; a fresh machine fed the node's own log does not commit: " + diffHint(live, tw), Replay: rp})
			} else {
				rn.res.Mismatch(lib.Mismatch{Sig: "hyp-live-state-not-function-of-log", Input: rp, Impl: diffHint(live, tw)})
			}
		}
	}
	rn.res.Case(fmt.Sprintf("%v|%v", *cfg, script), len(ep.effects) > 2)
	rn.explore(cfg, script, 0, ep, lineage{props: map[[2]int][]string{}}, 0, r, fixed)
	if fixed != nil {
		if rn.replayWF != nil && rn.replayWF.K < len(ep.effects) {
			rn.walFaulty(cfg, script, ep, *rn.replayWF)
		}
		return
	}
	rn.graceful(cfg, script, ep)
	if cfg.AppMode == "stable" {
		// silent network after the restart: prefer crash points right after a timer was armed
		var cand, other []int
		for k := 1; k <= len(ep.effects); k++ {
			if ep.pendAt[k] != 0 {
				continue
			}
			if strings.HasPrefix(ep.effects[k-1].Tok, "timer:") {
				cand = append(cand, k)
			} else {
				other = append(other, k)
			}
		}
		lib.Shuffle(r, cand)
		lib.Shuffle(r, other)
		cand = append(cand, other...)
		lim := rn.f.Scale(3, 8)
		if rn.exhaustive && !rn.deep {
			lim = len(cand)
		}
		for i := 0; i < len(cand) && i < lim; i++ {
			rn.silentNetwork(cfg, script, ep, cand[i])
		}
	}
	// the REAL log store fails to flush (walfault.go)
	switch {
	case rn.deep:
		rn.walFaults(cfg, script, ep, r, rn.minInput, 2)
	case rn.exhaustive:
		rn.walFaults(cfg, script, ep, r, 0, 0)
	default:
		rn.walFaults(cfg, script, ep, r, 0, rn.f.Scale(3, 8))
	}
	if rn.noFault {
		return
	}
	// the chain moved on WITHOUT the driver (blocks stored by the sync service while the validator
	// was down): restart on the image of a crash point with the chain 1 or 2 heights further
	for j := 0; j < 2 && len(ep.effects) > 0; j++ {
		k := r.Intn(len(ep.effects) + 1)
		ahead := ep.chainAt[k] + 1 + uint64(r.Intn(2))
		rp := Replay{Cfg: *cfg, Script: script, Kills: []Kill{{K: k}}, Note: fmt.Sprintf("restart with the chain at %d (ahead of the driver's last delivery %d)", ahead, ep.chainAt[k])}
		rec, err := startEpoch(cfg, rn.dir(), ep.snaps[ep.snapAt[k]], ahead, 1, -1)
		if err != nil {
			violate(lib.Violation{Sig: "restart-fails-with-chain-ahead", What: err.Error(), Replay: rp})
		}
		if rec != nil {
			for i := 0; err == nil && i < len(script); i++ {
				if script[i].K != "t" {
					err = rec.feed(i, script[i])
				}
			}
			rec.stop()
			lin := lineage{props: map[[2]int][]string{}}.extend(ep, k, Kill{K: k})
			lin.unlogged = true // no state oracle here: the log is behind the chain by construction
			rn.oracle(cfg, rec, lin, rp, bootBoundary(rec), "")
			rn.res.Hit("restart-with-chain-ahead")
			rn.res.Case(fmt.Sprintf("%v|%v|ahead%d@%d", *cfg, script, ahead, k), true)
			rec.cleanup()
		}
	}
	// fault injection at (a sample of) the flushes and commit deliveries of the run
	var fk []int
	var fa, fd []int
	for k, e := range ep.effects {
		if e.Tok == "flush" {
			fk = append(fk, k)
		}
		if strings.HasPrefix(e.Tok, "deliver:") {
			fd = append(fd, k)
		}
		if strings.HasPrefix(e.Tok, "append/") {
			fa = append(fa, k)
		}
	}
	lib.Shuffle(r, fk)
	lib.Shuffle(r, fa)
	lib.Shuffle(r, fd)
	for i := 0; i < len(fk) && i < rn.f.Scale(2, 4); i++ {
		rn.faulty(cfg, script, ep, fk[i], 0)
	}
	// a SetWALEntry that fails (the driver must stop before anything of that input becomes visible)
	for i := 0; i < len(fa) && i < rn.f.Scale(1, 3); i++ {
		rn.faulty(cfg, script, ep, fa[i], 0)
	}
	// a commit the listener refuses; with the real commit listener also: the process is told to stop
	// while the commit listener waits for the persister
	for i := 0; i < len(fd) && i < rn.f.Scale(1, 3); i++ {
		rn.faulty(cfg, script, ep, fd[i], 0)
		if cfg.AppMode == "store" {
			rn.faulty(cfg, script, ep, fd[i], 1)
			rn.faulty(cfg, script, ep, fd[i], 2)
			rn.faulty(cfg, script, ep, fd[i], 3)
		}
	}
}

// staleActionsProbe: driver.listen, sync branch: when the block fetcher reports an error the loop
// variable `actions` is not reset, and the `execute` after the select runs the PREVIOUS input's
// actions again. Not a C13 violation by itself (same votes again, duplicate log entries that replay
// ignores); recorded in the evidence so that the behaviour is known to be what the notes say.
func (rn *runner) staleActionsProbe() {
	cfg := &Cfg{Powers: []uint64{1, 1, 1, 1}, Tbl: []int{1, 2, 3, 0}, PMul: 1, Me: 3, C0: 0, AppMode: "stable"}
	ep, err := startEpoch(cfg, rn.dir(), "", cfg.C0, 0, -1)
	if err != nil {
		rn.res.Fatalf("stale-actions probe could not start: %v", err)
		return
	}
	defer ep.cleanup()
	ep.noDumps = true
	ep.noSentinel = true
	if err := ep.feed(0, Input{K: "p", H: 1, R: 0, Sender: 2, VR: -1, Val: 41}); err != nil {
		rn.res.Fatalf("stale-actions probe: %v", err)
	}
	if err := ep.feed(1, Input{K: "syncerr"}); err != nil {
		rn.res.Fatalf("stale-actions probe: %v", err)
	}
	ep.noSentinel = false
	if err := ep.sync(); err != nil {
		rn.res.Fatalf("stale-actions probe: %v", err)
	}
	// effects of the proposal: append, flush, prevote — anything after the first prevote is a repeat
	before := len(ep.effects)
	for i, e := range ep.effects {
		if strings.HasPrefix(e.Tok, "sv:") {
			before = i + 1
			break
		}
	}
	again := effToks(ep.effects[before:])
	ep.stop()
	rn.res.SetExtra("after_failed_block_fetch_the_driver_performs_the_previous_actions_again", again != "")
	fetchErrorResetsActions = again == ""
	if again != "" {
		rn.res.Hit("stale-actions-reexecuted-after-failed-block-fetch")
		for _, v := range votesOf(ep.effects[before:]) {
			for _, w := range votesOf(ep.effects[:before]) {
				if v.kind == w.kind && v.h == w.h && v.r == w.r && v.id != w.id {
					violate(lib.Violation{Sig: "conflicting-vote-from-stale-actions-after-failed-block-fetch", What: again, Replay: Replay{Cfg: *cfg}})
				}
			}
		}
	}
}

// realTimerProbe: everywhere else timers are armed for 24 h and the harness injects the timeouts into
// the driver's channel itself. Here the timers the driver arms are REAL (1 ms): they fire by
// themselves, through the driver's own AfterFunc closure and its scheduledTms bookkeeping, and the
// select loop hands the timeout to the state machine. A silent network of three rounds: propose
// timeout, (nil prevotes) prevote timeout, (nil precommits) precommit timeout, next round's propose
// timeout … Every timeout the state machine is called with must be exactly the one armed last (the
// model's assumption: a `setTimer st h r` effect is followed, if anything, by the input
// `timeout st h r`), and the node's votes are the nil votes of an uncrashed model run. Nothing here
// depends on how long a timer takes; the waits are bounded by the harness' step deadline only.
func (rn *runner) realTimerProbe() {
	cfg := &Cfg{Powers: []uint64{1, 1, 1, 1}, Tbl: []int{1, 2, 0}, PMul: 0, Me: 3, C0: 6, AppMode: "stable"}
	fired := make(chan string, 64)
	ep, err := startEpoch(cfg, rn.dir(), "", cfg.C0, 0, -1, func(e *epoch) { e.realTimers, e.firedCh, e.noDumps = true, fired, true })
	if err != nil {
		rn.res.Fatalf("real-timer probe could not start: %v", err)
		if ep != nil {
			ep.stop()
			ep.cleanup()
		}
		return
	}
	defer ep.cleanup()
	h := cfg.C0 + 1
	wait := func(want string) bool {
		dl, release := patient()
		defer release()
		select {
		case got := <-fired:
			rn.res.Compared(1)
			rn.res.Hit("real-timer-fired")
			if got != want {
				rn.res.Mismatch(lib.Mismatch{Sig: "real-timer-delivers-other-timeout-than-armed", Input: "armed " + want, Model: want, Impl: got})
				return false
			}
		case <-dl:
			rn.res.Fatalf("real-timer probe: the armed timer %s did not reach the state machine within %s", want, stepDeadline)
			return false
		}
		return ep.sync() == nil
	}
	ok := true
	for r := 0; r < 3 && ok; r++ {
		ok = wait(fmt.Sprintf("t:0:%d:%d", h, r)) // propose timeout -> prevote nil
		for s := 0; s < 2 && ok; s++ {
			ok = ep.feed(r*10+s, Input{K: "v", H: h, R: r, Sender: s, Nil: true}) == nil
		}
		ok = ok && wait(fmt.Sprintf("t:1:%d:%d", h, r)) // 2f+1 prevotes, no polka yet counted: prevote timeout -> precommit nil
		for s := 0; s < 2 && ok; s++ {
			ok = ep.feed(r*10+5+s, Input{K: "c", H: h, R: r, Sender: s, Nil: true}) == nil
		}
		ok = ok && wait(fmt.Sprintf("t:2:%d:%d", h, r)) // precommit timeout -> next round
	}
	// a timer that is still pending when the process stops (the next round's propose timer may or may
	// not have fired): Run must return
	ep.stop()
	for _, e := range ep.errs {
		rn.res.Mismatch(lib.Mismatch{Sig: "real-timer-probe-error", Impl: e})
	}
	var votes []string
	for _, v := range votesOf(ep.effects) {
		votes = append(votes, fmt.Sprintf("%s:%d:%d:%s", v.kind, v.h, v.r, v.id))
	}
	want := []string{}
	for r := 0; r < 3; r++ {
		want = append(want, fmt.Sprintf("sv:%d:%d:nil", h, r), fmt.Sprintf("sc:%d:%d:nil", h, r))
	}
	rn.res.Compared(1)
	if len(votes) > len(want) {
		votes = votes[:len(want)] // round 3's propose timer may have fired before the stop
	}
	if ok && strings.Join(votes, " ") != strings.Join(want, " ") {
		rn.res.Mismatch(lib.Mismatch{Sig: "real-timer-probe-votes", Model: strings.Join(want, " "), Impl: strings.Join(votes, " ")})
	}
	rn.res.SetExtra("real_timers_deliver_the_armed_timeout", ok)
}

// longRun: the node (never proposer, 3 equal validators, quorum = own vote + one peer) is driven
// through `heights` committed heights on the happy path within ONE process lifetime — enough for
// the log store's periodic cleanup (every 256 prune records: watermark file, rotation, removal of
// obsolete log files, which leaves a gap in the file numbering) — and then into a further height
// that does not commit: proposal, polka, precommit, round change, second proposal. The crash
// points of that last height (first level exhaustive, second level exhaustive) include "restart,
// flush again, restart again" on a log directory that went through the cleanup.
func longRun(heights int) (*Cfg, []Input, int) {
	cfg := &Cfg{Powers: []uint64{1, 1, 1}, Tbl: []int{0, 1}, PMul: 1, Me: 2, C0: 0, AppMode: "stable"}
	var s []Input
	val := func(h uint64) uint64 {
		v := h*1000 + 600
		for !validVal(v) {
			v++
		}
		return v
	}
	for h := uint64(1); h <= uint64(heights); h++ {
		pr := cfg.proposerIdx(h, 0)
		s = append(s, Input{K: "p", H: h, R: 0, Sender: pr, VR: -1, Val: val(h)},
			Input{K: "v", H: h, R: 0, Sender: 0, Val: val(h)}, Input{K: "c", H: h, R: 0, Sender: 0, Val: val(h)})
	}
	last := len(s)
	h := uint64(heights + 1)
	s = append(s, Input{K: "p", H: h, R: 0, Sender: cfg.proposerIdx(h, 0), VR: -1, Val: val(h)},
		Input{K: "v", H: h, R: 0, Sender: 0, Val: val(h)},
		Input{K: "c", H: h, R: 0, Sender: 0, Nil: true},
		Input{K: "t", Step: 2, H: h, R: 0},
		Input{K: "p", H: h, R: 1, Sender: cfg.proposerIdx(h, 1), VR: -1, Val: val(h) + 7},
		Input{K: "v", H: h, R: 1, Sender: 1, Val: val(h) + 7},
		Input{K: "v", H: h + 1, R: 0, Sender: 0, Val: val(h + 1)})
	return cfg, s, last
}

// longRunEarly: like longRun, but messages of the two heights AFTER the last committed one arrive
// early — before the commit that triggers the store's cleanup — and are not sent again: the
// proposal of height heights+1 (two heights ahead when it arrives), a prevote for it, and a prevote
// of height heights+2. They are recorded in the log file that the cleanup rotates away from; that
// file must survive the cleanup (it is still referenced by live heights), and a node restarted in
// height heights+1 must find them: it prevoted the early proposal right after `start`.
func longRunEarly(heights int) (*Cfg, []Input, int) {
	cfg := &Cfg{Powers: []uint64{1, 1, 1}, Tbl: []int{0, 1}, PMul: 1, Me: 2, C0: 0, AppMode: "stable"}
	var s []Input
	val := func(h uint64) uint64 {
		v := h*1000 + 600
		for !validVal(v) {
			v++
		}
		return v
	}
	n := uint64(heights)
	for h := uint64(1); h <= n; h++ {
		pr := cfg.proposerIdx(h, 0)
		s = append(s, Input{K: "p", H: h, R: 0, Sender: pr, VR: -1, Val: val(h)})
		if h == n-1 {
			s = append(s, Input{K: "p", H: n + 1, R: 0, Sender: cfg.proposerIdx(n+1, 0), VR: -1, Val: val(n + 1)})
		}
		if h == n {
			s = append(s, Input{K: "v", H: n + 1, R: 0, Sender: 1, Val: val(n + 1)}, Input{K: "v", H: n + 2, R: 0, Sender: 0, Val: val(n + 2)})
		}
		s = append(s, Input{K: "v", H: h, R: 0, Sender: 0, Val: val(h)}, Input{K: "c", H: h, R: 0, Sender: 0, Val: val(h)})
	}
	last := len(s)
	h := n + 1
	s = append(s, Input{K: "c", H: h, R: 0, Sender: 0, Nil: true},
		Input{K: "t", Step: 0, H: h, R: 0}, // obsolete: the node prevoted the early proposal at once
		Input{K: "c", H: h, R: 0, Sender: 1, Nil: true},
		Input{K: "t", Step: 2, H: h, R: 0},
		Input{K: "p", H: h, R: 1, Sender: cfg.proposerIdx(h, 1), VR: -1, Val: val(h) + 7},
		Input{K: "v", H: h, R: 1, Sender: 1, Val: val(h) + 7})
	return cfg, s, last
}

func scriptToks(s []Input) string {
	t := make([]string, len(s))
	for i, in := range s {
		t[i] = in.String()
	}
	return strings.Join(t, " ")
}

func scratchBase() string {
	for _, d := range []string{"/dev/shm", os.TempDir()} {
		b := filepath.Join(d, "aC13")
		if os.MkdirAll(b, 0o755) == nil {
			if p, err := os.MkdirTemp(b, "run-"); err == nil {
				return p
			}
		}
	}
	p, _ := os.MkdirTemp("", "aC13-")
	return p
}

// directed scenarios: small, exhaustively crashed. The first is DESIGN §7 L7.
func directed() []Replay {
	eq4 := []uint64{1, 1, 1, 1}
	return []Replay{
		{Note: "proposer of its first height, value source changes across restarts",
			Cfg: Cfg{Powers: eq4, Tbl: []int{0, 1, 2, 3}, PMul: 0, Me: 0, C0: 3, AppMode: "fresh"}, Script: []Input{}},
		{Note: "proposer of round 1 after a nil round, value source changes across restarts",
			Cfg: Cfg{Powers: eq4, Tbl: []int{1, 0, 2, 3}, PMul: 0, Me: 0, C0: 1, AppMode: "fresh"},
			Script: []Input{{K: "t", Step: 0, H: 2, R: 0}, {K: "v", H: 2, R: 0, Sender: 1, Nil: true}, {K: "v", H: 2, R: 0, Sender: 2, Nil: true},
				{K: "c", H: 2, R: 0, Sender: 1, Nil: true}, {K: "c", H: 2, R: 0, Sender: 2, Nil: true}, {K: "t", Step: 2, H: 2, R: 0},
				{K: "v", H: 2, R: 1, Sender: 1, Nil: true}}},
		{Note: "proposer whose value gets a polka and its precommit; value source changes across restarts; the prevote timer fires after the restart",
			Cfg:    Cfg{Powers: eq4, Tbl: []int{0, 1, 2, 3}, PMul: 0, Me: 0, C0: 3, AppMode: "fresh"},
			Script: []Input{{K: "v", H: 4, R: 0, Sender: 1, Val: 4001}, {K: "v", H: 4, R: 0, Sender: 2, Val: 4001}, {K: "t", Step: 1, H: 4, R: 0}}},
		{Note: "validity = 'build result in the in-memory proposal store' (as consensus/proposer): non-proposer prevotes and precommits a value, restarts, replays with an empty store",
			Cfg: Cfg{Powers: eq4, Tbl: []int{1, 2, 3, 0}, PMul: 1, Me: 3, C0: 0, AppMode: "store"},
			Script: []Input{{K: "p", H: 1, R: 0, Sender: 2, VR: -1, Val: 41}, {K: "v", H: 1, R: 0, Sender: 0, Val: 41}, {K: "v", H: 1, R: 0, Sender: 1, Val: 41},
				{K: "c", H: 1, R: 0, Sender: 0, Val: 41}, {K: "c", H: 1, R: 0, Sender: 1, Val: 41}, {K: "v", H: 2, R: 0, Sender: 0, Val: 53}}},
		{Note: "in-memory proposal store: polka and precommit for a value, restart, prevote timeout fires",
			Cfg: Cfg{Powers: eq4, Tbl: []int{1, 2, 3, 0}, PMul: 1, Me: 3, C0: 0, AppMode: "store"},
			Script: []Input{{K: "p", H: 1, R: 0, Sender: 2, VR: -1, Val: 41}, {K: "v", H: 1, R: 0, Sender: 0, Val: 41}, {K: "v", H: 1, R: 0, Sender: 1, Val: 41},
				{K: "t", Step: 1, H: 1, R: 0}}},
		{Note: "non-proposer, two heights on the happy path, stable value source",
			Cfg: Cfg{Powers: eq4, Tbl: []int{1, 2, 3, 0}, PMul: 1, Me: 3, C0: 0, AppMode: "stable"},
			Script: []Input{{K: "p", H: 1, R: 0, Sender: 2, VR: -1, Val: 41}, {K: "v", H: 1, R: 0, Sender: 0, Val: 41}, {K: "v", H: 1, R: 0, Sender: 1, Val: 41},
				{K: "v", H: 2, R: 0, Sender: 0, Val: 53}, {K: "c", H: 1, R: 0, Sender: 0, Val: 41}, {K: "c", H: 1, R: 0, Sender: 1, Val: 41},
				{K: "p", H: 2, R: 0, Sender: 3, VR: -1, Val: 53}, {K: "p", H: 2, R: 0, Sender: 0, VR: -1, Val: 53}, {K: "v", H: 2, R: 0, Sender: 1, Val: 53},
				{K: "c", H: 2, R: 0, Sender: 0, Val: 53}, {K: "c", H: 2, R: 0, Sender: 2, Val: 53}}},
		{Note: "proposer with a stable value source: propose, polka, commit, next height",
			Cfg: Cfg{Powers: eq4, Tbl: []int{2}, PMul: 0, Me: 2, C0: 2, AppMode: "stable"},
			Script: []Input{{K: "v", H: 3, R: 0, Sender: 0, Val: 3001}, {K: "v", H: 3, R: 0, Sender: 1, Val: 3001},
				{K: "c", H: 3, R: 0, Sender: 0, Val: 3001}, {K: "c", H: 3, R: 0, Sender: 1, Val: 3001}, {K: "v", H: 4, R: 0, Sender: 0, Val: 4001}}},
		{Note: "timeouts decide the votes: propose timeout, prevote timeout, precommit timeout, then a proposal arrives late",
			Cfg: Cfg{Powers: eq4, Tbl: []int{1, 2}, PMul: 0, Me: 0, C0: 0, AppMode: "stable"},
			Script: []Input{{K: "t", Step: 0, H: 1, R: 0}, {K: "p", H: 1, R: 0, Sender: 1, VR: -1, Val: 77}, {K: "v", H: 1, R: 0, Sender: 1, Val: 77},
				{K: "v", H: 1, R: 0, Sender: 2, Val: 77}, {K: "t", Step: 1, H: 1, R: 0}, {K: "v", H: 1, R: 0, Sender: 3, Val: 77},
				{K: "c", H: 1, R: 0, Sender: 1, Val: 77}, {K: "c", H: 1, R: 0, Sender: 2, Nil: true}, {K: "t", Step: 2, H: 1, R: 0},
				{K: "p", H: 1, R: 1, Sender: 2, VR: -1, Val: 78}}},
		{Note: "the proposer's next height is decided by messages that arrived early: ProcessStart itself commits",
			Cfg: Cfg{Powers: []uint64{1, 1, 1}, Tbl: []int{1, 0, 0}, PMul: 1, Me: 0, C0: 0, AppMode: "stable"},
			Script: []Input{{K: "v", H: 2, R: 0, Sender: 1, Val: 2001}, {K: "v", H: 1, R: 0, Sender: 2, Val: 1001}, {K: "c", H: 2, R: 0, Sender: 1, Val: 2001},
				{K: "c", H: 1, R: 0, Sender: 2, Val: 1001}, {K: "p", H: 3, R: 0, Sender: 1, VR: -1, Val: 3510}, {K: "v", H: 3, R: 0, Sender: 1, Val: 3510}}},
		{Note: "a proposal arrives TWO heights early; two heights are decided in the same process; at its height it is not sent again and the (obsolete) propose timer fires",
			Cfg: Cfg{Powers: eq4, Tbl: []int{1, 2}, PMul: 1, Me: 3, C0: 0, AppMode: "stable"},
			Script: []Input{{K: "p", H: 3, R: 0, Sender: 2, VR: -1, Val: 64}, {K: "v", H: 3, R: 0, Sender: 0, Val: 64},
				{K: "p", H: 1, R: 0, Sender: 2, VR: -1, Val: 41}, {K: "v", H: 1, R: 0, Sender: 0, Val: 41}, {K: "v", H: 1, R: 0, Sender: 1, Val: 41},
				{K: "c", H: 1, R: 0, Sender: 0, Val: 41}, {K: "c", H: 1, R: 0, Sender: 1, Val: 41},
				{K: "p", H: 2, R: 0, Sender: 1, VR: -1, Val: 53}, {K: "v", H: 2, R: 0, Sender: 0, Val: 53}, {K: "v", H: 2, R: 0, Sender: 1, Val: 53},
				{K: "c", H: 2, R: 0, Sender: 0, Val: 53}, {K: "c", H: 2, R: 0, Sender: 1, Val: 53},
				{K: "t", Step: 0, H: 3, R: 0}, {K: "v", H: 3, R: 0, Sender: 1, Val: 64}, {K: "c", H: 3, R: 0, Sender: 0, Val: 64}}},
		{Note: "messages of the next height arrive early and decide the node's votes there; obsolete timers fire late",
			Cfg: Cfg{Powers: eq4, Tbl: []int{1, 2}, PMul: 1, Me: 3, C0: 0, AppMode: "stable"},
			Script: []Input{{K: "p", H: 1, R: 0, Sender: 2, VR: -1, Val: 41}, {K: "v", H: 1, R: 0, Sender: 0, Val: 41}, {K: "v", H: 1, R: 0, Sender: 1, Val: 41},
				{K: "p", H: 2, R: 0, Sender: 1, VR: -1, Val: 53}, {K: "v", H: 2, R: 0, Sender: 0, Val: 53}, {K: "v", H: 2, R: 0, Sender: 1, Val: 53},
				{K: "c", H: 1, R: 0, Sender: 0, Val: 41}, {K: "c", H: 1, R: 0, Sender: 1, Val: 41},
				{K: "t", Step: 0, H: 2, R: 0}, {K: "t", Step: 1, H: 2, R: 0},
				{K: "c", H: 2, R: 0, Sender: 0, Val: 53}, {K: "c", H: 2, R: 0, Sender: 1, Val: 53}}},
		{Note: "F5: a late prevote of round 0 completes the polka of the re-proposed value; the node's own round-1 prevote and precommit complete the quorums; the commit stays pending until the obsolete PROPOSE timer of round 1 fires; then height 2 goes on",
			Cfg: Cfg{Powers: eq4, Tbl: []int{1, 0}, PMul: 0, Me: 3, C0: 0, AppMode: "stable"},
			Script: append(pendingCommitScript(1, 0, 41), Input{K: "t", Step: 0, H: 1, R: 1},
				Input{K: "p", H: 2, R: 0, Sender: 1, VR: -1, Val: 53}, Input{K: "v", H: 2, R: 0, Sender: 0, Val: 53}, Input{K: "v", H: 2, R: 0, Sender: 1, Val: 53})},
		{Note: "F5 at a later height: the pending commit is taken when the obsolete PREVOTE timer of round 1 fires; a further round-1 precommit arrives after it",
			Cfg: Cfg{Powers: eq4, Tbl: []int{1, 0}, PMul: 0, Me: 3, C0: 2, AppMode: "stable"},
			Script: append(pendingCommitScript(3, 0, 3011), Input{K: "t", Step: 1, H: 3, R: 1},
				Input{K: "c", H: 3, R: 1, Sender: 2, Val: 3011})},
		{Note: "in-memory proposal store, third consequence: after the restart the replayed proposal is 'invalid' until its build result arrives again (the duplicate proposal); a third prevote completes the polka; then the obsolete propose timer makes the node precommit — an unlogged input with a visible effect",
			Cfg: Cfg{Powers: eq4, Tbl: []int{1, 2, 3, 0}, PMul: 1, Me: 3, C0: 0, AppMode: "store"},
			Script: []Input{{K: "p", H: 1, R: 0, Sender: 2, VR: -1, Val: 41}, {K: "v", H: 1, R: 0, Sender: 0, Val: 41}, {K: "v", H: 1, R: 0, Sender: 1, Val: 41},
				{K: "v", H: 1, R: 0, Sender: 2, Val: 41}, {K: "p", H: 1, R: 0, Sender: 2, VR: -1, Val: 41}, {K: "t", Step: 0, H: 1, R: 0}}},
		{Note: "the same situation, but the next input is a round-1 message (logged): the pending commit is taken by a logged input",
			Cfg: Cfg{Powers: eq4, Tbl: []int{1, 0}, PMul: 0, Me: 3, C0: 0, AppMode: "stable"},
			Script: append(pendingCommitScript(1, 0, 41), Input{K: "c", H: 1, R: 1, Sender: 2, Val: 41},
				Input{K: "t", Step: 0, H: 1, R: 1})},
	}
}

func main() {
	f := lib.ParseFlags()
	res := lib.NewResult("one case = one process history of the real driver: (validator set, role, input script) for the uncrashed run, " +
		"plus (crash point[, second crash point]) for each simulated death/restart; non-trivial = the run performed more than the boot effects, " +
		"or the restarted process found a non-empty log / its predecessors had broadcast votes")
	base := scratchBase()
	defer os.RemoveAll(base)
	res.SetExtra("scratch", filepath.Dir(base))
	res.SetExtra("real_machine_logs_future_quorum_precommit", futureQuorumLogged)
	res.SetExtra("real_machine_ignores_obsolete_timeouts_completely", ignoredTimeoutInert)
	if !futureQuorumLogged {
		// regression of b154634
		violate(lib.Violation{Sig: "future-quorum-precommit-counted-but-not-logged",
			What:   "probe on the real state machine: the precommit that completes a quorum of a future height returns no WriteWAL although it is counted",
			Replay: Replay{Note: "4 equal validators, node 4 at height 1 after ProcessStart: precommits c:3:0:{1,2,3}:9"}})
	}

	(&runner{f: f, res: res, base: filepath.Join(base, "probe")}).staleActionsProbe()
	(&runner{f: f, res: res, base: filepath.Join(base, "probe2")}).realTimerProbe()

	if f.Replay != "" {
		var file struct {
			Replay Replay `json:"replay"`
		}
		b, err := os.ReadFile(f.Replay)
		if err == nil {
			err = json.Unmarshal(b, &file)
		}
		if err != nil {
			res.Fatalf("cannot read replay: %v", err)
			lib.Finish(f, res)
		}
		drv := startModel(f, res)
		rn := &runner{f: f, res: res, drv: drv, base: base}
		kills := file.Replay.Kills
		if kills == nil {
			kills = []Kill{}
		}
		cfg := file.Replay.Cfg
		rn.replayWF = file.Replay.Fault
		if cfg.Sync {
			rn.syncCase(&cfg, append([]Input{}, file.Replay.Script...), nil, lib.NewRNG(f.Seed), true)
		} else {
			rn.rootCase(&cfg, append([]Input{}, file.Replay.Script...), 0, lib.NewRNG(f.Seed), kills)
		}
		os.RemoveAll(base)
		flushViolations(res)
		lib.Finish(f, res)
	}

	type job struct {
		cfg    *Cfg
		script []Input
		n      int
		id     uint64
		minIn  int
		long   bool
		early  bool
		sync   bool
	}
	var jobs []job
	for i, d := range directed() {
		c := d.Cfg
		jobs = append(jobs, job{cfg: &c, script: append([]Input{}, d.Script...), id: uint64(1000 + i)})
	}
	// 256 committed heights: the crashed height is the one right after the first cleanup (a
	// watermark or numbering error of the cleanup shows there); thorough: also two heights later
	// and right after the second cleanup
	for i, hts := range []int{256, f.Scale(0, 258), f.Scale(0, 512)} {
		if hts > 0 {
			c, sc, last := longRun(hts)
			// crash points from the first input of the LAST COMMITTED height on: the commit that runs the
			// cleanup (256th prune record) lies inside the explored window, the height after it, too
			jobs = append([]job{{cfg: c, script: sc, id: uint64(2000 + i), minIn: last - 3, long: true}}, jobs...)
		}
	}
	{
		// messages of heights 257 / 258 recorded before the 256th commit (the cleanup must keep their file)
		c, sc, last := longRunEarly(256)
		jobs = append([]job{{cfg: c, script: sc, id: 2100, minIn: last - 5, long: true, early: true}}, jobs...)
	}
	for i, d := range syncDirected() {
		c := d.Cfg
		jobs = append(jobs, job{cfg: &c, script: append([]Input{}, d.Script...), id: uint64(3000 + i), sync: true})
	}
	root := lib.NewRNG(f.Seed)
	for i := 0; i < f.Scale(24, 200); i++ {
		r := root.Fork(uint64(5000 + i))
		c := &Cfg{Powers: []uint64{1, 1, 1, 1}, Tbl: []int{1, 0, 2}, PMul: lib.Pick(r, []int{1, 0, 2}), Me: 3, C0: uint64(r.Intn(3)), AppMode: "stable", Sync: true}
		if r.Chance(1, 3) {
			c.Powers = []uint64{1, 1, 1, 1, 1}
			c.Tbl = []int{1, 0, 2, 4}
		}
		jobs = append(jobs, job{cfg: c, n: r.Range(6, 30), id: uint64(5000 + i), sync: true})
	}
	nRandom := f.Scale(160, 1200)
	for i := 0; i < nRandom; i++ {
		r := root.Fork(uint64(i))
		cfg := genCfg(r)
		if i%10 == 9 {
			cfg.AppMode = "fresh"
		}
		if i%10 == 4 {
			cfg.AppMode = "store"
		}
		n := r.Range(4, f.Scale(26, 40))
		if i%7 == 3 {
			n = 48 // long in-process runs over several heights (mostly happy rounds), crashed late too
		}
		jobs = append(jobs, job{cfg: cfg, n: n, id: uint64(i)})
	}
	if only := os.Getenv("C13_ONLY"); only != "" { // debugging aid: run one family only
		var keep []job
		for _, j := range jobs {
			if (strings.HasPrefix(only, "sync")) == j.sync && (only == "sync" || only == "nosync" || fmt.Sprintf("sync%d", j.id) == only) {
				keep = append(keep, j)
			}
		}
		jobs = keep
	}
	workers := 12
	ch := make(chan job)
	var wg sync.WaitGroup
	for w := 0; w < workers; w++ {
		wg.Add(1)
		go func(w int) {
			defer wg.Done()
			drv := startModel(f, res)
			rn := &runner{f: f, res: res, drv: drv, base: filepath.Join(base, fmt.Sprintf("w%d", w))}
			for j := range ch {
				rn.exhaustive = j.script != nil
				rn.minInput, rn.deep, rn.noFault, rn.earlyLong = j.minIn, j.long, j.long, j.early
				if j.long {
					rn.res.Hit("long-run-family")
				}
				if j.sync {
					rr := root.Fork(j.id + 7777)
					if j.script != nil {
						rn.syncCase(j.cfg, j.script, nil, rr, true)
					} else {
						rn.syncCase(j.cfg, nil, syncGen(j.cfg, rr, j.n), rr, false)
					}
					rn.res.Hit("sync-family")
					continue
				}
				rn.rootCase(j.cfg, j.script, j.n, root.Fork(j.id+7777), nil)
			}
			if drv != nil {
				drv.Close()
			}
		}(w)
	}
	for _, j := range jobs {
		ch <- j
	}
	close(ch)
	wg.Wait()
	os.RemoveAll(base)
	flushViolations(res)
	lib.Finish(f, res)
}
