//go:build verif

package main

// The block-sync path of the driver with the REAL p2p/sync.BlockFetcher and the real
// consensus/sync.MessageExtractor: the fetcher's network client is given a stream function of this
// harness (its only non-public access: the unexported `client` field is located by type), so that a
// fetch the driver launches is OBSERVED (block number decoded from the request it writes) and stays
// pending until the process stops; fetch results are injected into the driver's sync channel.

import (
	"context"
	"fmt"
	"io"
	"os"
	"reflect"
	"sort"
	"strings"
	"sync"
	"time"
	"unsafe"

	"github.com/NethermindEth/juno/blockchain/networks"
	"github.com/NethermindEth/juno/consensus/proposal"
	consensusSync "github.com/NethermindEth/juno/consensus/sync"
	"github.com/NethermindEth/juno/consensus/types"
	"github.com/NethermindEth/juno/core"
	"github.com/NethermindEth/juno/core/felt"
	p2psync "github.com/NethermindEth/juno/p2p/sync"
	"github.com/NethermindEth/juno/utils/log"
	"github.com/libp2p/go-libp2p/core/network"
	"github.com/libp2p/go-libp2p/core/protocol"
	"github.com/starknet-io/starknet-p2p-specs/p2p/proto/sync/header"
	"google.golang.org/protobuf/proto"
	"verif/harness/lib"
)

var pseudoSender = A(consensusSync.SyncProtocolPrecommitSender)

// syncSide is what an epoch in sync mode has besides the usual sinks.
type syncSide struct {
	mu       sync.Mutex
	fetches  []uint64 // block numbers of the fetches the driver launched, in order of arrival at the stream
	compared int      // how many of them have been compared with the model (cmpFetches)
	lq       *types.Height
	store    *proposal.ProposalStore[H]
	reached  []string // messages carrying the pseudo-sender that reached the state machine
	// release ends the pending fetches when the process stops (they then end without an error: a fetch
	// error put on the sync channel at shutdown could still be taken by the select loop, which would
	// execute the previous actions once more — nondeterministic)
	release     chan struct{}
	releaseOnce sync.Once
}

func (s *syncSide) releaseAll() { s.releaseOnce.Do(func() { close(s.release) }) }

func (s *syncSide) note(n uint64) {
	s.mu.Lock()
	s.fetches = append(s.fetches, n)
	s.mu.Unlock()
}

func (s *syncSide) fetched() []uint64 {
	s.mu.Lock()
	defer s.mu.Unlock()
	return append([]uint64{}, s.fetches...)
}

// fetchStream is the stream the fetcher's client gets. The first request of a fetch (block headers)
// is accepted, its block number noted, and then stays unanswered until the process stops; then it —
// and the streams of the fetch's other requests — answer with an empty response (EOF), so that
// ProcessBlock ends WITHOUT an error and nothing is put on the driver's sync channel at shutdown.
type fetchStream struct {
	network.Stream
	side    *syncSide
	headers bool
	buf     []byte
}

func (f *fetchStream) SetReadDeadline(time.Time) error { return nil }
func (f *fetchStream) ID() string                      { return "c13" }
func (f *fetchStream) Close() error                    { return nil }
func (f *fetchStream) Reset() error                    { return nil }
func (f *fetchStream) Read([]byte) (int, error)        { return 0, io.EOF }
func (f *fetchStream) Write(p []byte) (int, error) {
	f.buf = append(f.buf, p...)
	return len(p), nil
}

func (f *fetchStream) CloseWrite() error {
	if f.headers {
		var req header.BlockHeadersRequest
		n := ^uint64(0)
		if proto.Unmarshal(f.buf, &req) == nil && req.Iteration != nil {
			n = req.Iteration.GetBlockNumber()
		}
		f.side.note(n)
	}
	<-f.side.release
	return nil
}

// newFetcher builds a real BlockFetcher whose client opens fetchStreams.
func newFetcher(side *syncSide) (*p2psync.BlockFetcher, error) {
	logger := log.NewNopZapLogger()
	nw := networks.Sepolia
	bf := p2psync.NewBlockFetcher(nil, nil, nil, &nw, logger)
	cl := p2psync.NewClient(func(_ context.Context, pids ...protocol.ID) (network.Stream, error) {
		hd := false
		for _, p := range pids {
			hd = hd || strings.Contains(string(p), "/headers/")
		}
		return &fetchStream{side: side, headers: hd}, nil
	}, &nw, logger)
	v := reflect.ValueOf(&bf).Elem()
	for i := 0; i < v.NumField(); i++ {
		if v.Field(i).Type() == reflect.TypeOf(cl) {
			*(**p2psync.Client)(unsafe.Pointer(v.Field(i).UnsafeAddr())) = cl
			return &bf, nil
		}
	}
	return nil, fmt.Errorf("the block fetcher's client field was not found (reflect lookup by type)")
}

// lastQuorumPtr finds the driver's own `lastQuorum` (its only field of type types.Height).
func lastQuorumPtr(d any) *types.Height {
	v := reflect.ValueOf(d).Elem()
	want := reflect.TypeOf(types.Height(0))
	var p *types.Height
	for i := 0; i < v.NumField(); i++ {
		if v.Field(i).Type() == want {
			if p != nil {
				return nil // ambiguous
			}
			p = (*types.Height)(unsafe.Pointer(v.Field(i).UnsafeAddr()))
		}
	}
	return p
}

func toValueOf(f *felt.Felt) V { return V(*f) }

// blockBody: what the fetcher delivers for a block of height h with hash val, built by validator seq.
func blockBody(h, val uint64, seq int) p2psync.BlockBody {
	hash := felt.FromUint64[felt.Felt](val)
	sa := felt.Felt(addrOf(seq))
	return p2psync.BlockBody{
		Block:       &core.Block{Header: &core.Header{Hash: &hash, Number: h, SequencerAddress: &sa}},
		StateUpdate: &core.StateUpdate{StateDiff: &core.StateDiff{}},
		Commitments: &core.BlockCommitments{},
	}
}

// syncRound: the round the extractor will find for a block of height h built by validator seq
// (MessageExtractor.findRound: the first round of which seq is the proposer); -1 if none below 64
// (the extractor would loop for ever).
func (c *Cfg) syncRound(h uint64, seq int) int {
	for r := 0; r < 64; r++ {
		if c.proposerIdx(h, r) == seq {
			return r
		}
	}
	return -1
}

// ---------------------------------------------------------------------------------------------

// modelX: one answer of the Lean driver in sync mode: `<flag> <effects> | <actions> | <fetches> lq=<n>`.
type modelX struct {
	effs, acts, fetches string
	lq                  uint64
	ok                  bool
}

func parseX(ans string) modelX {
	f := strings.Split(ans, "|")
	if len(f) != 3 {
		return modelX{}
	}
	m := modelX{ok: true}
	m.effs = canonModel(strings.TrimSpace(strings.TrimPrefix(strings.TrimPrefix(strings.TrimSpace(f[0]), "0"), "1")))
	m.acts = strings.TrimSpace(f[1])
	for _, t := range strings.Fields(f[2]) {
		if strings.HasPrefix(t, "lq=") {
			m.lq = uint64(atoi(t[3:]))
		} else {
			m.fetches = strings.TrimSpace(m.fetches + " " + t)
		}
	}
	return m
}

func u64s(xs []uint64) string {
	s := make([]string, len(xs))
	for i, x := range xs {
		s[i] = fmt.Sprint(x)
	}
	return strings.Join(s, " ")
}

// stripSync removes the model's `sync:` marker effects (driver.triggerSync has no sink of its own).
func stripSync(effs string) string {
	var s []string
	for _, t := range strings.Fields(effs) {
		if !strings.HasPrefix(t, "sync:") {
			s = append(s, t)
		}
	}
	return strings.Join(s, " ")
}

// ---------------------------------------------------------------------------------------------
// the sync family

func (rn *runner) bootModelX(cfg *Cfg, height uint64) {
	pw := make([]string, len(cfg.Powers))
	for i, p := range cfg.Powers {
		pw[i] = fmt.Sprint(p)
	}
	tb := make([]string, len(cfg.Tbl))
	for i, t := range cfg.Tbl {
		tb[i] = fmt.Sprint(t)
	}
	rn.ask(fmt.Sprintf("env %d %d %s %s sync", cfg.Me+1, cfg.PMul, strings.Join(pw, ","), strings.Join(tb, ",")))
	rn.ask(fmt.Sprintf("boot %d", height))
}

func effsOfCall(ep *epoch, ci, from, to int) []Effect {
	var out []Effect
	for _, e := range ep.effects[from:to] {
		if e.Call == ci {
			out = append(out, e)
		}
	}
	return out
}

// cmpX compares one event: effects, cumulative fetches (waited for), lastQuorum, and — for a call —
// the actions of the model machine with those of the real one.
// lqAfter < 0: the event has just been performed (lock-step): lastQuorum is read from the driver and
// the fetches launched so far are compared; otherwise (a call of the replay phase, looked at later)
// lqAfter is the driver's lastQuorum right after the call and fetches are compared by the caller.
func (rn *runner) cmpX(ep *epoch, effs []Effect, what, in, ans string, acts []string, want *[]string, rp any, lqAfter int64) {
	m := parseX(ans)
	rn.res.Compared(4)
	if !m.ok {
		rn.res.Mismatch(lib.Mismatch{Sig: "sync-" + what + "-model-answer", Input: rp, Model: ans, Impl: in})
		return
	}
	if acts != nil && strings.Join(acts, " ") != m.acts {
		rn.res.Mismatch(lib.Mismatch{Sig: "sync-state-machine-actions-" + what, Input: rp, Model: ans, Impl: in + " -> " + strings.Join(acts, " ")})
		return
	}
	if got := canonEffs(effs); got != stripSync(m.effs) {
		rn.res.Mismatch(lib.Mismatch{Sig: "sync-execute-effects-" + what, Input: rp, Model: ans, Impl: in + " -> " + got})
	}
	if m.fetches != "" {
		*want = append(*want, strings.Fields(m.fetches)...)
		rn.res.HitN("sync-fetch-launched", len(strings.Fields(m.fetches)))
	}
	if ep.side.lq == nil {
		rn.res.Fatalf("the driver's lastQuorum field was not found (reflect lookup by type)")
		return
	}
	if lqAfter >= 0 {
		if uint64(lqAfter) != m.lq {
			rn.res.Mismatch(lib.Mismatch{Sig: "sync-last-quorum-" + what, Input: rp, Model: ans, Impl: fmt.Sprintf("%s -> lastQuorum=%d", in, lqAfter)})
		}
		return
	}
	rn.cmpFetches(ep, what, in, want, rp)
	if uint64(*ep.side.lq) != m.lq {
		rn.res.Mismatch(lib.Mismatch{Sig: "sync-last-quorum-" + what, Input: rp, Model: ans, Impl: fmt.Sprintf("%s -> lastQuorum=%d", in, uint64(*ep.side.lq))})
	}
}

// cmpFetches: fetches are launched in goroutines: wait until as many as the model expects have
// arrived at the stream, then compare the whole sequence.
func (rn *runner) cmpFetches(ep *epoch, what, in string, want *[]string, rp any) {
	dl := time.Now().Add(stepDeadline)
	for len(ep.side.fetched()) < len(*want) && time.Now().Before(dl) {
		time.Sleep(200 * time.Microsecond)
	}
	// Each fetch runs in a goroutine of its own (`d.wg.Go`): the fetches launched by ONE event reach the
	// stream in either order. All fetches of earlier events have arrived before this event was handed over
	// (this function waited for them), so the sequences are compared as: equal prefix (already compared),
	// then the same multiset for this event.
	got := strings.Fields(u64s(ep.side.fetched()))
	n := ep.side.compared
	if n > len(got) {
		n = len(got)
	}
	if n > len(*want) {
		n = len(*want)
	}
	g, w := append([]string{}, got[n:]...), append([]string{}, (*want)[n:]...)
	sort.Strings(g)
	sort.Strings(w)
	if strings.Join(got[:n], " ") != strings.Join((*want)[:n], " ") || strings.Join(g, " ") != strings.Join(w, " ") {
		rn.res.Mismatch(lib.Mismatch{Sig: "sync-fetches-" + what, Input: rp, Model: strings.Join(*want, " "), Impl: in + " -> " + strings.Join(got, " ")})
	}
	*want = got // continue from what really happened (report each difference once)
	ep.side.compared = len(got)
}

func callOp(c smCall) string {
	switch c.Kind {
	case "start":
		return "in start"
	case "sync":
		return "xblock " + c.In
	}
	return "in " + c.In
}

// tieReplayX: the replay phase and the first ProcessStart of a (re)started process in sync mode.
func (rn *runner) tieReplayX(ep *epoch, want *[]string, rp any) {
	ci, h := 0, ep.boot
	n := len(ep.effects)
	for _, tok := range ep.loaded {
		fed := ci < len(ep.calls) && ep.calls[ci].Replay && ep.calls[ci].In == tok && ep.calls[ci].HBefore == h
		ans := rn.ask("rin " + tok)
		rn.res.Compared(1)
		switch {
		case ans != "skip" && ans != "" && fed:
			rn.cmpX(ep, effsOfCall(ep, ci, 0, n), "ract", tok, ans, ep.calls[ci].Acts, want, rp, lqAfterCall(ep, ci))
			h = ep.calls[ci].HAfter
			ci++
			rn.res.Hit("replay-entry-fed")
		case ans == "skip" && !fed:
			rn.res.Hit("replay-entry-skipped")
		default:
			rn.res.Mismatch(lib.Mismatch{Sig: "replay-skip-rule", Input: rp, Model: ans + " " + tok, Impl: fmt.Sprintf("fed=%v smHeight=%d", fed, h)})
			if fed {
				ci++
			}
		}
	}
	for ; ci < len(ep.calls) && ep.calls[ci].Input == -1; ci++ {
		c := ep.calls[ci]
		if c.Replay {
			rn.res.Mismatch(lib.Mismatch{Sig: "replay-call-not-in-log", Input: rp, Impl: c.In})
			continue
		}
		rn.cmpX(ep, effsOfCall(ep, ci, 0, n), "live", c.In, rn.ask(callOp(c)), c.Acts, want, rp, lqAfterCall(ep, ci))
	}
	rn.cmpFetches(ep, "boot", "replay and first ProcessStart", want, rp)
}

// lqAfterCall: the driver's lastQuorum after the actions of call ci were executed = what it was when
// the next call was made (for the last call: what it is now; only used when the driver is idle).
func lqAfterCall(ep *epoch, ci int) int64 {
	if ci+1 < len(ep.calls) {
		return int64(ep.calls[ci+1].LQ)
	}
	return int64(*ep.side.lq)
}

// syncCase: one root run in sync mode, compared with the model in lock-step, then crashed at (a
// sample of) its effect boundaries and stopped regularly; every restarted process is compared, too.
func (rn *runner) syncCase(cfg *Cfg, script []Input, gen func(ep *epoch, i int) (Input, bool), r *lib.RNG, exhaustive bool) {
	ep, err := startEpoch(cfg, rn.dir(), "", cfg.C0, 0, -1)
	if err != nil {
		rn.res.Fatalf("sync family: boot fails: %v", err)
		if ep != nil {
			ep.stop()
			ep.cleanup()
		}
		return
	}
	defer ep.cleanup()
	ep.noDumps = true
	rn.ask(fmt.Sprintf("reset %d", cfg.C0))
	rn.bootModelX(cfg, cfg.C0+1)
	var want []string
	rp := Replay{Cfg: *cfg, Note: "sync mode"}
	rn.tieReplayX(ep, &want, rp)
	for i := 0; ; i++ {
		var in Input
		if gen != nil {
			var ok bool
			if in, ok = gen(ep, i); !ok {
				break
			}
			script = append(script, in)
		} else if i < len(script) {
			in = script[i]
		} else {
			break
		}
		rp.Script = script[:i+1]
		if os.Getenv("C13_DEBUG") != "" {
			fmt.Fprintf(os.Stderr, "sync feed %d %s\n", i, in)
		}
		from, nc := len(ep.effects), len(ep.calls)
		if err := ep.feed(i, in); err != nil {
			violate(lib.Violation{Sig: "driver-hangs", What: err.Error(), Replay: rp})
			break
		}
		to := len(ep.effects)
		rn.res.Hit("sync-input-" + in.K)
		switch in.K {
		case "se":
			if len(ep.calls) != nc {
				rn.res.Mismatch(lib.Mismatch{Sig: "sync-state-machine-called-on-fetch-error", Input: rp, Impl: ep.calls[nc].In})
			}
			if to > from {
				rn.res.Hit("sync-stale-actions-reexecuted")
			}
			rn.cmpX(ep, ep.effects[from:to], "fetch-error", in.String(), rn.ask("xerr"), nil, &want, rp, -1)
		case "pv", "pc":
			if len(ep.calls) != nc || len(ep.side.reached) > 0 {
				rn.res.Mismatch(lib.Mismatch{Sig: "listen-pseudo-sender-not-dropped", Input: rp, Impl: in.String()})
				ep.side.reached = nil
			}
			rn.cmpX(ep, ep.effects[from:to], "pseudo-sender", in.String(), rn.ask("xpseudo"), nil, &want, rp, -1)
			if len(ep.calls) != nc {
				// resynchronise the model with what the real machine did
				for ci := nc; ci < len(ep.calls); ci++ {
					rn.ask(callOp(ep.calls[ci]))
				}
			}
		default:
			if len(ep.calls) == nc {
				rn.res.Mismatch(lib.Mismatch{Sig: "sync-input-without-state-machine-call", Input: rp, Impl: in.String()})
			}
			for ci := nc; ci < len(ep.calls); ci++ {
				c := ep.calls[ci]
				lqa := int64(-1)
				if ci+1 < len(ep.calls) {
					lqa = int64(ep.calls[ci+1].LQ)
				}
				rn.cmpX(ep, effsOfCall(ep, ci, from, to), "live", c.In, rn.ask(callOp(c)), c.Acts, &want, rp, lqa)
				for _, a := range c.Acts {
					rn.res.Hit("sync-action-" + strings.SplitN(strings.SplitN(a, ":", 2)[0], "/", 2)[0])
				}
			}
		}
		if len(ep.side.reached) > 0 {
			rn.res.Mismatch(lib.Mismatch{Sig: "listen-pseudo-sender-not-dropped", Input: rp, Impl: strings.Join(ep.side.reached, " ")})
			ep.side.reached = nil
		}
	}
	rp.Script = script
	ep.stop()
	if got := u64s(ep.side.fetched()); got != strings.Join(want, " ") {
		rn.res.Mismatch(lib.Mismatch{Sig: "sync-fetches-at-stop", Input: rp, Model: strings.Join(want, " "), Impl: got})
	}
	rn.oracle(cfg, ep, lineage{props: map[[2]int][]string{}}, rp, -1, "")
	rn.res.Case(fmt.Sprintf("sync|%v|%v", *cfg, script), len(ep.effects) > 2)
	if ep.chainNow > cfg.C0 {
		rn.res.Hit(fmt.Sprintf("sync-heights-committed-%d", min(int(ep.chainNow-cfg.C0), 4)))
	}
	rn.res.Sample(2, map[string]any{"cfg": cfg, "script": scriptToks(script), "effects": effToks(ep.effects), "fetches": u64s(ep.side.fetched())})
	// crash points
	n := len(ep.effects)
	ks := make([]int, 0, n+1)
	for k := 0; k <= n; k++ {
		ks = append(ks, k)
	}
	if !exhaustive && len(ks) > rn.f.Scale(16, 48) {
		lib.Shuffle(r, ks)
		ks = ks[:rn.f.Scale(16, 48)]
	}
	restart := func(image string, chain uint64, durable []string, votesUpTo int, kl []Kill, note, img string) {
		rpk := Replay{Cfg: *cfg, Script: script, Kills: kl, Note: "sync mode" + note}
		rec, err := startEpoch(cfg, rn.dir(), image, chain, 1, -1)
		if err != nil {
			violate(lib.Violation{Sig: "restart-fails", What: err.Error(), Replay: rpk})
			if rec != nil {
				rec.stop()
				rec.cleanup()
			}
			return
		}
		defer rec.cleanup()
		rn.res.Compared(1)
		if want := fmt.Sprintf("h=%d log=%s", rec.boot, joinOrDash(rec.loaded)); want != stripPruned(img) {
			rn.res.Mismatch(lib.Mismatch{Sig: "crash-image-log", Input: rpk, Model: img, Impl: want})
		}
		rn.bootModelX(cfg, rec.boot)
		var w2 []string
		rn.tieReplayX(rec, &w2, rpk)
		rec.stop()
		if got := u64s(rec.side.fetched()); got != strings.Join(w2, " ") {
			rn.res.Mismatch(lib.Mismatch{Sig: "sync-fetches-at-stop", Input: rpk, Model: strings.Join(w2, " "), Impl: got})
		}
		lin := lineage{props: map[[2]int][]string{}}.extend(ep, votesUpTo, Kill{K: votesUpTo})
		rn.oracle(cfg, rec, lin, rpk, bootBoundary(rec), twinDump(cfg, ep.boot, durable))
		rn.res.Case(fmt.Sprintf("sync|%v|%v|%v%s", *cfg, script, kl, note), len(rec.loaded) > 0)
		for _, e := range rec.effects[:bootBoundary(rec)] {
			rn.res.Hit("sync-replay-effect-" + strings.SplitN(strings.SplitN(e.Tok, ":", 2)[0], "/", 2)[0])
		}
	}
	for _, k := range ks {
		rn.ask("push")
		ans := rn.ask(fmt.Sprintf("crash %d", canonIdx(ep, k)))
		durable := append(append([]string{}, ep.loaded...), ep.appended[:ep.flushedN[k]]...)
		restart(ep.snaps[ep.snapAt[k]], ep.chainAt[k], durable, k, []Kill{{K: k}}, "", ans)
		rn.res.Hit("sync-crash-point")
		rn.ask("pop")
	}
	// regular stop
	rn.ask("push")
	rn.ask("close")
	img := rn.ask("crash all")
	restart(ep.closedSnap, ep.chainNow, append(append([]string{}, ep.loaded...), ep.appended...), n, nil, ", regular stop then restart", img)
	rn.ask("pop")
}

// syncDirected: small scripts of the sync family, crashed at every boundary. 4 equal validators,
// node index 3; proposer(h, r) = Tbl[(h*PMul + r) mod len].
func syncDirected() []Replay {
	eq4 := []uint64{1, 1, 1, 1}
	cfg := Cfg{Powers: eq4, Tbl: []int{1, 0, 2}, PMul: 1, Me: 3, C0: 0, AppMode: "stable", Sync: true}
	fq := func(h uint64, val uint64) []Input { // three precommits of a future height: a quorum there
		return []Input{{K: "c", H: h, R: 0, Sender: 0, Val: val}, {K: "c", H: h, R: 0, Sender: 1, Val: val}, {K: "c", H: h, R: 0, Sender: 2, Val: val}}
	}
	cat := func(xs ...[]Input) []Input {
		var o []Input
		for _, x := range xs {
			o = append(o, x...)
		}
		return o
	}
	return []Replay{
		{Note: "future quorum -> fetch of the current height; the fetch fails (re-armed, previous actions executed again); the block arrives, commits, the next height is fetched; second block; then consensus messages at height 3",
			Cfg: cfg, Script: cat(fq(3, 3510), []Input{{K: "se"}, {K: "sb", H: 1, Sender: 0, Val: 41}, {K: "sb", H: 2, Sender: 2, Val: 53},
				{K: "p", H: 3, R: 0, Sender: 1, VR: -1, Val: 3510}, {K: "v", H: 3, R: 0, Sender: 0, Val: 3510}})},
		{Note: "gossiped messages of the pseudo-sender are dropped; a fetch error right after boot re-executes ProcessStart's actions (a second Start entry); a fetch error after a prevote re-broadcasts it",
			Cfg: cfg, Script: []Input{{K: "pc", H: 1, R: 0, Val: 41}, {K: "se"}, {K: "pv", H: 1, R: 0, Val: 41},
				{K: "p", H: 1, R: 0, Sender: 0, VR: -1, Val: 41}, {K: "se"}, {K: "se"}, {K: "pc", H: 1, R: 0, Val: 41},
				{K: "v", H: 1, R: 0, Sender: 0, Val: 41}, {K: "v", H: 1, R: 0, Sender: 1, Val: 41}}},
		{Note: "a height is decided by consensus while a quorum of a later height is known: the next height is fetched after the commit; a second, higher future quorum raises lastQuorum without a second fetch",
			Cfg: cfg, Script: cat(fq(4, 4600), []Input{{K: "p", H: 1, R: 0, Sender: 0, VR: -1, Val: 41}, {K: "v", H: 1, R: 0, Sender: 0, Val: 41}, {K: "v", H: 1, R: 0, Sender: 1, Val: 41}},
				fq(6, 6600), []Input{{K: "c", H: 1, R: 0, Sender: 0, Val: 41}, {K: "c", H: 1, R: 0, Sender: 1, Val: 41}, {K: "se"}, {K: "sb", H: 2, Sender: 2, Val: 53}})},
		{Note: "a block of a FUTURE height and a block of a past height arrive on the sync channel; a block whose proposal the node already has",
			Cfg: cfg, Script: cat(fq(2, 53), []Input{{K: "sb", H: 2, Sender: 2, Val: 53}, {K: "p", H: 1, R: 0, Sender: 0, VR: -1, Val: 41}, {K: "sb", H: 1, Sender: 0, Val: 41},
				{K: "sb", H: 1, Sender: 0, Val: 41}, {K: "t", Step: 0, H: 2, R: 0}})},
	}
}

// syncGen: random scripts of the sync family.
func syncGen(cfg *Cfg, r *lib.RNG, n int) func(ep *epoch, i int) (Input, bool) {
	val := func(h uint64) uint64 {
		v := h*1000 + 600
		for !validVal(v) {
			v++
		}
		return v
	}
	fut := map[uint64]int{} // future height -> number of precommits sent
	var target uint64       // the future height whose quorum is being completed
	plan := map[uint64][]Input{}
	seen := 0
	var timers []Input
	return func(ep *epoch, i int) (Input, bool) {
		if i >= n {
			return Input{}, false
		}
		for ; seen < len(ep.calls); seen++ {
			for _, a := range ep.calls[seen].Acts {
				if f := strings.Split(a, ":"); f[0] == "ST" {
					timers = append(timers, Input{K: "t", Step: atoi(f[1]), H: uint64(atoi(f[2])), R: atoi(f[3])})
				}
			}
		}
		h := uint64(ep.real.Height())
		oth := []int{}
		for j := range cfg.Powers {
			if j != cfg.Me {
				oth = append(oth, j)
			}
		}
		seqOf := func(hh uint64) int { // a validator the extractor finds a round for
			for rr := 0; rr < 3; rr++ {
				if p := cfg.proposerIdx(hh, rr); p != cfg.Me {
					return p
				}
			}
			return oth[0]
		}
		switch x := r.Intn(20); {
		case x < 5: // precommits of a future height, sender after sender: the last one completes a quorum
			if target <= h || fut[target] >= len(oth) {
				target = h + uint64(1+r.Intn(3))
			}
			hf := target
			k := fut[hf] % len(oth)
			fut[hf]++
			return Input{K: "c", H: hf, R: 0, Sender: oth[k], Val: val(hf)}, true
		case x < 8:
			hh := h
			if r.Chance(1, 5) {
				hh = h + uint64(r.Intn(3)) - 1 // also a past / future block
			}
			return Input{K: "sb", H: hh, Sender: seqOf(hh), Val: val(hh)}, true
		case x < 11:
			return Input{K: "se"}, true
		case x < 13:
			return Input{K: lib.Pick(r, []string{"pv", "pc"}), H: h, R: 0, Val: val(h)}, true
		case x < 14 && len(timers) > 0:
			j := r.Intn(len(timers))
			t := timers[j]
			timers = append(timers[:j], timers[j+1:]...)
			return t, true
		}
		if len(plan[h]) == 0 {
			pr := cfg.proposerIdx(h, 0)
			var p []Input
			if pr != cfg.Me {
				p = append(p, Input{K: "p", H: h, R: 0, Sender: pr, VR: -1, Val: val(h)})
			}
			for _, s := range oth {
				p = append(p, Input{K: "v", H: h, R: 0, Sender: s, Val: val(h)})
			}
			for _, s := range oth {
				p = append(p, Input{K: "c", H: h, R: 0, Sender: s, Val: val(h)})
			}
			p = append(p, Input{K: "v", H: h, R: 0, Sender: oth[0], Val: val(h)}) // filler: duplicates from here on
			plan[h] = p
		}
		in := plan[h][0]
		if len(plan[h]) > 1 {
			plan[h] = plan[h][1:]
		}
		return in, true
	}
}
