//go:build verif

package main

import (
	"bytes"
	"fmt"
	"os"
	"path/filepath"
	"strings"

	"github.com/NethermindEth/juno/consensus/walstore"
	"verif/harness/lib"
)

// Fault family "the real log store fails" (round 5). The faults of `faulty` are injected ABOVE the
// store (the wrapper answers with an error, walstore is not called); here walstore.Flush itself is
// called and its append fails at one of walstore's own injection points, so that walstore's error
// path runs: abortUncommitted -> close of the writer -> repair of the log tail, which truncates the
// current log file to the writer's "synced offset". The file that is truncated already holds the
// batches of earlier, acknowledged flushes — of the height in progress, whose votes were broadcast.
// Checked: (1) the driver stops, nothing becomes visible; (2) what a restart finds in the directory
// right after the failed call still contains everything it would have found right before it, file
// by file the acknowledged bytes are still there; (3) the image the stopped process leaves (Close
// flushes the batch again — or fails again) is the model's (`stopTrace`); (4) a process restarted on
// it is in the state of an uncrashed twin fed the durable inputs, and contradicts no vote that was
// sent — with everything delivered again, and, separately, in a silent network where only the
// re-armed timers fire (a different arrival order than before the stop).

// loadImage: the entries a process restarted on the directory image finds in its log (a real store
// opened on a copy of the image).
func loadImage(image, scratch string) ([]string, error) {
	if err := os.MkdirAll(scratch, 0o755); err != nil {
		return nil, err
	}
	defer os.RemoveAll(scratch)
	if err := copyDir(image, scratch); err != nil {
		return nil, err
	}
	hookMu.RLock()
	defer hookMu.RUnlock()
	st, err := walstore.NewTendermintWALStore[V, H, A](pathOnly{path: scratch})
	if err != nil {
		return nil, fmt.Errorf("open wal store: %w", err)
	}
	defer st.Close()
	var toks []string
	for e, err := range st.LoadAllEntries() {
		if err != nil {
			return toks, err
		}
		toks = append(toks, entryTok(e))
	}
	return toks, nil
}

// isSubsequence: xs occurs in ys in order (ys may hold more).
func isSubsequence(xs, ys []string) bool {
	i := 0
	for _, y := range ys {
		if i < len(xs) && xs[i] == y {
			i++
		}
	}
	return i == len(xs)
}

// ackedBytesSurvive: every regular file of directory `pre` exists in `post` and starts with the
// bytes it had in `pre`. Returns "" if so, else a description; identical = the two trees are equal.
func ackedBytesSurvive(pre, post string) (problem string, identical bool) {
	identical = true
	filepath.Walk(pre, func(p string, info os.FileInfo, err error) error {
		if err != nil || info.IsDir() {
			return nil
		}
		rel, _ := filepath.Rel(pre, p)
		a, _ := os.ReadFile(p)
		b, err := os.ReadFile(filepath.Join(post, rel))
		switch {
		case err != nil:
			problem, identical = fmt.Sprintf("%s is gone", rel), false
		case !bytes.HasPrefix(b, a):
			problem, identical = fmt.Sprintf("%s held %d acknowledged bytes, now %d bytes that do not start with them", rel, len(a), len(b)), false
		case len(a) != len(b):
			identical = false
		}
		return nil
	})
	filepath.Walk(post, func(p string, info os.FileInfo, err error) error {
		if err == nil && !info.IsDir() {
			rel, _ := filepath.Rel(post, p)
			if _, e := os.Stat(filepath.Join(pre, rel)); e != nil {
				identical = false
			}
		}
		return nil
	})
	return problem, identical
}

func (rn *runner) walFaulty(cfg *Cfg, script []Input, ref *epoch, wf WalFault) {
	rp := Replay{Cfg: *cfg, Script: script, Fault: &wf}
	kind := "wal-append-" + wf.Point
	ep, err := startEpoch(cfg, rn.dir(), "", cfg.C0, 0, wf.K, func(e *epoch) { e.walPoint, e.walPersistent = wf.Point, wf.Persistent })
	if ep == nil {
		rn.res.Fatalf("wal-fault run could not start: %v", err)
		return
	}
	defer ep.cleanup()
	for i := 0; err == nil && i < len(script) && ep.failedAt < 0; i++ {
		err = ep.feed(i, script[i])
	}
	ep.stop()
	rn.res.Hit("fault-injected-" + kind)
	if wf.Persistent {
		rn.res.Hit("wal-fault-persistent")
	} else {
		rn.res.Hit("wal-fault-transient")
	}
	if ep.failedAt < 0 || ep.preFail == "" {
		rn.res.Hit("fault-not-reached")
		return
	}
	// how much of the height in progress had been flushed successfully before
	earlier := 0
	for _, e := range ep.effects {
		switch {
		case strings.HasPrefix(e.Tok, "deliver:"):
			earlier = 0
		case e.Tok == "flush" && e.Pend > 0:
			earlier++
		}
	}
	rn.res.Hit(fmt.Sprintf("wal-fault-after-%d-flushes-of-the-height", min(earlier, 4)))
	// (1) the driver stops; nothing visible after the failure
	stopped := false
	for _, e := range ep.errs {
		if strings.HasPrefix(e, "run: ") && !strings.Contains(e, "panic") {
			stopped = true
		}
		if strings.HasPrefix(e, "walfault:") {
			violate(lib.Violation{Sig: "failed-log-append-reported-as-success", What: e, Replay: rp})
		}
	}
	if !stopped {
		violate(lib.Violation{Sig: "driver-continues-after-failed-" + kind, What: "Run did not return an error after the log store failed to flush", Replay: rp})
	}
	for _, e := range ep.effects[ep.failedAt:] {
		if e.visible() {
			violate(lib.Violation{Sig: "visible-effect-after-failed-" + kind,
				What: fmt.Sprintf("after the failed flush the driver still performed %q", e.Tok), Replay: rp})
		}
	}
	// (2) the acknowledged part of the log survives the failed call
	before, errB := loadImage(ep.preFail, filepath.Join(ep.base, "ld0"))
	after, errA := loadImage(ep.postFail, filepath.Join(ep.base, "ld1"))
	prob, same := ackedBytesSurvive(ep.preFail, ep.postFail)
	switch {
	case errB != nil:
		rn.res.Fatalf("wal-fault: the image before the failing flush cannot be opened: %v", errB)
	case errA != nil:
		violate(lib.Violation{Sig: "log-unusable-after-failed-flush", What: errA.Error(), Replay: rp})
	case !isSubsequence(before, after):
		violate(lib.Violation{Sig: "acknowledged-log-entries-lost-by-failed-flush",
			What: fmt.Sprintf("a flush failed (%s); right before the call a restart would have found [%s] in the log — entries of flushes that had returned successfully, whose votes were broadcast — right after it [%s] (%s)",
				wf.Point, strings.Join(before, " "), strings.Join(after, " "), prob), Replay: rp})
	}
	rn.res.Compared(1)
	switch {
	case same:
		rn.res.Hit("failed-flush-leaves-directory-identical")
	case prob == "":
		rn.res.Hit("failed-flush-leaves-acknowledged-bytes-as-prefix")
	default:
		rn.res.Hit("failed-flush-changes-acknowledged-bytes")
	}
	if len(after) > len(before) {
		rn.res.Hit("failed-flush-left-its-batch-durable")
	}
	// (3) + (4): restart on what the stopped process left behind
	rec, err := startEpoch(cfg, rn.dir(), ep.closedSnap, ep.chainNow, 1, -1)
	if err != nil {
		violate(lib.Violation{Sig: "restart-fails-after-fault", What: err.Error(), Replay: rp})
		if rec != nil {
			rec.stop()
			rec.cleanup()
		}
		return
	}
	defer rec.cleanup()
	if rn.drv != nil {
		closeOK := "1"
		if wf.Persistent {
			closeOK = "0"
		}
		rn.ask("push")
		ans := rn.ask(fmt.Sprintf("stop %d %s", canonIdx(ref, wf.K), closeOK))
		rn.res.Compared(2)
		got := canonEffs(ep.effects)
		if ep.pending > 0 && !wf.Persistent {
			got = strings.TrimSpace(got + " flush")
		}
		if got != canonModel(ans) {
			rn.res.Mismatch(lib.Mismatch{Sig: "effects-of-process-stopped-by-error", Input: rp, Model: ans, Impl: got})
		}
		img := rn.ask("crash all")
		if want := fmt.Sprintf("h=%d log=%s", rec.boot, joinOrDash(rec.loaded)); want != stripPruned(img) {
			rn.res.Mismatch(lib.Mismatch{Sig: "image-after-error-stop", Input: rp, Model: img, Impl: want})
		}
		rn.ask("pop")
		rn.res.Hit("error-stop-compared-" + kind)
	}
	for i := 0; i < len(script); i++ { // everything is delivered again (peers resend); timers do not fire
		if script[i].K == "t" {
			continue
		}
		if rec.feed(i, script[i]) != nil {
			break
		}
	}
	rec.stop()
	lin := lineage{props: map[[2]int][]string{}}.extend(ep, len(ep.effects), Kill{K: wf.K})
	lin.kills = nil
	lin.unlogged = unloggedQuorumVote(ep, len(ep.calls))
	lin.trigger = unloggedTrigger(ep, len(ep.calls))
	durable := ep.appended
	if wf.Persistent {
		durable = ep.appended[:ep.nAppDur]
	}
	rn.oracle(cfg, rec, lin, rp, bootBoundary(rec), twinDump(cfg, ep.boot, durable))
	rn.res.Case(fmt.Sprintf("%v|%v|walfault%+v", *cfg, script, wf), true)
	// a different arrival order: the network is silent, the timers the restarted node armed fire
	rec2, err := startEpoch(cfg, rn.dir(), ep.closedSnap, ep.chainNow, 1, -1)
	if err != nil {
		if rec2 != nil {
			rec2.stop()
			rec2.cleanup()
		}
		return // reported above
	}
	defer rec2.cleanup()
	rec2.noDumps = true
	if _, _, err := quiesce(rec2); err != nil {
		violate(lib.Violation{Sig: "driver-hangs-in-silent-network", What: err.Error(), Replay: rp})
	}
	rec2.stop()
	rn.oracle(cfg, rec2, lin, rp, bootBoundary(rec2), "")
	rn.res.Case(fmt.Sprintf("%v|%v|walfault%+v|silent", *cfg, script, wf), true)
	rn.res.Hit("wal-fault-restart-in-silent-network")
}

// walFaults: which flushes of the uncrashed run `ep` fail, and how. Exhaustive (directed scripts):
// EVERY flush with records pending, both failure points; transient and persistent for the flushes
// that follow an earlier successful flush of the same height (the file to be repaired then holds
// acknowledged records of the height in progress), alternating for the others. Otherwise a sample
// that prefers the former.
func (rn *runner) walFaults(cfg *Cfg, script []Input, ep *epoch, r *lib.RNG, minInput, limit int) {
	var pref, other []int
	sinceCommit := 0
	for k, e := range ep.effects {
		if strings.HasPrefix(e.Tok, "deliver:") {
			sinceCommit = 0
		}
		if e.Tok != "flush" || e.Pend == 0 {
			continue
		}
		if e.Input >= minInput || minInput == 0 {
			if sinceCommit > 0 {
				pref = append(pref, k)
			} else {
				other = append(other, k)
			}
		}
		sinceCommit++
	}
	points := []string{"before-write", "after-sync"}
	if limit <= 0 {
		for _, k := range pref {
			for _, p := range points {
				rn.walFaulty(cfg, script, ep, WalFault{K: k, Point: p})
				rn.walFaulty(cfg, script, ep, WalFault{K: k, Point: p, Persistent: true})
			}
		}
		for i, k := range other {
			for j, p := range points {
				rn.walFaulty(cfg, script, ep, WalFault{K: k, Point: p, Persistent: (i+j)%2 == 1})
			}
		}
		return
	}
	lib.Shuffle(r, pref)
	lib.Shuffle(r, other)
	for i, k := range append(pref, other...) {
		if i >= limit {
			break
		}
		rn.walFaulty(cfg, script, ep, WalFault{K: k, Point: lib.Pick(r, points), Persistent: r.Chance(1, 3)})
	}
}
