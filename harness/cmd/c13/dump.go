//go:build verif

package main

import (
	"fmt"
	"reflect"
	"sort"
	"strings"
)

// dumpSM renders the complete internal state of a tendermint state machine canonically (maps
// sorted, pointers followed, no addresses), reading unexported fields through reflection. It is
// used to compare two instances of the SAME code (a recovered machine and an uncrashed twin), so
// it does not depend on field names or layout. Fields that are not consensus state are left out:
// the logger, the Application and the validator set (interfaces implemented outside
// juno/consensus, or by this harness).
func dumpSM(sm SM) string {
	s, _ := dumpValue(reflect.ValueOf(sm), 0)
	return s
}

func skipIface(v reflect.Value) bool {
	if v.IsNil() {
		return false
	}
	t := v.Elem().Type()
	for t.Kind() == reflect.Pointer {
		t = t.Elem()
	}
	p := t.PkgPath()
	return !strings.HasPrefix(p, "github.com/NethermindEth/juno/consensus") &&
		!strings.HasPrefix(p, "github.com/NethermindEth/juno/core/felt")
}

// dumpValue returns the rendering and whether the value is "all zero" (0, false, nil, empty
// containers, structs / pointers to structs of such). Map entries whose value is all zero are
// left out: a vote-counter container that was created by a lookup and never filled is the same
// consensus state as a missing one.
func dumpValue(v reflect.Value, depth int) (string, bool) {
	if depth > 40 {
		return "<deep>", false
	}
	switch v.Kind() {
	case reflect.Invalid:
		return "<invalid>", true
	case reflect.Bool:
		return fmt.Sprintf("%v", v.Bool()), !v.Bool()
	case reflect.Int, reflect.Int8, reflect.Int16, reflect.Int32, reflect.Int64:
		return fmt.Sprintf("%d", v.Int()), v.Int() == 0
	case reflect.Uint, reflect.Uint8, reflect.Uint16, reflect.Uint32, reflect.Uint64, reflect.Uintptr:
		return fmt.Sprintf("%d", v.Uint()), v.Uint() == 0
	case reflect.String:
		return fmt.Sprintf("%q", v.String()), v.Len() == 0
	case reflect.Pointer:
		if v.IsNil() {
			return "nil", true
		}
		s, z := dumpValue(v.Elem(), depth+1)
		return "&" + s, z
	case reflect.Interface:
		if v.IsNil() {
			return "nil", true
		}
		if skipIface(v) {
			return "_", true
		}
		return dumpValue(v.Elem(), depth+1)
	case reflect.Struct:
		parts := make([]string, v.NumField())
		zero := true
		for i := 0; i < v.NumField(); i++ {
			if n := v.Type().Field(i).Name; n == "lastTriggerSync" || n == "lastQuorum" {
				// progress bookkeeping of the block-sync trigger, volatile by design (the driver's own
				// lastQuorum is in memory only, too): it decides whether TriggerSync is emitted again,
				// never a vote
				parts[i] = "~"
				continue
			}
			s, z := dumpValue(v.Field(i), depth+1)
			parts[i] = s
			zero = zero && z
		}
		return "{" + strings.Join(parts, " ") + "}", zero
	case reflect.Array, reflect.Slice:
		parts := make([]string, v.Len())
		zero := true
		for i := 0; i < v.Len(); i++ {
			s, z := dumpValue(v.Index(i), depth+1)
			parts[i] = s
			zero = zero && z
		}
		return "[" + strings.Join(parts, " ") + "]", zero
	case reflect.Map:
		var kvs []string
		it := v.MapRange()
		for it.Next() {
			vs, z := dumpValue(it.Value(), depth+1)
			if z {
				continue
			}
			ks, _ := dumpValue(it.Key(), depth+1)
			kvs = append(kvs, ks+":"+vs)
		}
		sort.Strings(kvs)
		return "map[" + strings.Join(kvs, " ") + "]", len(kvs) == 0
	case reflect.Func, reflect.Chan, reflect.UnsafePointer:
		return "_", true
	default:
		return fmt.Sprintf("<%s>", v.Kind()), false
	}
}
