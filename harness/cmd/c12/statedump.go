//go:build verif

package main

import (
	"fmt"
	"reflect"
	"sort"
	"strconv"
	"strings"
)

// dumpState renders the WHOLE private state of a real state machine — the Tendermint variables the
// property's anchors name (height, round, step, lockedValue/Round, validValue/Round, the three
// first-time flags, isHeightStarted, lastTriggerSync, lastQuorum) and the complete vote counter
// (thresholds, per-round proposal / uncounted proposer power / per-id, nil and all ballot sets with
// their tallies, the future-height buffer) — in the canonical text the Lean driver's `state` request
// prints (maps sorted by key). The fields are unexported: they are read through reflection (reading
// is allowed, only Interface()/Set are not). A field that cannot be found is an error: the caller
// reports it as a failure of the harness (the comparison would silently be lost otherwise).
func dumpState(sm SM) (out string, err error) {
	defer func() {
		if r := recover(); r != nil {
			err = fmt.Errorf("state dump: %v", r)
		}
	}()
	v := reflect.ValueOf(sm)
	for v.Kind() == reflect.Interface || v.Kind() == reflect.Pointer {
		v = v.Elem()
	}
	st := fld(v, "state")
	b01 := func(x reflect.Value) string {
		if x.Bool() {
			return "1"
		}
		return "0"
	}
	optVal := func(p reflect.Value) string {
		if p.IsNil() {
			return "nil"
		}
		return strconv.FormatUint(p.Elem().Uint(), 10)
	}
	vc := fld(v, "voteCounter")
	var sb strings.Builder
	fmt.Fprintf(&sb, "h=%d r=%d st=%d lv=%s lr=%d vv=%s vr=%d f=%s%s%s started=%s lts=%d lq=%d vc=%d/%d/%d/%d cur=%s fut=[",
		fld(st, "height").Uint(), fld(st, "round").Int(), fld(st, "step").Uint(),
		optVal(fld(st, "lockedValue")), fld(st, "lockedRound").Int(), optVal(fld(st, "validValue")), fld(st, "validRound").Int(),
		b01(fld(st, "timeoutPrevoteScheduled")), b01(fld(st, "timeoutPrecommitScheduled")), b01(fld(st, "lockedValueAndOrValidValueSet")),
		b01(fld(v, "isHeightStarted")), fld(v, "lastTriggerSync").Uint(), fld(v, "lastQuorum").Uint(),
		fld(vc, "currentHeight").Uint(), fld(vc, "totalVotingPower").Uint(), fld(vc, "faultyVotingPower").Uint(), fld(vc, "quorumVotingPower").Uint(),
		dumpRoundMap(fld(vc, "roundData")))
	fm := fld(vc, "futureMessages")
	type hv struct {
		h uint64
		s string
	}
	var hs []hv
	it := fm.MapRange()
	for it.Next() {
		hs = append(hs, hv{it.Key().Uint(), dumpRoundMap(it.Value())})
	}
	sort.Slice(hs, func(i, j int) bool { return hs[i].h < hs[j].h })
	for i, x := range hs {
		if i > 0 {
			sb.WriteByte(' ')
		}
		fmt.Fprintf(&sb, "h%d%s", x.h, x.s)
	}
	sb.WriteByte(']')
	return sb.String(), nil
}

func fld(v reflect.Value, name string) reflect.Value {
	f := v.FieldByName(name)
	if !f.IsValid() {
		panic(fmt.Sprintf("field %q not found in %s", name, v.Type()))
	}
	return f
}

func hashU(k reflect.Value) uint64 { // Hsh / Adr: [4]uint64, the harness uses limb 0 (pseudo-sender: addrIdx)
	var a [4]uint64
	for i := 0; i < 4; i++ {
		a[i] = k.Index(i).Uint()
	}
	if Adr(a) == pseudoAdr {
		return pseudoIdx
	}
	return a[0]
}

func dumpBallots(b reflect.Value) string {
	type e struct {
		a uint64
		s string
	}
	var es []e
	it := fld(b, "ballots").MapRange()
	for it.Next() {
		f := func(i int) string {
			if it.Value().Index(i).Bool() {
				return "1"
			}
			return "0"
		}
		es = append(es, e{hashU(it.Key()), f(0) + f(1)})
	}
	sort.Slice(es, func(i, j int) bool { return es[i].a < es[j].a })
	parts := make([]string, len(es))
	for i, x := range es {
		parts[i] = fmt.Sprintf("%d:%s", x.a, x.s)
	}
	pv := fld(b, "perVoteType")
	return fmt.Sprintf("%d/%d/%d[%s]", fld(b, "total").Uint(), pv.Index(0).Uint(), pv.Index(1).Uint(), strings.Join(parts, ","))
}

func dumpRoundMap(rm reflect.Value) string {
	type e struct {
		r int64
		s string
	}
	var es []e
	it := rm.MapRange()
	for it.Next() {
		rd := it.Value().Elem()
		p := "-"
		if pp := fld(rd, "proposal"); !pp.IsNil() {
			pr := pp.Elem()
			hd := fld(pr, "MessageHeader")
			val := "nilvalue"
			if vp := fld(pr, "Value"); !vp.IsNil() {
				val = strconv.FormatUint(vp.Elem().Uint(), 10)
			}
			p = fmt.Sprintf("%d:%d:%d:%d:%s", fld(hd, "Height").Uint(), fld(hd, "Round").Int(), hashU(fld(hd, "Sender")), fld(pr, "ValidRound").Int(), val)
		}
		type ie struct {
			id uint64
			s  string
		}
		var ids []ie
		jt := fld(rd, "perIDVotes").MapRange()
		for jt.Next() {
			ids = append(ids, ie{hashU(jt.Key()), dumpBallots(jt.Value().Elem())})
		}
		sort.Slice(ids, func(i, j int) bool { return ids[i].id < ids[j].id })
		parts := make([]string, len(ids))
		for i, x := range ids {
			parts[i] = fmt.Sprintf("%d~%s", x.id, x.s)
		}
		es = append(es, e{it.Key().Int(), fmt.Sprintf("p=%s;u=%d;nil=%s;all=%s;ids=%s", p, fld(rd, "uncountedProposerPower").Uint(),
			dumpBallots(fld(rd, "nilVotes")), dumpBallots(fld(rd, "allVotes")), strings.Join(parts, "|"))})
	}
	sort.Slice(es, func(i, j int) bool { return es[i].r < es[j].r })
	parts := make([]string, len(es))
	for i, x := range es {
		parts[i] = fmt.Sprintf("r%d<%s>", x.r, x.s)
	}
	return "{" + strings.Join(parts, " ") + "}"
}
