//go:build verif

package main

import (
	"fmt"
	"math/big"
	"strconv"
	"strings"

	"github.com/NethermindEth/juno/consensus/types"
	"github.com/NethermindEth/juno/consensus/votecounter"
	"verif/harness/lib"
)

// probeVals: one validator (address 0) of power p in a set of total power N.
type probeVals struct{ total, p uint64 }

func (v probeVals) TotalVotingPower(types.Height) types.VotingPower {
	return types.VotingPower(v.total)
}
func (v probeVals) ValidatorVotingPower(types.Height, *Adr) types.VotingPower {
	return types.VotingPower(v.p)
}
func (v probeVals) Proposer(types.Height, types.Round) Adr { return addr(1) }

// quorumWith: does a single vote of power p make a quorum / an "f+1" set for total power N?
func quorumWith(n, p uint64) (quorum, nonFaulty bool) {
	vc := votecounter.New[Val, Hsh, Adr](probeVals{n, p}, 0)
	vc.AddPrevote(&types.Prevote[Hsh, Adr]{MessageHeader: types.MessageHeader[Adr]{Height: 0, Round: 0, Sender: addr(0)}})
	return vc.HasQuorumForAny(0, votecounter.Prevote), vc.HasNonFaultyFutureMessage(0)
}

// leastTrue: smallest p in [0, 2^64-1] with pred(p) (pred monotone); ok=false if none.
func leastTrue(pred func(uint64) bool) (uint64, bool) {
	if !pred(^uint64(0)) {
		return 0, false
	}
	lo, hi := uint64(0), ^uint64(0) // pred(hi) holds
	for lo < hi {
		mid := lo + (hi-lo)/2
		if pred(mid) {
			hi = mid
		} else {
			lo = mid + 1
		}
	}
	return lo, true
}

// realThresholds measures the thresholds the real vote counter applies for total power n:
// q = least power that is a quorum, f = (least power that is "more than f") - 1.
func realThresholds(n uint64) (f, q uint64, ok bool) {
	q, ok1 := leastTrue(func(p uint64) bool { a, _ := quorumWith(n, p); return a })
	f1, ok2 := leastTrue(func(p uint64) bool { _, b := quorumWith(n, p); return b })
	if !ok1 {
		return 0, 0, false
	}
	if !ok2 {
		return ^uint64(0), q, true
	}
	if f1 == 0 {
		return 0, q, false // even power 0 exceeds f: f would be negative
	}
	return f1 - 1, q, true
}

func thresholdInputs(r *lib.RNG, count int) []uint64 {
	var ns []uint64
	for i := uint64(0); i <= 1024; i++ {
		ns = append(ns, i)
	}
	for k := 6; k < 64; k++ {
		b := uint64(1) << k
		ns = append(ns, b-1, b, b+1, b+2)
	}
	third := ^uint64(0) / 3
	ns = append(ns, third-1, third, third+1, 2*third, 2*third+1, 2*third+2, ^uint64(0), ^uint64(0)-1, ^uint64(0)-2,
		1<<63-1, 1<<63-2, 1<<63-3, 1<<63+3)
	for i := 0; i < count; i++ {
		bits := r.Range(1, 64)
		x := r.Uint64()
		if bits < 64 {
			x &= (uint64(1) << bits) - 1
		}
		ns = append(ns, x)
	}
	return ns
}

func big64(x uint64) *big.Int { return new(big.Int).SetUint64(x) }

func runThresholds(f lib.Flags, res *lib.Result, r *lib.RNG, drv *lib.Driver, only []uint64) {
	ns := only
	if ns == nil {
		ns = thresholdInputs(r, f.Scale(300, 5000))
	}
	lines := make([]string, 0, len(ns))
	for _, n := range ns {
		lines = append(lines, "fq "+strconv.FormatUint(n, 10))
	}
	outs, err := askAll(res, f, drv, lines)
	if err != nil {
		res.Fatalf("Lean driver failed: %v", err)
		return
	}
	for i, n := range ns {
		rf, rq, ok := realThresholds(n)
		impl := fmt.Sprintf("%d %d", rf, rq)
		if !ok {
			impl = "unmeasurable"
		}
		model := outs[i]
		res.Compared(1)
		key := "thresholds/" + strconv.FormatUint(n, 10)
		res.Case(key, n > 0)
		if impl == model {
			res.Hit("thresholds=code-formula")
		} else {
			res.Mismatch(lib.Mismatch{Sig: "thresholds", Input: n, Model: model, Impl: impl})
		}
		if n == 0 || !ok {
			continue
		}
		// property oracle on the measured thresholds: any two quorums intersect in more than f
		// (so in a correct validator when faulty power <= f), a quorum is attainable, and
		// f is less than a third of N.
		N, F, Q := big64(n), big64(rf), big64(rq)
		inter := new(big.Int).Add(N, F).Cmp(new(big.Int).Mul(Q, big.NewInt(2))) < 0
		attain := Q.Cmp(N) <= 0
		third := new(big.Int).Mul(F, big.NewInt(3)).Cmp(N) < 0
		if !(inter && attain && third) {
			// (the signature of the defect repaired by 487454a is kept apart so that its return is
			// recognisable: the product 2N wrapped for N >= 2^63)
			sig := "quorum-thresholds-do-not-intersect"
			if d := n * 2; n >= 1<<63 && (rq == d/3 || rq == d/3+1) {
				// exactly the repaired defect: q computed from the wrapped product 2N
				sig = "quorum-threshold-wraps-for-total-power-ge-2^63"
			}
			var why []string
			if !inter {
				why = append(why, "N+f >= 2q: two quorums may share only faulty validators")
			}
			if !attain {
				why = append(why, "q > N: no quorum can form")
			}
			if !third {
				why = append(why, "3f >= N")
			}
			res.Violate(lib.Violation{Sig: sig, What: fmt.Sprintf("total power N=%d: the vote counter applies f=%d q=%d (%s)", n, rf, rq, strings.Join(why, "; ")),
				Replay: map[string]any{"mode": "thresholds", "n": strconv.FormatUint(n, 10)}})
		}
	}
}
