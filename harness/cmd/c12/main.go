//go:build verif

// Harness for C12 (Tendermint agreement): runs several REAL tendermint state machines wired
// through a simulated adversarial network, compares every returned action list with the Lean
// `Exec` model, and evaluates the property oracle (agreement, validity, one vote per round, lock
// rule) on the real machines' outputs. Also: undisciplined single-machine fuzzing for the
// model/implementation correspondence, and a behavioural measurement of the quorum thresholds.
package main

import (
	"encoding/json"
	"fmt"
	"os"
	"runtime"
	"strconv"
	"strings"
	"sync"
	"time"

	"verif/harness/lib"
)

// askAll is lib.Driver.AskAll with a deadline: a Lean driver that stops answering is a failure of
// the harness machinery (Fatal), not something to wait for until the outer timeout.
var harnessFlags lib.Flags

func askAll(res *lib.Result, _ lib.Flags, d *lib.Driver, lines []string) (outs []string, err error) {
	ok := lib.WithDeadline(240*time.Second, func() { outs, err = d.AskAll(lines) })
	if !ok {
		res.Fatalf("Lean driver did not answer %d requests within 240 s", len(lines))
		lib.Finish(harnessFlags, res)
	}
	return outs, err
}

type replayFile struct {
	Replay json.RawMessage `json:"replay"`
}

type replayBody struct {
	Mode     string    `json:"mode"`
	N        string    `json:"n,omitempty"`
	Scenario *Scenario `json:"scenario,omitempty"`
}

// compare diffs the Lean driver's answers `outs` (one per line of w.Lines) with the real machines'
// action lists.
func compare(res *lib.Result, outs []string, w *World, sc *Scenario, mode string) (rules map[string]int, ok bool) {
	rules = map[string]int{}
	nn := len(sc.Nodes)
	if len(outs) != len(w.Lines) {
		res.Fatalf("Lean driver answered %d lines for %d requests", len(outs), len(w.Lines))
		return rules, false
	}
	for i := 0; i < nn; i++ {
		if outs[i] != "ok" {
			res.Mismatch(lib.Mismatch{Sig: "driver-rejects-config", Input: w.Lines[i], Model: outs[i]})
			return rules, false
		}
	}
	res.Compared(len(w.Outs))
	for i, impl := range w.Outs {
		model, rs := splitAnswer(outs[nn+i])
		for _, r := range rs {
			rules[r]++
		}
		if model != impl {
			cut := *sc
			cut.Events = sc.Events[:min(w.evOf[i]+1, len(sc.Events))]
			sig := "exec-actions-differ(" + mode + ")"
			if strings.HasPrefix(w.Lines[nn+i], "state ") {
				// same actions so far, different private state (Tendermint variables / vote counter)
				sig = "exec-state-differs(" + mode + ")"
			}
			res.Mismatch(lib.Mismatch{Sig: sig, Input: map[string]any{"mode": mode, "scenario": cut, "line": w.Lines[nn+i]},
				Model: model, Impl: impl})
			return rules, false
		}
	}
	return rules, true
}

// askCompare sends one history to the driver and compares.
func askCompare(res *lib.Result, drv *lib.Driver, w *World, sc *Scenario, mode string) (map[string]int, bool) {
	w.Seal()
	outs, err := askAll(res, harnessFlags, drv, w.Lines)
	if err != nil {
		res.Fatalf("Lean driver failed: %v", err)
		return map[string]int{}, false
	}
	return compare(res, outs, w, sc, mode)
}

var (
	reportedMu sync.Mutex
	reported   = map[string]bool{}
)

// report turns the oracle's findings of one history into violations; the first history per
// signature is shrunk (greedy removal of events while it stays admissible and still violates).
func report(res *lib.Result, w *World, sc *Scenario, mode string) {
	for _, v := range w.Viols {
		reportedMu.Lock()
		seen := reported[v.Sig]
		reported[v.Sig] = true
		reportedMu.Unlock()
		if seen {
			continue
		}
		cut := *sc
		if v.At+1 <= len(sc.Events) {
			cut.Events = sc.Events[:v.At+1]
		}
		small := &cut
		if len(cut.Events) <= 1500 {
			small = shrink(&cut, v.Sig, 1500)
		}
		res.Violate(lib.Violation{Sig: v.Sig, What: v.What, Replay: replayBody{Mode: mode, Scenario: small}})
	}
}

func main() {
	f := lib.ParseFlags()
	harnessFlags = f
	res := lib.NewResult("case = one generated history run on real tendermint state machines and on the Lean model: a network scenario " +
		"(n validators, Byzantine power <= f, adversarial scheduling of deliveries/timeouts/duplicates/losses/Byzantine messages, 2-3 heights), " +
		"an undisciplined single-machine fuzz history, or one total voting power whose thresholds are measured; every input of a history is " +
		"compared (correspondence count = inputs); non-trivial = the history made a machine emit at least one action, or a threshold case with N > 0")
	r := lib.NewRNG(f.Seed)

	// a rule loop without a fixed point never returns. A call pending for 60 s is only a suspicion (the
	// machine may be overloaded): the history is run again on fresh machines, and only if that does not
	// finish within 120 s either it is reported
	startWatchdog(60*time.Second, func(cut *Scenario, m int, in In) {
		mode := "sim"
		if !cut.Disciplined {
			mode = "fuzz"
		}
		if lib.WithDeadline(120*time.Second, func() { Replay(cut) }) {
			res.Note("a call into the state machine was pending for more than 60 s (machine %d, input %q); the same history re-run on fresh machines returned: slow machine, not a hang", m, in.Line(m))
			return
		}
		res.Violate(lib.Violation{Sig: "state-machine-does-not-terminate",
			What:   fmt.Sprintf("machine %d did not return from input %q within 60 s, and the same history run again on fresh machines did not finish within 120 s (rule loop without fixed point?)", m, in.Line(m)),
			Replay: replayBody{Mode: mode, Scenario: cut}})
		lib.Finish(f, res)
	})

	if f.Replay != "" {
		runReplay(f, res)
		lib.Finish(f, res)
	}

	drv, err := lib.StartDriver(f.Driver)
	if err != nil {
		res.Fatalf("Lean driver failed: %v", err)
		lib.Finish(f, res)
	}
	runThresholds(f, res, r.Fork(1000003), drv, nil)
	runLead(res, drv)
	runNilValueLead(res)
	runShipped(res, drv)
	drv.Close()

	// trace validation of the real consensus/driver (real time, a few seconds, in the background)
	var dwg sync.WaitGroup
	var dmu sync.Mutex
	dCommits, dTimeouts := 0, 0
	var dChecks []execCheck
	var dReplays []replayCheck
	for k := 0; k < f.Scale(6, 40); k++ {
		dwg.Add(1)
		go func(k int) {
			defer dwg.Done()
			c, t, ck, rp := runDriverTrace(res, r.Fork(uint64(7000000+k)), k)
			dmu.Lock()
			dCommits += c
			dTimeouts += t
			dChecks = append(dChecks, ck...)
			dReplays = append(dReplays, rp...)
			dmu.Unlock()
		}(k)
		if k%8 == 7 {
			dwg.Wait()
		}
	}

	nSim := f.Scale(16000, 120000)
	nFuzz := f.Scale(10000, 80000)
	exP, exN := exhaustiveCount()
	nEx := exP * exN
	// directed phase-structured adversary (n=4, f=1): the whole choice space in the thorough tier,
	// a stride through it in the quick tier
	// (strides coprime to the digit bases 2, 3, 6 visit every digit value of every position evenly;
	// C12_ADV_FULL=1 runs the whole Byzantine-proposer space as well: ~1.26M histories, ~25 min)
	phStrideA, phStrideB := f.Scale(211, 5), f.Scale(211, 1)
	if os.Getenv("C12_ADV_FULL") != "" {
		phStrideA, phStrideB = 1, 1
	}
	phA, phB := phasedSpace(true), phasedSpace(false)
	nPh := (phA+phStrideA-1)/phStrideA + (phB+phStrideB-1)/phStrideB
	runNegativeControl(res)
	// round 5: directed multi-round families (directed.go)
	nPlace, nRelock, nRounds := placementSpace, relockVariants+1, f.Scale(2500, 20000)
	nEarly := earlySpace // round 6: earlyreplay.go
	workers := max(4, min(14, runtime.NumCPU()-2))
	var wg sync.WaitGroup
	var mu sync.Mutex
	agg := map[string]int{}
	jobs := make(chan int, 64)
	for wk := 0; wk < workers; wk++ {
		wg.Add(1)
		go func() {
			defer wg.Done()
			d, err := lib.StartDriver(f.Driver)
			if err != nil {
				res.Fatalf("Lean driver failed: %v", err)
				for range jobs {
				}
				return
			}
			defer d.Close()
			type item struct {
				j       int
				sc      *Scenario
				w       *World
				mode    string
				label   string
				compare bool
			}
			flush := func(batch []item) {
				var lines []string
				for _, it := range batch {
					if !it.compare {
						continue
					}
					it.w.Seal()
					lines = append(lines, it.w.Lines...)
				}
				outs, err := askAll(res, harnessFlags, d, lines)
				if err != nil {
					res.Fatalf("Lean driver failed: %v", err)
					return
				}
				off := 0
				for _, it := range batch {
					sc, w, mode, j := it.sc, it.w, it.mode, it.j
					rules := map[string]int{}
					if it.compare {
						rules, _ = compare(res, outs[off:off+len(w.Lines)], w, sc, mode)
						off += len(w.Lines)
					}
					if sc.Disciplined && !w.Admissible && strings.HasPrefix(it.label, "pending-commit") {
						// a fixed input list: on other code its timeouts may never have been scheduled; then it proves nothing
						res.Hit("pending-commit: fixed history not admissible on this tree (oracle findings dropped)")
						w.Viols = nil
					}
					report(res, w, sc, mode)
					if sc.Disciplined && !w.Admissible && !strings.HasPrefix(it.label, "pending-commit") {
						res.Fatalf("harness bug: generated an inadmissible history in mode %s (%s)", mode, w.Why)
					}
					nontrivial := 0
					for i, o := range w.Outs {
						if o != "-" && !w.isState[i] {
							nontrivial++
						}
					}
					if w.DumpErr != "" {
						res.Fatalf("the real state machine's private state cannot be read any more (%s): the state comparison is lost", w.DumpErr)
					}
					res.Case(mode+strconv.Itoa(j), nontrivial > 0)
					mu.Lock()
					for k, v := range rules {
						agg[mode+"/rule-"+k] += v
					}
					for k, v := range w.hits {
						agg[mode+"/"+k] += v
					}
					agg[mode+"/inputs-delivered"] += w.nEv
					agg[mode+"/inputs-with-actions"] += nontrivial
					if mode == "relock" || mode == "rounds" || mode == "placement" || mode == "earlyreplay" {
						agg[mode+"/"+it.label]++
					}
					if mode == "adversary" {
						agg["adversary/"+it.label]++
						for _, v := range w.views {
							agg[fmt.Sprintf("adversary/validator-ends-at-height=%d", v.height)]++
						}
					}
					if mode == "sim" {
						agg["sim/set-"+it.label]++
						agg[fmt.Sprintf("sim/byzantine=%d", len(sc.Byz))]++
						maxH := uint64(0)
						for _, v := range w.views {
							if v.height-sc.Nodes[0].Height > maxH {
								maxH = v.height - sc.Nodes[0].Height
							}
						}
						agg[fmt.Sprintf("sim/heights-committed=%d", maxH)]++
					}
					mu.Unlock()
					if j%3000 == 0 {
						res.Sample(6, map[string]any{"mode": mode, "set": it.label, "byz": sc.Byz, "events": len(sc.Events),
							"first_lines": w.Lines[:min(len(w.Lines), 12)], "first_outputs": w.Outs[:min(len(w.Outs), 8)]})
					}
				}
			}
			var batch []item
			for j := range jobs {
				it := item{j: j, mode: "sim", compare: true}
				if j < nSim {
					s := genScenario(r.Fork(uint64(j)), f.Thorough())
					s.run()
					it.sc, it.w, it.label = s.sc, s.w, s.label
				} else if j < nSim+nFuzz {
					it.mode = "fuzz"
					it.sc, it.w = genFuzz(r.Fork(uint64(j)), f.Thorough())
				} else if j < nSim+nFuzz+nEx {
					it.mode = "exhaustive"
					e := j - nSim - nFuzz
					it.sc = exhaustiveScenario(e/exN, e%exN)
					it.w = Replay(it.sc)
				} else if j >= nSim+nFuzz+nEx+nPh {
					e := j - nSim - nFuzz - nEx - nPh
					switch {
					case e < nPlace:
						// the four placements of one point: oracle across them, each compared with the model
						runs, viol := runPlacementPoint(e)
						if viol != nil {
							res.Violate(*viol)
						}
						for k, pr := range runs {
							x := item{j: j*4 + k, mode: "placement", compare: true, sc: pr.sc, w: pr.w, label: placementNames[k]}
							batch = append(batch, x)
						}
						mu.Lock()
						agg["placement/reaction:"+strings.SplitN(runs[3].out, " precommits", 2)[0]]++
						mu.Unlock()
						if len(batch) >= 64 {
							flush(batch)
							batch = batch[:0]
						}
						continue
					case e < nPlace+nEarly:
						// round 6: early next-height messages, commit, crash, replay, timers (four variants per point)
						runs, viols := runEarlyPoint(e - nPlace)
						for _, v := range viols {
							res.Violate(v)
						}
						for k, er := range runs {
							x := item{j: j*4 + k, mode: "earlyreplay", compare: true, sc: er.sc, w: er.w, label: fmt.Sprintf("%s(depth %d)", earlyNames[k], 1+(e-nPlace)/placementSpace)}
							batch = append(batch, x)
						}
						mu.Lock()
						agg["earlyreplay/reaction:"+strings.ReplaceAll(runs[0].reaction, ":2:0:", ":1:0:")]++
						agg["earlyreplay/wal-entries-replayed"] += runs[1].replayed + runs[2].replayed + runs[3].replayed
						if viols == nil && runs[0].dump != "" && runs[0].dump == runs[1].dump {
							agg["earlyreplay/replayed-machine-equals-live-machine-before-Start"]++
						}
						mu.Unlock()
						if len(batch) >= 64 {
							flush(batch)
							batch = batch[:0]
						}
						continue
					case e < nPlace+nEarly+nRelock:
						it.mode = "relock"
						if v := e - nPlace - nEarly; v < relockVariants {
							it.sc, it.w = runRelock(v)
							it.label = fmt.Sprintf("variant-%d", v)
						} else {
							it.sc = pendingCommitScenario()
							it.w = Replay(it.sc)
							it.label = "pending-commit(cd6cea9)"
							if o := it.w.Outs[len(it.w.Outs)-1]; it.w.isState[len(it.w.Outs)-1] || o == "-" {
								res.Hit("pending-commit: obsolete timeout ignored, commit stays pending (since cd6cea9)")
							}
						}
					default:
						it.mode = "rounds"
						it.sc, it.w, it.label = genRounds(r.Fork(uint64(9000000 + e - nEarly)))
					}
				} else {
					// oracle on every point; the Lean model is compared on one point in eight
					it.mode = "adversary"
					e := j - nSim - nFuzz - nEx
					nA := (phA + phStrideA - 1) / phStrideA
					if e < nA {
						it.sc, it.w = runPhased(e*phStrideA, true, []int{3})
						it.label = phasedLabel(true)
					} else {
						it.sc, it.w = runPhased((e-nA)*phStrideB, false, []int{3})
						it.label = phasedLabel(false)
					}
					it.compare = e%8 == 0
				}
				batch = append(batch, it)
				if len(batch) >= 64 {
					flush(batch)
					batch = batch[:0]
				}
			}
			flush(batch)
		}()
	}
	for j := 0; j < nSim+nFuzz+nEx+nPh+nPlace+nEarly+nRelock+nRounds; j++ {
		jobs <- j
	}
	close(jobs)
	wg.Wait()
	dwg.Wait()
	// an overloaded machine starves the real-time traces (they ran next to the workers above): run more of
	// them, alone and with a longer window, before declaring the family lost
	for attempt, win := 0, 4*time.Second; attempt < 3 && (len(dChecks) < 200 || dCommits < 20 || dTimeouts < 20); attempt, win = attempt+1, win*3 {
		traceWindowNs.Store(int64(win))
		res.Hit("driver/traces-repeated-with-longer-window(machine overloaded)")
		for k := 0; k < 6; k++ {
			dwg.Add(1)
			go func(k int) {
				defer dwg.Done()
				c, t, ck, rp := runDriverTrace(res, r.Fork(uint64(7100000+100*attempt+k)), k)
				dmu.Lock()
				dCommits += c
				dTimeouts += t
				dChecks = append(dChecks, ck...)
				dReplays = append(dReplays, rp...)
				dmu.Unlock()
			}(k)
		}
		dwg.Wait()
	}
	if len(dChecks) < 200 {
		res.Fatalf("driver traces starved: only %d executed action lists to compare with the model of driver.execute", len(dChecks))
	} else if d, err := lib.StartDriver(f.Driver); err != nil {
		res.Fatalf("Lean driver failed: %v", err)
	} else {
		compareExec(res, d, dChecks)
		compareReplay(res, d, dReplays)
		d.Close()
	}
	if dCommits < 20 || dTimeouts < 20 {
		// an idle run sees ~300 commits and ~1200 timeouts; a starved trace validates nothing
		res.Fatalf("driver traces starved: only %d commits and %d timeouts observed over all traces", dCommits, dTimeouts)
	}
	for k, v := range agg {
		res.HitN(k, v)
	}
	lib.Finish(f, res)
}

func runReplay(f lib.Flags, res *lib.Result) {
	b, err := os.ReadFile(f.Replay)
	if err != nil {
		res.Fatalf("replay: %v", err)
		return
	}
	var rf replayFile
	var body replayBody
	if err := json.Unmarshal(b, &rf); err != nil || rf.Replay == nil {
		res.Fatalf("replay: unreadable file: %v", err)
		return
	}
	if err := json.Unmarshal(rf.Replay, &body); err != nil {
		res.Fatalf("replay: unreadable body: %v", err)
		return
	}
	drv, err := lib.StartDriver(f.Driver)
	if err != nil {
		res.Fatalf("Lean driver failed: %v", err)
		return
	}
	defer drv.Close()
	if body.Mode == "earlyreplay" && body.N == "" && body.Scenario != nil {
		body.Mode = "relock" // a finding of the per-history oracle inside an earlyreplay run: a plain scenario
	}
	switch body.Mode {
	case "thresholds":
		n, err := strconv.ParseUint(body.N, 10, 64)
		if err != nil {
			res.Fatalf("replay: bad n")
			return
		}
		runThresholds(f, res, lib.NewRNG(1), drv, []uint64{n})
	case "placement":
		code, err := strconv.Atoi(body.N)
		if err != nil || code < 0 || code >= placementSpace {
			res.Fatalf("replay: bad placement point")
			return
		}
		runs, viol := runPlacementPoint(code)
		for k, pr := range runs {
			askCompare(res, drv, pr.w, pr.sc, "placement")
			res.Case(fmt.Sprintf("replay/placement-%d", k), true)
			for _, v := range pr.w.Viols {
				res.Violate(lib.Violation{Sig: v.Sig, What: v.What, Replay: replayBody{Mode: "relock", Scenario: pr.sc}})
			}
		}
		if viol != nil {
			res.Violate(*viol)
		}
	case "earlyreplay":
		code, err := strconv.Atoi(body.N)
		if err != nil || code < 0 || code >= earlySpace {
			res.Fatalf("replay: bad earlyreplay point")
			return
		}
		runs, viols := runEarlyPoint(code)
		for k, er := range runs {
			askCompare(res, drv, er.w, er.sc, "earlyreplay")
			res.Case(fmt.Sprintf("replay/earlyreplay-%d", k), true)
			for _, v := range er.w.Viols {
				res.Violate(lib.Violation{Sig: v.Sig, What: v.What, Replay: replayBody{Mode: "relock", Scenario: er.sc}})
			}
		}
		for _, v := range viols {
			res.Violate(v)
		}
	case "sim", "fuzz", "exhaustive", "adversary", "relock", "rounds":
		if body.Scenario == nil {
			res.Fatalf("replay: no scenario")
			return
		}
		w := Replay(body.Scenario)
		askCompare(res, drv, w, body.Scenario, body.Mode)
		for i, o := range w.Outs {
			res.Case("replay/"+strconv.Itoa(i), o != "-")
		}
		if body.Scenario.Disciplined && !w.Admissible {
			// the inputs were recorded against other code: on this tree the environment would not have
			// produced them (e.g. a timeout that is never scheduled here), so they prove nothing
			res.Note("replayed history is not admissible on this tree (%s): its %d oracle findings are not reported", w.Why, len(w.Viols))
		} else {
			for _, v := range w.Viols {
				res.Violate(lib.Violation{Sig: v.Sig, What: v.What, Replay: body})
			}
		}
	default:
		res.Fatalf("replay: unknown mode %q", body.Mode)
	}
}
