//go:build verif

// Harness for C12 (Tendermint agreement): runs several REAL tendermint state machines wired
// through a simulated adversarial network, compares every returned action list with the Lean
// `Exec` model, and evaluates the property oracle (agreement, validity, one vote per round, lock
// rule) on the real machines' outputs. Also: undisciplined single-machine fuzzing for the
// model/implementation correspondence, and a behavioural measurement of the quorum thresholds.
package main

import (
	"encoding/json"
	"fmt"
	"os"
	"strconv"
	"sync"

	"verif/harness/lib"
)

type replayFile struct {
	Replay json.RawMessage `json:"replay"`
}

type replayBody struct {
	Mode     string    `json:"mode"`
	N        string    `json:"n,omitempty"`
	Scenario *Scenario `json:"scenario,omitempty"`
}

// compare sends the scenario's lines to the Lean driver and diffs the action lists.
func compare(res *lib.Result, drv *lib.Driver, w *World, sc *Scenario, mode string) (rules map[string]int, ok bool) {
	rules = map[string]int{}
	outs, err := drv.AskAll(w.Lines)
	if err != nil {
		res.Note("driver: %v", err)
		return rules, false
	}
	nn := len(sc.Nodes)
	for i := 0; i < nn; i++ {
		if outs[i] != "ok" {
			res.Mismatch(lib.Mismatch{Sig: "driver-rejects-config", Input: w.Lines[i], Model: outs[i]})
			return rules, false
		}
	}
	res.Compared(len(w.Outs))
	for i, impl := range w.Outs {
		model, rs := splitAnswer(outs[nn+i])
		for _, r := range rs {
			rules[r]++
		}
		if model != impl {
			cut := *sc
			cut.Events = sc.Events[:i+1]
			res.Mismatch(lib.Mismatch{Sig: "exec-actions-differ(" + mode + ")", Input: map[string]any{"mode": mode, "scenario": cut, "line": w.Lines[nn+i]},
				Model: model, Impl: impl})
			return rules, false
		}
	}
	return rules, true
}

func report(res *lib.Result, w *World, sc *Scenario, mode string) {
	for _, v := range w.Viols {
		cut := *sc
		if v.At+1 <= len(sc.Events) {
			cut.Events = sc.Events[:v.At+1]
		}
		small := &cut
		if len(cut.Events) <= 1500 {
			small = shrink(&cut, v.Sig, 3000)
		}
		res.Violate(lib.Violation{Sig: v.Sig, What: v.What, Replay: replayBody{Mode: mode, Scenario: small}})
	}
}

func main() {
	f := lib.ParseFlags()
	res := lib.NewResult("case = one input delivered to a real tendermint state machine (network scenarios with n validators, " +
		"Byzantine power <= f, adversarial scheduling; plus undisciplined single-machine fuzz histories; plus one case per " +
		"total voting power whose thresholds are measured); non-trivial = the machine returned at least one action, or a threshold case with N > 0")
	r := lib.NewRNG(f.Seed)

	if f.Replay != "" {
		runReplay(f, res)
		lib.Finish(f, res)
	}

	drv, err := lib.StartDriver(f.Driver)
	if err != nil {
		res.Note("driver: %v", err)
		lib.Finish(f, res)
	}
	runThresholds(f, res, r.Fork(1000003), drv, nil)
	drv.Close()

	nSim := f.Scale(2500, 60000)
	nFuzz := f.Scale(1500, 40000)
	workers := 8
	var wg sync.WaitGroup
	var mu sync.Mutex
	agg := map[string]int{}
	jobs := make(chan int, 64)
	for wk := 0; wk < workers; wk++ {
		wg.Add(1)
		go func() {
			defer wg.Done()
			d, err := lib.StartDriver(f.Driver)
			if err != nil {
				res.Note("driver: %v", err)
				for range jobs {
				}
				return
			}
			defer d.Close()
			for j := range jobs {
				var sc *Scenario
				var w *World
				mode := "sim"
				label := ""
				if j < nSim {
					s := genScenario(r.Fork(uint64(j)), f.Thorough())
					s.run()
					sc, w, label = s.sc, s.w, s.label
				} else {
					mode = "fuzz"
					sc, w = genFuzz(r.Fork(uint64(j)), f.Thorough())
				}
				rules, _ := compare(res, d, w, sc, mode)
				report(res, w, sc, mode)
				if mode == "sim" && !w.Admissible {
					res.Note("harness bug: generated an inadmissible history (%s)", w.Why)
				}
				mu.Lock()
				for k, v := range rules {
					agg[mode+"/rule-"+k] += v
				}
				for k, v := range w.hits {
					agg[mode+"/"+k] += v
				}
				if mode == "sim" {
					agg["sim/set-"+label]++
					agg[fmt.Sprintf("sim/byzantine=%d", len(sc.Byz))]++
					maxH := uint64(0)
					for _, v := range w.views {
						if v.height-sc.Nodes[0].Height > maxH {
							maxH = v.height - sc.Nodes[0].Height
						}
					}
					agg[fmt.Sprintf("sim/heights-committed=%d", maxH)]++
				}
				mu.Unlock()
				for i, o := range w.Outs {
					res.Case(mode+strconv.Itoa(j)+"/"+strconv.Itoa(i), o != "-")
				}
				if j%400 == 0 {
					res.Sample(6, map[string]any{"mode": mode, "set": label, "byz": sc.Byz, "events": len(sc.Events),
						"first_lines": w.Lines[:min(len(w.Lines), 12)], "first_outputs": w.Outs[:min(len(w.Outs), 8)]})
				}
			}
		}()
	}
	for j := 0; j < nSim+nFuzz; j++ {
		jobs <- j
	}
	close(jobs)
	wg.Wait()
	for k, v := range agg {
		res.HitN(k, v)
	}
	lib.Finish(f, res)
}

func runReplay(f lib.Flags, res *lib.Result) {
	b, err := os.ReadFile(f.Replay)
	if err != nil {
		res.Note("replay: %v", err)
		return
	}
	var rf replayFile
	var body replayBody
	if err := json.Unmarshal(b, &rf); err != nil || rf.Replay == nil {
		res.Note("replay: unreadable file: %v", err)
		return
	}
	if err := json.Unmarshal(rf.Replay, &body); err != nil {
		res.Note("replay: unreadable body: %v", err)
		return
	}
	drv, err := lib.StartDriver(f.Driver)
	if err != nil {
		res.Note("driver: %v", err)
		return
	}
	defer drv.Close()
	switch body.Mode {
	case "thresholds":
		n, err := strconv.ParseUint(body.N, 10, 64)
		if err != nil {
			res.Note("replay: bad n")
			return
		}
		runThresholds(f, res, lib.NewRNG(1), drv, []uint64{n})
	case "sim", "fuzz":
		if body.Scenario == nil {
			res.Note("replay: no scenario")
			return
		}
		w := Replay(body.Scenario)
		compare(res, drv, w, body.Scenario, body.Mode)
		for i, o := range w.Outs {
			res.Case("replay/"+strconv.Itoa(i), o != "-")
		}
		for _, v := range w.Viols {
			res.Violate(lib.Violation{Sig: v.Sig, What: v.What, Replay: body})
		}
		if body.Scenario.Disciplined && !w.Admissible {
			res.Note("replayed history is not admissible: %s", w.Why)
		}
	default:
		res.Note("replay: unknown mode %q", body.Mode)
	}
}
