//go:build verif

package main

import (
	"fmt"
	"regexp"
	"sort"
	"strings"

	"verif/harness/lib"
)

// Round 6: the `earlyreplay` family — "replay = live" for messages that arrive before their height is
// started (Lean: next_height_handover_commutes, early_message_is_logged_and_buffered,
// replay_rebuilds_the_live_machine).
//
// Validator 3 (n = 4, f = 1) is at height 0. The messages of (height 1, round 0) — every point of the
// placement space: proposal in {none, valid, invalid, validRound 0} x one prevote and one precommit per
// other validator in {none, value, nil} — arrive EARLY, while it is still at height 0: they produce no
// action but the WAL entry and are buffered in the vote counter. It commits height 0. Then
//
//	live                         ProcessStart(0) for height 1, every timer of (1,0) fires in the order scheduled
//	crash-after-commit           crash right after the commit (the commit flushed the WAL), restart at height 1,
//	                             replay of the DURABLE WAL through ProcessWAL (the early entries: there is no Start
//	                             entry yet), ProcessStart(0), timers
//	crash-after-Start            ProcessStart(0), crash, restart + replay (early entries in front of Start(1), as the
//	                             store returns them: by height, then insertion; what was not flushed is lost),
//	                             listen's ProcessStart(0), timers
//	crash-after-propose-timeout  ProcessStart(0), the propose timer fires, crash, restart + replay, ProcessStart(0), timers
//
// Oracles on the REAL machine: (1) the World's own: no two different votes of one kind in one (height,
// round) — what the validator broadcast before the crash is kept; (2) replay = live, state: right after
// the commit the live machine and the restarted machine after the replay are the same machine (whole
// private state of state machine and vote counter, except lastTriggerSync / lastQuorum, which are not
// logged): `replayed-machine-differs-from-the-live-machine-before-Start`; (3) replay = live, behaviour:
// the votes of (1,0) and the decision of height 1 after crash-after-commit are those of the live run:
// `validator-reacts-differently-after-replay-than-live`. Every run is also compared with the Lean model.

const earlyCrashPoints = 4
const earlySpace = 2 * placementSpace // depth 1 and depth 2

var earlyNames = []string{"live", "crash-after-commit", "crash-after-Start", "crash-after-propose-timeout"}

type earlyRun struct {
	sc       *Scenario
	w        *World
	reaction string // votes of (1,0) and the decision of height 1, all of them (before and after the crash)
	dump     string // the machine right before ProcessStart of height 1 (live: after the commit; crash-after-commit: after the replay)
	replayed int
}

var reLtsLq = regexp.MustCompile(` lts=\d+ lq=\d+`)

// earlyMsgs: the placement point `code` as messages of (height H, round 0); the proposer of (H, 0) is validator H%4.
func earlyMsgs(code int, H uint64) []In {
	ms := placementMsgs(code)
	for i := range ms {
		ms[i].H = H
		if ms[i].Kind == "prop" {
			ms[i].Sender = int(H % 4)
		}
	}
	return ms
}

// depth 1: the messages are for the NEXT height (given at height 0 for height 1); depth 2: they are given TWO heights
// early (at height 0 for height 2): they stay in the future buffer across the hand-over of height 1 and the WAL keeps
// them across the deletion of the entries of heights 0 and 1.
func runEarlyReplay(code, crash, depth int) earlyRun {
	T := uint64(depth) // the target height
	sc := &Scenario{Cfg: Cfg{Powers: []uint64{1, 1, 1, 1}, Total: 4, VMod: 4, VRem: 3, PMul: 1, Tbl: []int{0, 1, 2, 3}},
		Nodes: []NodeSpec{{Node: 3, Height: 0, VBase: 400, VStep: 4}}, Byz: []int{0, 1, 2}, Disciplined: true}
	w := NewWorld(sc)
	w.stateEvery = 2 // short histories: the whole private state is compared with the model after every second input
	run := earlyRun{sc: sc, w: w}
	var pend []In
	fired := map[toKey]bool{}
	do := func(in In) []Act {
		if len(w.Viols) > 0 {
			return nil
		}
		acts := w.Do(0, in)
		sc.Events = append(sc.Events, Event{M: 0, In: in})
		for _, a := range acts {
			if a.Kind == "T" {
				pend = append(pend, In{Kind: "to", Step: a.Step, H: a.H, R: a.R})
			}
		}
		return acts
	}
	v := w.views[0]
	// fire: the timers of (1,0), in the order they were scheduled (each at most once per process)
	fire := func(only int) {
		for i := 0; i < len(pend); i++ {
			t := pend[i]
			k := toKey{t.Step, t.H, t.R}
			if t.H != T || t.R != 0 || fired[k] || v.height != T || !v.started || (only >= 0 && t.Step != only) {
				continue
			}
			fired[k] = true
			do(t)
		}
	}
	restart := func() {
		log := walOf(w, sc, 0)
		do(In{Kind: "restart", H: v.height, Value: sc.Nodes[0].VBase})
		pend, fired = nil, map[toKey]bool{} // the old process's timers are gone
		sort.SliceStable(log, func(i, j int) bool { return log[i].H < log[j].H })
		for _, e := range log {
			if e.H >= v.height { // driver.replay skips entries below the machine's height
				do(e)
				run.replayed++
			}
		}
	}
	// height 0: proposal 8, polka, the precommit of validator 0
	do(In{Kind: "start", R: 0})
	do(In{Kind: "prop", H: 0, R: 0, Sender: 0, VR: -1, Value: 8})
	do(In{Kind: "pv", H: 0, R: 0, Sender: 0, Value: 8})
	do(In{Kind: "pv", H: 0, R: 0, Sender: 1, Value: 8})
	do(In{Kind: "pc", H: 0, R: 0, Sender: 0, Value: 8})
	// the early messages of height 1: logged and buffered
	for _, m := range earlyMsgs(code, T) {
		do(m)
	}
	if depth == 2 {
		// something for height 1 is buffered as well: the hand-over to height 1 takes a buffer out of the
		// future-height map while the one of height 2 has to stay in it
		do(In{Kind: "pv", H: 1, R: 0, Sender: 2, Nil: true})
	}
	do(In{Kind: "pc", H: 0, R: 0, Sender: 1, Value: 8}) // own + 0 + 1: commit of height 0
	if depth == 2 && v.height == 1 {
		// height 1 in between: proposal 12 of validator 1, polka, precommits, commit
		do(In{Kind: "start", R: 0})
		do(In{Kind: "prop", H: 1, R: 0, Sender: 1, VR: -1, Value: 12})
		do(In{Kind: "pv", H: 1, R: 0, Sender: 0, Value: 12})
		do(In{Kind: "pv", H: 1, R: 0, Sender: 1, Value: 12})
		do(In{Kind: "pc", H: 1, R: 0, Sender: 0, Value: 12})
		do(In{Kind: "pc", H: 1, R: 0, Sender: 1, Value: 12})
	}
	if v.height != T {
		run.reaction = "no-commit-of-the-heights-before"
		return run
	}
	dump := func() {
		if d, err := dumpState(w.sms[0]); err == nil {
			run.dump = reLtsLq.ReplaceAllString(d, "")
		} else if w.DumpErr == "" {
			w.DumpErr = err.Error()
		}
	}
	switch crash {
	case 0:
		dump()
		do(In{Kind: "start", R: 0})
	case 1:
		restart()
		dump()
		do(In{Kind: "start", R: 0})
	case 2:
		do(In{Kind: "start", R: 0})
		if v.height == T {
			restart()
			do(In{Kind: "start", R: 0})
		}
	case 3:
		do(In{Kind: "start", R: 0})
		fire(0)
		if v.height == T {
			restart()
			do(In{Kind: "start", R: 0})
		}
	}
	fire(-1)
	// the reaction at height 1
	seen := map[string]bool{}
	var votes []string
	commit := ""
	for _, acts := range w.Acts {
		for _, a := range acts {
			switch {
			case (a.Kind == "BV" || a.Kind == "BC") && a.H == T && a.R == 0 && !seen[a.Str]:
				seen[a.Str] = true
				votes = append(votes, a.Str)
			case a.Kind == "C" && a.H == T:
				commit = a.Str
			}
		}
	}
	sort.Strings(votes)
	run.reaction = "votes[" + strings.Join(votes, " ") + "] decision[" + commit + "]"
	return run
}

// runEarlyPoint runs the four variants of one point and applies the cross-run oracles.
func runEarlyPoint(point int) (runs []earlyRun, viols []lib.Violation) {
	code, depth := point%placementSpace, 1+point/placementSpace
	for c := 0; c < earlyCrashPoints; c++ {
		runs = append(runs, runEarlyReplay(code, c, depth))
	}
	live, rep := runs[0], runs[1]
	if len(live.w.Viols) > 0 || len(rep.w.Viols) > 0 {
		return runs, nil // reported with their own sig and replay
	}
	body := replayBody{Mode: "earlyreplay", N: fmt.Sprint(point), Scenario: rep.sc}
	if live.dump != rep.dump {
		viols = append(viols, lib.Violation{Sig: "replayed-machine-differs-from-the-live-machine-before-Start",
			What: fmt.Sprintf("validator 3 was given %d messages of height %d while at height 0 (each returned its WriteWAL entry), then committed up to that height. "+
				"LIVE machine right after the commit: %s | machine restarted at that height after replaying its durable WAL (%d entries) through ProcessWAL: %s "+
				"(a message given to the state machine must be counted whenever it arrives: replay = live)",
				len(placementMsgs(code)), depth, live.dump, rep.replayed, rep.dump), Replay: body})
	}
	if live.reaction != rep.reaction {
		viols = append(viols, lib.Violation{Sig: "validator-reacts-differently-after-replay-than-live",
			What: fmt.Sprintf("same early messages of height %d (given at height 0), same timers: live the validator's votes of round 0 / decision at that height are %s; crashed right after the commit of the height before, "+
				"restarted, WAL replayed (%d entries), ProcessStart(0), timers: %s", depth, live.reaction, rep.replayed, rep.reaction), Replay: body})
	}
	return runs, viols
}
