//go:build verif

package main

import (
	"fmt"
	"sort"
	"strings"

	"verif/harness/lib"
)

// Round 5: directed multi-round families (all on REAL state machines, property oracle on).
//
//   relock      n = 4, f = 1, four rounds of one height: X locks v in round 0; w gets a polka in round 1
//               that X does not see in time; X re-proposes v in round 2 (valid round 0), sees a polka
//               and RE-LOCKS v in round 2; in round 3 the Byzantine proposer sends (w, validRound 1)
//               and the late round-1 prevotes. X must prevote nil: its lock (the oracle's own record:
//               the last value precommit X broadcast) is in round 2 > 1. Variants: order of the two
//               late messages, delivery through ProcessWAL, a crash + WAL replay of X before round 3.
//   pending     the history of `ignored_timeout_took_pending_commit_before_cd6cea9` (Props.lean).
//   placement   messages of height h+1 placed (a) while the validator is still at height h, (b) after
//               its commit but before ProcessStart(h+1) (what WAL replay does: entries logged before the
//               Start entry), (c) on a restarted machine before Start, (d) after Start: the validator's
//               reaction (its prevote, its decision, its precommit unless it decided) must be the same.
//   rounds      randomised round-structured adversary over 4 rounds (see genRounds).

// ---- small scripting layer on top of `phased` ------------------------------------------------

type script struct {
	*phased
	walP int // per cent of deliveries that go through ProcessWAL
	r    *lib.RNG
}

func newScript(sc *Scenario, r *lib.RNG, walP int) *script {
	return &script{phased: newPhased(sc), r: r, walP: walP}
}

func (s *script) maybeWal(in In) In {
	if s.r != nil && s.walP > 0 && s.r.Intn(100) < s.walP {
		in.Wal = true
	}
	return in
}

// fromCorrect delivers to machine m what validator `sender` broadcast of `kind` in (h, r), if anything.
func (s *script) fromCorrect(m int, kind string, h uint64, r int, sender int) {
	for i := 0; i < len(s.out); i++ {
		o := s.out[i]
		if o.Kind == kind && o.H == h && o.R == r && o.Sender == sender && s.from[i] != m {
			s.deliver(m, s.maybeWal(o))
		}
	}
}

// allCorrect delivers to every machine everything the other correct validators broadcast of `kind` in (h, r).
func (s *script) allCorrect(kind string, h uint64, r int) {
	for m := range s.sc.Nodes {
		s.deliverCorrect(m, func(in In) bool { return in.Kind == kind && in.H == h && in.R == r })
	}
}

func (s *script) fireAll(step int, h uint64, r int) {
	for m := range s.sc.Nodes {
		s.fire(m, func(t In) bool { return t.Step == step && t.H == h && t.R == r })
	}
}

func (s *script) fireOne(m, step int, h uint64, r int) {
	s.fire(m, func(t In) bool { return t.Step == step && t.H == h && t.R == r })
}

// valueOf: the value validator `sender` proposed in (h, r), if it did.
func (s *script) valueOf(h uint64, r int, sender int) (uint64, bool) {
	for _, o := range s.out {
		if o.Kind == "prop" && o.H == h && o.R == r && o.Sender == sender {
			return o.Value, true
		}
	}
	return 0, false
}

// restart crashes machine m and replays what it logged for its height (every entry flushed: the
// script restarts only after a broadcast), then ProcessStart(0).
func (s *script) restart(m int, log []In) {
	v := s.w.views[m]
	spec := s.sc.Nodes[m]
	in := In{Kind: "restart", H: v.height, Value: spec.VBase}
	s.w.Do(m, in)
	s.sc.Events = append(s.sc.Events, Event{M: m, In: in})
	s.timeouts[m] = nil
	s.fired[m] = map[toKey]bool{}
	for _, e := range log {
		if e.H >= s.w.views[m].height {
			s.do(m, e)
		}
	}
	s.do(m, In{Kind: "start", R: 0})
}

// walOf: the DURABLE WAL of machine m (as replay inputs), from the recorded actions: entries become
// durable with the flush in front of the next broadcast / commit (driver.execute); what was written
// after the last one is lost by the crash.
func walOf(w *World, sc *Scenario, m int) []In {
	var log, pending []In
	for i, acts := range w.Acts {
		if w.isState[i] || w.evOf[i] >= len(sc.Events) || sc.Events[w.evOf[i]].M != m {
			continue
		}
		for _, a := range acts {
			if a.Flush {
				log = append(log, pending...)
				pending = nil
			}
			if a.Kind == "W" && a.Wal != nil {
				pending = append(pending, *a.Wal)
			}
		}
	}
	return log
}

// ---- relock ---------------------------------------------------------------------------------

const relockVariants = 16

// runRelock: X = validator 0, Y = 1, Z = 2 correct, validator 3 Byzantine; proposers of rounds
// 0..3: Y, Z, X, Byzantine.
func runRelock(variant int) (*Scenario, *World) {
	proposalFirst := variant&1 != 0
	viaWal := variant&2 != 0
	crash := variant&4 != 0
	byzSendsPolkaToY := variant&8 != 0
	sc := &Scenario{Cfg: Cfg{Powers: []uint64{1, 1, 1, 1}, Total: 4, VMod: 4, VRem: 3, PMul: 1, Tbl: []int{1, 2, 0, 3}}, Byz: []int{3}, Disciplined: true}
	for i := 0; i < 3; i++ {
		sc.Nodes = append(sc.Nodes, NodeSpec{Node: i, Height: 0, VBase: uint64(400 * (i + 1)), VStep: 4})
	}
	walP := 0
	if viaWal {
		walP = 100
	}
	s := newScript(sc, lib.NewRNG(uint64(variant)+1), walP)
	const X, Y, Z, B = 0, 1, 2, 3
	for m := 0; m < 3; m++ {
		s.do(m, In{Kind: "start", R: 0})
	}
	v, okv := s.valueOf(0, 0, Y)
	if !okv {
		return sc, s.w
	}
	byz := func(m int, in In) { in.Sender = B; s.deliver(m, s.maybeWal(in)) }
	// round 0: X sees the proposal and a polka (X, Y, Byzantine) -> locks v; Y and Z see no polka
	s.fromCorrect(X, "prop", 0, 0, Y)
	s.fireOne(Z, 0, 0, 0)
	s.fromCorrect(X, "pv", 0, 0, Y)
	byz(X, In{Kind: "pv", H: 0, R: 0, Value: v})
	s.fromCorrect(Y, "pv", 0, 0, X)
	s.fromCorrect(Y, "pv", 0, 0, Z)
	s.fromCorrect(Z, "pv", 0, 0, X)
	s.fromCorrect(Z, "pv", 0, 0, Y)
	s.fireOne(Y, 1, 0, 0)
	s.fireOne(Z, 1, 0, 0)
	s.allCorrect("pc", 0, 0)
	s.fireAll(2, 0, 0)
	// round 1: Z proposes w; Y and Z prevote w, X (locked on v) nil; the Byzantine prevote for w is withheld
	wv, okw := s.valueOf(0, 1, Z)
	s.fromCorrect(Y, "prop", 0, 1, Z)
	s.fromCorrect(X, "prop", 0, 1, Z)
	s.allCorrect("pv", 0, 1)
	s.fireAll(1, 0, 1)
	s.allCorrect("pc", 0, 1)
	s.fireAll(2, 0, 1)
	// round 2: X re-proposes v (valid round 0); Y learns the round-0 polka late and prevotes v;
	// X sees the polka of round 2 and locks v AGAIN, now in round 2
	byz(Y, In{Kind: "pv", H: 0, R: 0, Value: v})
	s.fromCorrect(Y, "prop", 0, 2, X)
	s.fromCorrect(X, "pv", 0, 2, Y)
	byz(X, In{Kind: "pv", H: 0, R: 2, Value: v})
	s.fireOne(Z, 0, 0, 2)
	s.fromCorrect(Y, "pv", 0, 2, X)
	s.fromCorrect(Y, "pv", 0, 2, Z)
	if byzSendsPolkaToY {
		byz(Y, In{Kind: "pv", H: 0, R: 2, Value: v}) // Y locks v in round 2 as well
	}
	s.fromCorrect(Z, "pv", 0, 2, X)
	s.fromCorrect(Z, "pv", 0, 2, Y)
	s.fireOne(Y, 1, 0, 2)
	s.fireOne(Z, 1, 0, 2)
	s.allCorrect("pc", 0, 2)
	s.fireAll(2, 0, 2)
	if crash {
		// X's last flush was in front of its round-2 precommit: the precommit timeout of round 2 is lost,
		// the replayed X is in round 2 again (locked on v in round 2 by the replayed polka) and its
		// re-armed timer takes it to round 3
		s.restart(X, walOf(s.w, sc, X))
		s.allCorrect("pc", 0, 2)
		s.fireOne(X, 2, 0, 2)
	}
	// round 3: the Byzantine proposer re-proposes w with valid round 1 and releases the round-1 prevote
	if okw {
		late := In{Kind: "pv", H: 0, R: 1, Value: wv}
		prop := In{Kind: "prop", H: 0, R: 3, VR: 1, Value: wv}
		for _, m := range []int{X, Y} {
			if proposalFirst {
				byz(m, prop)
				byz(m, late)
			} else {
				byz(m, late)
				byz(m, prop)
			}
		}
	}
	// continuation: everything is delivered, every timeout fires
	for it := 0; it < 6 && len(s.w.Viols) == 0; it++ {
		before := len(sc.Events)
		for m := range sc.Nodes {
			s.deliverCorrect(m, func(In) bool { return true })
		}
		for m := range sc.Nodes {
			s.fire(m, func(In) bool { return true })
		}
		if len(sc.Events) == before {
			break
		}
	}
	return sc, s.w
}

// ---- pending commit (cd6cea9) ----------------------------------------------------------------

// pendingCommitScenario: `pendingCommitPrefix` of Props.lean followed by the obsolete propose timer of
// round 1. Before cd6cea9 the timer returned [Commit] with no WAL entry in front of it.
func pendingCommitScenario() *Scenario {
	pv := func(r, s int, v uint64) In { return In{Kind: "pv", H: 0, R: r, Sender: s, Value: v} }
	pc := func(r, s int, v uint64) In { return In{Kind: "pc", H: 0, R: r, Sender: s, Value: v} }
	ins := []In{
		{Kind: "start", R: 0}, {Kind: "prop", H: 0, R: 0, Sender: 0, VR: -1, Value: 8}, pv(0, 0, 8),
		{Kind: "pv", H: 0, R: 0, Sender: 1, Nil: true}, {Kind: "to", Step: 1, H: 0, R: 0},
		{Kind: "pc", H: 0, R: 0, Sender: 0, Nil: true}, {Kind: "pc", H: 0, R: 0, Sender: 1, Nil: true}, {Kind: "to", Step: 2, H: 0, R: 0},
		{Kind: "prop", H: 0, R: 1, Sender: 1, VR: 0, Value: 8}, pv(1, 0, 8), pv(1, 1, 8), pc(1, 0, 8), pc(1, 1, 8),
		pv(0, 2, 8),
		{Kind: "to", Step: 0, H: 0, R: 1},
	}
	sc := &Scenario{Cfg: Cfg{Powers: []uint64{1, 1, 1, 1}, Total: 4, VMod: 4, VRem: 3, PMul: 1, Tbl: []int{0, 1, 2, 3}},
		Nodes: []NodeSpec{{Node: 3, Height: 0, VBase: 400, VStep: 4}}, Byz: []int{0, 1, 2}, Disciplined: true}
	for _, in := range ins {
		sc.Events = append(sc.Events, Event{M: 0, In: in})
	}
	return sc
}

// ---- placement ------------------------------------------------------------------------------

// placementSpace: proposal of (1,0) in {none, valid, invalid, valid with validRound 0} x one prevote
// and one precommit per other validator in {none, value, nil}.
const placementSpace = 4 * 27 * 27

var placementNames = []string{"while-at-previous-height", "after-commit-before-Start", "restarted-before-Start", "after-Start"}

// placementMsgs decodes a point of the space into the messages of height 1, round 0 for validator 3
// (proposer of (1,0) is validator 1; every other validator casts at most one vote of each kind, so a
// polka for the value and a nil polka exclude each other and the outcome is order-independent).
func placementMsgs(code int) []In {
	digit := func(base int) int { d := code % base; code /= base; return d }
	const val, bad = 16, 19 // 19 % 4 == 3: the application rejects it
	var ms []In
	pval := uint64(val)
	switch digit(4) {
	case 1:
		ms = append(ms, In{Kind: "prop", H: 1, R: 0, Sender: 1, VR: -1, Value: val})
	case 2:
		pval = bad
		ms = append(ms, In{Kind: "prop", H: 1, R: 0, Sender: 1, VR: -1, Value: bad})
	case 3:
		ms = append(ms, In{Kind: "prop", H: 1, R: 0, Sender: 1, VR: 0, Value: val})
	}
	for _, kind := range []string{"pv", "pc"} {
		for s := 0; s < 3; s++ {
			switch digit(3) {
			case 1:
				ms = append(ms, In{Kind: kind, H: 1, R: 0, Sender: s, Value: pval})
			case 2:
				ms = append(ms, In{Kind: kind, H: 1, R: 0, Sender: s, Nil: true})
			}
		}
	}
	return ms
}

// runPlacement runs one point with the messages at position `place` (0..3) and returns the scenario,
// the world and validator 3's reaction at height 1.
func runPlacement(code, place int) (*Scenario, *World, string) {
	sc := &Scenario{Cfg: Cfg{Powers: []uint64{1, 1, 1, 1}, Total: 4, VMod: 4, VRem: 3, PMul: 1, Tbl: []int{0, 1, 2, 3}},
		Nodes: []NodeSpec{{Node: 3, Height: 0, VBase: 400, VStep: 4}}, Byz: []int{0, 1, 2}, Disciplined: true}
	w := NewWorld(sc)
	do := func(in In) []Act {
		acts := w.Do(0, in)
		sc.Events = append(sc.Events, Event{M: 0, In: in})
		return acts
	}
	msgs := placementMsgs(code)
	// height 0: proposal 8, polka, two precommits; the third commits
	do(In{Kind: "start", R: 0})
	do(In{Kind: "prop", H: 0, R: 0, Sender: 0, VR: -1, Value: 8})
	do(In{Kind: "pv", H: 0, R: 0, Sender: 0, Value: 8})
	do(In{Kind: "pv", H: 0, R: 0, Sender: 1, Value: 8})
	do(In{Kind: "pc", H: 0, R: 0, Sender: 0, Value: 8})
	if place == 0 {
		for _, m := range msgs {
			do(m)
		}
	}
	do(In{Kind: "pc", H: 0, R: 0, Sender: 1, Value: 8}) // own + 0 + 1: commit
	if w.views[0].height != 1 {
		return sc, w, "no-commit-of-height-0"
	}
	switch place {
	case 1:
		for _, m := range msgs {
			m.Wal = true
			do(m)
		}
	case 2:
		do(In{Kind: "restart", H: 1, Value: sc.Nodes[0].VBase})
		for _, m := range msgs {
			m.Wal = true
			do(m)
		}
	}
	do(In{Kind: "start", R: 0})
	if place == 3 {
		for _, m := range msgs {
			if w.views[0].height != 1 {
				break // decided: the rest is for an old height
			}
			do(m)
		}
	}
	// the reaction: prevotes, decision, precommits (unless decided: a commit pre-empts the precommit
	// when the precommit quorum is complete before the polka is)
	var bv, bc []string
	commit := ""
	for _, acts := range w.Acts {
		for _, a := range acts {
			if a.H != 1 {
				continue
			}
			switch a.Kind {
			case "BV":
				bv = append(bv, a.Str)
			case "BC":
				bc = append(bc, a.Str)
			case "C":
				commit = a.Str
			}
		}
	}
	sort.Strings(bv)
	sort.Strings(bc)
	out := "prevotes[" + strings.Join(bv, " ") + "] decision[" + commit + "]"
	if commit == "" {
		out += " precommits[" + strings.Join(bc, " ") + "]"
	}
	return sc, w, out
}

type placementRun struct {
	sc  *Scenario
	w   *World
	out string
}

// runPlacementPoint runs the four placements of one point and applies the oracle.
func runPlacementPoint(code int) (runs []placementRun, viol *lib.Violation) {
	for place := 0; place < 4; place++ {
		sc, w, out := runPlacement(code, place)
		runs = append(runs, placementRun{sc, w, out})
	}
	ref := runs[3]
	for place := 0; place < 3; place++ {
		if runs[place].out != ref.out {
			sig := "reaction-differs-for-messages-given-before-Start"
			if place == 0 {
				sig = "reaction-differs-for-messages-given-at-the-previous-height"
			}
			return runs, &lib.Violation{Sig: sig,
				What: fmt.Sprintf("validator 3 was given the same authentic messages of height 1 %s and after ProcessStart(1): its reaction differs — %s: %s; after Start: %s "+
					"(a message given to the state machine must be counted whenever it arrives; WAL replay feeds the messages logged before the Start entry first)",
					placementNames[place], placementNames[place], runs[place].out, ref.out),
				Replay: replayBody{Mode: "placement", N: fmt.Sprint(code), Scenario: runs[place].sc}}
		}
	}
	return runs, nil
}

// ---- rounds: randomised round-structured adversary ----------------------------------------------

// genRounds: n validators of power 1 (4 with f = 1, or 7 with f = 2), Byzantine validators the last f.
// Four rounds of height 0, each in three phases. Per round the adversary decides at random, per
// correct validator: whether it gets the proposal (a Byzantine proposer shows a fresh value, a
// re-proposal (value, validRound) of a value already seen, different things to different
// validators, or nothing), which of the other correct validators' votes of the phase it gets (all /
// none / each with probability 1/2), what each Byzantine validator votes towards it (the round's
// value, another seen value, nil, nothing); messages withheld in earlier rounds are released late at
// the beginning of a round with probability 1/3 each. All timeouts of a phase fire at its end. After
// the four rounds: full delivery until quiescence. Locks taken in one round meet re-proposals and
// late polkas of the next ones: the schedules the lock / re-lock bookkeeping is about.
func genRounds(r *lib.RNG) (*Scenario, *World, string) {
	n, f := 4, 1
	label := "4x1"
	if r.Chance(1, 4) {
		n, f, label = 7, 2, "7x1"
	}
	powers := make([]uint64, n)
	tbl := make([]int, n)
	for i := range powers {
		powers[i] = 1
		tbl[i] = i
	}
	lib.Shuffle(r, tbl)
	var byz []int
	for i := n - f; i < n; i++ {
		byz = append(byz, i)
	}
	sc := &Scenario{Cfg: Cfg{Powers: powers, Total: uint64(n), VMod: 4, VRem: 3, PMul: 1, Tbl: tbl}, Byz: byz, Disciplined: true}
	for i := 0; i < n-f; i++ {
		sc.Nodes = append(sc.Nodes, NodeSpec{Node: i, Height: 0, VBase: uint64(400 * (i + 1)), VStep: 4})
	}
	s := newScript(sc, r, lib.Pick(r, []int{0, 0, 10}))
	nc := len(sc.Nodes)
	for m := 0; m < nc; m++ {
		s.do(m, In{Kind: "start", R: 0})
	}
	type seenVal struct {
		v  uint64
		rd int
	}
	var seen []seenVal // values proposed so far and the round
	var withheld []struct {
		m  int
		in In
	}
	isByz := map[int]bool{}
	for _, b := range byz {
		isByz[b] = true
	}
	hold := func(m int, in In) {
		withheld = append(withheld, struct {
			m  int
			in In
		}{m, in})
	}
	for rd := 0; rd < 4 && len(s.w.Viols) == 0; rd++ {
		// late release
		keep := withheld[:0]
		for _, x := range withheld {
			if r.Chance(1, 3) {
				s.deliver(x.m, s.maybeWal(x.in))
			} else {
				keep = append(keep, x)
			}
		}
		withheld = keep
		// ---- proposal phase
		p := sc.Cfg.proposerIdx(0, rd)
		fresh := uint64(8 + 4*rd)
		if isByz[p] {
			for m := 0; m < nc; m++ {
				var in In
				switch k := r.Intn(6); {
				case k == 0:
					continue
				case k <= 2 || len(seen) == 0:
					in = In{Kind: "prop", H: 0, R: rd, Sender: p, VR: -1, Value: fresh + uint64(4*(m%2))*uint64(r.Intn(2))}
					if r.Chance(1, 8) {
						in.Value = fresh + 3 // the application rejects it
					}
				default:
					sv := lib.Pick(r, seen)
					vr := sv.rd
					if r.Chance(1, 4) && rd > 0 {
						vr = r.Intn(rd)
					}
					in = In{Kind: "prop", H: 0, R: rd, Sender: p, VR: vr, Value: sv.v}
				}
				seen = append(seen, seenVal{in.Value, rd})
				if r.Chance(1, 6) {
					hold(m, in)
				} else {
					s.deliver(m, s.maybeWal(in))
				}
			}
		} else {
			if v, ok := s.valueOf(0, rd, p); ok {
				seen = append(seen, seenVal{v, rd})
			}
			for m := 0; m < nc; m++ {
				if r.Chance(3, 4) {
					s.fromCorrect(m, "prop", 0, rd, p)
				} else {
					for i, o := range s.out {
						if o.Kind == "prop" && o.H == 0 && o.R == rd && s.from[i] != m {
							hold(m, o)
						}
					}
				}
			}
		}
		s.fireAll(0, 0, rd)
		// ---- prevote and precommit phases
		for step, kind := range []string{"pv", "pc"} {
			for m := 0; m < nc; m++ {
				mode := r.Intn(3) // 0 all, 1 none, 2 each with probability 1/2
				for i := 0; i < len(s.out); i++ {
					o := s.out[i]
					if o.Kind != kind || o.H != 0 || o.R != rd || s.from[i] == m {
						continue
					}
					if mode == 0 || (mode == 2 && r.Chance(1, 2)) {
						s.deliver(m, s.maybeWal(o))
					} else {
						hold(m, o)
					}
				}
				for _, b := range byz {
					var in In
					switch k := r.Intn(5); {
					case k == 0:
						continue
					case k == 1:
						in = In{Kind: kind, H: 0, R: rd, Sender: b, Nil: true}
					case k == 2 && len(seen) > 0:
						in = In{Kind: kind, H: 0, R: rd, Sender: b, Value: lib.Pick(r, seen).v}
					default:
						// the value of this round (what the validator was shown, else the fresh one)
						val := fresh
						for i := len(seen) - 1; i >= 0; i-- {
							if seen[i].rd == rd {
								val = seen[i].v
								break
							}
						}
						in = In{Kind: kind, H: 0, R: rd, Sender: b, Value: val}
					}
					if r.Chance(1, 4) {
						hold(m, in)
					} else {
						s.deliver(m, s.maybeWal(in))
					}
				}
			}
			s.fireAll(step+1, 0, rd)
		}
	}
	for it := 0; it < 10 && len(s.w.Viols) == 0; it++ {
		before := len(sc.Events)
		for _, x := range withheld {
			s.deliver(x.m, x.in)
		}
		withheld = nil
		for m := 0; m < nc; m++ {
			s.deliverCorrect(m, func(In) bool { return true })
		}
		for m := 0; m < nc; m++ {
			s.fire(m, func(In) bool { return true })
		}
		if len(sc.Events) == before {
			break
		}
	}
	return sc, s.w, label
}
