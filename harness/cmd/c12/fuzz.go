//go:build verif

package main

import (
	"verif/harness/lib"
)

// genFuzz builds an UNdisciplined single-machine history: arbitrary inputs (timeouts that were
// never scheduled, inputs before ProcessStart, start rounds != 0, negative rounds, senders that
// are not validators, forged senders, total power that is not the sum of the powers, ...). Used
// only for the model/implementation correspondence; the property oracle is not evaluated on it.
func genFuzz(r *lib.RNG, thorough bool) (*Scenario, *World) {
	vs := lib.Pick(r, valSets)
	n := len(vs.powers)
	total := sumU(vs.powers)
	switch r.Intn(10) {
	case 0:
		total = 0
	case 1:
		total = 1
	case 2:
		total++
	case 3:
		total--
	}
	cfg := Cfg{Powers: vs.powers, Total: total, Rot: lib.Pick(r, []int{0, 0, 1, 2}), VMod: 4, VRem: 3,
		PMul: lib.Pick(r, []int{1, 1, 0, 3}), Tbl: vs.tbl}
	if r.Chance(1, 10) {
		cfg.VMod = 0
	}
	me := r.Intn(n)
	start := uint64(lib.Pick(r, []int{0, 0, 1, 5}))
	sc := &Scenario{Cfg: cfg, Nodes: []NodeSpec{{Node: me, Height: start, VBase: uint64(lib.Pick(r, []int{400, 8, 7})), VStep: uint64(lib.Pick(r, []int{4, 0, 1}))}}}
	w := NewWorld(sc)
	steps := r.Range(40, 120)
	if thorough {
		steps = r.Range(60, 250)
	}
	guided := r.Chance(2, 3) // mostly keep the machine started so that deep states are reached
	vals := []uint64{8, 12, 7, 16, 400, 404}
	var sched []In
	for i := 0; i < steps; i++ {
		v := w.views[0]
		cur := v.height
		var in In
		if guided && !v.started && r.Chance(9, 10) {
			in = In{Kind: "start", R: lib.Pick(r, []int{0, 0, 0, 0, 1, -1, 2})}
		} else {
			h := cur
			switch r.Intn(10) {
			case 0:
				if h > 0 {
					h--
				}
			case 1:
				h++
			case 2:
				h += 2
			}
			rd := lib.Pick(r, []int{-1, 0, 0, 0, 1, 1, 2, 3})
			if r.Chance(1, 2) && v.maxRound > 0 {
				rd = r.Range(0, v.maxRound+1)
			}
			val := lib.Pick(r, vals)
			switch k := r.Intn(20); {
			case k == 0:
				in = In{Kind: "start", R: lib.Pick(r, []int{0, 0, 1, -1, 2})}
			case k < 5:
				snd := cfg.proposerIdx(h, rd)
				if r.Chance(1, 8) {
					snd = r.Intn(n + 1)
				}
				vr := lib.Pick(r, []int{-1, -1, -1, -2, 0, 1, 2, rd, rd - 1})
				in = In{Kind: "prop", H: h, R: rd, Sender: snd, VR: vr, Value: val}
			case k < 11:
				in = In{Kind: "pv", H: h, R: rd, Sender: r.Intn(n + 1), Value: val, Nil: r.Chance(1, 4)}
			case k < 16:
				in = In{Kind: "pc", H: h, R: rd, Sender: r.Intn(n + 1), Value: val, Nil: r.Chance(1, 4)}
			case k < 18 && len(sched) > 0:
				in = lib.Pick(r, sched)
			default:
				in = In{Kind: "to", Step: r.Intn(3), H: h, R: rd}
			}
			if in.Nil {
				in.Value = 0
			}
		}
		acts := w.Do(0, in)
		sc.Events = append(sc.Events, Event{M: 0, In: in})
		for _, a := range acts {
			if a.Kind == "T" {
				sched = append(sched, In{Kind: "to", Step: a.Step, H: a.H, R: a.R})
			}
			if a.Kind == "BP" {
				vals = append(vals, a.Value)
			}
		}
	}
	return sc, w
}
