//go:build verif

package main

import (
	"fmt"

	"github.com/NethermindEth/juno/consensus/types"
	"verif/harness/lib"
)

// genFuzz builds an UNdisciplined single-machine history: arbitrary inputs (timeouts that were
// never scheduled, inputs before ProcessStart, start rounds != 0, negative rounds, senders that
// are not validators, forged senders, total power that is not the sum of the powers, ...). Used
// only for the model/implementation correspondence; the property oracle is not evaluated on it.
func genFuzz(r *lib.RNG, thorough bool) (*Scenario, *World) {
	vs := lib.Pick(r, valSets)
	n := len(vs.powers)
	total := sumU(vs.powers)
	switch r.Intn(10) {
	case 0:
		total = 0
	case 1:
		total = 1
	case 2:
		total++
	case 3:
		total--
	}
	cfg := Cfg{Powers: vs.powers, Total: total, Rot: lib.Pick(r, []int{0, 0, 1, 2}), VMod: 4, VRem: 3,
		PMul: lib.Pick(r, []int{1, 1, 0, 3}), Tbl: vs.tbl}
	if r.Chance(1, 4) {
		cfg.AltPowers = lib.Pick(r, valSets).powers
		cfg.AltTotal = sumU(cfg.AltPowers) + uint64(r.Intn(2))
	}
	if r.Chance(1, 10) {
		cfg.VMod = 0
	}
	if r.Chance(1, 8) {
		// 64-bit tallies: sums of these powers wrap around (the model wraps at 2^64 too)
		cfg.Powers = lib.Pick(r, [][]uint64{{1 << 63, 1 << 63, 1, 1}, {1 << 63, 1<<63 - 1, 1 << 62, 1 << 62}, {^uint64(0), 1, 1, 1}, {1 << 62, 1 << 62, 1 << 62, 1 << 62}})
		cfg.Tbl = []int{0, 1, 2, 3}
		cfg.Total = lib.Pick(r, []uint64{^uint64(0), 1 << 63, 1<<63 + 1, 1 << 62, 3})
		n = 4
	}
	me := r.Intn(n)
	start := uint64(lib.Pick(r, []int{0, 0, 1, 5}))
	sc := &Scenario{Cfg: cfg, Nodes: []NodeSpec{{Node: me, Height: start, VBase: uint64(lib.Pick(r, []int{400, 8, 7})), VStep: uint64(lib.Pick(r, []int{4, 0, 1}))}}}
	w := NewWorld(sc)
	steps := r.Range(40, 120)
	if thorough {
		steps = r.Range(60, 250)
	}
	guided := r.Chance(2, 3) // mostly keep the machine started so that deep states are reached
	vals := []uint64{8, 12, 7, 16, 400, 404}
	var sched []In
	for i := 0; i < steps; i++ {
		v := w.views[0]
		cur := v.height
		var in In
		if guided && !v.started && r.Chance(9, 10) {
			in = In{Kind: "start", R: lib.Pick(r, []int{0, 0, 0, 0, 1, -1, 2})}
		} else {
			h := cur
			switch r.Intn(10) {
			case 0:
				if h > 0 {
					h--
				}
			case 1:
				h++
			case 2:
				h += 2
			}
			rd := lib.Pick(r, []int{-1, 0, 0, 0, 1, 1, 2, 3})
			if r.Chance(1, 2) && v.maxRound > 0 {
				rd = r.Range(0, v.maxRound+1)
			}
			val := lib.Pick(r, vals)
			switch k := r.Intn(20); {
			case k == 0:
				in = In{Kind: "start", R: lib.Pick(r, []int{0, 0, 1, -1, 2})}
			case k < 5:
				snd := cfg.proposerIdx(h, rd)
				if r.Chance(1, 8) {
					snd = r.Intn(n + 1)
				}
				vr := lib.Pick(r, []int{-1, -1, -1, -2, 0, 1, 2, rd, rd - 1})
				in = In{Kind: "prop", H: h, R: rd, Sender: snd, VR: vr, Value: val}
			case k < 11:
				in = In{Kind: "pv", H: h, R: rd, Sender: r.Intn(n + 1), Value: val, Nil: r.Chance(1, 4)}
			case k < 16:
				in = In{Kind: "pc", H: h, R: rd, Sender: r.Intn(n + 1), Value: val, Nil: r.Chance(1, 4)}
			case k < 18 && len(sched) > 0:
				in = lib.Pick(r, sched)
			default:
				in = In{Kind: "to", Step: r.Intn(3), H: h, R: rd}
			}
			if in.Nil {
				in.Value = 0
			}
			if in.Kind == "prop" && r.Chance(1, 10) {
				// ProcessSync: the proposal plus a few precommits
				in.Kind = "sync"
				for k := r.Intn(5); k > 0; k-- {
					x := In{Kind: "pc", H: lib.Pick(r, []uint64{h, h, h, h + 1}), R: lib.Pick(r, []int{rd, rd, 0}), Sender: r.Intn(n + 1), Value: lib.Pick(r, []uint64{val, val, 8})}
					if r.Chance(1, 8) {
						x.Nil, x.Value = true, 0
					}
					in.Votes = append(in.Votes, x)
				}
			} else if r.Chance(1, 8) {
				in.Wal = true
			}
		}
		acts := w.Do(0, in)
		sc.Events = append(sc.Events, Event{M: 0, In: in})
		for _, a := range acts {
			if a.Kind == "T" {
				sched = append(sched, In{Kind: "to", Step: a.Step, H: a.H, R: a.R})
			}
			if a.Kind == "BP" {
				vals = append(vals, a.Value)
			}
		}
	}
	return sc, w
}

// leadScenario is the fixed UNdisciplined history of `timeout_before_start_breaks_one_vote`
// (Props.lean): a timeout delivered before ProcessStart (one that matches the height, round and step:
// since cd6cea9 any other is ignored) makes validator 3 prevote nil and 8 in (height 0, round 0). It is replayed on the real machine to show that the model's witness is the
// real behaviour; it is not a violation (the driver never delivers a timeout to an unstarted height).
func leadScenario() *Scenario {
	ins := []In{
		{Kind: "prop", H: 0, R: 0, Sender: 0, VR: -1, Value: 8}, // buffered: the height is not started
		{Kind: "to", Step: 0, H: 0, R: 0},                       // matches (0,0,propose): prevote nil although not started
		{Kind: "start", R: 0},                                   // round 0 again, step propose: line 22 prevotes 8
	}
	sc := &Scenario{Cfg: Cfg{Powers: []uint64{1, 1, 1, 1}, Total: 4, VMod: 4, VRem: 3, PMul: 1, Tbl: []int{0, 1, 2, 3}},
		Nodes: []NodeSpec{{Node: 3, Height: 0, VBase: 400, VStep: 4}}}
	for _, in := range ins {
		sc.Events = append(sc.Events, Event{M: 0, In: in})
	}
	return sc
}

func runLead(res *lib.Result, drv *lib.Driver) {
	sc := leadScenario()
	w := Replay(sc)
	askCompare(res, drv, w, sc, "fuzz")
	var sawValue, sawNil bool
	for _, acts := range w.Acts {
		for _, a := range acts {
			if a.Kind == "BV" && a.H == 0 && a.R == 0 {
				if a.Nil {
					sawNil = true
				} else if a.Value == 8 {
					sawValue = true
				}
			}
		}
	}
	if sawValue && sawNil {
		res.Hit("lead/timeout-before-start:conflicting-prevotes-reproduced-on-real-machine")
		res.Note("lead (not a violation: inadmissible environment): ProcessTimeout before ProcessStart makes the real machine prevote 8 and nil in (0,0); see notes/C12.md")
	} else {
		res.Hit("lead/timeout-before-start:not-reproduced")
	}
}

// runNilValueLead: the StateMachine API accepts a proposal whose Value pointer is nil
// (AddProposal stores it); findProposal then dereferences it. The p2p layer and the WAL codec never
// build such a proposal, so this is recorded as a robustness lead, not as a violation.
func runNilValueLead(res *lib.Result) {
	cfg := &Cfg{Powers: []uint64{1, 1, 1, 1}, Total: 4, VMod: 4, VRem: 3, PMul: 1, Tbl: []int{0, 1, 2, 3}}
	sm := newSM(cfg, NodeSpec{Node: 1, Height: 0, VBase: 800, VStep: 4})
	sm.ProcessStart(0)
	_, panicked, _ := lib.Try(func() error {
		sm.ProcessProposal(&types.Proposal[Val, Hsh, Adr]{MessageHeader: types.MessageHeader[Adr]{Height: 0, Round: 0, Sender: addr(0)}, ValidRound: -1})
		return nil
	})
	// an unknown Step value: no case of the switch applies (probed on a machine of its own: the one above
	// holds the nil-Value proposal, any run of the rules on it panics)
	sm2 := newSM(cfg, NodeSpec{Node: 1, Height: 0, VBase: 800, VStep: 4})
	sm2.ProcessStart(0)
	n := -1
	_, p2, _ := lib.Try(func() error {
		n = len(sm2.ProcessTimeout(types.Timeout{Step: types.Step(7), Height: 0, Round: 0}))
		return nil
	})
	if !p2 && n == 0 {
		res.Hit("ProcessTimeout(unknown step)=nil")
	} else {
		res.Mismatch(lib.Mismatch{Sig: "timeout-unknown-step", Input: "step 7", Model: "nil (no case of the switch applies)", Impl: fmt.Sprintf("%d actions, panicked=%v", n, p2)})
	}
	if panicked {
		res.Hit("lead/proposal-with-nil-Value:state-machine-panics(nil dereference in findProposal)")
	} else {
		res.Hit("lead/proposal-with-nil-Value:handled")
	}
}
