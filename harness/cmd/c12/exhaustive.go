//go:build verif

package main

// Exhaustive small-space enumeration (quick tier): validator 1 of four equal validators, height 0;
// five prefixes that put the machine into the states the rules distinguish (fresh, prevoted a
// value, locked + precommitted, prevoted nil, round 1 while locked on a round-0 value), each
// followed by EVERY sequence of up to three inputs from a 28-symbol alphabet (proposals with valid
// round -1 / 0, prevotes and precommits for the locked value, another value and nil from several
// senders in rounds 0 and 1, all three timeouts in rounds 0 and 1, future-height proposal / votes).
// Correspondence only (most sequences are not admissible histories).

func exhaustiveAlphabet() []In {
	var al []In
	pv := func(h uint64, r, s int, v uint64, isNil bool) In {
		return In{Kind: "pv", H: h, R: r, Sender: s, Value: v, Nil: isNil}
	}
	pc := func(h uint64, r, s int, v uint64, isNil bool) In {
		return In{Kind: "pc", H: h, R: r, Sender: s, Value: v, Nil: isNil}
	}
	al = append(al,
		In{Kind: "prop", H: 0, R: 0, Sender: 0, VR: -1, Value: 8},
		In{Kind: "prop", H: 0, R: 1, Sender: 1, VR: 0, Value: 8},
		In{Kind: "prop", H: 0, R: 1, Sender: 1, VR: -1, Value: 12},
		In{Kind: "prop", H: 0, R: 1, Sender: 1, VR: 0, Value: 12},
		pv(0, 0, 0, 8, false), pv(0, 0, 2, 8, false), pv(0, 0, 3, 8, false),
		pv(0, 0, 2, 0, true), pv(0, 0, 3, 0, true),
		pv(0, 0, 2, 12, false), pv(0, 0, 3, 12, false),
		pv(0, 1, 0, 12, false), pv(0, 1, 2, 12, false),
		pc(0, 0, 0, 8, false), pc(0, 0, 2, 8, false), pc(0, 0, 3, 8, false),
		pc(0, 0, 2, 0, true), pc(0, 0, 3, 0, true),
		pc(0, 1, 0, 12, false), pc(0, 1, 2, 12, false),
		In{Kind: "to", Step: 0, H: 0, R: 0}, In{Kind: "to", Step: 1, H: 0, R: 0}, In{Kind: "to", Step: 2, H: 0, R: 0},
		In{Kind: "to", Step: 0, H: 0, R: 1}, In{Kind: "to", Step: 2, H: 0, R: 1},
		In{Kind: "prop", H: 1, R: 0, Sender: 1, VR: -1, Value: 16},
		pc(1, 0, 0, 16, false), pc(1, 0, 2, 16, false),
	)
	return al
}

func exhaustivePrefixes() [][]In {
	start := In{Kind: "start", R: 0}
	prop := In{Kind: "prop", H: 0, R: 0, Sender: 0, VR: -1, Value: 8}
	pv0 := In{Kind: "pv", H: 0, R: 0, Sender: 0, Value: 8}
	pv2 := In{Kind: "pv", H: 0, R: 0, Sender: 2, Value: 8}
	pcn0 := In{Kind: "pc", H: 0, R: 0, Sender: 0, Nil: true}
	pcn2 := In{Kind: "pc", H: 0, R: 0, Sender: 2, Nil: true}
	return [][]In{
		{start},
		{start, prop},
		{start, prop, pv0, pv2},
		{start, {Kind: "to", Step: 0, H: 0, R: 0}},
		{start, prop, pv0, pv2, pcn0, pcn2, {Kind: "to", Step: 2, H: 0, R: 0}},
	}
}

// exhaustiveJobs returns all (prefix, suffix) histories of the enumeration.
func exhaustiveScenario(prefix int, code int) *Scenario {
	al := exhaustiveAlphabet()
	n := len(al)
	sc := &Scenario{Cfg: Cfg{Powers: []uint64{1, 1, 1, 1}, Total: 4, VMod: 4, VRem: 3, PMul: 1, Tbl: []int{0, 1, 2, 3}},
		Nodes: []NodeSpec{{Node: 1, Height: 0, VBase: 800, VStep: 4}}}
	for _, in := range exhaustivePrefixes()[prefix] {
		sc.Events = append(sc.Events, Event{M: 0, In: in})
	}
	// code enumerates the sequences of length 1..3: [0,n) | [n, n+n^2) | [n+n^2, n+n^2+n^3)
	var idx []int
	switch {
	case code < n:
		idx = []int{code}
	case code < n+n*n:
		c := code - n
		idx = []int{c / n, c % n}
	default:
		c := code - n - n*n
		idx = []int{c / (n * n), (c / n) % n, c % n}
	}
	for _, i := range idx {
		sc.Events = append(sc.Events, Event{M: 0, In: al[i]})
	}
	return sc
}

func exhaustiveCount() (prefixes, perPrefix int) {
	n := len(exhaustiveAlphabet())
	return len(exhaustivePrefixes()), n + n*n + n*n*n
}
