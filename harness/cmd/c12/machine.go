//go:build verif

package main

import (
	"fmt"
	"strconv"
	"strings"

	consensusSync "github.com/NethermindEth/juno/consensus/sync"
	"github.com/NethermindEth/juno/consensus/tendermint"
	"github.com/NethermindEth/juno/consensus/types"
	"github.com/NethermindEth/juno/consensus/types/actions"
	"github.com/NethermindEth/juno/consensus/types/wal"
	"github.com/NethermindEth/juno/utils/log"
)

// Instantiation of the state machine's type parameters: a value is a number, its id (hash) is
// the number itself (injective), an address is the validator index.
type (
	Hsh [4]uint64
	Adr [4]uint64
	Val uint64
)

func (v Val) Hash() Hsh { return Hsh{uint64(v)} }

// pseudoIdx is the index the harness (and the Lean driver: `pseudoSender`) uses for
// consensus/sync.SyncProtocolPrecommitSender; addr(pseudoIdx) is that very address (the limbs of the
// felt), so that code comparing with the constant sees it.
const pseudoIdx = 1048576

var pseudoAdr = Adr(consensusSync.SyncProtocolPrecommitSender)

func addr(i int) Adr {
	if i == pseudoIdx {
		return pseudoAdr
	}
	return Adr{uint64(i)}
}

func addrIdx(a Adr) int {
	if a == pseudoAdr {
		return pseudoIdx
	}
	if a[1] != 0 || a[2] != 0 || a[3] != 0 || a[0] > 1<<30 {
		return 1 << 30
	}
	return int(a[0])
}

// Cfg is the environment of one scenario: the validator set (Validators interface) and the
// application's validity predicate. It mirrors `mkEnv` of the Lean driver.
type Cfg struct {
	Powers []uint64 `json:"powers"`
	Total  uint64   `json:"total"`
	Rot    int      `json:"rot"`
	VMod   uint64   `json:"vmod"`
	VRem   uint64   `json:"vrem"`
	PMul   int      `json:"pmul"`
	Tbl    []int    `json:"tbl"`
	// validator set of the odd heights, when not empty (sets that change from height to height)
	AltPowers []uint64 `json:"alt_powers,omitempty"`
	AltTotal  uint64   `json:"alt_total,omitempty"`
	// Shipped: the shape of the only Validators implementation in /repo (consensus/mock.go, since
	// b29aadf): power 1 for the members, 0 for every other address, power Total for the sync pseudo-sender.
	Shipped bool `json:"shipped,omitempty"`
	// NonMemberPower: what a Shipped validator set gives to an address that is not a member (0 since
	// b29aadf; the regression demonstration uses what the probe of the real mock reports)
	NonMemberPower uint64 `json:"non_member_power,omitempty"`
}

func (c *Cfg) useAlt(h uint64) bool { return len(c.AltPowers) > 0 && h%2 == 1 }

func (c *Cfg) total(h uint64) uint64 {
	if c.useAlt(h) {
		return c.AltTotal
	}
	return c.Total
}

func (c *Cfg) TotalVotingPower(h types.Height) types.VotingPower {
	return types.VotingPower(c.total(uint64(h)))
}

func (c *Cfg) power(h uint64, i int) uint64 {
	if c.Shipped {
		if i == pseudoIdx {
			return c.Total
		}
		if i >= 0 && i < len(c.Powers) {
			return 1
		}
		return c.NonMemberPower
	}
	ps := c.Powers
	if c.useAlt(h) {
		ps = c.AltPowers
	}
	if i < 0 || i >= len(ps) {
		return 0
	}
	return ps[(uint64(i)+uint64(c.Rot)*h)%uint64(len(ps))]
}

func (c *Cfg) ValidatorVotingPower(h types.Height, a *Adr) types.VotingPower {
	return types.VotingPower(c.power(uint64(h), addrIdx(*a)))
}

func (c *Cfg) proposerIdx(h uint64, r int) int {
	n := len(c.Tbl)
	if n == 0 {
		return 0
	}
	k := (int(h)*c.PMul + r) % n
	if k < 0 {
		k += n
	}
	return c.Tbl[k]
}

func (c *Cfg) Proposer(h types.Height, r types.Round) Adr {
	return addr(c.proposerIdx(uint64(h), int(r)))
}

func (c *Cfg) valid(v uint64) bool { return c.VMod == 0 || v%c.VMod != c.VRem }

// app implements tendermint.Application: the k-th call of Value() returns base + k*step.
type app struct {
	cfg        *Cfg
	base, step uint64
	calls      uint64
}

func (a *app) Value() Val {
	v := a.base + a.calls*a.step
	a.calls++
	return Val(v)
}

func (a *app) Valid(v Val) bool { return a.cfg.valid(uint64(v)) }

type SM = tendermint.StateMachine[Val, Hsh, Adr]

// NodeSpec describes one machine of a scenario.
type NodeSpec struct {
	Node   int    `json:"node"`
	Height uint64 `json:"height"`
	VBase  uint64 `json:"vbase"`
	VStep  uint64 `json:"vstep"`
}

func newSM(cfg *Cfg, ns NodeSpec) SM {
	return tendermint.New[Val, Hsh, Adr](log.NewNopZapLogger(), addr(ns.Node),
		&app{cfg: cfg, base: ns.VBase, step: ns.VStep}, cfg, types.Height(ns.Height))
}

func joinU(xs []uint64) string {
	if len(xs) == 0 {
		return "-"
	}
	s := make([]string, len(xs))
	for i, x := range xs {
		s[i] = strconv.FormatUint(x, 10)
	}
	return strings.Join(s, ",")
}

func joinI(xs []int) string {
	if len(xs) == 0 {
		return "-"
	}
	s := make([]string, len(xs))
	for i, x := range xs {
		s[i] = strconv.Itoa(x)
	}
	return strings.Join(s, ",")
}

func newLine(mid int, cfg *Cfg, ns NodeSpec) string {
	shipped := uint64(0)
	if cfg.Shipped {
		shipped = 1 + cfg.NonMemberPower
	}
	return fmt.Sprintf("new %d %d %d %d %d %d %d %d %d %d %s %s %d %s %d", mid, ns.Node, ns.Height, cfg.Total, cfg.Rot,
		cfg.VMod, cfg.VRem, ns.VBase, ns.VStep, cfg.PMul, joinU(cfg.Powers), joinI(cfg.Tbl), cfg.AltTotal, joinU(cfg.AltPowers), shipped)
}

// ---- inputs -------------------------------------------------------------------------------

// In is one input to a machine; Line() is its driver-protocol form (without the machine id).
type In struct {
	Kind   string `json:"k"` // start | prop | pv | pc | to
	H      uint64 `json:"h,omitempty"`
	R      int    `json:"r"`
	Sender int    `json:"s,omitempty"`
	VR     int    `json:"vr,omitempty"`
	Value  uint64 `json:"v,omitempty"`
	Nil    bool   `json:"nil,omitempty"`
	Step   int    `json:"step,omitempty"`
	Wal    bool   `json:"wal,omitempty"`   // deliver through ProcessWAL instead of the direct entry point
	Votes  []In   `json:"votes,omitempty"` // precommits of a "sync" input (ProcessSync)
}

func (in In) idStr() string {
	if in.Nil {
		return "nil"
	}
	return strconv.FormatUint(in.Value, 10)
}

func (in In) Line(mid int) string {
	if in.Wal {
		switch in.Kind {
		case "start":
			return fmt.Sprintf("wal %d start %d", mid, in.H)
		case "prop":
			return fmt.Sprintf("wal %d prop %d %d %d %d %d", mid, in.H, in.R, in.Sender, in.VR, in.Value)
		case "pv", "pc":
			return fmt.Sprintf("wal %d %s %d %d %d %s", mid, in.Kind, in.H, in.R, in.Sender, in.idStr())
		case "to":
			return fmt.Sprintf("wal %d to %d %d %d", mid, in.Step, in.H, in.R)
		}
		return "bad"
	}
	switch in.Kind {
	case "start":
		return fmt.Sprintf("start %d %d", mid, in.R)
	case "prop":
		return fmt.Sprintf("prop %d %d %d %d %d %d", mid, in.H, in.R, in.Sender, in.VR, in.Value)
	case "pv", "pc":
		return fmt.Sprintf("%s %d %d %d %d %s", in.Kind, mid, in.H, in.R, in.Sender, in.idStr())
	case "to":
		return fmt.Sprintf("to %d %d %d %d", mid, in.Step, in.H, in.R)
	case "sync":
		l := fmt.Sprintf("sync %d %d %d %d %d %d", mid, in.H, in.R, in.Sender, in.VR, in.Value)
		for _, v := range in.Votes {
			l += fmt.Sprintf(" %d %d %d %s", v.H, v.R, v.Sender, v.idStr())
		}
		return l
	}
	return "bad"
}

func (in In) header() types.MessageHeader[Adr] {
	return types.MessageHeader[Adr]{Height: types.Height(in.H), Round: types.Round(in.R), Sender: addr(in.Sender)}
}

func (in In) idPtr() *Hsh {
	if in.Nil {
		return nil
	}
	h := Val(in.Value).Hash()
	return &h
}

func (in In) proposal() *types.Proposal[Val, Hsh, Adr] {
	v := Val(in.Value)
	return &types.Proposal[Val, Hsh, Adr]{MessageHeader: in.header(), ValidRound: types.Round(in.VR), Value: &v}
}

// apply feeds the input to the real state machine (through ProcessWAL when in.Wal is set).
func apply(sm SM, in In) []actions.Action[Val, Hsh, Adr] {
	if in.Wal {
		switch in.Kind {
		case "start":
			h := wal.Start(in.H)
			return sm.ProcessWAL(&h)
		case "prop":
			return sm.ProcessWAL((*wal.Proposal[Val, Hsh, Adr])(in.proposal()))
		case "pv":
			return sm.ProcessWAL(&wal.Prevote[Hsh, Adr]{MessageHeader: in.header(), ID: in.idPtr()})
		case "pc":
			return sm.ProcessWAL(&wal.Precommit[Hsh, Adr]{MessageHeader: in.header(), ID: in.idPtr()})
		case "to":
			return sm.ProcessWAL(&wal.Timeout{Step: types.Step(in.Step), Height: types.Height(in.H), Round: types.Round(in.R)})
		}
		panic("bad wal input kind " + in.Kind)
	}
	switch in.Kind {
	case "start":
		return sm.ProcessStart(types.Round(in.R))
	case "prop":
		return sm.ProcessProposal(in.proposal())
	case "pv":
		return sm.ProcessPrevote(&types.Prevote[Hsh, Adr]{MessageHeader: in.header(), ID: in.idPtr()})
	case "pc":
		return sm.ProcessPrecommit(&types.Precommit[Hsh, Adr]{MessageHeader: in.header(), ID: in.idPtr()})
	case "to":
		return sm.ProcessTimeout(types.Timeout{Step: types.Step(in.Step), Height: types.Height(in.H), Round: types.Round(in.R)})
	case "sync":
		pcs := make([]types.Precommit[Hsh, Adr], len(in.Votes))
		for i, v := range in.Votes {
			pcs[i] = types.Precommit[Hsh, Adr]{MessageHeader: v.header(), ID: v.idPtr()}
		}
		return sm.ProcessSync(in.proposal(), pcs)
	}
	panic("bad input kind " + in.Kind)
}

// ---- canonical form of actions (same text as the Lean driver prints) ------------------------

// Act is a decoded action (for the oracle); Str its canonical text.
type Act struct {
	Kind   string // W | BP | BV | BC | T | C | S
	H      uint64
	R      int
	Sender int
	VR     int
	Value  uint64
	Nil    bool
	Step   int
	End    uint64
	Str    string
	Wal    *In // for Kind "W": the entry as the input that ProcessWAL would be given on replay
	// Flush: what the REAL action's RequiresWALFlush() says (the driver flushes the WAL right before
	// executing such an action); the simulator's crash model uses it, the oracle does not
	Flush bool
}

func idS(id *Hsh) (string, uint64, bool) {
	if id == nil {
		return "nil", 0, true
	}
	if id[1] != 0 || id[2] != 0 || id[3] != 0 {
		return fmt.Sprintf("bad%v", *id), 0, false
	}
	return strconv.FormatUint(id[0], 10), id[0], false
}

func propS(p *types.Proposal[Val, Hsh, Adr]) string {
	v := "nilvalue"
	if p.Value != nil {
		v = strconv.FormatUint(uint64(*p.Value), 10)
	}
	return fmt.Sprintf("%d:%d:%d:%d:%s", p.Height, p.Round, addrIdx(p.Sender), p.ValidRound, v)
}

func voteS(v *types.Vote[Hsh, Adr]) string {
	s, _, _ := idS(v.ID)
	return fmt.Sprintf("%d:%d:%d:%s", v.Height, v.Round, addrIdx(v.Sender), s)
}

func canonAction(a actions.Action[Val, Hsh, Adr]) Act {
	switch x := a.(type) {
	case *actions.WriteWAL[Val, Hsh, Adr]:
		switch e := x.Entry.(type) {
		case *wal.Start:
			return Act{Kind: "W", H: uint64(*e), Str: fmt.Sprintf("W:S:%d", uint64(*e)), Wal: &In{Kind: "start", Wal: true, H: uint64(*e)}}
		case *wal.Proposal[Val, Hsh, Adr]:
			in := In{Kind: "prop", Wal: true, H: uint64(e.Height), R: int(e.Round), Sender: addrIdx(e.Sender), VR: int(e.ValidRound)}
			if e.Value != nil {
				in.Value = uint64(*e.Value)
			}
			return Act{Kind: "W", H: in.H, Str: "W:P:" + propS((*types.Proposal[Val, Hsh, Adr])(e)), Wal: &in}
		case *wal.Prevote[Hsh, Adr]:
			_, id, isNil := idS(e.ID)
			return Act{Kind: "W", H: uint64(e.Height), Str: "W:V:" + voteS((*types.Vote[Hsh, Adr])(e)),
				Wal: &In{Kind: "pv", Wal: true, H: uint64(e.Height), R: int(e.Round), Sender: addrIdx(e.Sender), Value: id, Nil: isNil}}
		case *wal.Precommit[Hsh, Adr]:
			_, id, isNil := idS(e.ID)
			return Act{Kind: "W", H: uint64(e.Height), Str: "W:C:" + voteS((*types.Vote[Hsh, Adr])(e)),
				Wal: &In{Kind: "pc", Wal: true, H: uint64(e.Height), R: int(e.Round), Sender: addrIdx(e.Sender), Value: id, Nil: isNil}}
		case *wal.Timeout:
			return Act{Kind: "W", H: uint64(e.Height), Str: fmt.Sprintf("W:T:%d:%d:%d", e.Step, e.Height, e.Round),
				Wal: &In{Kind: "to", Wal: true, Step: int(e.Step), H: uint64(e.Height), R: int(e.Round)}}
		default:
			return Act{Kind: "W", Str: fmt.Sprintf("W:?%T", e)}
		}
	case *actions.BroadcastProposal[Val, Hsh, Adr]:
		p := (*types.Proposal[Val, Hsh, Adr])(x)
		act := Act{Kind: "BP", H: uint64(p.Height), R: int(p.Round), Sender: addrIdx(p.Sender), VR: int(p.ValidRound), Str: "BP:" + propS(p)}
		if p.Value != nil {
			act.Value = uint64(*p.Value)
		}
		return act
	case *actions.BroadcastPrevote[Hsh, Adr]:
		v := (*types.Vote[Hsh, Adr])(x)
		_, id, isNil := idS(v.ID)
		return Act{Kind: "BV", H: uint64(v.Height), R: int(v.Round), Sender: addrIdx(v.Sender), Value: id, Nil: isNil, Str: "BV:" + voteS(v)}
	case *actions.BroadcastPrecommit[Hsh, Adr]:
		v := (*types.Vote[Hsh, Adr])(x)
		_, id, isNil := idS(v.ID)
		return Act{Kind: "BC", H: uint64(v.Height), R: int(v.Round), Sender: addrIdx(v.Sender), Value: id, Nil: isNil, Str: "BC:" + voteS(v)}
	case *actions.ScheduleTimeout:
		return Act{Kind: "T", H: uint64(x.Height), R: int(x.Round), Step: int(x.Step), Str: fmt.Sprintf("T:%d:%d:%d", x.Step, x.Height, x.Round)}
	case *actions.Commit[Val, Hsh, Adr]:
		p := (*types.Proposal[Val, Hsh, Adr])(x)
		act := Act{Kind: "C", H: uint64(p.Height), R: int(p.Round), Sender: addrIdx(p.Sender), VR: int(p.ValidRound), Str: "C:" + propS(p)}
		if p.Value != nil {
			act.Value = uint64(*p.Value)
		}
		return act
	case *actions.TriggerSync:
		return Act{Kind: "S", H: uint64(x.Start), End: uint64(x.End), Str: fmt.Sprintf("S:%d:%d", x.Start, x.End)}
	}
	return Act{Kind: "?", Str: fmt.Sprintf("?%T", a)}
}

func canonActions(as []actions.Action[Val, Hsh, Adr]) ([]Act, string) {
	out := make([]Act, len(as))
	strs := make([]string, len(as))
	for i, a := range as {
		out[i] = canonAction(a)
		out[i].Flush = a != nil && a.RequiresWALFlush()
		strs[i] = out[i].Str
	}
	if len(strs) == 0 {
		return out, "-"
	}
	return out, strings.Join(strs, " ")
}

// splitAnswer splits a driver answer "<actions> # <rules>".
func splitAnswer(s string) (string, []string) {
	i := strings.Index(s, " # ")
	if i < 0 {
		return s, nil
	}
	rules := strings.Fields(s[i+3:])
	if len(rules) == 1 && rules[0] == "-" {
		rules = nil
	}
	return s[:i], rules
}
