//go:build verif

package main

import (
	"fmt"
	"math/big"
	"sort"
	"sync"
	"time"

	"verif/harness/lib"
)

// Event is one input delivered to machine M (index into Scenario.Nodes).
type Event struct {
	M  int `json:"m"`
	In In  `json:"in"`
}

// Scenario is a complete, replayable history: environment, the correct validators (each a real
// state machine), the Byzantine validator indices (no machine; their messages appear as inputs),
// and the ordered inputs.
type Scenario struct {
	Cfg    Cfg        `json:"cfg"`
	Nodes  []NodeSpec `json:"nodes"`
	Byz    []int      `json:"byz"`
	Events []Event    `json:"events"`
	// Disciplined: the environment obeys the driver's protocol (ProcessStart(0) right after
	// construction and after every commit; only scheduled timeouts; messages of correct senders
	// only if they were broadcast). The property oracle is evaluated only on such histories.
	Disciplined bool `json:"disciplined"`
}

type voteKey struct {
	pc     bool
	h      uint64
	r      int
	sender int
	isNil  bool
	val    uint64
}

type propKey struct {
	h      uint64
	r      int
	sender int
	vr     int
	val    uint64
}

type slotKey struct {
	pc bool
	h  uint64
	r  int
}

type toKey struct {
	step int
	h    uint64
	r    int
}

// view is what the oracle knows about one correct validator: everything it was given, everything
// it emitted. It is independent bookkeeping (it does not look into the state machine).
type view struct {
	node      int
	height    uint64
	started   bool
	votes     map[voteKey]bool
	props     map[propKey]bool
	emitted   map[slotKey][]Act
	lockSet   bool
	lockVal   uint64
	lockRound int
	bcastV    map[voteKey]bool // votes this node broadcast (for authenticity of deliveries)
	bcastP    map[propKey]bool
	scheduled map[toKey]bool
	maxRound  int
}

type Viol struct {
	Sig  string
	What string
	At   int // index of the event at which it was detected
}

type decision struct {
	val  uint64
	node int
	r    int
}

// World executes a scenario on the real state machines and evaluates the property oracle.
type World struct {
	sc         *Scenario
	sms        []SM
	views      []*view
	isByz      map[int]bool
	nodeOf     map[int]int // validator index -> machine index
	Outs       []string    // canonical action list per event
	Acts       [][]Act
	Lines      []string // driver lines: new..., then one per event
	decisions  map[uint64]decision
	Viols      []Viol
	violSeen   map[string]bool
	Admissible bool
	Why        string
	hits       map[string]int
	Pending    *In // input being processed by the real code right now (hang detection)
	PendingM   int
	enteredAt  int64
	sealed     bool
	// every Out belongs to an event (index into sc.Events); state dumps are extra lines of the event
	evOf       []int
	isState    []bool
	nEv        int    // events started so far
	stateEvery int    // > 0: the machine's whole state is compared after every stateEvery-th event (and at the end)
	DumpErr    string // the real machine's state could not be read (harness failure)
}

// stateEveryDefault: every history compares the whole private state of each machine with the model's
// at its end and after every stateEveryDefault-th event.
var stateEveryDefault = 32

func NewWorld(sc *Scenario) *World {
	w := &World{sc: sc, stateEvery: stateEveryDefault, isByz: map[int]bool{}, nodeOf: map[int]int{}, decisions: map[uint64]decision{},
		violSeen: map[string]bool{}, Admissible: true, hits: map[string]int{}}
	for _, b := range sc.Byz {
		w.isByz[b] = true
	}
	for i, ns := range sc.Nodes {
		w.sms = append(w.sms, newSM(&sc.Cfg, ns))
		w.nodeOf[ns.Node] = i
		w.views = append(w.views, &view{node: ns.Node, height: ns.Height, votes: map[voteKey]bool{}, props: map[propKey]bool{},
			emitted: map[slotKey][]Act{}, bcastV: map[voteKey]bool{}, bcastP: map[propKey]bool{}, scheduled: map[toKey]bool{}})
		w.Lines = append(w.Lines, newLine(i, &sc.Cfg, ns))
	}
	return w
}

func (w *World) hit(s string) { w.hits[s]++ }

func (w *World) violate(sig, what string) {
	if w.violSeen[sig] {
		return
	}
	w.violSeen[sig] = true
	w.Viols = append(w.Viols, Viol{Sig: sig, What: what, At: max(w.nEv-1, 0)})
}

func (w *World) inadmissible(why string) {
	if w.Admissible {
		w.Admissible = false
		w.Why = why
	}
}

// push records the answer expected from the Lean driver for the line just appended to w.Lines.
func (w *World) push(out string, acts []Act, isState bool) {
	w.Outs = append(w.Outs, out)
	w.Acts = append(w.Acts, acts)
	w.evOf = append(w.evOf, max(w.nEv-1, 0))
	w.isState = append(w.isState, isState)
}

// pushState asks the model for machine m's whole state and records the real machine's.
func (w *World) pushState(m int) {
	out, err := dumpState(w.sms[m])
	if err != nil {
		if w.DumpErr == "" {
			w.DumpErr = err.Error()
		}
		return
	}
	w.Lines = append(w.Lines, fmt.Sprintf("state %d", m))
	w.push(out, nil, true)
	w.hit("state-compared")
}

// weight of the distinct senders of votes (kind,h,r,id) known to the view, as big integers so
// that no configuration can overflow the oracle itself.
func (w *World) weight(v *view, pc bool, h uint64, r int, isNil bool, val uint64) *big.Int {
	sum := new(big.Int)
	seen := map[int]bool{}
	for k := range v.votes {
		if k.pc == pc && k.h == h && k.r == r && k.isNil == isNil && k.val == val && !seen[k.sender] {
			seen[k.sender] = true
			sum.Add(sum, new(big.Int).SetUint64(w.sc.Cfg.power(h, k.sender)))
		}
	}
	return sum
}

// isQuorum: 3*weight >= 2*N, the definition of "at least two thirds of the voting power"
// (deliberately not the code's q formula).
func (w *World) isQuorum(wt *big.Int, h uint64) bool {
	l := new(big.Int).Mul(wt, big.NewInt(3))
	r := new(big.Int).Mul(new(big.Int).SetUint64(w.sc.Cfg.total(h)), big.NewInt(2))
	return l.Cmp(r) >= 0
}

// Do delivers one input to machine m: runs the real code, records the driver line, and checks
// the property on the result.
func (w *World) Do(m int, in In) []Act {
	v := w.views[m]
	disc := w.sc.Disciplined
	w.nEv++
	if in.Kind == "restart" {
		// crash + restart: a fresh state machine at the validator's current height (what node start-up
		// does), value source continuing where the height began (replay-stable Application.Value, the
		// hypothesis of C13); the caller then replays the WAL through ProcessWAL
		spec := w.sc.Nodes[m]
		spec.Height, spec.VBase = in.H, in.Value
		w.sms[m] = newSM(&w.sc.Cfg, spec)
		v.started = false
		v.votes, v.props = map[voteKey]bool{}, map[propKey]bool{}
		// the lock is rebuilt by the replay (the precommits are emitted again); what the validator
		// broadcast before the crash (v.emitted) stays: a different vote after the restart is a conflict
		v.lockSet = false
		if in.H != v.height {
			w.inadmissible("restart at a height that is not the validator's")
		}
		w.Lines = append(w.Lines, newLine(m, &w.sc.Cfg, spec))
		w.push("ok", nil, false)
		w.hit("restart")
		return nil
	}
	// --- admissibility of the input under the driver's protocol ---
	authProp := func(x In) {
		if mi, ok := w.nodeOf[x.Sender]; ok {
			if !w.views[mi].bcastP[propKey{x.H, x.R, x.Sender, x.VR, x.Value}] {
				w.inadmissible("forged proposal of a correct validator")
			}
		}
	}
	authVote := func(x In, pc bool) {
		if mi, ok := w.nodeOf[x.Sender]; ok {
			if !w.views[mi].bcastV[voteKey{pc, x.H, x.R, x.Sender, x.Nil, x.Value}] {
				w.inadmissible("forged vote of a correct validator")
			}
		}
	}
	switch in.Kind {
	case "start":
		if in.R != 0 && !in.Wal {
			w.inadmissible("start with round != 0")
		}
	case "to":
		if !v.scheduled[toKey{in.Step, in.H, in.R}] {
			w.inadmissible("timeout that was never scheduled")
		}
		if !v.started {
			w.inadmissible("timeout before ProcessStart")
		}
	case "prop":
		authProp(in)
	case "pv", "pc":
		authVote(in, in.Kind == "pc")
	case "sync":
		authProp(in)
		for _, x := range in.Votes {
			authVote(x, true)
		}
	}
	if in.Kind != "start" && !v.started && !(in.Wal && (in.Kind == "prop" || in.Kind == "pv" || in.Kind == "pc")) {
		// between construction/commit and ProcessStart the driver delivers nothing — except during
		// replay: messages logged for a height before its Start entry (received while the validator
		// was still at the previous height) come before it
		w.inadmissible("input before ProcessStart")
	}
	if in.Wal && !v.started && in.Kind != "start" {
		w.hit("replayed-message-before-Start-of-its-height")
	}
	// --- record what the validator has been given ---
	recVote := func(x In, pc bool) {
		if x.H >= v.height {
			k := voteKey{pc, x.H, x.R, x.Sender, x.Nil, x.Value}
			if v.votes[k] {
				w.hit("duplicate-vote-delivered")
			} else {
				for o := range v.votes {
					if o.pc == pc && o.h == x.H && o.r == x.R && o.sender == x.Sender {
						w.hit("equivocating-vote-delivered(same sender, other id)")
						break
					}
				}
			}
			v.votes[k] = true
		}
		if x.H > v.height {
			w.hit("future-height-vote-delivered")
			if x.H > v.height+1 {
				w.hit("vote-two-or-more-heights-ahead-delivered")
			}
		}
	}
	switch in.Kind {
	case "prop", "sync":
		if in.H >= v.height {
			v.props[propKey{in.H, in.R, in.Sender, in.VR, in.Value}] = true
		}
		if in.H > v.height {
			w.hit("future-height-proposal-delivered")
		}
		for _, x := range in.Votes {
			recVote(x, true)
		}
		if in.Kind == "sync" {
			w.hit("ProcessSync")
		}
	case "pv", "pc":
		recVote(in, in.Kind == "pc")
	}
	if in.Wal {
		w.hit("ProcessWAL")
	}
	// --- run the real code ---
	var acts []Act
	var out string
	w.Pending = &in
	w.PendingM = m
	watchEnter(w)
	err, panicked, stack := lib.Try(func() error {
		acts, out = canonActions(apply(w.sms[m], in))
		return nil
	})
	watchLeave(w)
	w.Pending = nil
	if panicked {
		out = "panic"
		w.violate("state-machine-panics", fmt.Sprintf("machine %d input %s: %v\n%s", m, in.Line(m), err, stack))
	}
	w.Lines = append(w.Lines, in.Line(m))
	w.push(out, acts, false)
	if w.stateEvery > 0 && w.nEv%w.stateEvery == 0 && !panicked {
		w.pushState(m)
	}
	if in.Kind == "start" {
		v.started = true
	}
	// --- the WAL entry of the input comes before everything the input makes leave the node: the driver
	// flushes the WAL right before a broadcast / commit, so an entry behind it is not durable when the
	// message is out (Lean: wal_entry_precedes_every_broadcast_and_commit — for every state and input,
	// hence evaluated on undisciplined histories too) ---
	if !panicked {
		w.checkWalFirst(m, in, v.height, acts, out)
	}
	// --- a Commit must be the last action of a returned list (driver.execute returns at the first
	// Commit and drops the rest; Lean: step_commit_last) ---
	for i, a := range acts {
		if a.Kind == "C" && i != len(acts)-1 {
			w.violate("commit-is-not-the-last-action", fmt.Sprintf("machine %d returned %s with actions after the Commit (the driver would drop them)", m, out))
		}
	}
	// --- oracle on the emitted actions ---
	for _, a := range acts {
		switch a.Kind {
		case "T":
			v.scheduled[toKey{a.Step, a.H, a.R}] = true
		case "BP":
			v.props[propKey{a.H, a.R, a.Sender, a.VR, a.Value}] = true
			v.bcastP[propKey{a.H, a.R, a.Sender, a.VR, a.Value}] = true
			if disc {
				if a.Sender != v.node || a.H != v.height {
					w.violate("proposal-with-wrong-header", fmt.Sprintf("node %d at height %d broadcast %s", v.node, v.height, a.Str))
				}
				if w.sc.Cfg.proposerIdx(a.H, a.R) != v.node {
					w.violate("proposal-by-non-proposer", fmt.Sprintf("node %d broadcast %s but proposer is %d", v.node, a.Str, w.sc.Cfg.proposerIdx(a.H, a.R)))
				}
			}
			if a.VR >= 0 {
				w.hit("reproposal-of-valid-value")
			}
		case "BV", "BC":
			pc := a.Kind == "BC"
			k := voteKey{pc, a.H, a.R, a.Sender, a.Nil, a.Value}
			v.votes[k] = true
			v.bcastV[k] = true
			if a.R > v.maxRound {
				v.maxRound = a.R
			}
			if !disc {
				break
			}
			if a.Sender != v.node || a.H != v.height {
				w.violate("vote-with-wrong-header", fmt.Sprintf("node %d at height %d broadcast %s", v.node, v.height, a.Str))
				break
			}
			sk := slotKey{pc, a.H, a.R}
			for _, prev := range v.emitted[sk] {
				if prev.Nil != a.Nil || prev.Value != a.Value {
					kind := "prevote"
					if pc {
						kind = "precommit"
					}
					w.violate("conflicting-"+kind+"s-in-one-round", fmt.Sprintf("node %d broadcast %s and %s", v.node, prev.Str, a.Str))
				} else {
					w.hit("identical-vote-broadcast-twice")
				}
			}
			v.emitted[sk] = append(v.emitted[sk], a)
			if a.Nil {
				w.hit(a.Kind + "-nil")
				if !pc && v.lockSet {
					w.hit("prevote-nil-while-locked")
					w.hitLockBlocks(v, a)
				}
				break
			}
			if a.R > 0 {
				w.hit(a.Kind + "-value-round>0")
			}
			if !pc {
				w.checkPrevote(v, a)
			} else {
				if !w.isQuorum(w.weight(v, false, a.H, a.R, false, a.Value), a.H) {
					w.violate("precommit-without-prevote-quorum", fmt.Sprintf("node %d broadcast %s without 2/3 prevotes for it in round %d", v.node, a.Str, a.R))
				}
				if !w.hasValidProposal(v, a.H, a.R, a.Value) {
					w.violate("precommit-for-unproposed-or-invalid-value", fmt.Sprintf("node %d broadcast %s", v.node, a.Str))
				}
				if v.lockSet && v.lockVal != a.Value {
					w.hit("relock-on-different-value")
				}
				if v.lockSet && v.lockVal == a.Value && a.R > v.lockRound {
					w.hit("relock-on-same-value-in-later-round")
				}
				v.lockSet, v.lockVal, v.lockRound = true, a.Value, a.R
				w.hit("lock")
			}
		case "C":
			if a.R > 0 {
				w.hit("commit-round>0")
			} else {
				w.hit("commit-round=0")
			}
			if disc {
				w.checkCommit(v, a)
			}
			v.height++
			v.started = false
			v.lockSet = false
			v.maxRound = 0
		case "S":
			w.hit("trigger-sync")
		}
	}
	return acts
}

// walStrs: the canonical text of the WAL entries of an input's parts (`walEntriesOf` in Lean).
func walStrs(in In, height uint64) []string {
	vote := func(x In) string { return fmt.Sprintf("%d:%d:%d:%s", x.H, x.R, x.Sender, x.idStr()) }
	prop := func(x In) string { return fmt.Sprintf("W:P:%d:%d:%d:%d:%d", x.H, x.R, x.Sender, x.VR, x.Value) }
	switch in.Kind {
	case "start":
		return []string{fmt.Sprintf("W:S:%d", height)}
	case "prop":
		return []string{prop(in)}
	case "pv":
		return []string{"W:V:" + vote(in)}
	case "pc":
		return []string{"W:C:" + vote(in)}
	case "to":
		return []string{fmt.Sprintf("W:T:%d:%d:%d", in.Step, in.H, in.R)}
	case "sync":
		out := []string{prop(in)}
		for _, x := range in.Votes {
			out = append(out, "W:C:"+vote(x))
		}
		return out
	}
	return nil
}

// checkWalFirst walks the list as driver.execute does: every action that requires a WAL flush
// (broadcasts, Commit) must come after the WriteWAL entry of the input that caused it.
func (w *World) checkWalFirst(m int, in In, height uint64, acts []Act, out string) {
	want := walStrs(in, height)
	seen := false
	for _, a := range acts {
		switch a.Kind {
		case "W":
			for _, s := range want {
				if a.Str == s {
					seen = true
				}
			}
		case "BP", "BV", "BC", "C":
			if !seen {
				what := "broadcast"
				if a.Kind == "C" {
					what = "commit"
				}
				w.violate(what+"-before-the-wal-entry-of-its-cause", fmt.Sprintf("machine %d, input %q returned [%s]: %s is not preceded by the WriteWAL entry of the input "+
					"(the driver flushes the WAL right before it: the cause is not durable when the effect is visible; after a crash the replayed machine does not know why it acted)",
					m, in.Line(m), out, a.Str))
				return
			}
			w.hit("flush-after-wal-entry-of-cause")
		}
	}
}

func (w *World) hasValidProposal(v *view, h uint64, r int, val uint64) bool {
	p := w.sc.Cfg.proposerIdx(h, r)
	for k := range v.props {
		if k.h == h && k.r == r && k.sender == p && k.val == val && w.sc.Cfg.valid(val) {
			return true
		}
	}
	return false
}

// checkPrevote: a non-nil prevote must be for a valid value proposed by the round's proposer,
// and if the validator is locked on another value the unlock condition of line 28 must hold:
// the proposal carries a valid round vr with lockedRound <= vr < round and the validator has
// seen 2/3 prevotes for the value in vr.
func (w *World) checkPrevote(v *view, a Act) {
	if !w.hasValidProposal(v, a.H, a.R, a.Value) {
		w.violate("prevote-for-unproposed-or-invalid-value", fmt.Sprintf("node %d broadcast %s", v.node, a.Str))
	}
	if !v.lockSet {
		return
	}
	if v.lockVal == a.Value {
		w.hit("prevote-locked-value")
		return
	}
	p := w.sc.Cfg.proposerIdx(a.H, a.R)
	ok := false
	for k := range v.props {
		if k.h == a.H && k.r == a.R && k.sender == p && k.val == a.Value && k.vr >= v.lockRound && k.vr >= 0 && k.vr < a.R &&
			w.isQuorum(w.weight(v, false, a.H, k.vr, false, a.Value), a.H) {
			ok = true
		}
	}
	if ok {
		w.hit("unlock-via-later-polka(L28)")
	} else {
		w.violate("prevote-against-lock", fmt.Sprintf("node %d locked on %d in round %d broadcast %s without a later polka", v.node, v.lockVal, v.lockRound, a.Str))
	}
}

// hitLockBlocks counts the situation the re-lock bookkeeping exists for: the validator prevoted nil
// although it holds a proposal (w, vr) of the round with a polka for w in vr — because its lock is on
// another value in a round AFTER vr.
func (w *World) hitLockBlocks(v *view, a Act) {
	p := w.sc.Cfg.proposerIdx(a.H, a.R)
	for k := range v.props {
		if k.h == a.H && k.r == a.R && k.sender == p && k.val != v.lockVal && k.vr >= 0 && k.vr < a.R && k.vr < v.lockRound && w.sc.Cfg.valid(k.val) &&
			w.isQuorum(w.weight(v, false, a.H, k.vr, false, k.val), a.H) {
			w.hit("lock-in-later-round-blocks-older-polka(L29 false)")
			return
		}
	}
}

func (w *World) checkCommit(v *view, a Act) {
	if a.H != v.height {
		// everything below is about "the decision of height a.H": meaningless for this commit
		w.violate("commit-at-wrong-height", fmt.Sprintf("node %d at height %d committed %s", v.node, v.height, a.Str))
		return
	}
	if !w.sc.Cfg.valid(a.Value) {
		w.violate("commit-of-invalid-value", fmt.Sprintf("node %d committed %s which the application rejects", v.node, a.Str))
	}
	p := w.sc.Cfg.proposerIdx(a.H, a.R)
	if a.Sender != p {
		w.violate("commit-of-value-not-from-proposer", fmt.Sprintf("node %d committed %s, proposer of the round is %d", v.node, a.Str, p))
	}
	if mi, ok := w.nodeOf[p]; ok && a.Sender == p {
		found := false
		for k := range w.views[mi].bcastP {
			if k.h == a.H && k.r == a.R && k.val == a.Value {
				found = true
			}
		}
		if !found {
			w.violate("commit-of-value-the-correct-proposer-never-proposed", fmt.Sprintf("node %d committed %s", v.node, a.Str))
		}
	}
	if !w.isQuorum(w.weight(v, true, a.H, a.R, false, a.Value), a.H) {
		w.violate("commit-without-precommit-quorum", fmt.Sprintf("node %d committed %s without 2/3 precommits", v.node, a.Str))
	}
	if d, ok := w.decisions[a.H]; ok {
		if d.val != a.Value {
			w.violate("agreement-two-correct-validators-commit-different-values",
				fmt.Sprintf("height %d: node %d committed %d (round %d), node %d committed %d (round %d)", a.H, d.node, d.val, d.r, v.node, a.Value, a.R))
		}
	} else {
		w.decisions[a.H] = decision{a.Value, v.node, a.R}
	}
}

func sortedKeys(m map[string]int) []string {
	ks := make([]string, 0, len(m))
	for k := range m {
		ks = append(ks, k)
	}
	sort.Strings(ks)
	return ks
}

// Seal appends, once, a final comparison of every machine's Height() with the model's.
func (w *World) Seal() {
	if w.sealed {
		return
	}
	w.sealed = true
	for i, sm := range w.sms {
		out := "panic"
		_, _, _ = lib.Try(func() error { out = fmt.Sprint(uint64(sm.Height())); return nil })
		w.Lines = append(w.Lines, fmt.Sprintf("height %d", i))
		w.push(out, nil, true)
		if w.stateEvery > 0 && out != "panic" {
			w.pushState(i)
		}
	}
}

// Replay runs all events of a scenario on fresh machines.
func Replay(sc *Scenario) *World {
	w := NewWorld(sc)
	for _, e := range sc.Events {
		if e.M < 0 || e.M >= len(w.sms) {
			continue
		}
		w.Do(e.M, e.In)
	}
	return w
}

// shrink greedily removes events while the history stays admissible and still violates `sig`.
func shrink(sc *Scenario, sig string, budget int) *Scenario {
	has := func(s *Scenario) bool {
		w := Replay(s)
		if s.Disciplined && !w.Admissible {
			return false
		}
		for _, v := range w.Viols {
			if v.Sig == sig {
				return true
			}
		}
		return false
	}
	cur := *sc
	cur.Events = append([]Event(nil), sc.Events...)
	// chunks first, then single events
	for chunk := len(cur.Events) / 2; chunk >= 1 && budget > 0; chunk /= 2 {
		for i := len(cur.Events) - chunk; i >= 0 && budget > 0; i -= chunk {
			cand := cur
			cand.Events = append(append([]Event(nil), cur.Events[:i]...), cur.Events[i+chunk:]...)
			budget--
			if has(&cand) {
				cur = cand
			}
		}
	}
	return &cur
}

// ---- hang detection: a rule loop that never reaches a fixed point is a finding -----------------

type watchEntry struct {
	t  time.Time
	in In
	m  int
	n  int // events completed before this call
}

var (
	watchMu   sync.Mutex
	watched   = map[*World]watchEntry{}
	watchOnce sync.Once
)

func watchEnter(w *World) {
	watchMu.Lock()
	watched[w] = watchEntry{t: time.Now(), in: *w.Pending, m: w.PendingM, n: max(w.nEv-1, 0)}
	watchMu.Unlock()
}

func watchLeave(w *World) {
	watchMu.Lock()
	delete(watched, w)
	watchMu.Unlock()
}

// startWatchdog looks for a call into the state machine that has been pending for more than `limit`
// and hands the history up to and including that input to `suspect` (in the watchdog's goroutine; the
// entry is forgotten afterwards). The verdict must not depend on how busy the machine is: `suspect`
// re-runs the history on fresh machines and only a second, much longer wait makes it a finding.
func startWatchdog(limit time.Duration, suspect func(sc *Scenario, m int, in In)) {
	watchOnce.Do(func() {
		go func() {
			for {
				time.Sleep(500 * time.Millisecond)
				watchMu.Lock()
				var stuck *World
				var e watchEntry
				for w, x := range watched {
					if time.Since(x.t) > limit {
						stuck, e = w, x
					}
				}
				if stuck != nil {
					delete(watched, stuck)
				}
				watchMu.Unlock()
				if stuck != nil {
					cut := *stuck.sc
					evs := stuck.sc.Events
					cut.Events = append(append([]Event(nil), evs[:min(len(evs), e.n)]...), Event{M: e.m, In: e.in})
					suspect(&cut, e.m, e.in)
				}
			}
		}()
	})
}
