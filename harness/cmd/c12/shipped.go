//go:build verif

package main

import (
	"context"
	"fmt"
	"strings"
	"time"

	"github.com/NethermindEth/juno/consensus"
	"github.com/NethermindEth/juno/consensus/driver"
	"github.com/NethermindEth/juno/consensus/p2p"
	"github.com/NethermindEth/juno/consensus/starknet"
	consensusSync "github.com/NethermindEth/juno/consensus/sync"
	"github.com/NethermindEth/juno/consensus/types"
	"github.com/NethermindEth/juno/core/felt"
	jsync "github.com/NethermindEth/juno/sync"
	"github.com/NethermindEth/juno/utils/log"
	"verif/harness/lib"
)

// The configuration the repository ships. `consensus/mock.go` is the only implementation of
// votecounter.Validators in /repo. Until b29aadf it gave power 1 to EVERY address, and until
// d65a60f driver.listen passed gossiped messages of consensus/sync.SyncProtocolPrecommitSender
// (power N: block sync needs it for the single precommit MessageExtractor fabricates) to the state
// machine — whoever can put an address into a message held that address's power. Both are repaired;
// the probes below stay, so that a regression is an unlisted VIOLATION:
//
//  1. probe the real shipped Validators for the two facts,
//  2. if a non-member has power: three votes with invented sender addresses make a real state
//     machine (shipped-shape Validators) commit — sig shipped-validators-give-voting-power-to-non-members,
//  3. if the pseudo-sender has quorum power: ONE gossiped precommit carrying its address, fed through
//     the REAL driver's precommit listener, makes the validator commit — sig
//     sync-pseudo-sender-precommit-accepted-on-gossip-path; and the two histories of the Lean
//     witness `agreement_fails_with_sync_pseudo_sender` are replayed on real machines (two correct
//     validators, no faulty one, different commits at one height).
func runShipped(res *lib.Result, drv *lib.Driver) {
	ms := consensus.InitMockServices(0, 0, 0, 4)
	nonMember := felt.FromUint64[starknet.Address](123456789)
	pseudo := consensusSync.SyncProtocolPrecommitSender
	total := uint64(ms.Validators.TotalVotingPower(0))
	pNon := uint64(ms.Validators.ValidatorVotingPower(0, &nonMember))
	pPseudo := uint64(ms.Validators.ValidatorVotingPower(0, &pseudo))
	res.Case("shipped-validators-probe", true)
	res.Hit(fmt.Sprintf("shipped/mockValidators(4): total=%d non-member-power=%d pseudo-sender-power=%d", total, pNon, pPseudo))

	shape := Cfg{Powers: []uint64{1, 1, 1, 1}, Total: 4, VMod: 4, VRem: 3, PMul: 1, Tbl: []int{0, 1, 2, 3}, Shipped: true}

	// ---- 2. votes of invented senders count ----------------------------------------------------
	if pNon > 0 {
		regressed := shape
		regressed.NonMemberPower = pNon
		sc := &Scenario{Cfg: regressed, Nodes: []NodeSpec{{Node: 1, Height: 0, VBase: 800, VStep: 4}}}
		ins := []In{{Kind: "start", R: 0}, {Kind: "prop", H: 0, R: 0, Sender: 0, VR: -1, Value: 8}}
		for _, s := range []int{1001, 1002, 1003} {
			ins = append(ins, In{Kind: "pv", H: 0, R: 0, Sender: s, Value: 8})
		}
		for _, s := range []int{1001, 1002, 1003} {
			ins = append(ins, In{Kind: "pc", H: 0, R: 0, Sender: s, Value: 8})
		}
		for _, in := range ins {
			sc.Events = append(sc.Events, Event{M: 0, In: in})
		}
		w := Replay(sc)
		askCompare(res, drv, w, sc, "fuzz")
		res.Case("shipped-non-member-votes", true)
		committed := false
		for _, acts := range w.Acts {
			for _, a := range acts {
				if a.Kind == "C" {
					committed = true
				}
			}
		}
		if committed {
			res.Violate(lib.Violation{Sig: "shipped-validators-give-voting-power-to-non-members",
				What: fmt.Sprintf("consensus/mock.go mockValidators.ValidatorVotingPower returns %d for an address that is not a validator (total %d): "+
					"a real state machine with Validators of that shape commits value 8 after a genuine proposal and prevotes+precommits "+
					"from three invented sender addresses (no validator voted)", pNon, total),
				Replay: replayBody{Mode: "fuzz", Scenario: sc}})
		} else {
			res.Fatalf("shipped: non-members have power %d but the demonstration history did not commit", pNon)
		}
	}

	// ---- 3. the sync pseudo-sender on the gossip path ------------------------------------------
	if 3*pPseudo >= 2*total && total > 0 {
		// (a) the Lean witness on real machines: two correct validators, zero faulty
		var commits []string
		for k, hist := range [][]In{
			{{Kind: "start", R: 0}, {Kind: "prop", H: 0, R: 0, Sender: 0, VR: -1, Value: 8}, {Kind: "pc", H: 0, R: 0, Sender: pseudoIdx, Value: 8}},
			{{Kind: "start", R: 0}, {Kind: "prop", H: 0, R: 1, Sender: 1, VR: -1, Value: 12}, {Kind: "pc", H: 0, R: 1, Sender: pseudoIdx, Value: 12}},
		} {
			sc := &Scenario{Cfg: shape, Nodes: []NodeSpec{{Node: 2 + k, Height: 0, VBase: 800, VStep: 4}}}
			for _, in := range hist {
				sc.Events = append(sc.Events, Event{M: 0, In: in})
			}
			w := Replay(sc)
			askCompare(res, drv, w, sc, "fuzz")
			for _, acts := range w.Acts {
				for _, a := range acts {
					if a.Kind == "C" {
						commits = append(commits, a.Str)
					}
				}
			}
		}
		res.Case("shipped-pseudo-sender-state-machines", true)
		split := len(commits) == 2 && commits[0] != commits[1]
		if split {
			res.Hit("shipped/pseudo-sender:two-correct-validators-commit-different-values-with-no-faulty-validator(state machines)")
		}
		// (b) through the real driver: is a GOSSIPED precommit with that sender accepted?
		committed, err := pseudoThroughDriver(&shape, "precommit")
		res.Case("shipped-pseudo-sender-driver", true)
		if err != nil {
			res.Fatalf("shipped: driver run for the pseudo-sender demonstration failed: %v", err)
		} else if committed {
			res.Violate(lib.Violation{Sig: "sync-pseudo-sender-precommit-accepted-on-gossip-path",
				What: fmt.Sprintf("the shipped Validators give consensus/sync.SyncProtocolPrecommitSender power %d of %d (the sync path needs it), and "+
					"driver.listen hands a precommit with that sender arriving on the GOSSIP precommit listener to the state machine unchecked: "+
					"one such message after a genuine proposal made the real driver + state machine commit height 0; replayed on two real state "+
					"machines (no faulty validator) the commits are %v", pPseudo, total, commits),
				Replay: map[string]any{"mode": "shipped-pseudo-sender", "validators": "shape of consensus/mock.go, n=4",
					"inputs": []string{"ProcessStart(0)", "proposal h=0 r=0 sender=0 value=8 (proposal listener)",
						"precommit h=0 r=0 sender=SyncProtocolPrecommitSender id=8 (precommit listener)"}}})
		} else {
			res.Hit("shipped/pseudo-sender:gossiped-precommit-not-accepted-by-the-driver")
		}
		// (c) round 6: the same for the PREVOTE listener (the filter is written three times in driver.listen): one
		// gossiped prevote carrying the pseudo-sender's address is a polka by itself
		locked, err := pseudoThroughDriver(&shape, "prevote")
		res.Case("shipped-pseudo-sender-driver-prevote", true)
		if err != nil {
			res.Fatalf("shipped: driver run for the pseudo-sender prevote demonstration failed: %v", err)
		} else if locked {
			res.Violate(lib.Violation{Sig: "sync-pseudo-sender-prevote-accepted-on-gossip-path",
				What: fmt.Sprintf("the shipped Validators give consensus/sync.SyncProtocolPrecommitSender power %d of %d; driver.listen hands a PREVOTE with that sender "+
					"arriving on the gossip prevote listener to the state machine: after a genuine proposal that single message is a polka — the real driver + state machine "+
					"(validator 1 of 4) locked and broadcast the precommit BC:0:0:1:8 although no validator but itself prevoted (precommit without a prevote quorum of validators)", pPseudo, total),
				Replay: map[string]any{"mode": "shipped-pseudo-sender", "validators": "shape of consensus/mock.go, n=4",
					"inputs": []string{"ProcessStart(0)", "proposal h=0 r=0 sender=0 value=8 (proposal listener)",
						"prevote h=0 r=0 sender=SyncProtocolPrecommitSender id=8 (prevote listener)"}}})
		} else {
			res.Hit("shipped/pseudo-sender:gossiped-prevote-not-accepted-by-the-driver")
		}
	}
}

// pseudoThroughDriver runs the real driver (validator 1 of 4, shipped-shape Validators, real
// state machine) and feeds, through the gossip listeners, a proposal of the round's proposer and
// then one precommit whose sender is the sync pseudo-sender. Reports whether a Commit came back.
func pseudoThroughDriver(cfg *Cfg, via string) (bool, error) {
	rec := &recSM{sm: newSM(cfg, NodeSpec{Node: 1, Height: 0, VBase: 800, VStep: 4}), hits: map[string]int{}}
	props := make(chan *types.Proposal[Val, Hsh, Adr])
	pvs := make(chan *types.Prevote[Hsh, Adr])
	pcs := make(chan *types.Precommit[Hsh, Adr])
	ctx, cancel := context.WithTimeout(context.Background(), 60*time.Second)
	defer cancel()
	d := driver.New[Val, Hsh, Adr](log.NewNopZapLogger(), &memWAL{}, rec, okCommits{ch: make(chan jsync.CommittedBlock)},
		p2p.Broadcasters[Val, Hsh, Adr]{
			ProposalBroadcaster:  fnBroadcaster[*types.Proposal[Val, Hsh, Adr]]{func(*types.Proposal[Val, Hsh, Adr]) {}},
			PrevoteBroadcaster:   fnBroadcaster[*types.Prevote[Hsh, Adr]]{func(*types.Prevote[Hsh, Adr]) {}},
			PrecommitBroadcaster: fnBroadcaster[*types.Precommit[Hsh, Adr]]{func(*types.Precommit[Hsh, Adr]) {}},
		},
		p2p.Listeners[Val, Hsh, Adr]{ProposalListener: chanListener[*types.Proposal[Val, Hsh, Adr]]{props},
			PrevoteListener: chanListener[*types.Prevote[Hsh, Adr]]{pvs}, PrecommitListener: chanListener[*types.Precommit[Hsh, Adr]]{pcs}},
		nil, nil, func(types.Step, types.Round) time.Duration { return time.Hour })
	done := make(chan error, 1)
	go func() {
		err, panicked, stack := lib.Try(func() error { return d.Run(ctx) })
		if panicked {
			err = fmt.Errorf("%v\n%s", err, stack)
		}
		done <- err
	}()
	v := Val(8)
	id := v.Hash()
	send := func(f func()) bool {
		ok := make(chan struct{})
		go func() { f(); close(ok) }()
		select {
		case <-ok:
			return true
		case <-ctx.Done():
			return false
		}
	}
	if !send(func() {
		props <- &types.Proposal[Val, Hsh, Adr]{MessageHeader: types.MessageHeader[Adr]{Height: 0, Round: 0, Sender: addr(0)}, ValidRound: -1, Value: &v}
	}) {
		return false, fmt.Errorf("the driver did not take the proposal")
	}
	delivered := send(func() {
		if via == "prevote" {
			pvs <- &types.Prevote[Hsh, Adr]{MessageHeader: types.MessageHeader[Adr]{Height: 0, Round: 0, Sender: pseudoAdr}, ID: &id}
		} else {
			pcs <- &types.Precommit[Hsh, Adr]{MessageHeader: types.MessageHeader[Adr]{Height: 0, Round: 0, Sender: pseudoAdr}, ID: &id}
		}
	})
	// the driver handles one event at a time: once it has taken a second (harmless, stale-height-free) message the
	// first one has been processed completely — no sleep decides the verdict
	send(func() {
		pcs <- &types.Precommit[Hsh, Adr]{MessageHeader: types.MessageHeader[Adr]{Height: 0, Round: 7, Sender: addr(2)}, ID: nil}
	})
	// let the driver finish the call, then stop it
	time.Sleep(100 * time.Millisecond)
	cancel()
	select {
	case err := <-done:
		if err != nil {
			return false, err
		}
	case <-time.After(60 * time.Second):
		return false, fmt.Errorf("driver.Run did not return after its context was cancelled")
	}
	if !delivered {
		return false, fmt.Errorf("the driver did not take the %s", via)
	}
	rec.mu.Lock()
	defer rec.mu.Unlock()
	for _, c := range rec.calls {
		if via == "precommit" && c.Commit {
			return true, nil
		}
		// one gossiped prevote of the pseudo-sender (power N) is a polka: the validator locks and precommits 8
		if via == "prevote" && strings.Contains(c.Acts, "BC:0:0:1:8") {
			return true, nil
		}
	}
	return false, nil
}
