//go:build verif

package main

import (
	"sort"

	"verif/harness/lib"
)

// ---- validator sets -------------------------------------------------------------------------

type valSet struct {
	name   string
	powers []uint64
	tbl    []int
	rot    int
	alt    []uint64 // validator powers at odd heights (nil: same set at every height)
}

var valSets = []valSet{
	{"4x1", []uint64{1, 1, 1, 1}, []int{0, 1, 2, 3}, 0, nil},
	{"4x1", []uint64{1, 1, 1, 1}, []int{0, 1, 2, 3}, 0, nil},
	{"1,1,1,4", []uint64{1, 1, 1, 4}, []int{3, 0, 3, 1, 3, 2, 3}, 0, nil},
	{"3,3,2,1,1", []uint64{3, 3, 2, 1, 1}, []int{0, 1, 2, 0, 1, 3, 4}, 0, nil},
	{"7x1", []uint64{1, 1, 1, 1, 1, 1, 1}, []int{0, 1, 2, 3, 4, 5, 6}, 0, nil},
	{"4x5", []uint64{5, 5, 5, 5}, []int{2, 0, 3, 1}, 0, nil},
	{"3,3,2,1,1-rot", []uint64{3, 3, 2, 1, 1}, []int{0, 1, 2, 3, 4}, 1, nil},
	{"2,2,1,1", []uint64{2, 2, 1, 1}, []int{0, 1, 2, 3}, 0, nil},
	{"4x1|3,1,1,1", []uint64{1, 1, 1, 1}, []int{0, 1, 2, 3}, 0, []uint64{3, 1, 1, 1}},
	{"1,1,1,4|2,2,2,1", []uint64{1, 1, 1, 4}, []int{3, 0, 1, 2}, 0, []uint64{2, 2, 2, 1}},
	{"3,3,2,1,1|1,1,1,1,1", []uint64{3, 3, 2, 1, 1}, []int{0, 1, 2, 3, 4}, 0, []uint64{1, 1, 1, 1, 1}},
	// wide arithmetic: N = 2^63 (the boundary of the repaired overflow), tallies far above 2^32
	{"4x2^61", []uint64{1 << 61, 1 << 61, 1 << 61, 1 << 61}, []int{0, 1, 2, 3}, 0, nil},
	{"2^62,2^61,2^61,2^60,2^60", []uint64{1 << 62, 1 << 61, 1 << 61, 1 << 60, 1 << 60}, []int{0, 1, 2, 3, 4}, 0, nil},
	// f = 0: no Byzantine validator allowed, quorum = everybody (N=1,2) or two of three
	{"1x1", []uint64{1}, []int{0}, 0, nil},
	{"2x1", []uint64{1, 1}, []int{0, 1}, 0, nil},
	{"3x1", []uint64{1, 1, 1}, []int{0, 1, 2}, 0, nil},
}

func sumU(xs []uint64) uint64 {
	var s uint64
	for _, x := range xs {
		s += x
	}
	return s
}

// ---- scheduler ------------------------------------------------------------------------------

type flight struct {
	in        In
	dst       int // machine index
	notBefore int
}

type profile struct {
	wDeliver, wTimeout, wByz, wDrop int
	wSync                           int // catch-up of a lagging validator through ProcessSync
	walP                            int // per cent of inputs delivered through ProcessWAL
	dupP                            int // per cent
	slowLinkP                       int // per cent of links that are slow
	slowFlightP                     int // per cent of flights delayed individually
	selfP                           int // per cent: own broadcasts are also delivered to the sender
	eagerTimeouts                   bool
	byzMode                         int // 0 silent, 1 random, 2 equivocating-helper
	heights                         int
	steps                           int
}

type sim struct {
	r        *lib.RNG
	w        *World
	sc       *Scenario
	pf       profile
	pool     []flight
	timeouts [][]In
	tick     int
	slow     map[[2]int]bool
	values   map[uint64][]uint64 // height -> values seen
	commits  map[uint64]In       // height -> a ProcessSync input made from a correct validator's commit
	retired  map[int]bool        // machines that ran far ahead of the target height
	wal      [][]In              // per machine: the DURABLE part of the WAL the driver would hold (entries as replay inputs)
	walPend  [][]In              // … entries handed to SetWALEntry since the last Flush: lost by a crash
	vcalls   []uint64            // per machine: Application.Value() calls so far
	vcallsH  []uint64            // … at the start of the current height
	replay   bool                // inside a WAL replay (no WAL writes, no ProcessStart after a commit)
	restartP int                 // per mille: crash + restart of a random validator per scheduler step
	start    uint64
	label    string
}

func genProfile(r *lib.RNG, thorough bool) profile {
	pf := profile{wDeliver: 100, dupP: r.Intn(8), selfP: r.Intn(30), heights: 2, steps: 500}
	switch r.Intn(5) {
	case 0: // calm network, timeouts only when nothing else can happen
		pf.wTimeout, pf.wDrop = 0, 0
	case 1: // timeouts compete with deliveries
		pf.wTimeout, pf.wDrop = r.Range(5, 40), r.Intn(3)
		pf.eagerTimeouts = true
	case 2: // slow links (partial partitions), moderate timeouts
		pf.wTimeout, pf.wDrop = r.Range(2, 15), r.Intn(2)
		pf.slowLinkP = r.Range(10, 50)
		pf.slowFlightP = r.Range(0, 20)
	case 3: // lossy
		pf.wTimeout, pf.wDrop = r.Range(3, 20), r.Range(2, 10)
		pf.slowFlightP = r.Range(0, 30)
	default: // everything
		pf.wTimeout, pf.wDrop = r.Range(1, 30), r.Intn(4)
		pf.slowLinkP = r.Range(0, 40)
		pf.slowFlightP = r.Range(0, 25)
	}
	pf.byzMode = r.Intn(3)
	pf.wSync = lib.Pick(r, []int{0, 0, 2, 6})
	pf.walP = lib.Pick(r, []int{0, 0, 5, 20})
	pf.wByz = 0
	if pf.byzMode > 0 {
		pf.wByz = r.Range(5, 40)
	}
	if thorough {
		pf.heights = 3
		pf.steps = 900
	}
	return pf
}

// genScenario picks a validator set, a Byzantine subset of power <= floor((N-1)/3) and a
// scheduling profile.
func genScenario(r *lib.RNG, thorough bool) *sim {
	vs := lib.Pick(r, valSets)
	n := len(vs.powers)
	total := sumU(vs.powers)
	cfg := Cfg{Powers: vs.powers, Total: total, Rot: vs.rot, VMod: 4, VRem: 3, PMul: 1, Tbl: vs.tbl,
		AltPowers: vs.alt, AltTotal: sumU(vs.alt)}
	start := uint64(lib.Pick(r, []int{0, 0, 1, 7}))
	pf := genProfile(r, thorough)
	// Byzantine subset: random order, add while the power stays <= f at every height of the run
	var byz []int
	if r.Chance(4, 5) {
		order := make([]int, n)
		for i := range order {
			order[i] = i
		}
		lib.Shuffle(r, order)
		for _, c := range order {
			ok := true
			for h := start; h <= start+uint64(pf.heights)+2; h++ {
				var p uint64
				for _, b := range append(append([]int(nil), byz...), c) {
					p += cfg.power(h, b)
				}
				if p > (cfg.total(h)-1)/3 {
					ok = false
				}
			}
			if ok && r.Chance(9, 10) { // mostly the maximum: Byzantine power exactly f is the boundary
				byz = append(byz, c)
			}
		}
	}
	isByz := map[int]bool{}
	for _, b := range byz {
		isByz[b] = true
	}
	sc := &Scenario{Cfg: cfg, Byz: byz, Disciplined: true}
	for i := 0; i < n; i++ {
		if !isByz[i] {
			sc.Nodes = append(sc.Nodes, NodeSpec{Node: i, Height: start, VBase: uint64(400 * (i + 1)), VStep: 4})
		}
	}
	s := &sim{r: r, sc: sc, pf: pf, slow: map[[2]int]bool{}, values: map[uint64][]uint64{}, commits: map[uint64]In{}, retired: map[int]bool{}, start: start, label: vs.name}
	for i := 0; i < n; i++ {
		for j := 0; j < n; j++ {
			if r.Intn(100) < pf.slowLinkP {
				s.slow[[2]int{i, j}] = true
			}
		}
	}
	return s
}

func (s *sim) addValue(h, v uint64) {
	for _, x := range s.values[h] {
		if x == v {
			return
		}
	}
	s.values[h] = append(s.values[h], v)
}

// do delivers an input and turns the resulting actions into flights / pending timeouts; after a
// commit the next height is started at once (driver.listen).
func (s *sim) do(m int, in In) {
	if s.retired[m] {
		return
	}
	if in.Kind != "sync" && !in.Wal && s.r.Intn(100) < s.pf.walP {
		in.Wal = true
		if in.Kind == "start" {
			in.H = s.w.views[m].height
		}
	}
	acts := s.w.Do(m, in)
	s.sc.Events = append(s.sc.Events, Event{M: m, In: in})
	commit := false
	for _, a := range acts {
		if !s.replay && a.Flush {
			// driver.execute: `if !isReplaying && action.RequiresWALFlush() { db.Flush() }`
			s.wal[m] = append(s.wal[m], s.walPend[m]...)
			s.walPend[m] = nil
		}
		switch a.Kind {
		case "W":
			if !s.replay && a.Wal != nil {
				s.walPend[m] = append(s.walPend[m], *a.Wal)
			}
		case "BP":
			if a.VR == -1 {
				s.vcalls[m]++ // validValue was nil: the value came from Application.Value()
			}
			s.addValue(a.H, a.Value)
			s.broadcast(m, In{Kind: "prop", H: a.H, R: a.R, Sender: a.Sender, VR: a.VR, Value: a.Value})
		case "BV":
			s.broadcast(m, In{Kind: "pv", H: a.H, R: a.R, Sender: a.Sender, Value: a.Value, Nil: a.Nil})
		case "BC":
			s.broadcast(m, In{Kind: "pc", H: a.H, R: a.R, Sender: a.Sender, Value: a.Value, Nil: a.Nil})
		case "T":
			s.timeouts[m] = append(s.timeouts[m], In{Kind: "to", Step: a.Step, H: a.H, R: a.R})
		case "C":
			commit = true
			// driver.commit: DeleteWALEntries(commit.Height), then Flush
			s.wal[m] = append(s.wal[m], s.walPend[m]...)
			s.walPend[m] = nil
			keep := s.wal[m][:0:0]
			for _, e := range s.wal[m] {
				if e.H > a.H {
					keep = append(keep, e)
				}
			}
			s.wal[m] = keep
			s.vcallsH[m] = s.vcalls[m]
			if _, ok := s.commits[a.H]; !ok {
				// what a block-sync would deliver for this height: the decided proposal and the
				// precommits the committing validator has seen for it
				sy := In{Kind: "sync", H: a.H, R: a.R, Sender: a.Sender, VR: a.VR, Value: a.Value}
				for k := range s.w.views[m].votes {
					if k.pc && k.h == a.H && k.r == a.R && !k.isNil && k.val == a.Value {
						sy.Votes = append(sy.Votes, In{Kind: "pc", H: k.h, R: k.r, Sender: k.sender, Value: k.val})
					}
				}
				sort.Slice(sy.Votes, func(i, j int) bool { return sy.Votes[i].Sender < sy.Votes[j].Sender })
				s.commits[a.H] = sy
			}
		}
	}
	if commit && (len(s.sc.Events) >= 20000 || s.w.views[m].height > s.start+uint64(s.pf.heights)+2) {
		// far above the scenario's target (e.g. the single validator of N=1 commits on every start):
		// the validator is retired, nothing is delivered to it any more
		s.retired[m] = true
		return
	}
	if commit && len(s.w.Viols) == 0 && !s.replay {
		s.do(m, In{Kind: "start", R: 0})
	}
}

func (s *sim) broadcast(from int, in In) {
	src := s.sc.Nodes[from].Node
	for j := range s.sc.Nodes {
		if j == from && s.r.Intn(100) >= s.pf.selfP {
			continue
		}
		nb := s.tick
		if s.slow[[2]int{src, s.sc.Nodes[j].Node}] {
			nb += s.r.Range(30, 160)
		} else if s.r.Intn(100) < s.pf.slowFlightP {
			nb += s.r.Range(10, 120)
		}
		s.pool = append(s.pool, flight{in: in, dst: j, notBefore: nb})
	}
}

func (s *sim) eligible() []int {
	var idx []int
	for i, f := range s.pool {
		if f.notBefore <= s.tick {
			idx = append(idx, i)
		}
	}
	return idx
}

func (s *sim) removeFlight(i int) {
	s.pool[i] = s.pool[len(s.pool)-1]
	s.pool = s.pool[:len(s.pool)-1]
}

func (s *sim) fireTimeout() bool {
	var ms []int
	for m := range s.timeouts {
		if len(s.timeouts[m]) > 0 && !s.retired[m] {
			ms = append(ms, m)
		}
	}
	if len(ms) == 0 {
		return false
	}
	m := lib.Pick(s.r, ms)
	// prefer timeouts of the machine's current height (stale ones are no-ops, still delivered sometimes)
	cand := s.timeouts[m]
	i := s.r.Intn(len(cand))
	if !s.r.Chance(1, 6) {
		for k := 0; k < 4; k++ {
			if cand[i].H == s.w.views[m].height {
				break
			}
			i = s.r.Intn(len(cand))
		}
	}
	in := cand[i]
	if !s.r.Chance(1, 25) { // rarely the same timeout is delivered twice
		s.timeouts[m] = append(append([]In(nil), cand[:i]...), cand[i+1:]...)
	}
	s.do(m, in)
	return true
}

func (s *sim) byzAct() {
	if len(s.sc.Byz) == 0 || s.pf.byzMode == 0 {
		return
	}
	b := lib.Pick(s.r, s.sc.Byz)
	dst := s.r.Intn(len(s.sc.Nodes))
	v := s.w.views[dst]
	h := v.height
	switch s.r.Intn(12) {
	case 0:
		h++
	case 1:
		if h > 0 {
			h--
		}
	}
	maxR := v.maxRound
	for _, vv := range s.w.views {
		if vv.height == h && vv.maxRound > maxR {
			maxR = vv.maxRound
		}
	}
	rr := s.r.Range(0, maxR+1)
	if s.r.Chance(1, 30) {
		rr = -1
	}
	if s.r.Chance(1, 12) {
		rr = maxR + s.r.Range(2, 3)
	}
	alphabet := append([]uint64{8, 7}, s.values[h]...)
	val := lib.Pick(s.r, alphabet)
	if len(s.values[h]) > 0 && s.r.Chance(2, 3) {
		val = lib.Pick(s.r, s.values[h])
	}
	kind := s.r.Intn(10)
	// a Byzantine proposer of some reachable round proposes (different values to different peers)
	if kind < 3 {
		for try := 0; try < 4; try++ {
			if s.sc.Cfg.proposerIdx(h, rr) == b {
				break
			}
			rr = s.r.Range(0, maxR+1)
		}
		vr := -1
		switch s.r.Intn(6) {
		case 0:
			vr = rr - 1
		case 1:
			vr = s.r.Range(-2, rr+1)
		case 2:
			if rr > 0 {
				vr = s.r.Intn(rr)
			}
		}
		if s.pf.byzMode == 2 {
			val = 8 + 4*uint64(dst%2) // equivocation: value depends on the destination
		}
		s.addValue(h, val)
		s.do(dst, In{Kind: "prop", H: h, R: rr, Sender: b, VR: vr, Value: val})
		return
	}
	isNil := s.r.Chance(1, 4)
	if isNil {
		val = 0
	}
	k := "pv"
	if kind >= 7 {
		k = "pc"
	}
	if s.pf.byzMode == 2 && s.r.Chance(1, 2) {
		// send the same vote to everybody (helps quorums to form), sometimes a second conflicting one
		for j := range s.sc.Nodes {
			if s.r.Chance(3, 4) {
				s.pool = append(s.pool, flight{in: In{Kind: k, H: h, R: rr, Sender: b, Value: val, Nil: isNil}, dst: j, notBefore: s.tick + s.r.Intn(20)})
			}
		}
		return
	}
	s.do(dst, In{Kind: k, H: h, R: rr, Sender: b, Value: val, Nil: isNil})
}

// restart crashes validator m and restarts it: fresh machine at its height, WAL replayed through
// ProcessWAL in the order the store returns it (by height, then insertion), then listen's
// ProcessStart(0). Timers of the old process are gone.
func (s *sim) restart(m int) {
	v := s.w.views[m]
	if s.retired[m] || !v.started {
		return
	}
	spec := s.sc.Nodes[m]
	in := In{Kind: "restart", H: v.height, Value: spec.VBase + s.vcallsH[m]*spec.VStep}
	s.w.Do(m, in)
	s.sc.Events = append(s.sc.Events, Event{M: m, In: in})
	s.vcalls[m] = s.vcallsH[m]
	s.timeouts[m] = nil
	if len(s.walPend[m]) > 0 {
		s.w.hit("restart-loses-unflushed-wal-entries")
	}
	s.walPend[m] = nil // what was not flushed is gone
	entries := append([]In(nil), s.wal[m]...)
	sort.SliceStable(entries, func(i, j int) bool { return entries[i].H < entries[j].H })
	s.replay = true
	for _, e := range entries {
		if e.H < s.w.views[m].height { // driver.replay skips entries below the machine's height
			continue
		}
		if len(s.w.Viols) > 0 {
			break
		}
		s.do(m, e)
	}
	s.replay = false
	if len(s.w.Viols) == 0 {
		s.do(m, In{Kind: "start", R: 0})
	}
}

func (s *sim) done() bool {
	for m, v := range s.w.views {
		if v.height < s.start+uint64(s.pf.heights) && !s.retired[m] {
			return false
		}
	}
	return true
}

// run executes the scenario; the history is in s.sc.Events, the observations in s.w.
func (s *sim) run() {
	s.w = NewWorld(s.sc)
	s.timeouts = make([][]In, len(s.sc.Nodes))
	s.wal = make([][]In, len(s.sc.Nodes))
	s.walPend = make([][]In, len(s.sc.Nodes))
	s.vcalls = make([]uint64, len(s.sc.Nodes))
	s.vcallsH = make([]uint64, len(s.sc.Nodes))
	if s.r.Chance(1, 3) {
		s.restartP = lib.Pick(s.r, []int{3, 8, 20})
	}
	order := make([]int, len(s.sc.Nodes))
	for i := range order {
		order[i] = i
	}
	lib.Shuffle(s.r, order)
	for _, m := range order {
		s.do(m, In{Kind: "start", R: 0})
	}
	for step := 0; step < s.pf.steps && !s.done() && len(s.w.Viols) == 0; step++ {
		s.tick++
		el := s.eligible()
		wD, wT, wB, wX := s.pf.wDeliver, s.pf.wTimeout, s.pf.wByz, s.pf.wDrop
		if len(el) == 0 {
			wD, wX = 0, 0
			if !s.pf.eagerTimeouts {
				wT = 50 // nothing deliverable: time passes, timeouts expire
			}
		}
		if s.restartP > 0 && s.r.Intn(1000) < s.restartP {
			s.restart(s.r.Intn(len(s.sc.Nodes)))
			continue
		}
		if s.pf.wSync > 0 && s.r.Intn(100) < s.pf.wSync {
			// a lagging validator catches up through ProcessSync
			m := s.r.Intn(len(s.sc.Nodes))
			if sy, ok := s.commits[s.w.views[m].height]; ok && s.w.views[m].started {
				s.do(m, sy)
				continue
			}
		}
		tot := wD + wT + wB + wX
		if tot == 0 {
			if len(s.pool) == 0 {
				if !s.fireTimeout() {
					return
				}
			}
			continue
		}
		x := s.r.Intn(tot)
		switch {
		case x < wD:
			i := lib.Pick(s.r, el)
			if s.r.Chance(1, 3) { // bias to older flights
				i = el[0]
			}
			f := s.pool[i]
			if s.r.Intn(100) >= s.pf.dupP {
				s.removeFlight(i)
			}
			s.do(f.dst, f.in)
		case x < wD+wT:
			if !s.fireTimeout() && len(s.pool) == 0 && wB == 0 {
				return
			}
		case x < wD+wT+wB:
			s.byzAct()
		default:
			s.removeFlight(lib.Pick(s.r, el))
		}
	}
}
