//go:build verif

package main

import (
	"context"
	"fmt"
	"iter"
	"sort"
	"strings"
	"sync"
	"sync/atomic"
	"time"

	"github.com/NethermindEth/juno/consensus/driver"
	"github.com/NethermindEth/juno/consensus/p2p"
	"github.com/NethermindEth/juno/consensus/types"
	"github.com/NethermindEth/juno/consensus/types/actions"
	"github.com/NethermindEth/juno/consensus/types/wal"
	jsync "github.com/NethermindEth/juno/sync"
	"github.com/NethermindEth/juno/utils/log"
	"verif/harness/lib"
)

// Trace validation of the REAL consensus/driver.Driver against the call discipline that the Lean
// model of its loop (`ModelNetwork.lean`, `driver_loop_keeps_discipline`) guarantees and that
// `no_double_vote` assumes: the state machine is only given a timeout (ProcessTimeout, or a
// wal.Timeout through ProcessWAL) while its height is started, ProcessStart is called with round 0,
// and it is called exactly when the height is not started (first call, and after every returned
// Commit). The real driver runs with the real state machine behind a recording wrapper, an
// in-memory WAL, real timers (1-3 ms) and a reactive environment playing the other validators.
// Scheduling is real time, hence not reproducible — but the verdict does not depend on it: the
// discipline must hold on EVERY trace.

type call struct {
	Kind    string `json:"kind"`
	Detail  string `json:"detail"`
	Started bool   `json:"started_before"`
	Commit  bool   `json:"returned_commit"`
	// what the call returned (canonical, TriggerSync stripped) and what the driver then did with it: its
	// calls on the WAL store, the broadcasters and the commit listener up to its next call into the
	// state machine — compared with the Lean model of driver.execute
	Acts string   `json:"actions"`
	Ops  []string `json:"driver_ops"`
	// the machine's Height() when the call returned
	HeightAfter uint64 `json:"height_after"`
}

// opLog is shared by the WAL store, the broadcasters and the commit listener of one driver run.
type opLog struct {
	mu  sync.Mutex
	ops []string
}

func (l *opLog) add(s string) {
	l.mu.Lock()
	l.ops = append(l.ops, s)
	l.mu.Unlock()
}

func (l *opLog) cut() []string {
	l.mu.Lock()
	o := l.ops
	l.ops = nil
	l.mu.Unlock()
	return o
}

// execCheck is one returned action list with what the real driver did with it.
type execCheck struct {
	Replaying bool
	Acts      string
	Ops       []string
	Call      string
}

// replayCheck is one restart of the real driver: the machine it starts with, what the WAL store
// handed to driver.replay, the entries replay fed to ProcessWAL and the height it ended at.
type replayCheck struct {
	NewLine string
	Loaded  []string
	Fed     []string
	Ops     []string
	Height  uint64
	Name    string
}

// recSM wraps the real state machine and records the calls the driver makes.
type recSM struct {
	mu      sync.Mutex
	sm      SM
	started bool
	calls   []call
	bad     []string
	onActs  func([]Act)
	hits    map[string]int
	log     *opLog
}

func (r *recSM) record(kind, detail string, needStarted bool, f func() []actions.Action[Val, Hsh, Adr]) []actions.Action[Val, Hsh, Adr] {
	r.mu.Lock()
	if r.log != nil {
		// everything the driver did since the previous call returned is its execution of that call's actions
		ops := r.log.cut()
		if n := len(r.calls); n > 0 {
			r.calls[n-1].Ops = ops
		}
	}
	before := r.started
	if needStarted && !before {
		r.bad = append(r.bad, fmt.Sprintf("%s %s delivered to a height that is not started (call #%d)", kind, detail, len(r.calls)))
	}
	r.mu.Unlock()
	as := f()
	// the driver does not implement block sync here: drop TriggerSync (it would need a BlockFetcher)
	out := as[:0:0]
	commit := false
	for _, a := range as {
		if _, ok := a.(*actions.TriggerSync); ok {
			continue
		}
		if _, ok := a.(*actions.Commit[Val, Hsh, Adr]); ok {
			commit = true
		}
		out = append(out, a)
	}
	acts, actsStr := canonActions(out)
	r.mu.Lock()
	if kind == "ProcessStart" || kind == "ProcessWAL(start)" {
		r.started = true
	}
	if commit {
		r.started = false
	}
	r.calls = append(r.calls, call{Kind: kind, Detail: detail, Started: before, Commit: commit, Acts: actsStr, HeightAfter: uint64(r.sm.Height())})
	r.hits[kind]++
	if kind == "ProcessTimeout" && len(as) == 0 {
		r.hits["ProcessTimeout(stale or wrong step)"]++
	}
	r.mu.Unlock()
	if r.onActs != nil {
		r.onActs(acts)
	}
	return out
}

func (r *recSM) Height() types.Height { return r.sm.Height() }

func (r *recSM) ProcessStart(round types.Round) []actions.Action[Val, Hsh, Adr] {
	r.mu.Lock()
	if round != 0 {
		r.bad = append(r.bad, fmt.Sprintf("ProcessStart(%d): round is not 0", round))
	}
	if r.started {
		r.hits["ProcessStart on a started height (no-op, after replay)"]++
	}
	r.mu.Unlock()
	return r.record("ProcessStart", fmt.Sprint(round), false, func() []actions.Action[Val, Hsh, Adr] { return r.sm.ProcessStart(round) })
}

func (r *recSM) ProcessTimeout(tm types.Timeout) []actions.Action[Val, Hsh, Adr] {
	return r.record("ProcessTimeout", fmt.Sprintf("%d:%d:%d", tm.Step, tm.Height, tm.Round), true,
		func() []actions.Action[Val, Hsh, Adr] { return r.sm.ProcessTimeout(tm) })
}

func (r *recSM) ProcessProposal(p *types.Proposal[Val, Hsh, Adr]) []actions.Action[Val, Hsh, Adr] {
	return r.record("ProcessProposal", propS(p), true, func() []actions.Action[Val, Hsh, Adr] { return r.sm.ProcessProposal(p) })
}

func (r *recSM) ProcessPrevote(p *types.Prevote[Hsh, Adr]) []actions.Action[Val, Hsh, Adr] {
	return r.record("ProcessPrevote", voteS((*types.Vote[Hsh, Adr])(p)), true, func() []actions.Action[Val, Hsh, Adr] { return r.sm.ProcessPrevote(p) })
}

func (r *recSM) ProcessPrecommit(p *types.Precommit[Hsh, Adr]) []actions.Action[Val, Hsh, Adr] {
	return r.record("ProcessPrecommit", voteS((*types.Vote[Hsh, Adr])(p)), true, func() []actions.Action[Val, Hsh, Adr] { return r.sm.ProcessPrecommit(p) })
}

func (r *recSM) ProcessSync(p *types.Proposal[Val, Hsh, Adr], pcs []types.Precommit[Hsh, Adr]) []actions.Action[Val, Hsh, Adr] {
	return r.record("ProcessSync", propS(p), true, func() []actions.Action[Val, Hsh, Adr] { return r.sm.ProcessSync(p, pcs) })
}

func (r *recSM) ProcessWAL(e wal.Entry[Val, Hsh, Adr]) []actions.Action[Val, Hsh, Adr] {
	kind, need := "ProcessWAL(message)", false
	switch e.(type) {
	case *wal.Start:
		kind = "ProcessWAL(start)"
	case *wal.Timeout:
		kind, need = "ProcessWAL(timeout)", true
	}
	return r.record(kind, canonAction(&actions.WriteWAL[Val, Hsh, Adr]{Entry: e}).Str, need, func() []actions.Action[Val, Hsh, Adr] { return r.sm.ProcessWAL(e) })
}

// memWAL is an in-memory walstore.TendermintWALStore (entries survive a driver restart).
type memWAL struct {
	mu      sync.Mutex
	entries []wal.Entry[Val, Hsh, Adr]
	log     *opLog
	// keepDeleted: DeleteWALEntries is acknowledged but its effect is lost (as by a crash between the
	// commit delivery and the durable prune record): the next process finds entries below its height
	keepDeleted bool
}

func (m *memWAL) Flush() error {
	if m.log != nil {
		m.log.add("flush")
	}
	return nil
}
func (m *memWAL) Close() error { return nil }
func (m *memWAL) SetWALEntry(e wal.Entry[Val, Hsh, Adr]) error {
	if m.log != nil {
		m.log.add("set:" + canonAction(&actions.WriteWAL[Val, Hsh, Adr]{Entry: e}).Str)
	}
	m.mu.Lock()
	// copy what may alias the caller's data
	switch x := e.(type) {
	case *wal.Start:
		c := *x
		e = &c
	case *wal.Timeout:
		c := *x
		e = &c
	}
	m.entries = append(m.entries, e)
	m.mu.Unlock()
	return nil
}

func (m *memWAL) DeleteWALEntries(h types.Height) error {
	if m.log != nil {
		m.log.add(fmt.Sprintf("delete:%d", uint64(h)))
	}
	if m.keepDeleted {
		return nil
	}
	m.mu.Lock()
	keep := m.entries[:0:0]
	for _, e := range m.entries {
		if e.GetHeight() > h {
			keep = append(keep, e)
		}
	}
	m.entries = keep
	m.mu.Unlock()
	return nil
}

func (m *memWAL) LoadAllEntries() iter.Seq2[wal.Entry[Val, Hsh, Adr], error] {
	m.mu.Lock()
	es := append([]wal.Entry[Val, Hsh, Adr](nil), m.entries...)
	m.mu.Unlock()
	sort.SliceStable(es, func(i, j int) bool { return es[i].GetHeight() < es[j].GetHeight() })
	return func(yield func(wal.Entry[Val, Hsh, Adr], error) bool) {
		for _, e := range es {
			if !yield(e, nil) {
				return
			}
		}
	}
}

type okCommits struct {
	ch  chan jsync.CommittedBlock
	log *opLog
}

func (c okCommits) OnCommit(_ context.Context, h types.Height, v Val) bool {
	if c.log != nil {
		c.log.add(fmt.Sprintf("commit:%d:%d", uint64(h), uint64(v)))
	}
	return true
}
func (c okCommits) Listen() <-chan jsync.CommittedBlock { return c.ch }

type chanListener[M any] struct{ ch chan M }

func (l chanListener[M]) Listen() <-chan M { return l.ch }

type fnBroadcaster[M any] struct{ f func(M) }

func (b fnBroadcaster[M]) Broadcast(_ context.Context, m M) { b.f(m) }

// runDriverTrace runs the real driver twice on one WAL (second run = restart with replay).
// traceWindowNs: how long one phase of a driver trace runs (real time). On an overloaded machine the
// default window sees too few commits; main re-runs traces with a longer window before it gives up
// (the verdict of a trace never depends on time, only the amount of evidence does).
var traceWindowNs atomic.Int64

func traceWindow() time.Duration {
	if n := traceWindowNs.Load(); n > 0 {
		return time.Duration(n)
	}
	return 1200 * time.Millisecond
}

func runDriverTrace(res *lib.Result, r *lib.RNG, idx int) (totalCommits, totalTimeouts int, checks []execCheck, replays []replayCheck) {
	cfg := &Cfg{Powers: []uint64{1, 1, 1, 1}, Total: 4, VMod: 4, VRem: 3, PMul: 1, Tbl: []int{0, 1, 2, 3}}
	me := r.Intn(4)
	store := &memWAL{}
	height := uint64(0)
	dropP := lib.Pick(r, []int{0, 10, 30})
	var seedMu sync.Mutex
	chance := func(pct int) bool { seedMu.Lock(); defer seedMu.Unlock(); return r.Intn(100) < pct }
	allBad := []string{}
	for phase := 0; phase < 2; phase++ {
		olog := &opLog{}
		store.log = olog
		store.keepDeleted = phase == 0 && idx%2 == 1
		spec := NodeSpec{Node: me, Height: height, VBase: uint64(400 * (me + 1)), VStep: 4}
		rc := replayCheck{NewLine: newLine(0, cfg, spec), Name: fmt.Sprintf("trace %d phase %d", idx, phase)}
		for e := range store.LoadAllEntries() {
			rc.Loaded = append(rc.Loaded, canonAction(&actions.WriteWAL[Val, Hsh, Adr]{Entry: e}).Str)
		}
		rec := &recSM{sm: newSM(cfg, NodeSpec{Node: me, Height: height, VBase: uint64(400 * (me + 1)), VStep: 4}), hits: map[string]int{}, log: olog}
		props := make(chan *types.Proposal[Val, Hsh, Adr])
		pvs := make(chan *types.Prevote[Hsh, Adr])
		pcs := make(chan *types.Precommit[Hsh, Adr])
		ctx, cancel := context.WithTimeout(context.Background(), traceWindow())
		send := func(f func()) {
			go func() {
				if chance(dropP) {
					return
				}
				seedMu.Lock()
				d := lib.Pick(r, []int{0, 0, 1, 2, 4})
				seedMu.Unlock()
				time.Sleep(time.Duration(d) * time.Millisecond)
				f()
			}()
		}
		others := []int{}
		for i := 0; i < 4; i++ {
			if i != me {
				others = append(others, i)
			}
		}
		// the reactive environment: the other three validators follow whatever this node does
		rec.onActs = func(acts []Act) {
			for _, a := range acts {
				a := a
				switch a.Kind {
				case "T":
					if a.Step == 0 { // this node waits for a proposal: the round's proposer sends one
						p := cfg.proposerIdx(a.H, a.R)
						v := Val(8 + 4*uint64(a.R%2))
						send(func() {
							select {
							case props <- &types.Proposal[Val, Hsh, Adr]{MessageHeader: types.MessageHeader[Adr]{Height: types.Height(a.H), Round: types.Round(a.R), Sender: addr(p)}, ValidRound: -1, Value: &v}:
							case <-ctx.Done():
							}
						})
					}
				case "BV", "BC":
					for _, o := range others {
						o := o
						var id *Hsh
						if !a.Nil {
							h := Val(a.Value).Hash()
							id = &h
						}
						hdr := types.MessageHeader[Adr]{Height: types.Height(a.H), Round: types.Round(a.R), Sender: addr(o)}
						if a.Kind == "BV" {
							send(func() {
								select {
								case pvs <- &types.Prevote[Hsh, Adr]{MessageHeader: hdr, ID: id}:
								case <-ctx.Done():
								}
							})
						} else {
							send(func() {
								select {
								case pcs <- &types.Precommit[Hsh, Adr]{MessageHeader: hdr, ID: id}:
								case <-ctx.Done():
								}
							})
						}
					}
				}
			}
		}
		d := driver.New[Val, Hsh, Adr](log.NewNopZapLogger(), store, rec, okCommits{make(chan jsync.CommittedBlock), olog},
			p2p.Broadcasters[Val, Hsh, Adr]{
				ProposalBroadcaster: fnBroadcaster[*types.Proposal[Val, Hsh, Adr]]{func(p *types.Proposal[Val, Hsh, Adr]) {
					olog.add("out:" + canonAction((*actions.BroadcastProposal[Val, Hsh, Adr])(p)).Str)
				}},
				PrevoteBroadcaster: fnBroadcaster[*types.Prevote[Hsh, Adr]]{func(p *types.Prevote[Hsh, Adr]) {
					olog.add("out:" + canonAction((*actions.BroadcastPrevote[Hsh, Adr])(p)).Str)
				}},
				PrecommitBroadcaster: fnBroadcaster[*types.Precommit[Hsh, Adr]]{func(p *types.Precommit[Hsh, Adr]) {
					olog.add("out:" + canonAction((*actions.BroadcastPrecommit[Hsh, Adr])(p)).Str)
				}},
			},
			p2p.Listeners[Val, Hsh, Adr]{ProposalListener: chanListener[*types.Proposal[Val, Hsh, Adr]]{props},
				PrevoteListener: chanListener[*types.Prevote[Hsh, Adr]]{pvs}, PrecommitListener: chanListener[*types.Precommit[Hsh, Adr]]{pcs}},
			nil, nil,
			func(step types.Step, round types.Round) time.Duration {
				return time.Duration(1+int(step)) * time.Millisecond
			})
		done := make(chan error, 1)
		go func() {
			err, panicked, stack := lib.Try(func() error { return d.Run(ctx) })
			if panicked {
				err = fmt.Errorf("%v\n%s", err, stack)
			}
			done <- err
		}()
		var runErr error
		select {
		case runErr = <-done:
		case <-time.After(30 * time.Second):
			runErr = fmt.Errorf("driver.Run did not return 30 s after its context was cancelled")
		}
		cancel()
		rec.mu.Lock()
		for k, v := range rec.hits {
			res.HitN(fmt.Sprintf("driver/phase%d/%s", phase, k), v)
		}
		commits := 0
		for _, c := range rec.calls {
			if c.Commit {
				commits++
			}
		}
		res.HitN(fmt.Sprintf("driver/phase%d/commits", phase), commits)
		totalCommits += commits
		totalTimeouts += rec.hits["ProcessTimeout"]
		allBad = append(allBad, rec.bad...)
		ncalls := len(rec.calls)
		if runErr == nil {
			// driver.replay comes first: the ProcessWAL calls in front of the first other call
			for i := 0; i < ncalls && strings.HasPrefix(rec.calls[i].Kind, "ProcessWAL"); i++ {
				rc.Fed = append(rc.Fed, rec.calls[i].Detail)
				rc.Ops = append(rc.Ops, rec.calls[i].Ops...)
				rc.Height = rec.calls[i].HeightAfter
			}
			if len(rc.Fed) == 0 {
				rc.Height = height
			}
			if ncalls > len(rc.Fed) { // replay was completed (a call of listen followed)
				replays = append(replays, rc)
			}
			// the last call's segment may be cut short by the end of the run: not compared
			for i := 0; i+1 < ncalls; i++ {
				c := rec.calls[i]
				checks = append(checks, execCheck{Replaying: strings.HasPrefix(c.Kind, "ProcessWAL"), Acts: c.Acts, Ops: c.Ops,
					Call: fmt.Sprintf("trace %d phase %d call #%d %s %s", idx, phase, i, c.Kind, c.Detail)})
			}
		}
		sample := rec.calls[:min(ncalls, 14)]
		rec.mu.Unlock()
		res.Case(fmt.Sprintf("driver-trace-%d-%d", idx, phase), ncalls > 1)
		if runErr != nil {
			// a panic of driver.Run, an error, or a Run that does not return after its context ended
			res.Fatalf("driver trace %d phase %d: driver.Run failed: %v", idx, phase, runErr)
		}
		if idx == 0 {
			res.Sample(10, map[string]any{"mode": "driver-trace", "phase": phase, "validator": me, "calls": ncalls, "first_calls": sample})
		}
		height = uint64(rec.sm.Height())
	}
	if len(allBad) > 0 {
		res.Violate(lib.Violation{Sig: "driver-breaks-call-discipline",
			What:   "consensus/driver called the state machine outside the discipline its loop is proved to keep: " + allBad[0],
			Replay: map[string]any{"mode": "driver-trace", "seed_index": idx, "problems": allBad[:min(len(allBad), 10)]}})
	}
	return totalCommits, totalTimeouts, checks, replays
}

// compareExec compares what the real driver did with every returned action list (its calls on the WAL
// store, the broadcasters and the commit listener, in order) with the Lean model of driver.execute
// (`execute` in ModelDriver.lean). Timers and TriggerSync are not observable here and are dropped from
// the model's answer; OnCommit receives (height, value) only.
func compareExec(res *lib.Result, drv *lib.Driver, checks []execCheck) {
	lines := make([]string, len(checks))
	for i, c := range checks {
		b := "0"
		if c.Replaying {
			b = "1"
		}
		lines[i] = "exec " + b
		if c.Acts != "-" {
			lines[i] += " " + c.Acts
		}
	}
	outs, err := askAll(res, harnessFlags, drv, lines)
	if err != nil || len(outs) != len(lines) {
		res.Fatalf("Lean driver failed on the execute comparison: %v (%d answers for %d requests)", err, len(outs), len(lines))
		return
	}
	res.Compared(len(checks))
	bad := 0
	// the rule itself, on what the REAL driver did: nothing leaves the node (broadcast, commit delivery)
	// while a WAL entry handed to the store since the last Flush is still unflushed
	for _, c := range checks {
		dirty := ""
		for _, op := range c.Ops {
			switch {
			case op == "flush":
				dirty = ""
			case strings.HasPrefix(op, "set:"):
				dirty = op[4:]
			case (strings.HasPrefix(op, "out:") || strings.HasPrefix(op, "commit:")) && dirty != "":
				res.Violate(lib.Violation{Sig: "driver-lets-a-message-out-before-its-cause-is-flushed",
					What: fmt.Sprintf("consensus/driver executed %q (%s): %s happened while WAL entry %s was not flushed — after a crash the replayed state machine does not "+
						"know the input that made it act and may vote differently", c.Acts, c.Call, op, dirty),
					Replay: map[string]any{"mode": "driver-trace", "call": c.Call, "actions": c.Acts, "driver_ops": c.Ops}})
				dirty = ""
			}
		}
	}
	for i, c := range checks {
		model, flag := outs[i], ""
		if k := strings.Index(model, " # "); k >= 0 {
			model, flag = model[:k], model[k+3:]
		}
		var want []string
		for _, op := range strings.Fields(model) {
			switch {
			case op == "-" || strings.HasPrefix(op, "sched:") || strings.HasPrefix(op, "sync:"):
			case strings.HasPrefix(op, "commit:C:"):
				f := strings.Split(op, ":") // commit:C:h:r:s:vr:v
				if len(f) == 7 {
					want = append(want, "commit:"+f[2]+":"+f[6])
				} else {
					want = append(want, op)
				}
			default:
				want = append(want, op)
			}
		}
		hasCommit := strings.Contains(" "+c.Acts, " C:")
		if strings.Join(want, " ") != strings.Join(c.Ops, " ") || (flag == "1") != hasCommit {
			bad++
			if bad <= 3 {
				res.Mismatch(lib.Mismatch{Sig: "driver-execute-differs-from-model", Input: map[string]any{"call": c.Call, "actions": c.Acts, "replaying": c.Replaying},
					Model: strings.Join(want, " ") + " # " + flag, Impl: strings.Join(c.Ops, " ")})
			}
			continue
		}
		for _, op := range c.Ops {
			switch {
			case op == "flush":
				res.Hit("driver/execute:flush")
			case strings.HasPrefix(op, "set:"):
				res.Hit("driver/execute:set-wal-entry")
			case strings.HasPrefix(op, "out:"):
				res.Hit("driver/execute:broadcast")
			case strings.HasPrefix(op, "commit:"):
				res.Hit("driver/execute:on-commit")
			}
		}
		if c.Replaying {
			res.Hit("driver/execute:list-executed-while-replaying")
		}
	}
}

// compareReplay compares driver.replay of the real driver (which loaded entries it feeds to ProcessWAL —
// those not below the machine's CURRENT height —, what it does with the results, where the machine
// ends) with `replay` of ModelDriver.lean run on the same loaded entries.
func compareReplay(res *lib.Result, drv *lib.Driver, rcs []replayCheck) {
	var lines []string
	for _, rc := range rcs {
		l := "replay 0"
		if len(rc.Loaded) > 0 {
			l += " " + strings.Join(rc.Loaded, " ")
		}
		lines = append(lines, rc.NewLine, l)
	}
	outs, err := askAll(res, harnessFlags, drv, lines)
	if err != nil || len(outs) != len(lines) {
		res.Fatalf("Lean driver failed on the replay comparison: %v (%d answers for %d requests)", err, len(outs), len(lines))
		return
	}
	res.Compared(len(rcs))
	for i, rc := range rcs {
		parts := strings.Split(outs[2*i+1], " # ")
		impl := strings.Join(rc.Fed, " ")
		if impl == "" {
			impl = "-"
		}
		var ops []string
		if len(parts) == 3 {
			for _, op := range strings.Fields(parts[1]) {
				switch {
				case op == "-" || strings.HasPrefix(op, "sched:") || strings.HasPrefix(op, "sync:"):
				case strings.HasPrefix(op, "commit:C:"):
					if f := strings.Split(op, ":"); len(f) == 7 {
						op = "commit:" + f[2] + ":" + f[6]
					}
					ops = append(ops, op)
				default:
					ops = append(ops, op)
				}
			}
		}
		if outs[2*i] != "ok" || len(parts) != 3 || parts[0] != impl || parts[2] != fmt.Sprint(rc.Height) || strings.Join(ops, " ") != strings.Join(rc.Ops, " ") {
			res.Mismatch(lib.Mismatch{Sig: "driver-replay-differs-from-model", Input: map[string]any{"restart": rc.Name, "loaded": rc.Loaded},
				Model: outs[2*i+1], Impl: impl + " # " + strings.Join(rc.Ops, " ") + " # " + fmt.Sprint(rc.Height)})
			continue
		}
		res.HitN("driver/replay:entries-loaded", len(rc.Loaded))
		res.HitN("driver/replay:entries-fed-to-ProcessWAL", len(rc.Fed))
		res.HitN("driver/replay:entries-skipped(below the machine's height)", len(rc.Loaded)-len(rc.Fed))
		res.Hit("driver/replay:compared-with-model")
	}
}
