//go:build verif

package main

import (
	"context"
	"fmt"
	"iter"
	"sort"
	"sync"
	"time"

	"github.com/NethermindEth/juno/consensus/driver"
	"github.com/NethermindEth/juno/consensus/p2p"
	"github.com/NethermindEth/juno/consensus/types"
	"github.com/NethermindEth/juno/consensus/types/actions"
	"github.com/NethermindEth/juno/consensus/types/wal"
	jsync "github.com/NethermindEth/juno/sync"
	"github.com/NethermindEth/juno/utils/log"
	"verif/harness/lib"
)

// Trace validation of the REAL consensus/driver.Driver against the call discipline that the Lean
// model of its loop (`ModelNetwork.lean`, `driver_loop_keeps_discipline`) guarantees and that
// `no_double_vote` assumes: the state machine is only given a timeout (ProcessTimeout, or a
// wal.Timeout through ProcessWAL) while its height is started, ProcessStart is called with round 0,
// and it is called exactly when the height is not started (first call, and after every returned
// Commit). The real driver runs with the real state machine behind a recording wrapper, an
// in-memory WAL, real timers (1-3 ms) and a reactive environment playing the other validators.
// Scheduling is real time, hence not reproducible — but the verdict does not depend on it: the
// discipline must hold on EVERY trace.

type call struct {
	Kind    string `json:"kind"`
	Detail  string `json:"detail"`
	Started bool   `json:"started_before"`
	Commit  bool   `json:"returned_commit"`
}

// recSM wraps the real state machine and records the calls the driver makes.
type recSM struct {
	mu      sync.Mutex
	sm      SM
	started bool
	calls   []call
	bad     []string
	onActs  func([]Act)
	hits    map[string]int
}

func (r *recSM) record(kind, detail string, needStarted bool, f func() []actions.Action[Val, Hsh, Adr]) []actions.Action[Val, Hsh, Adr] {
	r.mu.Lock()
	before := r.started
	if needStarted && !before {
		r.bad = append(r.bad, fmt.Sprintf("%s %s delivered to a height that is not started (call #%d)", kind, detail, len(r.calls)))
	}
	r.mu.Unlock()
	as := f()
	// the driver does not implement block sync here: drop TriggerSync (it would need a BlockFetcher)
	out := as[:0:0]
	commit := false
	for _, a := range as {
		if _, ok := a.(*actions.TriggerSync); ok {
			continue
		}
		if _, ok := a.(*actions.Commit[Val, Hsh, Adr]); ok {
			commit = true
		}
		out = append(out, a)
	}
	acts, _ := canonActions(out)
	r.mu.Lock()
	if kind == "ProcessStart" || kind == "ProcessWAL(start)" {
		r.started = true
	}
	if commit {
		r.started = false
	}
	r.calls = append(r.calls, call{Kind: kind, Detail: detail, Started: before, Commit: commit})
	r.hits[kind]++
	if kind == "ProcessTimeout" && len(as) == 0 {
		r.hits["ProcessTimeout(stale or wrong step)"]++
	}
	r.mu.Unlock()
	if r.onActs != nil {
		r.onActs(acts)
	}
	return out
}

func (r *recSM) Height() types.Height { return r.sm.Height() }

func (r *recSM) ProcessStart(round types.Round) []actions.Action[Val, Hsh, Adr] {
	r.mu.Lock()
	if round != 0 {
		r.bad = append(r.bad, fmt.Sprintf("ProcessStart(%d): round is not 0", round))
	}
	if r.started {
		r.hits["ProcessStart on a started height (no-op, after replay)"]++
	}
	r.mu.Unlock()
	return r.record("ProcessStart", fmt.Sprint(round), false, func() []actions.Action[Val, Hsh, Adr] { return r.sm.ProcessStart(round) })
}

func (r *recSM) ProcessTimeout(tm types.Timeout) []actions.Action[Val, Hsh, Adr] {
	return r.record("ProcessTimeout", fmt.Sprintf("%d:%d:%d", tm.Step, tm.Height, tm.Round), true,
		func() []actions.Action[Val, Hsh, Adr] { return r.sm.ProcessTimeout(tm) })
}

func (r *recSM) ProcessProposal(p *types.Proposal[Val, Hsh, Adr]) []actions.Action[Val, Hsh, Adr] {
	return r.record("ProcessProposal", propS(p), true, func() []actions.Action[Val, Hsh, Adr] { return r.sm.ProcessProposal(p) })
}

func (r *recSM) ProcessPrevote(p *types.Prevote[Hsh, Adr]) []actions.Action[Val, Hsh, Adr] {
	return r.record("ProcessPrevote", voteS((*types.Vote[Hsh, Adr])(p)), true, func() []actions.Action[Val, Hsh, Adr] { return r.sm.ProcessPrevote(p) })
}

func (r *recSM) ProcessPrecommit(p *types.Precommit[Hsh, Adr]) []actions.Action[Val, Hsh, Adr] {
	return r.record("ProcessPrecommit", voteS((*types.Vote[Hsh, Adr])(p)), true, func() []actions.Action[Val, Hsh, Adr] { return r.sm.ProcessPrecommit(p) })
}

func (r *recSM) ProcessSync(p *types.Proposal[Val, Hsh, Adr], pcs []types.Precommit[Hsh, Adr]) []actions.Action[Val, Hsh, Adr] {
	return r.record("ProcessSync", propS(p), true, func() []actions.Action[Val, Hsh, Adr] { return r.sm.ProcessSync(p, pcs) })
}

func (r *recSM) ProcessWAL(e wal.Entry[Val, Hsh, Adr]) []actions.Action[Val, Hsh, Adr] {
	kind, need := "ProcessWAL(message)", false
	switch e.(type) {
	case *wal.Start:
		kind = "ProcessWAL(start)"
	case *wal.Timeout:
		kind, need = "ProcessWAL(timeout)", true
	}
	return r.record(kind, fmt.Sprint(e.GetHeight()), need, func() []actions.Action[Val, Hsh, Adr] { return r.sm.ProcessWAL(e) })
}

// memWAL is an in-memory walstore.TendermintWALStore (entries survive a driver restart).
type memWAL struct {
	mu      sync.Mutex
	entries []wal.Entry[Val, Hsh, Adr]
}

func (m *memWAL) Flush() error { return nil }
func (m *memWAL) Close() error { return nil }
func (m *memWAL) SetWALEntry(e wal.Entry[Val, Hsh, Adr]) error {
	m.mu.Lock()
	// copy what may alias the caller's data
	switch x := e.(type) {
	case *wal.Start:
		c := *x
		e = &c
	case *wal.Timeout:
		c := *x
		e = &c
	}
	m.entries = append(m.entries, e)
	m.mu.Unlock()
	return nil
}

func (m *memWAL) DeleteWALEntries(h types.Height) error {
	m.mu.Lock()
	keep := m.entries[:0:0]
	for _, e := range m.entries {
		if e.GetHeight() > h {
			keep = append(keep, e)
		}
	}
	m.entries = keep
	m.mu.Unlock()
	return nil
}

func (m *memWAL) LoadAllEntries() iter.Seq2[wal.Entry[Val, Hsh, Adr], error] {
	m.mu.Lock()
	es := append([]wal.Entry[Val, Hsh, Adr](nil), m.entries...)
	m.mu.Unlock()
	sort.SliceStable(es, func(i, j int) bool { return es[i].GetHeight() < es[j].GetHeight() })
	return func(yield func(wal.Entry[Val, Hsh, Adr], error) bool) {
		for _, e := range es {
			if !yield(e, nil) {
				return
			}
		}
	}
}

type okCommits struct{ ch chan jsync.CommittedBlock }

func (okCommits) OnCommit(context.Context, types.Height, Val) bool { return true }
func (c okCommits) Listen() <-chan jsync.CommittedBlock            { return c.ch }

type chanListener[M any] struct{ ch chan M }

func (l chanListener[M]) Listen() <-chan M { return l.ch }

type fnBroadcaster[M any] struct{ f func(M) }

func (b fnBroadcaster[M]) Broadcast(_ context.Context, m M) { b.f(m) }

// runDriverTrace runs the real driver twice on one WAL (second run = restart with replay).
func runDriverTrace(res *lib.Result, r *lib.RNG, idx int) (totalCommits, totalTimeouts int) {
	cfg := &Cfg{Powers: []uint64{1, 1, 1, 1}, Total: 4, VMod: 4, VRem: 3, PMul: 1, Tbl: []int{0, 1, 2, 3}}
	me := r.Intn(4)
	store := &memWAL{}
	height := uint64(0)
	dropP := lib.Pick(r, []int{0, 10, 30})
	var seedMu sync.Mutex
	chance := func(pct int) bool { seedMu.Lock(); defer seedMu.Unlock(); return r.Intn(100) < pct }
	allBad := []string{}
	for phase := 0; phase < 2; phase++ {
		rec := &recSM{sm: newSM(cfg, NodeSpec{Node: me, Height: height, VBase: uint64(400 * (me + 1)), VStep: 4}), hits: map[string]int{}}
		props := make(chan *types.Proposal[Val, Hsh, Adr])
		pvs := make(chan *types.Prevote[Hsh, Adr])
		pcs := make(chan *types.Precommit[Hsh, Adr])
		ctx, cancel := context.WithTimeout(context.Background(), 1200*time.Millisecond)
		send := func(f func()) {
			go func() {
				if chance(dropP) {
					return
				}
				seedMu.Lock()
				d := lib.Pick(r, []int{0, 0, 1, 2, 4})
				seedMu.Unlock()
				time.Sleep(time.Duration(d) * time.Millisecond)
				f()
			}()
		}
		others := []int{}
		for i := 0; i < 4; i++ {
			if i != me {
				others = append(others, i)
			}
		}
		// the reactive environment: the other three validators follow whatever this node does
		rec.onActs = func(acts []Act) {
			for _, a := range acts {
				a := a
				switch a.Kind {
				case "T":
					if a.Step == 0 { // this node waits for a proposal: the round's proposer sends one
						p := cfg.proposerIdx(a.H, a.R)
						v := Val(8 + 4*uint64(a.R%2))
						send(func() {
							select {
							case props <- &types.Proposal[Val, Hsh, Adr]{MessageHeader: types.MessageHeader[Adr]{Height: types.Height(a.H), Round: types.Round(a.R), Sender: addr(p)}, ValidRound: -1, Value: &v}:
							case <-ctx.Done():
							}
						})
					}
				case "BV", "BC":
					for _, o := range others {
						o := o
						var id *Hsh
						if !a.Nil {
							h := Val(a.Value).Hash()
							id = &h
						}
						hdr := types.MessageHeader[Adr]{Height: types.Height(a.H), Round: types.Round(a.R), Sender: addr(o)}
						if a.Kind == "BV" {
							send(func() {
								select {
								case pvs <- &types.Prevote[Hsh, Adr]{MessageHeader: hdr, ID: id}:
								case <-ctx.Done():
								}
							})
						} else {
							send(func() {
								select {
								case pcs <- &types.Precommit[Hsh, Adr]{MessageHeader: hdr, ID: id}:
								case <-ctx.Done():
								}
							})
						}
					}
				}
			}
		}
		d := driver.New[Val, Hsh, Adr](log.NewNopZapLogger(), store, rec, okCommits{make(chan jsync.CommittedBlock)},
			p2p.Broadcasters[Val, Hsh, Adr]{
				ProposalBroadcaster:  fnBroadcaster[*types.Proposal[Val, Hsh, Adr]]{func(*types.Proposal[Val, Hsh, Adr]) {}},
				PrevoteBroadcaster:   fnBroadcaster[*types.Prevote[Hsh, Adr]]{func(*types.Prevote[Hsh, Adr]) {}},
				PrecommitBroadcaster: fnBroadcaster[*types.Precommit[Hsh, Adr]]{func(*types.Precommit[Hsh, Adr]) {}},
			},
			p2p.Listeners[Val, Hsh, Adr]{ProposalListener: chanListener[*types.Proposal[Val, Hsh, Adr]]{props},
				PrevoteListener: chanListener[*types.Prevote[Hsh, Adr]]{pvs}, PrecommitListener: chanListener[*types.Precommit[Hsh, Adr]]{pcs}},
			nil, nil,
			func(step types.Step, round types.Round) time.Duration {
				return time.Duration(1+int(step)) * time.Millisecond
			})
		done := make(chan error, 1)
		go func() {
			err, panicked, stack := lib.Try(func() error { return d.Run(ctx) })
			if panicked {
				err = fmt.Errorf("%v\n%s", err, stack)
			}
			done <- err
		}()
		var runErr error
		select {
		case runErr = <-done:
		case <-time.After(6 * time.Second):
			runErr = fmt.Errorf("driver.Run did not return 5s after its context was cancelled")
		}
		cancel()
		rec.mu.Lock()
		for k, v := range rec.hits {
			res.HitN(fmt.Sprintf("driver/phase%d/%s", phase, k), v)
		}
		commits := 0
		for _, c := range rec.calls {
			if c.Commit {
				commits++
			}
		}
		res.HitN(fmt.Sprintf("driver/phase%d/commits", phase), commits)
		totalCommits += commits
		totalTimeouts += rec.hits["ProcessTimeout"]
		allBad = append(allBad, rec.bad...)
		ncalls := len(rec.calls)
		sample := rec.calls[:min(ncalls, 14)]
		rec.mu.Unlock()
		res.Case(fmt.Sprintf("driver-trace-%d-%d", idx, phase), ncalls > 1)
		if runErr != nil {
			// a panic of driver.Run, an error, or a Run that does not return after its context ended
			res.Fatalf("driver trace %d phase %d: driver.Run failed: %v", idx, phase, runErr)
		}
		if idx == 0 {
			res.Sample(10, map[string]any{"mode": "driver-trace", "phase": phase, "validator": me, "calls": ncalls, "first_calls": sample})
		}
		height = uint64(rec.sm.Height())
	}
	if len(allBad) > 0 {
		res.Violate(lib.Violation{Sig: "driver-breaks-call-discipline",
			What:   "consensus/driver called the state machine outside the discipline its loop is proved to keep: " + allBad[0],
			Replay: map[string]any{"mode": "driver-trace", "seed_index": idx, "problems": allBad[:min(len(allBad), 10)]}})
	}
	return totalCommits, totalTimeouts
}
