//go:build verif

package main

import (
	"fmt"

	"verif/harness/lib"
)

// Directed, phase-structured adversary for n = 4 equal validators with f = 1 (the configuration
// named in the property's quantifier), run on REAL state machines with the property oracle on.
//
// Round 0 of height 0 is split into the phases proposal / prevote / precommit. In every phase the
// adversary chooses INDEPENDENTLY for each of the three correct validators
//   - proposal: which value the Byzantine proposer shows it (A, B or nothing)        3^3 = 27
//     (variant "correct proposer": whether it receives the correct proposer's proposal   2^2 = 4)
//   - prevote:  whether it receives the other correct validators' prevotes (all / none)
//               and which prevote the Byzantine validator sends it (A, B, nil)        6^3 = 216
//   - precommit: the same with precommits                                            6^3 = 216
// and every scheduled timeout of the phase fires at its end. ALL combinations are enumerated
// (27*216*216 = 1 259 712, resp. 4*216*216 = 186 624): equivocating proposer, split polkas,
// withheld votes, locks taken by some validators only, nil polkas, mixed precommits. After round 0
// the run is continued deterministically (everything broadcast is delivered to everybody, every
// scheduled timeout fires, repeated until quiescence) so that locks taken in round 0 meet the
// proposals of rounds 1, 2, … and the validators decide. Quick tier: every 211th point of both
// spaces (6 856 histories); thorough: the whole correct-proposer space and every 5th point of the
// Byzantine-proposer space (438 566 histories); C12_ADV_FULL=1: everything.
//
// Negative control: the same machinery with TWO Byzantine validators (power 2 > f = 1) must end
// in `agreement-two-correct-validators-commit-different-values` on the unchanged code; if it does
// not, the oracle/scheduler cannot produce a disagreement and the harness reports a Fatal.

const (
	advA = 8
	advB = 12
)

type phased struct {
	w         *World
	sc        *Scenario
	out       []In  // everything correct validators broadcast, as deliverable inputs
	from      []int // machine that broadcast out[i]
	delivered []map[string]bool
	timeouts  [][]In
	fired     []map[toKey]bool
}

func newPhased(sc *Scenario) *phased {
	p := &phased{w: NewWorld(sc), sc: sc}
	for range sc.Nodes {
		p.delivered = append(p.delivered, map[string]bool{})
		p.timeouts = append(p.timeouts, nil)
		p.fired = append(p.fired, map[toKey]bool{})
	}
	return p
}

func (p *phased) do(m int, in In) {
	if len(p.w.Viols) > 0 || len(p.sc.Events) > 4000 {
		return
	}
	acts := p.w.Do(m, in)
	p.sc.Events = append(p.sc.Events, Event{M: m, In: in})
	commit := false
	for _, a := range acts {
		switch a.Kind {
		case "BP":
			p.out = append(p.out, In{Kind: "prop", H: a.H, R: a.R, Sender: a.Sender, VR: a.VR, Value: a.Value})
			p.from = append(p.from, m)
		case "BV":
			p.out = append(p.out, In{Kind: "pv", H: a.H, R: a.R, Sender: a.Sender, Value: a.Value, Nil: a.Nil})
			p.from = append(p.from, m)
		case "BC":
			p.out = append(p.out, In{Kind: "pc", H: a.H, R: a.R, Sender: a.Sender, Value: a.Value, Nil: a.Nil})
			p.from = append(p.from, m)
		case "T":
			p.timeouts[m] = append(p.timeouts[m], In{Kind: "to", Step: a.Step, H: a.H, R: a.R})
		case "C":
			commit = true
		}
	}
	if commit && p.w.views[m].height <= 2 {
		p.do(m, In{Kind: "start", R: 0})
	}
}

func (p *phased) deliver(m int, in In) {
	k := in.Line(0)
	if p.delivered[m][k] {
		return
	}
	p.delivered[m][k] = true
	p.do(m, in)
}

// deliverCorrect hands machine m every broadcast of the OTHER correct validators matching the filter.
func (p *phased) deliverCorrect(m int, match func(In) bool) {
	for i := 0; i < len(p.out); i++ { // p.out may grow while we deliver
		if p.from[i] != m && match(p.out[i]) {
			p.deliver(m, p.out[i])
		}
	}
}

func (p *phased) fire(m int, match func(In) bool) {
	for i := 0; i < len(p.timeouts[m]); i++ {
		t := p.timeouts[m][i]
		k := toKey{t.Step, t.H, t.R}
		if match(t) && !p.fired[m][k] && p.w.views[m].started {
			p.fired[m][k] = true
			p.do(m, t)
		}
	}
}

func byzVote(kind string, b int, choice int) (In, bool) {
	switch choice {
	case 0:
		return In{Kind: kind, H: 0, R: 0, Sender: b, Value: advA}, true
	case 1:
		return In{Kind: kind, H: 0, R: 0, Sender: b, Value: advB}, true
	default:
		return In{Kind: kind, H: 0, R: 0, Sender: b, Nil: true}, true
	}
}

// runPhased executes one point of the adversary's choice space.
// byzProposer: the Byzantine validator is the proposer of (0,0). byz: the Byzantine validators.
func runPhased(code int, byzProposer bool, byz []int) (*Scenario, *World) {
	tbl := []int{0, 1, 2, 3}
	if byzProposer {
		tbl = []int{3, 0, 1, 2}
	}
	sc := &Scenario{Cfg: Cfg{Powers: []uint64{1, 1, 1, 1}, Total: 4, VMod: 4, VRem: 3, PMul: 1, Tbl: tbl}, Byz: byz, Disciplined: true}
	isByz := map[int]bool{}
	for _, b := range byz {
		isByz[b] = true
	}
	for i := 0; i < 4; i++ {
		if !isByz[i] {
			sc.Nodes = append(sc.Nodes, NodeSpec{Node: i, Height: 0, VBase: uint64(400 * (i + 1)), VStep: 4})
		}
	}
	n := len(sc.Nodes)
	p := newPhased(sc)
	digit := func(base int) int { d := code % base; code /= base; return d }
	for m := 0; m < n; m++ {
		p.do(m, In{Kind: "start", R: 0})
	}
	r0 := func(in In) bool { return in.H == 0 && in.R == 0 }
	// ---- proposal phase
	for m := 0; m < n; m++ {
		if byzProposer {
			switch digit(3) {
			case 0:
				p.deliver(m, In{Kind: "prop", H: 0, R: 0, Sender: 3, VR: -1, Value: advA})
			case 1:
				p.deliver(m, In{Kind: "prop", H: 0, R: 0, Sender: 3, VR: -1, Value: advB})
			}
		} else if sc.Nodes[m].Node != 0 && digit(2) == 0 {
			p.deliverCorrect(m, func(in In) bool { return in.Kind == "prop" && r0(in) })
		}
	}
	for m := 0; m < n; m++ {
		p.fire(m, func(t In) bool { return t.Step == 0 && r0(t) })
	}
	// ---- prevote and precommit phases
	for _, kind := range []string{"pv", "pc"} {
		for m := 0; m < n; m++ {
			d := digit(6)
			if d%2 == 0 {
				p.deliverCorrect(m, func(in In) bool { return in.Kind == kind && r0(in) })
			}
			for _, b := range byz {
				if v, ok := byzVote(kind, b, d/2); ok {
					p.deliver(m, v)
				}
			}
		}
		step := 1
		if kind == "pc" {
			step = 2
		}
		for m := 0; m < n; m++ {
			p.fire(m, func(t In) bool { return t.Step == step && r0(t) })
		}
	}
	// ---- deterministic continuation: full delivery, all timeouts, until quiescent
	for it := 0; it < 12 && len(p.w.Viols) == 0; it++ {
		before := len(sc.Events)
		for m := 0; m < n; m++ {
			p.deliverCorrect(m, func(In) bool { return true })
		}
		for m := 0; m < n; m++ {
			p.fire(m, func(In) bool { return true })
		}
		if len(sc.Events) == before {
			break
		}
	}
	return sc, p.w
}

func phasedSpace(byzProposer bool) int {
	if byzProposer {
		return 27 * 216 * 216
	}
	return 4 * 216 * 216
}

// runNegativeControl: two Byzantine validators (2 of 4 > f) drive validators 0 and 1 to different
// decisions. It MUST produce the agreement violation on the unchanged code.
func runNegativeControl(res *lib.Result) {
	// validator 0: proposal A, Byzantine prevotes A, Byzantine precommits A; validator 1: B, B, B;
	// no correct votes exchanged. digits: proposal (base 3) m0, m1; prevote (base 6) m0, m1; precommit m0, m1
	digits := []struct{ base, v int }{{3, 0}, {3, 1}, {6, 1}, {6, 3}, {6, 1}, {6, 3}}
	code, mul := 0, 1
	for _, d := range digits {
		code += d.v * mul
		mul *= d.base
	}
	sc, w := runPhased(code, true, []int{2, 3})
	res.Case("negative-control-f+1-byzantine", true)
	for _, v := range w.Viols {
		if v.Sig == "agreement-two-correct-validators-commit-different-values" {
			res.Hit("negative-control(f+1 Byzantine):disagreement-produced-and-detected")
			return
		}
	}
	res.Fatalf("negative control failed: with two Byzantine validators of four (power f+1) the directed adversary did not produce "+
		"(or the oracle did not detect) a disagreement; %d events, violations %v", len(sc.Events), w.Viols)
}

func phasedLabel(byzProposer bool) string {
	if byzProposer {
		return "byzantine-proposer"
	}
	return "correct-proposer"
}

var _ = fmt.Sprint
