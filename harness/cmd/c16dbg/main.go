//go:build verif

package main

import (
	"fmt"

	"github.com/NethermindEth/juno/core"
	"github.com/NethermindEth/juno/core/felt"
	"verif/harness/lib"
)

func main() {
	for _, ns := range []bool{true, false} {
		g := lib.NewChainGen(lib.NewRNG(508), ns, lib.DefaultGenOptions())
		node, _ := lib.NewNode(g.Net, ns)
		verIdx := 0
		markerAddr := *lib.F(1)
		markerSlot := *lib.F(0x4d41524b)
		for i := 0; i < 16; i++ {
			num := uint64(g.Height())
			vs := g.Opt.Versions
			if g.R.Chance(1, 5) && verIdx+1 < len(vs) {
				verIdx++
			}
			version := vs[verIdx]
			diff, classes := g.GenDiff(g.HeadState(), num, version)
			if diff.StorageDiffs[markerAddr] == nil {
				diff.StorageDiffs[markerAddr] = map[felt.Felt]*felt.Felt{}
			}
			diff.StorageDiffs[markerAddr][markerSlot] = lib.F(100000 + num)
			b, err := g.Next(&lib.BlockSpec{Version: version, Diff: diff, Classes: classes})
			if err != nil {
				panic(err)
			}
			if err := lib.StoreOn(node, b); err != nil {
				panic(err)
			}
		}
		a := *lib.FHex("0x7ffffffffffffffffffffffffffffffffffffffffffffffffffffffffff0001")
		k := *lib.F(2)
		read := func(tag string) {
			r, cl, err := node.HeadState()
			if err != nil {
				fmt.Println(tag, "err", err)
				return
			}
			v, e := r.ContractStorage(&a, &k)
			cl()
			h, _ := node.Height()
			fmt.Printf("new=%v %s: height=%d head slot=%s err=%v\n", ns, tag, h, v.String(), e)
		}
		read("before revert")
		var su *core.StateUpdate
		su, _ = node.StateUpdateByNumber(15)
		fmt.Println("block 15 writes:", su.StateDiff.StorageDiffs[a])
		if err := node.RevertHead(); err != nil {
			fmt.Println("revert err", err)
		}
		read("after revert")
		var abs felt.Felt
		if c, ok := g.States[14].Contracts[a]; ok {
			abs = c.Storage[k]
		}
		fmt.Println("abstract at 14:", abs.String())
	}
}
