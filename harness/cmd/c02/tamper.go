//go:build verif

package main

// Phase 2 — the property oracle on the real node. Valid chains come from lib.ChainGen (juno's own
// Finalise). At chosen positions every single-field tampering of the next block (enumerated by
// reflection, reflectwalk.go), a set of compound / re-hashed tamperings and wrongly positioned
// valid blocks are offered to SanityCheckNewHeight + Store on both state backends.
// Expected: rejected, the database afterwards byte-for-byte what it was, height and head
// unchanged, and the untampered block still accepted. The only tamperings allowed to be accepted
// are those of fields no protocol hash commits; they are listed in `uncommitted` with the reason
// (the same list is the set of named exceptions of the Lean theorems).

import (
	"bytes"
	"crypto/sha256"
	"encoding/binary"
	"fmt"
	"regexp"
	"sort"
	"strconv"
	"strings"
	"time"

	"github.com/NethermindEth/juno/blockchain"
	"github.com/NethermindEth/juno/core"
	"github.com/NethermindEth/juno/core/felt"
	"github.com/NethermindEth/juno/db/memory"
	"verif/harness/lib"
)

// ---- expectations ----------------------------------------------------------------------------

// fields of each transaction kind/version that the transaction hash (and nothing else) does not read
var txUncommitted = map[string][]string{
	"Invoke v0":        {"Nonce", "SenderAddress", "ResourceBounds", "Tip", "PaymasterData", "AccountDeploymentData", "NonceDAMode", "FeeDAMode", "ProofFacts"},
	"Invoke v1":        {"ContractAddress", "EntryPointSelector", "ResourceBounds", "Tip", "PaymasterData", "AccountDeploymentData", "NonceDAMode", "FeeDAMode", "ProofFacts"},
	"Invoke v3":        {"MaxFee", "ContractAddress", "EntryPointSelector"},
	"Declare v1":       {"CompiledClassHash", "ResourceBounds", "Tip", "PaymasterData", "AccountDeploymentData", "NonceDAMode", "FeeDAMode"},
	"Declare v2":       {"ResourceBounds", "Tip", "PaymasterData", "AccountDeploymentData", "NonceDAMode", "FeeDAMode"},
	"Declare v3":       {"MaxFee"},
	"DeployAccount v1": {"ResourceBounds", "Tip", "PaymasterData", "NonceDAMode", "FeeDAMode"},
	"DeployAccount v3": {"MaxFee"},
	"L1Handler v0":     {},
}

var txPathRe = regexp.MustCompile(`^\.Block\.Transactions\[\]<([^>]*)>\.([A-Za-z0-9]+)(.*)$`)
var idxRe = regexp.MustCompile(`^\.Block\.(Transactions|Receipts)\[(\d+)\]`)

func normSig(sig []felt.Felt) string {
	if len(sig) == 0 {
		return "0x0,"
	}
	var sb strings.Builder
	for i := range sig {
		sb.WriteString(sig[i].String())
		sb.WriteByte(',')
	}
	return sb.String()
}

// uncommitted says whether tampering `mut` at site s of bundle orig (result: tampered) changes no
// committed field, and why. Everything it does not list must be rejected.
func uncommitted(s site, mut string, orig, tampered *lib.Bundle) (bool, string) {
	format := formatOf(orig.Block.ProtocolVersion)
	n := s.Norm
	switch {
	case n == ".Block.EventsBloom":
		return true, "EventsBloom is derived data, no hash covers it and juno does not recompute it"
	case strings.HasPrefix(n, ".Block.Signatures"):
		return true, "block signatures are not part of the block hash"
	case strings.HasPrefix(n, ".Block.L2GasPrice") && format == "v0132":
		return true, "the 0.13.2 block hash does not include the L2 gas price"
	case n == ".Block.L1DAMode" && mut == "inc2" && s.Ctx.UintVal == 0:
		return true, "L1DAMode enters the hash only as (mode == Blob): 0 and 2 are both 'not blob'"
	case strings.HasPrefix(n, ".Block.Receipts[].FeeUnit"):
		return true, "FeeUnit is not in the receipt hash"
	case strings.HasPrefix(n, ".Block.Receipts[].L1ToL2Message"):
		return true, "L1ToL2Message is not in the receipt hash"
	case strings.HasPrefix(n, ".Block.Receipts[].ExecutionResources"):
		if n == ".Block.Receipts[].ExecutionResources.TotalGasConsumed.L1Gas" ||
			n == ".Block.Receipts[].ExecutionResources.TotalGasConsumed.L1DataGas" {
			return false, ""
		}
		return true, "only TotalGasConsumed.L1Gas/L1DataGas of the execution resources are in the receipt hash (L2 gas is hashed as 0)"
	case n == ".Block.Receipts[].RevertReason":
		if m := idxRe.FindStringSubmatch(s.Path); m != nil {
			i, _ := strconv.Atoi(m[2])
			if !orig.Block.Receipts[i].Reverted {
				return true, "the revert reason is hashed only when Reverted is set"
			}
		}
		return false, ""
	case n == ".SU.StateDiff.DeclaredV0Classes" && mut == "swap01":
		return true, "DeclaredV0Classes is hashed as a sorted list: its order is not committed"
	case strings.HasPrefix(n, ".Classes[]<Cairo0>"):
		return true, "Cairo 0 class definitions are not verified against their hash (VerifyClassHashes skips them)"
	case n == ".Classes[]<Sierra>.Program" || strings.HasPrefix(n, ".Classes[]<Sierra>.Program[]") || n == ".Classes[]<Sierra>.Abi":
		return true, "SierraClass.Hash() reads the precomputed ProgramHash / AbiHash, not Program / Abi themselves (both adapters compute the two hashes from the definition)"
	case strings.HasPrefix(n, ".Classes[]<Sierra>.Compiled"):
		if malformedDeclaredCompiled(tampered) && orig.Block.ProtocolVersion < "0.14.1" {
			// storeCasmHashMetadataV1 hashes the compiled class of every declared class: a compiled class on which
			// that hash cannot be computed must make Store REJECT the block (as the code is, it panics: known finding)
			return false, ""
		}
		return true, "the compiled (CASM) class is never compared with the compiled class hash the state diff declares"
	case n == ".Classes" && mut == "addextra":
		return true, "class definitions that the state diff does not declare are outside every block commitment"
	}
	if m := txPathRe.FindStringSubmatch(n); m != nil {
		kind, field, rest := m[1], m[2], m[3]
		for _, u := range txUncommitted[kind] {
			if u == field {
				return true, "field " + field + " is not part of the " + kind + " transaction hash"
			}
		}
		if field == "ResourceBounds" && rest == "" && mut == "addcopy" && s.Ctx.Len >= 3 {
			return true, "resource-bound entries under keys other than L1Gas/L2Gas/L1DataGas are not read by the hash"
		}
		if field == "TransactionSignature" && format == "v0132" {
			if mi := idxRe.FindStringSubmatch(s.Path); mi != nil {
				i, _ := strconv.Atoi(mi[2])
				if normSig(orig.Block.Transactions[i].Signature()) == normSig(tampered.Block.Transactions[i].Signature()) {
					return true, "0.13.2 transaction commitment hashes an empty signature as [0]"
				}
			}
		}
		if field == "ProofFacts" && rest == "" && false {
			return true, ""
		}
	}
	return false, ""
}

var (
	reDeclareV0 = regexp.MustCompile(`^field:\.Block\.Transactions\[\]<Declare v[123]>\.Version:zero$`)
	reL1NoNonce = regexp.MustCompile(`^field:\.Block\.Transactions\[\]<L1Handler v0>\.Nonce:setnil$`)
	// only the fields the TRANSACTION HASH of these kinds would commit: the declared hash itself and
	// the signature are bound by the transaction commitment and keep their own sigs
	reDeployAny  = regexp.MustCompile(`^field:\.Block\.Transactions\[\]<Deploy v[01]>\.(ContractAddressSalt|ContractAddress|ClassHash|ConstructorCallData|Version)(\[\])?:`)
	reDeclareV0F = regexp.MustCompile(`^field:\.Block\.Transactions\[\]<Declare v0>\.(ClassHash|SenderAddress|MaxFee|Nonce)(\[\])?:`)
	reLongVer    = regexp.MustCompile(`^field:\.Block\.ProtocolVersion:wrapP(bump)?$`)
	reClassWrap  = regexp.MustCompile(`^field:\.Classes\[\]<Sierra>\.SemanticVersion:wrapPtag(bump)?$`)
)

const panicSig = "block-verification-panics-on-field-missing-for-its-version"
const panicWhat = "SanityCheckNewHeight panics with a nil pointer dereference, instead of returning an error, on a block in which a field that the declared (transaction or protocol) version requires is absent — e.g. a transaction whose version is switched so that MaxFee / CompiledClassHash / resource bounds are missing, or a nil-ed field; neither sync nor p2p sync recovers, so the node process dies"

const classWrapSig = "sierra-class-version-wraps-mod-p"
const classWrapWhat = "core.SierraClass.Hash() commits felt.SetBytes(\"CONTRACT_CLASS_V\" + SemanticVersion), which reduces modulo the field prime, and nothing limits the length of SemanticVersion (sn2core.AdaptSierraClass / p2p2core copy it from the wire): replacing the SemanticVersion \"0.1.0\" of a new class's definition by a 39-byte string \"0.1.0.\"+33 bytes (or \"0.1.1.\"+33 bytes) with the same value mod P behind the tag keeps the class hash, so core.VerifyClassHashes, SanityCheckNewHeight and Store accept the block with the tampered definition and persist it (served by starknet_getClass as contract_class_version and to p2p peers, whose check passes for the same reason)"

const casmPanicSig = "store-panics-on-malformed-compiled-class"
const casmPanicWhat = "Blockchain.Store panics inside its write batch (blockchain/statebackend/casm_metadata.go storeCasmHashMetadataV1 -> core.CasmClass.Hash -> core.SegmentedBytecodeHash) on a block of protocol < 0.14.1 that passes SanityCheckNewHeight and every check of Store, when the compiled (CASM) class of a class it declares is malformed: bytecode shorter than its bytecode_segment_lengths add up to (slice bounds out of range), or no compiled class at all (nil pointer dereference; starknetdata/feeder passes nil for a class whose compiled class has the deprecated format). The compiled class comes from the feeder and is verified against nothing (the declared compiled class hash is never recomputed), so any feeder answer reaches this code; neither sync's verifier task nor p2p sync recovers, so the node process dies"

// malformedDeclaredCompiled: does the bundle declare a Sierra class whose compiled class makes CasmClass.Hash panic?
func malformedDeclaredCompiled(b *lib.Bundle) bool {
	for h := range b.SU.StateDiff.DeclaredV1Classes {
		c, ok := b.Classes[h].(*core.SierraClass)
		if !ok {
			continue
		}
		// on a deep copy, as StoreOn offers it: Go slices up to the CAPACITY, and a tampered slice may keep a larger one
		cc := lib.DeepCopy(c).(*core.SierraClass)
		_, panicked, _ := lib.Try(func() error { _ = cc.Compiled.Hash(core.HashVersionV2); return nil })
		if panicked {
			return true
		}
	}
	return false
}

const oldRootSig = "new-backend-opens-state-at-supplied-old-root"

const declNoDefSig = "declared-class-without-definition-stored-from-0-14-1"
const declNoDefWhat = "a self-consistent block of protocol >= 0.14.1 (block hash recomputed over the tampered state diff) whose state diff declares a Sierra class WITHOUT its definition in newClasses — an unknown class, or a class the chain already knows declared again under another compiled class hash, which is what sync delivers for a known class (fetchUnknownClasses fetches definitions of unknown classes only) — is stored: State.Update skips the class-trie leaf of a declared class whose definition is missing (both backends), so the state root does not change, and storeCasmHashMetadataV2, unlike storeCasmHashMetadataV1, writes the casm metadata without looking at newClasses; the stored state update declares a class the state root does not contain, and the casm metadata of a known class is overwritten with the forged compiled class hash"

// knownRootCause maps accepted tamperings that share one cause in juno to one stable Sig.
func knownRootCause(tc tamperCase, orig *lib.Bundle) (string, string) {
	switch {
	case reDeclareV0.MatchString(tc.Name), reDeclareV0F.MatchString(tc.Name):
		return "declare-version-set-to-0-skips-tx-hash-verification",
			"a Declare transaction whose Version is (changed to) 0 is not hash-verified in a block of any protocol version (declareTransactionHash returns the declared hash for version 0), so the block is stored with a transaction that does not match its hash"
	case reL1NoNonce.MatchString(tc.Name):
		return "l1handler-nonce-removed-skips-tx-hash-verification",
			"an L1-handler transaction whose Nonce is removed (nil) is not hash-verified in a block of any protocol version (l1HandlerTransactionHash returns the declared hash), so the block is stored with a transaction that does not match its hash"
	case reLongVer.MatchString(tc.Name) && len(tc.Bundle.Block.ProtocolVersion) >= 32:
		return "long-protocol-version-wraps-mod-p",
			"the block hash commits felt.SetBytes(ProtocolVersion), which reduces modulo the field prime, while ParseBlockVersion ignores everything after the third part: a 40-byte version string with the same value mod P (same or bumped version prefix) gives the same block hash, passes CheckBlockVersion and is persisted"
	case reClassWrap.MatchString(tc.Name):
		return classWrapSig, classWrapWhat
	case strings.HasPrefix(tc.Name, "add:declared-v1:") && strings.Contains(tc.Name, "without-definition") && tc.Bundle.Block.ProtocolVersion >= "0.14.1":
		return declNoDefSig, declNoDefWhat
	case tc.Name == "field:.SU.OldRoot:zero":
		return oldRootSig, "a block offered with StateUpdate.OldRoot = 0 instead of the head's state root was stored: the new state backend opens the state at the supplied OldRoot (zero = empty tries), so verifyComm compares that root with itself, and the diff happened to rewrite every leaf the empty tries lack"
	case reDeployAny.MatchString(tc.Name), tc.Name == "compound:tx-replaced-by-legacy-deploy":
		return "legacy-deploy-tx-hash-never-verified",
			"the hash of a legacy Deploy transaction is never recomputed, in a block of any protocol version (core.TransactionHash returns the declared hash): its fields can be changed, and any transaction with an empty signature can be replaced by an arbitrary Deploy transaction carrying the same hash, and the block is stored"
	}
	return "", ""
}

// skippedPosition attributes an accepted transaction-field tampering to its cause: if
// core.VerifyTransactions rejects the tampered transaction when it is the only one in the list, the
// field IS bound by the transaction hash and the block was accepted because the verification did not
// look at that position (e.g. the remainder of a chunked loop) — not because of the field.
func skippedPosition(g *lib.ChainGen, tc tamperCase, orig *lib.Bundle) (string, string) {
	if !strings.HasPrefix(tc.Name, "field:.Block.Transactions[]<") {
		return "", ""
	}
	m := idxRe.FindStringSubmatch(strings.TrimPrefix(tc.Detail, ""))
	if m == nil {
		return "", ""
	}
	i, _ := strconv.Atoi(m[2])
	if i >= len(tc.Bundle.Block.Transactions) {
		return "", ""
	}
	tx := tc.Bundle.Block.Transactions[i]
	err, panicked, _ := lib.Try(func() error {
		return core.VerifyTransactions([]core.Transaction{tx}, g.Net, tc.Bundle.Block.ProtocolVersion)
	})
	if err != nil && !panicked {
		return "transaction-not-verified-at-its-position",
			fmt.Sprintf("transaction %d of %d was tampered in a field its hash commits (alone, VerifyTransactions rejects it: %v) and the block was stored: hash verification skipped that position",
				i, len(tc.Bundle.Block.Transactions), err)
	}
	return "", ""
}

// ---- node handling -----------------------------------------------------------------------------

func dbDigest(d *memory.Database) [32]byte {
	h := sha256.New()
	it, err := d.NewIterator(nil, false)
	if err != nil {
		panic(err)
	}
	defer it.Close()
	var lenb [8]byte
	for ok := it.First(); ok; ok = it.Next() {
		k := it.Key()
		v, _ := it.Value()
		binary.BigEndian.PutUint64(lenb[:], uint64(len(k)))
		h.Write(lenb[:])
		h.Write(k)
		binary.BigEndian.PutUint64(lenb[:], uint64(len(v)))
		h.Write(lenb[:])
		h.Write(v)
	}
	var out [32]byte
	copy(out[:], h.Sum(nil))
	return out
}

// dbDiff names the first few keys that differ (for the replay / What text).
func dbDiff(a, b *memory.Database) string {
	dump := func(d *memory.Database) map[string]string {
		m := map[string]string{}
		it, _ := d.NewIterator(nil, false)
		defer it.Close()
		for ok := it.First(); ok; ok = it.Next() {
			v, _ := it.Value()
			m[string(it.Key())] = string(v)
		}
		return m
	}
	ma, mb := dump(a), dump(b)
	var out []string
	for k, v := range mb {
		if va, ok := ma[k]; !ok {
			out = append(out, fmt.Sprintf("+%x", k))
		} else if va != v {
			out = append(out, fmt.Sprintf("~%x", k))
		}
	}
	for k := range ma {
		if _, ok := mb[k]; !ok {
			out = append(out, fmt.Sprintf("-%x", k))
		}
	}
	sort.Strings(out)
	if len(out) > 6 {
		out = append(out[:6], fmt.Sprintf("… (%d keys)", len(out)))
	}
	return strings.Join(out, " ")
}

func errClass(err error) string {
	if err == nil {
		return "accepted"
	}
	s := err.Error()
	switch {
	case strings.HasPrefix(s, "panic:"):
		return "panic"
	case strings.Contains(s, "malformed block"), strings.Contains(s, "malformed compiled class"):
		return "malformed" // (proposed fix: the recovered nil dereference)
	case strings.Contains(s, "block hashes do not match"):
		return "su-blockhash"
	case strings.Contains(s, "does not match state update's NewRoot"):
		return "su-newroot"
	case strings.Contains(s, "cannot verify class hash"), strings.Contains(s, "sierra class version is"):
		return "class-hash"
	case strings.Contains(s, "len of transactions"):
		return "tx-receipt-len"
	case strings.Contains(s, "does not match receipt's hash"):
		return "receipt-txhash"
	case strings.Contains(s, "cannot verify transaction hash"), strings.Contains(s, "cannot calculate transaction hash"):
		return "tx-hash"
	case strings.Contains(s, "can not verify hash in block header"):
		return "block-hash"
	case strings.Contains(s, "unsupported block version"), strings.Contains(s, "cannot parse starknet protocol version"),
		strings.Contains(s, "starknet protocol version is"): // (proposed fix: the length limit)
		return "version"
	case strings.Contains(s, "expected block #"):
		return "number"
	case strings.Contains(s, "parent hash does not match"):
		return "parent"
	case strings.HasPrefix(s, "store:"):
		return "state"
	}
	return "other"
}

type node struct {
	bc     *blockchain.Blockchain
	db     *memory.Database
	newSt  bool
	height int // number of stored blocks
}

func openNode(g *lib.ChainGen, newState bool, d *memory.Database) *node {
	return &node{bc: lib.NodeOn(d, g.Net, newState), db: d, newSt: newState}
}

type offerResult struct {
	err      error
	panicked bool
	hung     bool
	stack    string
}

func offer(n *node, b *lib.Bundle) offerResult {
	var r offerResult
	// generous: an offer costs milliseconds, but the machine may be heavily shared; a real hang is
	// still reported (and the check driver's own timeout is the backstop)
	finished := lib.WithDeadline(15*time.Minute, func() {
		r.err, r.panicked, r.stack = lib.Try(func() error { return lib.StoreOn(n.bc, b) })
	})
	if !finished {
		r.hung = true
		r.err = fmt.Errorf("hang: no answer in 15 minutes")
	}
	return r
}

// headOf returns (height, head hash) or (-1, "") for an empty chain.
func headOf(n *node) (int64, string) {
	h, err := n.bc.Height()
	if err != nil {
		return -1, ""
	}
	hd, err := n.bc.HeadsHeader()
	if err != nil || hd == nil || hd.Hash == nil {
		return int64(h), "?"
	}
	return int64(h), hd.Hash.String()
}

// ---- tamper cases ----------------------------------------------------------------------------

type tamperCase struct {
	Name        string // stable name (Sig component)
	Detail      string // concrete path / description
	Bundle      *lib.Bundle
	MustReject  bool
	Why         string // reason when MustReject is false
	ObserveOnly bool   // outcome is recorded but never a violation
}

func rehash(g *lib.ChainGen, b *lib.Bundle) bool {
	h, _, err := core.BlockHash(b.Block, b.SU.StateDiff, g.Net, nil, core.TrieBackend)
	if err != nil {
		return false
	}
	b.Block.Hash = &h
	hh := h
	b.SU.BlockHash = &hh
	return true
}

func setTxHash(tx core.Transaction, h *felt.Felt) {
	switch t := tx.(type) {
	case *core.InvokeTransaction:
		t.TransactionHash = h
	case *core.DeclareTransaction:
		t.TransactionHash = h
	case *core.DeployAccountTransaction:
		t.TransactionHash = h
	case *core.L1HandlerTransaction:
		t.TransactionHash = h
	case *core.DeployTransaction:
		t.TransactionHash = h
	}
}

// compoundCases: tamperings of more than one field at once that keep some cross-check satisfied.
func compoundCases(g *lib.ChainGen, idx int) []tamperCase {
	b := g.Bundles[idx]
	var out []tamperCase
	add := func(name, detail string, c *lib.Bundle) {
		out = append(out, tamperCase{Name: "compound:" + name, Detail: detail, Bundle: c, MustReject: true})
	}
	{
		c := b.Clone()
		feltInc(c.Block.Hash)
		feltInc(c.SU.BlockHash)
		add("hash+su.blockhash", "declared hash changed consistently in header and state update", c)
	}
	{
		c := b.Clone()
		feltInc(c.Block.GlobalStateRoot)
		feltInc(c.SU.NewRoot)
		add("root+su.newroot", "declared root changed consistently in header and state update", c)
	}
	nt := len(b.Block.Transactions)
	for _, i := range positions(nt) {
		c := b.Clone()
		h := *c.Block.Transactions[i].Hash()
		feltInc(&h)
		setTxHash(c.Block.Transactions[i], &h)
		h2 := h
		c.Block.Receipts[i].TransactionHash = &h2
		add("txhash+receipt.txhash", fmt.Sprintf("tx %d (%s) hash changed in transaction and receipt", i, txKindOf(b.Block.Transactions[i])), c)
	}
	// a committed transaction field changed and the transaction hash recomputed (receipt follows):
	// only the transaction commitment / block hash can catch it
	for _, i := range positions(nt) {
		c := b.Clone()
		tx := c.Block.Transactions[i]
		var what string
		switch t := tx.(type) {
		case *core.InvokeTransaction:
			t.CallData = append(t.CallData, *lib.F(9))
			what = "CallData"
		case *core.DeclareTransaction:
			feltInc(t.ClassHash)
			what = "ClassHash"
		case *core.DeployAccountTransaction:
			feltInc(t.ContractAddressSalt)
			what = "ContractAddressSalt"
		case *core.L1HandlerTransaction:
			t.CallData = append(t.CallData, *lib.F(9))
			what = "CallData"
		default:
			continue
		}
		h, err := core.TransactionHash(tx, g.Net)
		if err != nil {
			continue
		}
		setTxHash(tx, &h)
		h2 := h
		c.Block.Receipts[i].TransactionHash = &h2
		add("txfield+recomputed-txhash", fmt.Sprintf("tx %d (%s) %s changed, hash recomputed", i, txKindOf(tx), what), c)
	}
	for i, tx := range b.Block.Transactions {
		if _, isDeploy := tx.(*core.DeployTransaction); isDeploy || len(tx.Signature()) != 0 {
			continue
		}
		c := b.Clone()
		h := *tx.Hash()
		c.Block.Transactions[i] = &core.DeployTransaction{TransactionHash: &h, ContractAddressSalt: lib.F(1), ContractAddress: lib.F(2),
			ClassHash: lib.F(3), ConstructorCallData: []felt.Felt{*lib.F(4)}, Version: new(core.TransactionVersion).SetUint64(0)}
		add("tx-replaced-by-legacy-deploy", fmt.Sprintf("tx %d (%s, empty signature) replaced by a legacy Deploy transaction with the same hash", i, txKindOf(tx)), c)
		break
	}
	if nt >= 2 {
		c := b.Clone()
		c.Block.Transactions[0], c.Block.Transactions[1] = c.Block.Transactions[1], c.Block.Transactions[0]
		c.Block.Receipts[0], c.Block.Receipts[1] = c.Block.Receipts[1], c.Block.Receipts[0]
		add("swap-tx+receipt", "transactions 0 and 1 swapped together with their receipts", c)
	}
	if nt >= 1 {
		c := b.Clone()
		ev := uint64(len(c.Block.Receipts[nt-1].Events))
		c.Block.Transactions = c.Block.Transactions[:nt-1]
		c.Block.Receipts = c.Block.Receipts[:nt-1]
		c.Block.TransactionCount--
		c.Block.EventCount -= ev
		add("drop-last-tx+receipt+counts", "last transaction and receipt dropped, counts adjusted", c)
	}
	// events moved between receipts (same flat event list, different owner)
	for i := 0; i+1 < nt; i++ {
		if len(b.Block.Receipts[i].Events) > 0 {
			c := b.Clone()
			evs := c.Block.Receipts[i].Events
			last := evs[len(evs)-1]
			c.Block.Receipts[i].Events = evs[:len(evs)-1]
			c.Block.Receipts[i+1].Events = append([]*core.Event{last}, c.Block.Receipts[i+1].Events...)
			add("move-event-to-next-receipt", fmt.Sprintf("last event of receipt %d moved to the front of receipt %d", i, i+1), c)
			if formatOf(b.Block.ProtocolVersion) == "pre0132" {
				// the Pedersen event leaf has no transaction hash: which receipt owns an event is not committed
				out[len(out)-1].MustReject, out[len(out)-1].ObserveOnly, out[len(out)-1].Why = false, true, post07Why
			}
			break
		}
	}
	// key of an event moved into its data (same concatenation, different split)
	for i, rc := range b.Block.Receipts {
		done := false
		for j, e := range rc.Events {
			if len(e.Keys) > 0 {
				c := b.Clone()
				ce := c.Block.Receipts[i].Events[j]
				k := ce.Keys[len(ce.Keys)-1]
				ce.Keys = ce.Keys[:len(ce.Keys)-1]
				ce.Data = append([]felt.Felt{k}, ce.Data...)
				add("event-key-to-data", fmt.Sprintf("receipt %d event %d: last key moved to the front of data", i, j), c)
				done = true
				break
			}
		}
		if done {
			break
		}
	}
	// payload element of a message moved to the next message's sender position is not expressible
	// field-wise; the split of payloads is covered by the single-field slice tamperings.
	return out
}

// rehashCases: the attacker recomputes the block hash after the change, so only linkage and the
// state-root verification can reject the block.
func rehashCases(g *lib.ChainGen, idx int) []tamperCase {
	b := g.Bundles[idx]
	var out []tamperCase
	add := func(name, detail string, c *lib.Bundle) {
		if rehash(g, c) {
			out = append(out, tamperCase{Name: "rehash:" + name, Detail: detail, Bundle: c, MustReject: true})
		}
	}
	{
		c := b.Clone()
		c.Block.Number++
		add("number+1", "block number increased, block hash recomputed", c)
	}
	if b.Block.Number > 0 {
		c := b.Clone()
		c.Block.Number--
		add("number-1", "block number decreased, block hash recomputed", c)
	}
	{
		c := b.Clone()
		feltInc(c.Block.ParentHash)
		add("parent", "parent hash changed, block hash recomputed", c)
	}
	{
		c := b.Clone()
		feltInc(c.Block.GlobalStateRoot)
		feltInc(c.SU.NewRoot)
		add("root", "declared state root changed (header and state update), block hash recomputed", c)
	}
	{
		// only the HEADER's root: the hash is consistent with the header, the state update still carries the real
		// root (which the state check compares) — nothing but the header / state-update cross check stops it
		c := b.Clone()
		feltInc(c.Block.GlobalStateRoot)
		add("header-root-only", "the header's GlobalStateRoot changed, the state update's NewRoot kept, block hash recomputed", c)
	}
	{
		c := b.Clone()
		feltInc(c.SU.OldRoot)
		add("oldroot", "state update's old root changed (not part of any hash)", c)
	}
	for _, v := range []string{"0.15.0", "1.0.0"} {
		c := b.Clone()
		c.Block.ProtocolVersion = v
		add("unsupported-version", "protocol version set to one juno does not support ("+v+"), block hash recomputed", c)
	}
	d := b.SU.StateDiff
	for _, a := range firstKeys(d.Nonces) {
		c := b.Clone()
		feltInc(c.SU.StateDiff.Nonces[a])
		add("diff-nonce-value", "a nonce of the state diff changed, block hash recomputed", c)
	}
	for _, a := range firstKeys(d.StorageDiffs) {
		for _, k := range firstKeys(d.StorageDiffs[a]) {
			c := b.Clone()
			v := c.SU.StateDiff.StorageDiffs[a][k]
			// stay away from 0: writing 0 instead of x, or x instead of 0, may be the same state
			v.Add(v, lib.F(1000))
			add("diff-storage-value", "a storage value of the state diff changed, block hash recomputed", c)
		}
	}
	for _, a := range firstKeys(d.DeployedContracts) {
		c := b.Clone()
		feltInc(c.SU.StateDiff.DeployedContracts[a])
		add("diff-deployed-class", "class hash of a deployed contract changed, block hash recomputed", c)
	}
	for _, a := range firstKeys(d.ReplacedClasses) {
		c := b.Clone()
		feltInc(c.SU.StateDiff.ReplacedClasses[a])
		add("diff-replaced-class", "class hash of a replaced contract changed, block hash recomputed", c)
	}
	for _, a := range firstKeys(d.DeclaredV1Classes) {
		c := b.Clone()
		feltInc(c.SU.StateDiff.DeclaredV1Classes[a])
		add("diff-declared-casm", "compiled class hash of a declared class changed, block hash recomputed", c)
	}
	// an extra nonce for a contract the chain already has
	if st := g.States[idx]; st != nil {
		var addrs []felt.Felt
		for a := range st.Deployed {
			if _, ok := d.Nonces[a]; !ok {
				addrs = append(addrs, a)
			}
		}
		sort.Slice(addrs, func(i, j int) bool { return addrs[i].Cmp(&addrs[j]) < 0 })
		if len(addrs) > 0 {
			c := b.Clone()
			cur := st.Contracts[addrs[0]].Nonce
			c.SU.StateDiff.Nonces[addrs[0]] = new(felt.Felt).Add(&cur, lib.F(5))
			add("diff-extra-nonce", "a nonce entry added to the state diff, block hash recomputed", c)
		}
	}
	// moving entries between maps that the state-diff hash merges (protocol-level ambiguity;
	// the state application has to tell them apart)
	for _, a := range firstKeys(d.DeployedContracts) {
		c := b.Clone()
		c.SU.StateDiff.ReplacedClasses[a] = c.SU.StateDiff.DeployedContracts[a]
		delete(c.SU.StateDiff.DeployedContracts, a)
		out = append(out, tamperCase{Name: "merge:deployed->replaced", Detail: "a deployed contract listed as replaced class (same state-diff hash)",
			Bundle: c, MustReject: true})
	}
	for _, a := range firstKeys(d.ReplacedClasses) {
		c := b.Clone()
		c.SU.StateDiff.DeployedContracts[a] = c.SU.StateDiff.ReplacedClasses[a]
		delete(c.SU.StateDiff.ReplacedClasses, a)
		out = append(out, tamperCase{Name: "merge:replaced->deployed", Detail: "a replaced class listed as deployed contract (same state-diff hash)",
			Bundle: c, MustReject: true})
	}
	for _, a := range firstKeys(d.DeclaredV1Classes) {
		c := b.Clone()
		c.SU.StateDiff.MigratedClasses[felt.SierraClassHash(a)] = felt.CasmClassHash(*c.SU.StateDiff.DeclaredV1Classes[a])
		delete(c.SU.StateDiff.DeclaredV1Classes, a)
		out = append(out, tamperCase{Name: "merge:declared->migrated", Detail: "a declared class listed as migrated class (same state-diff hash)",
			Bundle: c, ObserveOnly: true, Why: "declared and migrated classes are one list in the protocol's state-diff commitment"})
	}
	for a := range d.MigratedClasses {
		c := b.Clone()
		v := felt.Felt(c.SU.StateDiff.MigratedClasses[a])
		c.SU.StateDiff.DeclaredV1Classes[felt.Felt(a)] = &v
		delete(c.SU.StateDiff.MigratedClasses, a)
		out = append(out, tamperCase{Name: "merge:migrated->declared", Detail: "a migrated class listed as declared class (same state-diff hash)",
			Bundle: c, ObserveOnly: true, Why: "declared and migrated classes are one list in the protocol's state-diff commitment"})
		break
	}
	return out
}

func firstKeys[V any](m map[felt.Felt]V) []felt.Felt {
	ks := sortedKeys(m)
	if len(ks) > 1 {
		return []felt.Felt{ks[0], ks[len(ks)-1]}
	}
	return ks
}

var post07CommittedRe = regexp.MustCompile(`^\.Block\.(Hash|ParentHash|Number|GlobalStateRoot|SequencerAddress|TransactionCount|EventCount|Timestamp)$` +
	`|^\.Block\.Transactions|^\.Block\.Receipts$|^\.Block\.Receipts\[\]\.(TransactionHash$|Events)|^\.SU\.(BlockHash|NewRoot|OldRoot)$`)

const post07Why = "not committed by the post-0.7 Pedersen block hash (protocol < 0.13.2): observed only"

// singleFieldCases enumerates every single-field tampering of bundle idx.
func singleFieldCases(g *lib.ChainGen, idx int) []tamperCase {
	b := g.Bundles[idx]
	old := formatOf(b.Block.ProtocolVersion) == "pre0132"
	var out []tamperCase
	for si, s := range enumerate(b) {
		for _, m := range s.Muts {
			c := tamper(b, si, m)
			unc, why := uncommitted(s, m, b, c)
			tc := tamperCase{Name: "field:" + s.Norm + ":" + m, Detail: s.Path + " " + m, Bundle: c, MustReject: !unc, Why: why}
			if old && !unc && !post07CommittedRe.MatchString(s.Norm) {
				// the Pedersen formats commit far less (no receipts, prices, version string, state diff)
				tc.MustReject, tc.ObserveOnly, tc.Why = false, true, post07Why
				// … but the state diff is still bound through the state root: a change that alters
				// what the commitment depends on must be rejected (judged with the abstract state)
				if strings.HasPrefix(s.Norm, ".SU.StateDiff") && !stateNeutral(g, idx, c) {
					tc.MustReject, tc.ObserveOnly, tc.Why = true, false, ""
				}
			}
			out = append(out, tc)
		}
	}
	return out
}

// ---- the run ------------------------------------------------------------------------------------

type chainTask struct {
	Chain  int  `json:"chain"`
	SrcNew bool `json:"src_new_state"`
	DstNew bool `json:"dst_new_state"`
	// Slot selects the tamper position of this task: 0 = genesis, 1 = middle, 2 = last block
	// (thorough tier: slot k = block k). The other blocks are stored untampered.
	Slot int `json:"slot"`
	// Risky selects the second pass: only the tamperings that make juno dereference a nil pointer
	// (nil-ed fields, missing resource bounds, version switches). They run last, after the result
	// file has been checkpointed, because such a panic is fatal for the whole process as soon as
	// juno does the work on another goroutine.
	Risky bool `json:"risky"`
}

func riskyCase(name string) bool {
	return strings.HasSuffix(name, ":setnil") ||
		(strings.Contains(name, ">.ResourceBounds:") && (strings.Contains(name, ":del") || strings.Contains(name, ":rekey"))) ||
		(strings.Contains(name, "Transactions[]<") && strings.Contains(name, ">.Version:"))
}

// tamperSlots is the number of tamper positions (= tasks) per chain and backend.
func tamperSlots(f lib.Flags) int {
	if f.Thorough() {
		return f.Scale(6, 9)
	}
	return 3
}

type replay struct {
	Task     chainTask `json:"task"`
	Seed     uint64    `json:"seed"`
	Tier     string    `json:"tier"`
	Position int       `json:"position"`
	Case     string    `json:"case"`
	Detail   string    `json:"detail"`
	Error    string    `json:"error,omitempty"`
	Note     string    `json:"note,omitempty"`
	Wide     *wideCase `json:"wide,omitempty"`
}

func buildChain(f lib.Flags, task chainTask) (*lib.ChainGen, error) {
	r := lib.NewRNG(f.Seed).Fork(uint64(7000 + task.Chain))
	opt := lib.DefaultGenOptions()
	opt.MaxTxs = 5
	opt.EmptyDiffs = 5
	g := lib.NewChainGen(r, task.SrcNew, opt)
	n := f.Scale(6, 9)
	// start version rotates so that every format appears at every position over the chains
	start := task.Chain % len(opt.Versions)
	for i := 0; i < n; i++ {
		spec := &lib.BlockSpec{}
		vi := start + i/3
		if vi >= len(opt.Versions) {
			vi = len(opt.Versions) - 1
		}
		spec.Version = opt.Versions[vi]
		if task.Chain >= 100 {
			// the post-0.7 Pedersen format (Sepolia: First07Block = 0), transaction hashes verified (>= 0.11)
			spec.Version = []string{"0.11.1", "0.12.3", "0.13.1"}[i*3/n]
		}
		if spec.Version == "0.13.2" && i%3 == 1 {
			spec.Version = "0.13.3" // same hash format as 0.13.2
		}
		if i == (n-1)/2 || (f.Thorough() && i == 1) {
			// the middle block (a tamper position) carries one transaction of every kind and version
			seen := map[string]bool{}
			for draws := 0; draws < 400 && len(seen) < 11; draws++ {
				tx := g.GenTx(spec.Version)
				if k := txKindOf(tx); !seen[k] {
					seen[k] = true
					spec.Txs = append(spec.Txs, tx)
					spec.Rcs = append(spec.Rcs, g.GenReceipt(tx))
				}
			}
		}
		if _, err := g.Next(spec); err != nil {
			return nil, err
		}
	}
	return g, nil
}

// foreignBlock builds block `idx` of a second chain that has the same state diffs (hence the same
// state roots) but other transactions, so that it differs from the real chain only in hashes.
func foreignChain(f lib.Flags, task chainTask, g *lib.ChainGen) (*lib.ChainGen, error) {
	r := lib.NewRNG(f.Seed).Fork(uint64(9000 + task.Chain))
	opt := g.Opt
	h := lib.NewChainGen(r, task.SrcNew, opt)
	for i := range g.Bundles {
		src := g.Bundles[i]
		spec := &lib.BlockSpec{Version: src.Block.ProtocolVersion,
			Diff:    lib.DeepCopy(src.SU.StateDiff).(*core.StateDiff),
			Classes: lib.DeepCopy(src.Classes).(map[felt.Felt]core.ClassDefinition)}
		if _, err := h.Next(spec); err != nil {
			return nil, err
		}
	}
	return h, nil
}

func runTask(f lib.Flags, res *lib.Result, task chainTask, only *replay) {
	g, err := buildChain(f, task)
	if err != nil {
		res.Fatalf("generator (chain %d): %v", task.Chain, err)
		return
	}
	fg, err := foreignChain(f, task, g)
	if err != nil {
		res.Fatalf("generator (foreign chain %d): %v", task.Chain, err)
		fg = nil
	}
	n := openNode(g, task.DstNew, memory.New())
	var ac *acceptChecker
	if only == nil {
		ac = newAcceptChecker(f, res, g)
		defer ac.close()
	}
	backend := "legacy"
	if task.DstNew {
		backend = "new"
	}
	last := len(g.Bundles) - 1
	tamperAt := map[int]bool{}
	if f.Thorough() {
		tamperAt[task.Slot] = true
	} else {
		tamperAt[[]int{0, last / 2, last}[task.Slot%3]] = true
	}
	violate := func(sig, what string, rp replay) {
		rp.Task, rp.Seed, rp.Tier = task, f.Seed, f.Tier
		res.Violate(lib.Violation{Sig: sig, What: what, Replay: rp})
	}
	for pos := 0; pos <= last; pos++ {
		valid := g.Bundles[pos]
		if tamperAt[pos] && (only == nil || only.Position == pos) {
			base := n.db.Copy()
			before := dbDigest(n.db)
			h0, head0 := headOf(n)
			var cases []tamperCase
			cases = append(cases, singleFieldCases(g, pos)...)
			cases = append(cases, compoundCases(g, pos)...)
			cases = append(cases, compensatingCases(g, pos)...) // round 6
			cases = append(cases, rehashCases(g, pos)...)
			cases = append(cases, addedEntryCases(g, pos)...)
			// valid blocks at the wrong position
			if pos+1 <= last {
				cases = append(cases, tamperCase{Name: "position:next-block", Detail: "the valid block one position ahead", Bundle: g.Bundles[pos+1].Clone(), MustReject: true})
			}
			if pos > 0 {
				cases = append(cases, tamperCase{Name: "position:head-again", Detail: "the current head block offered again", Bundle: g.Bundles[pos-1].Clone(), MustReject: true})
				if fg != nil {
					cases = append(cases, tamperCase{Name: "position:foreign-parent", Detail: "valid block of the same height and state from a chain with other hashes (parent hash is not the head)",
						Bundle: fg.Bundles[pos].Clone(), MustReject: true})
				}
			}
			if pos > 1 {
				cases = append(cases, tamperCase{Name: "position:older-block", Detail: "a valid block two positions back", Bundle: g.Bundles[pos-2].Clone(), MustReject: true})
			}
			posName := "mid"
			if pos == 0 {
				posName = "genesis"
			} else if pos == last {
				posName = "last"
			}
			format := formatOf(valid.Block.ProtocolVersion)
			var headHash *felt.Felt
			var headNumber uint64
			if pos > 0 {
				headNumber, headHash = uint64(pos-1), g.Bundles[pos-1].Block.Hash
			}
			for ci, tc := range cases {
				if only != nil && only.Case != tc.Name+"|"+tc.Detail {
					continue
				}
				if only == nil && riskyCase(tc.Name) != task.Risky {
					continue
				}
				r := offer(n, tc.Bundle)
				class := errClass(r.err)
				if r.hung {
					class = "hang"
				}
				// model verdict vs real verdict: every compound / re-hashed / misplaced case, a quarter of
				// the single-field ones (all of them in the thorough tier)
				if !strings.HasPrefix(tc.Name, "field:") || strings.HasPrefix(tc.Name, "field:.Classes") ||
					strings.HasPrefix(tc.Name, "field:.SU.") || ci%4 == 0 || f.Thorough() {
					ac.compare(res, tc, headNumber, headHash, class)
				}
				res.Case(fmt.Sprintf("%d/%v/%d/%s|%s", task.Chain, task.DstNew, pos, tc.Name, tc.Detail), true)
				res.Hit("outcome-" + class)
				res.Hit("backend-" + backend)
				res.Hit("format-" + format)
				res.Hit("position-" + posName)
				kind := tc.Name
				if i := strings.Index(kind, ":"); i > 0 {
					kind = kind[:i]
				}
				res.Hit("tamper-" + kind)
				rp := replay{Position: pos, Case: tc.Name + "|" + tc.Detail, Detail: tc.Detail}
				if r.err != nil {
					rp.Error = trunc(r.err.Error(), 300)
				}
				after := dbDigest(n.db)
				h1, head1 := headOf(n)
				switch {
				case r.hung:
					violate("store-hangs:"+tc.Name, "offering the block does not return: "+tc.Detail, rp)
				case r.panicked:
					// Not stored, but not a rejection either: sync does not recover, the node dies.
					res.Hit("rejected-by-panic:" + tc.Name)
					rp.Note = trunc(r.stack, 1200)
					if strings.HasPrefix(tc.Name, "field:.Classes[]<Sierra>.Compiled") && malformedDeclaredCompiled(tc.Bundle) {
						violate(casmPanicSig, fmt.Sprintf("%s (%s; block %d, format %s, version %s, backend %s): %v", casmPanicWhat, tc.Detail, pos, format, valid.Block.ProtocolVersion, backend, r.err), rp)
					} else if riskyCase(tc.Name) && strings.Contains(r.err.Error(), "nil pointer dereference") {
						// the one known cause: a field the (tampered) version needs is absent
						violate(panicSig, fmt.Sprintf("%s (%s; block %d, format %s, backend %s): %v", panicWhat, tc.Detail, pos, format, backend, r.err), rp)
					} else {
						violate("store-panics:"+tc.Name, fmt.Sprintf("SanityCheckNewHeight/Store panics on a tampered block (%s, backend %s): %v", tc.Detail, backend, r.err), rp)
					}
				case r.err == nil && tc.ObserveOnly:
					res.Hit("observed-accepted:" + tc.Name)
				case r.err == nil && !tc.MustReject:
					res.Hit("uncommitted-accepted")
					res.Hit("exception:" + tc.Why)
				case r.err == nil:
					if sig, what := skippedPosition(g, tc, valid); sig != "" {
						violate(sig, fmt.Sprintf("%s (%s; block %d, format %s, backend %s)", what, tc.Detail, pos, format, backend), rp)
						break
					}
					if sig, what := knownRootCause(tc, valid); sig != "" {
						violate(sig, fmt.Sprintf("%s (%s; block %d, format %s, backend %s)", what, tc.Detail, pos, format, backend), rp)
						break
					}
					violate("tampered-block-accepted:"+tc.Name, fmt.Sprintf("a block differing from the valid block %d in a committed field was stored (%s; format %s, backend %s)",
						pos, tc.Detail, format, backend), rp)
				case r.err != nil && !tc.MustReject && !tc.ObserveOnly:
					// a field we list as uncommitted made the block invalid: the exception list is too wide
					res.Hit("uncommitted-rejected:" + tc.Name)
					res.Mismatch(lib.Mismatch{Sig: "exception-is-committed:" + tc.Name, Input: tc.Detail,
						Model: "listed as uncommitted (exception theorem / table)", Impl: "rejected: " + class})
				}
				if r.err != nil && !r.hung {
					if after != before || h1 != h0 || head1 != head0 {
						what := fmt.Sprintf("a rejected block (%s; error class %s, backend %s) changed the node: height %d->%d head %s->%s db: %s",
							tc.Detail, class, backend, h0, h1, head0, head1, dbDiff(base, n.db))
						violate("rejected-block-has-effect:"+class, what, rp)
					}
				}
				if r.err == nil || r.panicked || r.hung || after != before {
					// the node is no longer the one we started from: reopen it on a copy of the snapshot
					n = openNode(g, task.DstNew, base.Copy())
				}
			}
		}
		// the untampered block must (still) be accepted
		r := offer(n, valid)
		if r.err != nil {
			rp := replay{Position: pos, Case: "valid", Detail: "the untampered block", Error: trunc(r.err.Error(), 300)}
			violate("valid-block-rejected", fmt.Sprintf("valid block %d (format %s) rejected by the %s backend after the tampered offers: %v",
				pos, formatOf(valid.Block.ProtocolVersion), backend, r.err), rp)
			return
		}
		res.Hit("valid-block-stored")
		h, head := headOf(n)
		if h != int64(pos) || head != valid.Block.Hash.String() {
			rp := replay{Position: pos, Case: "valid", Detail: "head after storing the untampered block"}
			violate("stored-head-differs", fmt.Sprintf("after storing valid block %d the head is (%d, %s), expected (%d, %s)", pos, h, head, pos, valid.Block.Hash), rp)
			return
		}
	}
	// the chain the node ended with is the generated one: compare the head state with the abstract state
	if only == nil && task.Slot == 0 && !task.Risky {
		compareWithSource(res, g, n, task)
		revertAndReoffer(res, g, n, task)
		checkHeadState(res, n, g, task)
	}
}

func checkHeadState(res *lib.Result, n *node, g *lib.ChainGen, task chainTask) {
	st := g.HeadState()
	reader, closer, err := n.bc.HeadState()
	if err != nil {
		res.Fatalf("head state: %v", err)
		return
	}
	defer closer()
	bad := ""
	for a, c := range st.Contracts {
		for k, v := range c.Storage {
			got, err := reader.ContractStorage(&a, &k)
			if err != nil || !got.Equal(&v) {
				bad = fmt.Sprintf("storage %s[%s]", a.String(), k.String())
			}
		}
		if st.Deployed[a] {
			ch, err := reader.ContractClassHash(&a)
			if err != nil || !ch.Equal(&c.Class) {
				bad = "class of " + a.String()
			}
			nn, err := reader.ContractNonce(&a)
			if err != nil || !nn.Equal(&c.Nonce) {
				bad = "nonce of " + a.String()
			}
		}
	}
	res.Hit("final-state-checked")
	if bad != "" {
		res.Violate(lib.Violation{Sig: "state-after-run-differs", What: "after all offers the node's head state differs from the fold of the valid diffs at " + bad,
			Replay: replay{Task: task, Case: "final-state"}})
	}
}

var _ = bytes.Equal

// runOldRootDirected is a directed history for the one auxiliary field no hash covers:
// StateUpdate.OldRoot. Block 0 deploys one contract, block 1 touches that contract only. Block 1 is
// offered with OldRoot = 0 (the root of the EMPTY state) and with OldRoot = its own new root.
// Expected: rejected — the diff must be applied to the node's current state, whose root is block
// 0's root. (A backend that opens the state at the caller-supplied OldRoot instead of checking it
// against the head applies the diff to the empty state; because block 1 rewrites every leaf the
// empty contract trie lacks, the declared new root still comes out.)
func runOldRootDirected(f lib.Flags, res *lib.Result, dstNew bool) {
	task := chainTask{Chain: -1, DstNew: dstNew, Slot: 1}
	opt := lib.DefaultGenOptions()
	opt.NoClasses = true
	g := lib.NewChainGen(lib.NewRNG(f.Seed).Fork(4242), false, opt)
	a := g.Addr(4)
	cls := g.ClassHash(0)
	emptyDiff := func() *core.StateDiff { d := core.EmptyStateDiff(); return &d }
	d0 := emptyDiff()
	d0.DeployedContracts[a] = &cls
	d0.StorageDiffs[a] = map[felt.Felt]*felt.Felt{*lib.F(1): lib.F(5)}
	d1 := emptyDiff()
	d1.Nonces[a] = lib.F(1)
	d1.StorageDiffs[a] = map[felt.Felt]*felt.Felt{*lib.F(1): lib.F(6)}
	for i, d := range []*core.StateDiff{d0, d1} {
		if _, err := g.Next(&lib.BlockSpec{Version: []string{"0.13.2", "0.14.0"}[i], Diff: d, NoTxs: true}); err != nil {
			res.Fatalf("generator (oldroot-directed): %v", err)
			return
		}
	}
	n := openNode(g, dstNew, memory.New())
	if r := offer(n, g.Bundles[0]); r.err != nil {
		res.Fatalf("oldroot-directed: block 0 rejected: %v", r.err)
		return
	}
	backend := "legacy"
	if dstNew {
		backend = "new"
	}
	base := n.db.Copy()
	before := dbDigest(n.db)
	for _, variant := range []string{"zero", "own-new-root"} {
		c := g.Bundles[1].Clone()
		if variant == "zero" {
			c.SU.OldRoot = lib.F(0)
		} else {
			r := *c.SU.NewRoot
			c.SU.OldRoot = &r
		}
		r := offer(n, c)
		res.Case(fmt.Sprintf("oldroot-directed/%v/%s", dstNew, variant), true)
		res.Hit("tamper-directed-oldroot")
		res.Hit("outcome-" + errClass(r.err))
		if r.err == nil {
			// what the node now holds, compared with a node that stored the valid block
			ref := openNode(g, dstNew, base.Copy())
			_ = offer(ref, g.Bundles[1])
			diff := dbDiff(ref.db, n.db)
			revertErr := n.bc.RevertHead()
			what := fmt.Sprintf("block 1 offered with StateUpdate.OldRoot = %s instead of the head's state root was stored by the %s backend "+
				"(state.New opens the state at the supplied OldRoot, so verifyComm compares that root with itself); keys differing from a node "+
				"that stored the valid block: %s; RevertHead afterwards: %v", variant, backend, diff, revertErr)
			res.Violate(lib.Violation{Sig: oldRootSig, What: what,
				Replay: replay{Task: task, Seed: f.Seed, Tier: f.Tier, Position: 1, Case: "directed:oldroot-" + variant,
					Detail: "chain: block 0 deploys contract " + a.String() + " and writes slot 1; block 1 sets its nonce and rewrites slot 1; block 1 offered with OldRoot " + variant}})
			n = openNode(g, dstNew, base.Copy())
			continue
		}
		if after := dbDigest(n.db); after != before {
			res.Violate(lib.Violation{Sig: "rejected-block-has-effect:" + errClass(r.err), What: "oldroot-directed: rejected block changed the database: " + dbDiff(base, n.db),
				Replay: replay{Task: task, Seed: f.Seed, Tier: f.Tier, Position: 1, Case: "directed:oldroot-" + variant}})
			n = openNode(g, dstNew, base.Copy())
		}
	}
	if r := offer(n, g.Bundles[1]); r.err != nil {
		res.Violate(lib.Violation{Sig: "valid-block-rejected", What: fmt.Sprintf("oldroot-directed: valid block 1 rejected by the %s backend: %v", backend, r.err),
			Replay: replay{Task: task, Seed: f.Seed, Tier: f.Tier, Position: 1, Case: "valid"}})
	}
}
