//go:build verif

package main

// The histories of phase "store-level" (see storekv.go): a chain built for what Store writes into
// the indexes — L1 handlers with and without nonce, the same transaction twice in one block,
// Sierra classes declared with the v1 casm hash before 0.14.1, migrated after it, declared with the
// v2 hash — with, at every position, the tamperings that PASS SanityCheckNewHeight and are decided by
// Store alone: linkage, the three state checks, the casm-metadata step; then reverts, a sibling
// block and the orphaned child of the reverted branch.

import (
	"fmt"
	"sort"
	"strings"
	"sync/atomic"

	"github.com/NethermindEth/juno/core"
	"github.com/NethermindEth/juno/core/felt"
	"github.com/NethermindEth/juno/db/memory"
	"verif/harness/lib"
)

// ---- core.ClassCasmHashMetadata, exhaustively ----------------------------------------------------

func runCasmCorr(res *lib.Result, drv *lib.Driver) {
	const maxU = ^uint64(0)
	ats := []uint64{0, 1, 5, maxU}
	opAts := []uint64{0, 1, 5, 6, maxU}
	heights := []uint64{0, 1, 4, 5, 6, 7, maxU}
	v1, v2 := lib.F(0xaa01), lib.FHex("0x7ffffffffffffffffffffffffffffffffffffffffffffffffffffffffff0002")
	var ops []string // "u" or "m<hex>"
	ops = append(ops, "u")
	for _, a := range opAts {
		ops = append(ops, fmt.Sprintf("m%x", a))
	}
	var seqs [][]string
	seqs = append(seqs, nil)
	for _, a := range ops {
		seqs = append(seqs, []string{a})
		for _, b := range ops {
			seqs = append(seqs, []string{a, b})
			for _, c := range ops {
				seqs = append(seqs, []string{a, b, c})
			}
		}
	}
	var lines []string
	var impls []string
	for _, kind := range []string{"new1", "new2"} {
		for _, at := range ats {
			for _, seq := range seqs {
				var m core.ClassCasmHashMetadata
				line := "casm " + kind + fmt.Sprintf(" %x", at)
				c1, c2 := felt.CasmClassHash(*v1), felt.CasmClassHash(*v2)
				if kind == "new1" {
					m = core.NewCasmHashMetadataDeclaredV1(at, &c1, &c2)
					line += " " + feltHex(v1) + " " + feltHex(v2)
				} else {
					m = core.NewCasmHashMetadataDeclaredV2(at, &c2)
					line += " " + feltHex(v2)
				}
				var rs []string
				for _, op := range seq {
					var err error
					if op == "u" {
						err = m.Unmigrate()
					} else {
						var a uint64
						fmt.Sscanf(op[1:], "%x", &a)
						err = m.Migrate(a)
					}
					switch err {
					case nil:
						rs = append(rs, "ok")
					case core.ErrCannotMigrateV2Declared:
						rs = append(rs, "v2-declared")
					case core.ErrCannotMigrateBeforeDeclared:
						rs = append(rs, "before-declared")
					case core.ErrCannotMigrateAlreadyMigrated:
						rs = append(rs, "already-migrated")
					case core.ErrCannotUnmigrateNotMigrated:
						rs = append(rs, "not-migrated")
					default:
						rs = append(rs, "other:"+err.Error())
					}
					line += " " + op
				}
				line += " ;"
				raw, _ := m.MarshalBinary()
				// the encoding must round-trip (what Store writes is what later blocks read back)
				var back core.ClassCasmHashMetadata
				rt := "rt-ok"
				if err := back.UnmarshalBinary(raw); err != nil {
					rt = "rt-err"
				} else if raw2, _ := back.MarshalBinary(); string(raw2) != string(raw) {
					rt = "rt-diff"
				}
				if rt != "rt-ok" {
					res.Mismatch(lib.Mismatch{Sig: "casm-metadata-roundtrip", Input: line, Model: "rt-ok", Impl: rt})
				}
				var hs []string
				for _, h := range heights {
					line += fmt.Sprintf(" %x", h)
					x, err := m.CasmHashAt(h)
					s := "nf"
					if err == nil {
						xf := felt.Felt(x)
						s = feltHex(&xf)
					}
					if m.IsMigratedAt(h) {
						s += "+"
					} else {
						s += "-"
					}
					hs = append(hs, s)
				}
				flag := func(b bool) string {
					if b {
						return "1"
					}
					return "0"
				}
				ch := felt.Felt(m.CasmHash())
				impl := strings.Join(rs, ",") + " | " + fmt.Sprintf("%x", raw) + " | " + feltHex(&ch) + " " + flag(m.IsMigrated()) + flag(m.IsDeclaredWithV2()) +
					" | " + strings.Join(hs, ",")
				lines = append(lines, line)
				impls = append(impls, impl)
			}
		}
	}
	outs, err := askAllDeadline(drv, lines)
	if err != nil || len(outs) != len(lines) {
		res.Fatalf("casm metadata correspondence: driver: %v (%d of %d answers)", err, len(outs), len(lines))
		return
	}
	for i := range lines {
		res.Case("casm/"+lines[i], false)
		res.Compared(1)
		res.Hit("corr-casm-meta")
		if strings.Contains(impls[i], "before-declared") {
			res.Hit("corr-casm-meta-before-declared")
		}
		if strings.Contains(impls[i], "already-migrated") {
			res.Hit("corr-casm-meta-already-migrated")
		}
		if outs[i] != impls[i] {
			res.Mismatch(lib.Mismatch{Sig: "casm-metadata", Input: lines[i], Model: outs[i], Impl: impls[i]})
		}
	}
}

// ---- the chain ---------------------------------------------------------------------------------

type kvClass struct {
	hash         felt.Felt
	class        *core.SierraClass
	casm1, casm2 felt.Felt
}

func kvSierra(i uint64) kvClass {
	h, c := sierraN(900 + i)
	return kvClass{hash: h, class: c, casm1: c.Compiled.Hash(core.HashVersionV1), casm2: c.Compiled.Hash(core.HashVersionV2)}
}

func l1Handler(g *lib.ChainGen, seq uint64, withNonce bool, calldata []felt.Felt) *core.L1HandlerTransaction {
	to := g.Addr(4)
	tx := &core.L1HandlerTransaction{Version: new(core.TransactionVersion).SetUint64(0), ContractAddress: &to,
		EntryPointSelector: lib.F(0x5e1 + seq), CallData: calldata}
	if withNonce {
		tx.Nonce = lib.F(seq)
		h, err := core.TransactionHash(tx, g.Net)
		if err != nil {
			panic(err)
		}
		tx.TransactionHash = &h
	} else {
		tx.TransactionHash = lib.F(0x11aa00 + seq) // taken as declared (known finding 2)
	}
	return tx
}

// buildKVChain builds the chain of the store-level phase on a source node with backend srcNew.
func buildKVChain(f lib.Flags, srcNew bool) (*lib.ChainGen, []kvClass, error) {
	opt := lib.DefaultGenOptions()
	opt.NoClasses = true
	opt.MaxTxs = 3
	g := lib.NewChainGen(lib.NewRNG(f.Seed).Fork(6100), srcNew, opt)
	cls := []kvClass{kvSierra(0), kvSierra(1), kvSierra(2)}
	versions := []string{"0.13.2", "0.14.0", "0.14.0", "0.14.1", "0.14.1", "0.14.1"}
	if f.Thorough() {
		versions = append(versions, "0.14.1", "0.14.1")
	}
	for i, ver := range versions {
		num := uint64(i)
		diff, classes := g.GenDiff(g.HeadState(), num, ver)
		spec := &lib.BlockSpec{Version: ver, Diff: diff, Classes: classes}
		var txs []core.Transaction
		for j := 0; j < 2; j++ {
			txs = append(txs, g.GenTx(ver))
		}
		switch i {
		case 0:
			c1 := cls[0].casm1
			diff.DeclaredV1Classes[cls[0].hash] = &c1
			classes[cls[0].hash] = cls[0].class
			txs = append(txs, l1Handler(g, 1, true, []felt.Felt{*lib.F(0xabc), *lib.F(7)}))
		case 1:
			c1 := cls[1].casm1
			diff.DeclaredV1Classes[cls[1].hash] = &c1
			classes[cls[1].hash] = cls[1].class
			// the same transaction twice, an L1 handler without nonce, one with a one-element calldata
			dup := txs[0]
			txs = append(txs, lib.DeepCopy(dup).(core.Transaction))
			txs = append(txs, l1Handler(g, 2, false, []felt.Felt{*lib.F(0xabd), *lib.F(8), *lib.F(9)}))
			txs = append(txs, l1Handler(g, 3, true, []felt.Felt{*lib.F(0xabe)}))
		case 3:
			diff.MigratedClasses[felt.SierraClassHash(cls[0].hash)] = felt.CasmClassHash(cls[0].casm2)
			c2 := cls[2].casm2
			diff.DeclaredV1Classes[cls[2].hash] = &c2
			classes[cls[2].hash] = cls[2].class
		case 4:
			diff.MigratedClasses[felt.SierraClassHash(cls[1].hash)] = felt.CasmClassHash(cls[1].casm2)
			txs = append(txs, l1Handler(g, 4, true, []felt.Felt{*lib.F(0xabf), *lib.F(1), *lib.F(2), *lib.F(3)}))
		}
		spec.Txs = txs
		for _, tx := range txs {
			spec.Rcs = append(spec.Rcs, g.GenReceipt(tx))
		}
		if _, err := g.Next(spec); err != nil {
			return nil, nil, fmt.Errorf("block %d: %w", i, err)
		}
	}
	return g, cls, nil
}

type kvCase struct {
	label  string
	bundle *lib.Bundle
	mode   string // "reject" | "observe"
}

// kvCases: variants of block pos that pass SanityCheckNewHeight (or fail it harmlessly) and are
// decided by Store.
func kvCases(g *lib.ChainGen, cls []kvClass, pos int) []kvCase {
	b := g.Bundles[pos]
	var out []kvCase
	for _, tc := range rehashCases(g, pos) {
		mode := "reject"
		if !tc.MustReject {
			mode = "observe"
		}
		out = append(out, kvCase{label: tc.Name, bundle: tc.Bundle, mode: mode})
	}
	for _, tc := range addedEntryCases(g, pos) {
		mode := "reject"
		if !tc.MustReject {
			mode = "observe"
		}
		out = append(out, kvCase{label: tc.Name, bundle: tc.Bundle, mode: mode})
	}
	add := func(label string, c *lib.Bundle, needRehash bool) {
		if needRehash && !rehash(g, c) {
			return
		}
		// what only the casm step refuses leaves everything the state root depends on unchanged: storing
		// such a block would not break the property (the model comparison still ties the step)
		mode := "reject"
		if strings.HasPrefix(label, "casm:") && stateNeutral(g, pos, c) {
			mode = "observe"
		}
		out = append(out, kvCase{label: label, bundle: c, mode: mode})
	}
	{
		c := b.Clone()
		c.SU.OldRoot = lib.F(0)
		if pos > 0 {
			add("oldroot:zero", c, false)
		}
		c2 := b.Clone()
		r := *c2.SU.NewRoot
		c2.SU.OldRoot = &r
		if !b.SU.OldRoot.Equal(b.SU.NewRoot) {
			add("oldroot:own-new-root", c2, false)
		}
	}
	if pos > 0 {
		prev := g.States[pos-1]
		var deployed, free []felt.Felt
		for i := 2; i < g.NAddrs(); i++ {
			a := g.Addr(i)
			if prev.Deployed[a] {
				deployed = append(deployed, a)
			} else if _, now := b.SU.StateDiff.DeployedContracts[a]; !now {
				free = append(free, a)
			}
		}
		if len(deployed) > 0 {
			c := b.Clone()
			ch := g.ClassHash(1)
			c.SU.StateDiff.DeployedContracts[deployed[0]] = &ch
			delete(c.SU.StateDiff.ReplacedClasses, deployed[0])
			add("apply:deploy-existing-contract", c, true)
		}
		if len(free) > 0 {
			c := b.Clone()
			ch := g.ClassHash(1)
			c.SU.StateDiff.ReplacedClasses[free[0]] = &ch
			add("apply:replace-class-of-undeployed-contract", c, true)
		}
	}
	// casm metadata: what only the last step of writeBlockContent can refuse
	v2proto := b.Block.ProtocolVersion >= "0.14.1"
	type meta struct {
		declaredV2 bool
		migrated   bool
	}
	metas := map[felt.Felt]*meta{}
	for i := 0; i < pos; i++ {
		pb := g.Bundles[i]
		for c := range pb.SU.StateDiff.DeclaredV1Classes {
			metas[c] = &meta{declaredV2: pb.Block.ProtocolVersion >= "0.14.1"}
		}
		for c := range pb.SU.StateDiff.MigratedClasses {
			if m := metas[felt.Felt(c)]; m != nil {
				m.migrated = true
			}
		}
	}
	if v2proto {
		for _, k := range cls {
			m := metas[k.hash]
			if m == nil {
				continue
			}
			if _, now := b.SU.StateDiff.MigratedClasses[felt.SierraClassHash(k.hash)]; now {
				continue
			}
			c := b.Clone()
			c.SU.StateDiff.MigratedClasses[felt.SierraClassHash(k.hash)] = felt.CasmClassHash(k.casm2)
			switch {
			case m.declaredV2:
				add("casm:migrate-class-declared-with-v2", c, true)
			case m.migrated:
				add("casm:migrate-class-again", c, true)
			}
		}
	} else {
		for _, k := range sortedKeys(b.SU.StateDiff.DeclaredV1Classes) {
			if _, ok := b.Classes[k].(*core.SierraClass); !ok {
				continue
			}
			c := b.Clone()
			c.Classes[k] = &core.DeprecatedCairoClass{Abi: []byte(`[]`), Externals: []core.DeprecatedEntryPoint{}, L1Handlers: []core.DeprecatedEntryPoint{},
				Constructors: []core.DeprecatedEntryPoint{}, Program: "H4sIAAAAAAAA/wEAAP//AAAAAAAAAAA="}
			add("casm:declared-sierra-class-defined-as-cairo0", c, false)
			c2 := b.Clone()
			delete(c2.Classes, k)
			add("casm:declared-class-without-definition", c2, false)
			break
		}
	}
	// the compiled class of a declared class: below 0.14.1 the casm step hashes it (V2) — a compiled class on which that
	// hash cannot be computed must end in a rejection, not in a panic; from 0.14.1 on it is not read
	for _, k := range sortedKeys(b.SU.StateDiff.DeclaredV1Classes) {
		sc, ok := b.Classes[k].(*core.SierraClass)
		if !ok || sc.Compiled == nil {
			continue
		}
		c := b.Clone()
		cc := c.Classes[k].(*core.SierraClass).Compiled
		cc.BytecodeSegmentLengths = core.SegmentLengths{Children: []core.SegmentLengths{{Length: uint64(len(cc.Bytecode))}, {Length: 1}}}
		add("casm:compiled-class-segment-lengths-exceed-bytecode", c, false)
		c2 := b.Clone()
		c2.Classes[k].(*core.SierraClass).Compiled = nil
		add("casm:compiled-class-missing", c2, false)
		break
	}
	// an L1 handler whose calldata is emptied, every hash recomputed
	for i, tx := range b.Block.Transactions {
		l1, ok := tx.(*core.L1HandlerTransaction)
		if !ok || l1.Nonce == nil {
			continue
		}
		c := b.Clone()
		t := c.Block.Transactions[i].(*core.L1HandlerTransaction)
		t.CallData = []felt.Felt{}
		h, err := core.TransactionHash(t, g.Net)
		if err != nil {
			break
		}
		t.TransactionHash = &h
		h2 := h
		c.Block.Receipts[i].TransactionHash = &h2
		add("l1handler:calldata-emptied-all-hashes-recomputed", c, true)
		break
	}
	if pos+1 < len(g.Bundles) {
		out = append(out, kvCase{label: "position:next-block", bundle: g.Bundles[pos+1].Clone(), mode: "reject"})
	}
	if pos > 0 {
		out = append(out, kvCase{label: "position:head-again", bundle: g.Bundles[pos-1].Clone(), mode: "reject"})
		out = append(out, kvCase{label: "position:genesis-again", bundle: g.Bundles[0].Clone(), mode: "reject"})
	}
	return out
}

// probeCasmV2Checked asks the code under test which variant of storeCasmHashMetadataV2 it has: a 0.14.1
// genesis block whose diff declares a class without definition (block hash recomputed) is offered to a
// fresh node. Rejected by the casm step = the variant with the definition check (the proposed repair);
// stored = /repo as found. The model is run in the variant found; whether a stored block breaks the
// property is decided by the oracle, not by this probe.
func probeCasmV2Checked(f lib.Flags, res *lib.Result) (checked bool, ok bool) {
	opt := lib.DefaultGenOptions()
	opt.NoClasses = true
	g := lib.NewChainGen(lib.NewRNG(f.Seed).Fork(6199), false, opt)
	d := core.EmptyStateDiff()
	b, err := g.Next(&lib.BlockSpec{Version: "0.14.1", NoTxs: true, Diff: &d})
	if err != nil {
		res.Fatalf("store-level probe: generator: %v", err)
		return false, false
	}
	c := b.Clone()
	c.SU.StateDiff.DeclaredV1Classes[*lib.F(0xDEC1A)] = lib.F(0x77)
	if !rehash(g, c) {
		res.Fatalf("store-level probe: cannot recompute the block hash")
		return false, false
	}
	n := openNode(g, false, memory.New())
	r := offer(n, c)
	switch {
	case r.err == nil:
		res.Hit("probe-casm-v2-without-definition-check")
		return false, true
	case strings.Contains(r.err.Error(), "not available in newClasses"):
		res.Hit("probe-casm-v2-with-definition-check")
		return true, true
	}
	res.Fatalf("store-level probe: unexpected outcome: %v", r.err)
	return false, false
}

// probeCompiledGuarded asks the code under test which variant of storeCasmHashMetadataV1 it has: a 0.13.2 genesis block
// that declares a Sierra class whose compiled class is missing is offered to a fresh node. A panic = /repo as found;
// "malformed compiled class" = the proposed repair.
func probeCompiledGuarded(f lib.Flags, res *lib.Result) bool {
	opt := lib.DefaultGenOptions()
	opt.NoClasses = true
	g := lib.NewChainGen(lib.NewRNG(f.Seed).Fork(6198), false, opt)
	h, c := sierraN(990)
	d := core.EmptyStateDiff()
	casm := c.Compiled.Hash(core.HashVersionV1)
	d.DeclaredV1Classes[h] = &casm
	b, err := g.Next(&lib.BlockSpec{Version: "0.13.2", NoTxs: true, Diff: &d, Classes: map[felt.Felt]core.ClassDefinition{h: c}})
	if err != nil {
		res.Fatalf("store-level probe (compiled class): generator: %v", err)
		return false
	}
	t := b.Clone()
	t.Classes[h].(*core.SierraClass).Compiled = nil
	r := offer(openNode(g, false, memory.New()), t)
	switch {
	case r.panicked:
		res.Hit("probe-compiled-class-hash-unguarded")
		return false
	case r.err != nil && strings.Contains(r.err.Error(), "malformed compiled class"):
		res.Hit("probe-compiled-class-hash-guarded")
		return true
	}
	res.Fatalf("store-level probe (compiled class): unexpected outcome: %v", r.err)
	return false
}

// runStoreLevelOn: the whole history on one destination backend.
func runStoreLevelOn(f lib.Flags, res *lib.Result, drv *lib.Driver, dstNew bool, casmV2Checked bool) {
	backend := "legacy"
	if dstNew {
		backend = "new"
	}
	g, cls, err := buildKVChain(f, dstNew)
	if err != nil {
		res.Fatalf("generator (store-level chain): %v", err)
		return
	}
	k := &kvRun{f: f, res: res, g: g, n: openNode(g, dstNew, memory.New()), drv: drv, backend: backend, name: "kv-chain", casmV2Checked: casmV2Checked,
		compiledGuarded: probeCompiledGuarded(f, res)}
	if _, ok := k.ask("node-reset"); !ok {
		return
	}
	k.headAgrees(-1)
	last := len(g.Bundles) - 1
	for pos := 0; pos <= last; pos++ {
		valid := g.Bundles[pos]
		for _, kc := range kvCases(g, cls, pos) {
			base := k.n.db.Copy()
			stored := k.offerKV(kc.label, pos, valid, kc.bundle, kc.mode == "reject")
			if stored {
				// an observed (uncommitted) variant was stored by both: back to the snapshot
				res.Hit("kv-observed-accepted:" + kc.label)
				k.stored = k.stored[:len(k.stored)-1]
				k.n = openNode(g, dstNew, base)
				k.resyncModel()
			}
		}
		if !k.offerKV("valid", pos, valid, valid, false) {
			res.Violate(lib.Violation{Sig: "valid-block-rejected", What: fmt.Sprintf("store-level history: valid block %d rejected by the %s backend", pos, backend),
				Replay: k.replayOf("valid", pos, "")})
			return
		}
		k.headAgrees(pos)
	}
	// reverts, a sibling of the reverted block, and the orphaned child of the reverted branch
	oldTop, oldBelow := g.Bundles[last], g.Bundles[last-1]
	if !k.revertKV(last) || !k.revertKV(last-1) {
		return
	}
	k.headAgrees(last - 2)
	if err := g.Revert(); err != nil {
		res.Fatalf("store-level: generator revert: %v", err)
		return
	}
	if err := g.Revert(); err != nil {
		res.Fatalf("store-level: generator revert: %v", err)
		return
	}
	// sibling: same state diff and classes as the reverted block, other transactions
	sib, err := g.Next(&lib.BlockSpec{Version: oldBelow.Block.ProtocolVersion,
		Diff:    lib.DeepCopy(oldBelow.SU.StateDiff).(*core.StateDiff),
		Classes: lib.DeepCopy(oldBelow.Classes).(map[felt.Felt]core.ClassDefinition)})
	if err != nil {
		res.Fatalf("store-level: generator sibling block: %v", err)
		return
	}
	if sib.Block.Hash.Equal(oldBelow.Block.Hash) {
		res.Fatalf("store-level: sibling block has the hash of the reverted block")
		return
	}
	if !k.offerKV("reorg:sibling-of-reverted-block", last-1, sib, sib, false) {
		res.Violate(lib.Violation{Sig: "valid-block-rejected", What: "store-level history: after two reverts the valid sibling block was rejected (" + backend + " backend)",
			Replay: k.replayOf("reorg:sibling", last-1, "")})
		return
	}
	k.headAgrees(last - 1)
	// the child of the REVERTED block: right number, right state, parent is not the head
	k.offerKV("reorg:child-of-reverted-block", last, oldTop, oldTop, true)
	// and the reverted block itself on top of its sibling
	k.offerKV("reorg:reverted-block-on-its-sibling", last, oldBelow, oldBelow, true)
	top, err := g.Next(&lib.BlockSpec{Version: oldTop.Block.ProtocolVersion,
		Diff:    lib.DeepCopy(oldTop.SU.StateDiff).(*core.StateDiff),
		Classes: lib.DeepCopy(oldTop.Classes).(map[felt.Felt]core.ClassDefinition)})
	if err != nil {
		res.Fatalf("store-level: generator child of the sibling: %v", err)
		return
	}
	if !k.offerKV("reorg:child-of-sibling", last, top, top, false) {
		res.Violate(lib.Violation{Sig: "valid-block-rejected", What: "store-level history: the child of the sibling block was rejected (" + backend + " backend)",
			Replay: k.replayOf("reorg:child-of-sibling", last, "")})
		return
	}
	k.headAgrees(last)
}

// ---- read faults ---------------------------------------------------------------------------------

// runReadFaults: the k-th database read during SanityCheckNewHeight+Store fails with an error that is
// not "key not found", for every k, while the node is offered (a) the valid next block, (b) the
// genesis block again, (c) the block after the next. Expected: (b) and (c) are rejected whatever
// read fails; (a) is rejected or stored exactly as without the fault; a rejection leaves the database
// untouched.
func runReadFaults(f lib.Flags, res *lib.Result, g *lib.ChainGen, dstNew bool) {
	backend := "legacy"
	if dstNew {
		backend = "new"
	}
	const upto = 2
	if len(g.Bundles) < upto+2 {
		return
	}
	runReadFaultsOn(f, res, g, dstNew, backend, upto, "store-level chain", nil)
	// the directed old-root history (block 0 deploys one contract, block 1 rewrites every leaf an empty
	// contract trie lacks): block 1 offered with OldRoot = 0 must be refused whatever read fails — a
	// backend that falls back to the supplied OldRoot when it cannot read the head's root would store it
	if dg, err := buildOldRootChain(f); err != nil {
		res.Fatalf("generator (read faults, old-root history): %v", err)
	} else {
		c := dg.Bundles[1].Clone()
		c.SU.OldRoot = lib.F(0)
		runReadFaultsOn(f, res, dg, dstNew, backend, 1, "old-root history", c)
	}
}

// buildOldRootChain: the two-block history of runOldRootDirected.
func buildOldRootChain(f lib.Flags) (*lib.ChainGen, error) {
	opt := lib.DefaultGenOptions()
	opt.NoClasses = true
	g := lib.NewChainGen(lib.NewRNG(f.Seed).Fork(4242), false, opt)
	a := g.Addr(4)
	cls := g.ClassHash(0)
	d0 := core.EmptyStateDiff()
	d0.DeployedContracts[a] = &cls
	d0.StorageDiffs[a] = map[felt.Felt]*felt.Felt{*lib.F(1): lib.F(5)}
	d1 := core.EmptyStateDiff()
	d1.Nonces[a] = lib.F(1)
	d1.StorageDiffs[a] = map[felt.Felt]*felt.Felt{*lib.F(1): lib.F(6)}
	for i, d := range []*core.StateDiff{&d0, &d1} {
		if _, err := g.Next(&lib.BlockSpec{Version: []string{"0.13.2", "0.14.0"}[i], Diff: d, NoTxs: true}); err != nil {
			return nil, err
		}
	}
	return g, nil
}

func runReadFaultsOn(f lib.Flags, res *lib.Result, g *lib.ChainGen, dstNew bool, backend string, upto int, history string, forged *lib.Bundle) {
	prefix := memory.New()
	pn := lib.NodeOn(prefix, g.Net, dstNew)
	for i := 0; i < upto; i++ {
		if err := lib.StoreOn(pn, g.Bundles[i]); err != nil {
			res.Fatalf("read faults: valid prefix block %d rejected: %v", i, err)
			return
		}
	}
	ref := prefix.Copy()
	if err := lib.StoreOn(lib.NodeOn(ref, g.Net, dstNew), g.Bundles[upto]); err != nil {
		res.Fatalf("read faults: valid block %d rejected: %v", upto, err)
		return
	}
	refDigest := dbDigest(ref)
	type offerT struct {
		name   string
		b      *lib.Bundle
		reject bool
	}
	offers := []offerT{{"valid-next-block", g.Bundles[upto], false}, {"genesis-again", g.Bundles[0], true}, {"head-again", g.Bundles[upto-1], true}}
	if upto+1 < len(g.Bundles) {
		offers = append(offers, offerT{"block-after-next", g.Bundles[upto+1], true})
	}
	if forged != nil {
		offers = append(offers, offerT{"next-block-with-old-root-zero", forged, true})
	}
	for _, o := range offers {
		probe := &readFaultDB{Database: prefix.Copy(), reads: new(atomic.Int64)}
		node := lib.NodeOn(probe, g.Net, dstNew)
		probe.reads.Store(0)
		_, _, _ = lib.Try(func() error { return lib.StoreOn(node, o.b) })
		total := probe.reads.Load()
		res.HitN("read-fault-reads-"+o.name+"-"+backend, int(total))
		res.Hit("read-fault-history:" + history)
		if total == 0 {
			res.Fatalf("read faults: offering %s performed no read through the wrapper", o.name)
			continue
		}
		if total > 400 {
			total = 400
		}
		for kk := int64(1); kk <= total; kk++ {
			fd := &readFaultDB{Database: prefix.Copy(), reads: new(atomic.Int64)}
			before := dbDigest(fd.Database)
			node := lib.NodeOn(fd, g.Net, dstNew)
			fd.failAt = fd.reads.Load() + kk // count from the first read of the offer
			err, panicked, _ := lib.Try(func() error { return lib.StoreOn(node, o.b) })
			res.Case(fmt.Sprintf("readfault/%v/%s/%d", dstNew, o.name, kk), true)
			res.Hit("tamper-read-fault")
			rp := map[string]any{"case": "read-fault", "offer": o.name, "failing_read": kk, "dst_new_state": dstNew, "seed": f.Seed, "tier": f.Tier,
				"history": fmt.Sprintf("%s, blocks 0..%d stored", history, upto-1)}
			after := dbDigest(fd.Database)
			switch {
			case panicked:
				res.Violate(lib.Violation{Sig: "store-panics:read-fault", What: fmt.Sprintf("Store panics when database read %d fails (%s, %s backend): %v", kk, o.name, backend, err), Replay: rp})
			case err == nil && o.reject && forged != nil && o.b == forged:
				res.Violate(lib.Violation{Sig: "block-with-wrong-old-root-stored-when-a-read-fails",
					What:   fmt.Sprintf("with database read %d failing (not 'key not found'), block 1 of the old-root history offered with StateUpdate.OldRoot = 0 instead of the head's state root was stored by the %s backend: the state was opened somewhere else than at the head's root", kk, backend),
					Replay: rp})
			case err == nil && o.reject:
				res.Violate(lib.Violation{Sig: "misplaced-block-stored-when-a-read-fails",
					What:   fmt.Sprintf("with database read %d failing (not 'key not found'), the block '%s' — which does not continue the head #%d — passed verifyBlockSuccession and was stored by the %s backend", kk, o.name, upto-1, backend),
					Replay: rp})
			case err == nil && after != refDigest:
				res.Violate(lib.Violation{Sig: "store-succeeds-with-other-content-when-a-read-fails",
					What:   fmt.Sprintf("with database read %d failing, Store of the valid block returned nil but the database differs from a fault-free Store (%s backend): %s", kk, backend, dbDiff(ref, fd.Database)),
					Replay: rp})
			case err != nil && after != before:
				res.Violate(lib.Violation{Sig: "rejected-block-has-effect:read-fault",
					What:   fmt.Sprintf("Store failed (read %d failing, %s, %s backend) and the database changed: %s", kk, o.name, backend, dbDiff(prefix, fd.Database)),
					Replay: rp})
			}
			if err == nil {
				res.Hit("read-fault-tolerated-" + o.name)
			}
		}
	}
}

// runStoreLevel is the entry of the phase.
func runStoreLevel(f lib.Flags, res *lib.Result) {
	drv, err := lib.StartDriver(f.Driver)
	if err != nil {
		res.Fatalf("store-level: the Lean driver did not start: %v", err)
		return
	}
	defer drv.Close()
	runCasmCorr(res, drv)
	checked, ok := probeCasmV2Checked(f, res)
	if !ok {
		return
	}
	for _, dstNew := range []bool{false, true} {
		runStoreLevelOn(f, res, drv, dstNew, checked)
	}
	for _, dstNew := range []bool{false, true} {
		if g, _, err := buildKVChain(f, dstNew); err != nil {
			res.Fatalf("generator (read faults): %v", err)
		} else {
			runReadFaults(f, res, g, dstNew)
		}
	}
}

var _ = sort.Strings
