//go:build verif

package main

// Round 6: COMPENSATING tamperings — two (or more) fields changed together so that some summary of the
// block stays what it was: the sum of the two header counts, the state diff's Length(), the number of
// messages of a receipt, the set of class hashes the diff declares. A shortcut keyed on such a summary
// ("Length() == 0: the diff is empty", "the diff declares nothing: no class to verify", "same number of
// payload felts") leaves every single-field tampering rejected; only a change that keeps the summary
// and moves the content shows it. Every case is SEALED (declared block hash kept) unless its name ends
// in "+rehash"; the expectation follows what the block's format commits:
//
//	counts:*        TransactionCount / EventCount exchanged, one unit moved between the two lanes, body and
//	                counts changed TOGETHER (all emptied + counts zeroed; a pair appended + counts raised)
//	difflen:*       the state diff changed with Length() kept: an EMPTY inner storage map added (Length +0),
//	                a nonce entry replaced by a storage entry, a storage entry moved to another contract,
//	                a declared Sierra class turned into a declared Cairo-0 class
//	classes:*       newClasses vs the diff: an UNDECLARED definition under a key that is not its hash, two
//	                definitions exchanged, key and declaration re-keyed together, a declared class replaced
//	                (diff + definition, both consistent, block re-hashed) by another well-formed class
//	messages:*      the boundary between two L2->L1 messages of a receipt shifted by one felt (same flat
//	                list of felts, same number of messages, other payload sizes)
//
// Called from the tamper passes (every tampered block of every chain), the network-boundaries phase and
// the body-length phase (whose chains have empty blocks, empty diffs and a receipt with two messages).

import (
	"fmt"
	"sort"

	"github.com/NethermindEth/juno/core"
	"github.com/NethermindEth/juno/core/felt"
	"github.com/NethermindEth/juno/l1/eth"
	"verif/harness/lib"
)

// blockFormatOn: the hash format juno uses for the block on the chain's network
func blockFormatOn(g *lib.ChainGen, b *lib.Bundle) string {
	meta := g.Net.BlockHashMetaInfo
	if ur := meta.UnverifiableRange; len(ur) == 2 && b.Block.Number >= ur[0] && b.Block.Number <= ur[1] {
		return "unverifiable"
	}
	if f := formatOf(b.Block.ProtocolVersion); f != "pre0132" {
		return f
	}
	if b.Block.Number < meta.First07Block {
		return "pre07"
	}
	return "post07"
}

func compensatingCases(g *lib.ChainGen, idx int) []tamperCase {
	b := g.Bundles[idx]
	format := blockFormatOn(g, b)
	poseidon := format == "v0132" || format == "v0134" // receipts, events with owner, state diff committed
	var out []tamperCase
	// committed: does the format's hash commit what the case changes? Otherwise only the state can decide.
	add := func(name, detail string, c *lib.Bundle, committed bool) {
		tc := tamperCase{Name: "compound:" + name, Detail: detail, Bundle: c, MustReject: true}
		switch {
		case format == "unverifiable":
			tc.MustReject, tc.ObserveOnly, tc.Why = false, true, "inside the unverifiable range the block hash is not compared"
		case !committed:
			if stateNeutral(g, idx, c) {
				tc.MustReject, tc.ObserveOnly, tc.Why = false, true, "not committed by this hash format and neutral for the state commitment"
			}
		}
		out = append(out, tc)
	}
	nt := len(b.Block.Transactions)

	// ---- header counts that compensate each other / that follow the body
	if b.Block.TransactionCount != b.Block.EventCount {
		c := b.Clone()
		c.Block.TransactionCount, c.Block.EventCount = b.Block.EventCount, b.Block.TransactionCount
		add("counts:exchanged", fmt.Sprintf("TransactionCount %d and EventCount %d exchanged, body and hash kept", b.Block.TransactionCount, b.Block.EventCount), c, true)
	}
	if b.Block.EventCount > 0 {
		c := b.Clone()
		c.Block.TransactionCount++
		c.Block.EventCount--
		add("counts:one-moved-to-transactions", "TransactionCount+1 and EventCount-1 (sum kept), body and hash kept", c, true)
	}
	if b.Block.TransactionCount > 0 {
		c := b.Clone()
		c.Block.TransactionCount--
		c.Block.EventCount++
		add("counts:one-moved-to-events", "TransactionCount-1 and EventCount+1 (sum kept), body and hash kept", c, true)
	}
	if nt > 0 {
		c := b.Clone()
		c.Block.Transactions, c.Block.Receipts = []core.Transaction{}, []*core.TransactionReceipt{}
		c.Block.TransactionCount, c.Block.EventCount = 0, 0
		add("counts:body-emptied+counts-zeroed", "every transaction and receipt removed AND both counts set to 0, hash kept", c, true)
	}
	{
		c := b.Clone()
		txs, rcs := genPairs(g, b.Block.ProtocolVersion, 1, +1)
		c.Block.Transactions = append(append([]core.Transaction{}, c.Block.Transactions...), txs...)
		c.Block.Receipts = append(append([]*core.TransactionReceipt{}, c.Block.Receipts...), rcs...)
		c.Block.TransactionCount++
		c.Block.EventCount += uint64(len(rcs[0].Events))
		add("counts:pair-appended+counts-raised", "one transaction+receipt appended AND both counts raised to match, hash kept", c, true)
	}

	// ---- the state diff with Length() kept
	d := b.SU.StateDiff
	{
		// an address with an EMPTY storage map: Length() + 0, but the diff is another one (number of contracts with
		// storage updates, the address itself)
		c := b.Clone()
		// a contract the chain HAS (deployed before this block, else by this block): for it an empty slot map is a
		// no-op of the state update, so nothing but the diff commitment can refuse the block; a phantom address
		// (first blocks) is refused by the state update as well
		a := *lib.F(0x7e57ab1e)
		var cands []felt.Felt
		if idx > 0 && g.States[idx-1] != nil {
			for x := range g.States[idx-1].Deployed {
				cands = append(cands, x)
			}
		}
		if len(cands) == 0 {
			for x := range d.DeployedContracts {
				cands = append(cands, x)
			}
		}
		sort.Slice(cands, func(i, j int) bool { return cands[i].Cmp(&cands[j]) < 0 })
		for _, x := range cands {
			if _, ok := d.StorageDiffs[x]; !ok {
				a = x
				break
			}
		}
		if _, ok := c.SU.StateDiff.StorageDiffs[a]; !ok {
			c.SU.StateDiff.StorageDiffs[a] = map[felt.Felt]*felt.Felt{}
			name := "difflen:empty-storage-map-added"
			if d.Length() == 0 {
				name += ":to-empty-diff"
			}
			add(name, fmt.Sprintf("StorageDiffs gets one more address with NO slots (a contract the chain has, if there is one): Length() stays %d, hash kept", d.Length()), c, poseidon)
		}
	}
	if ks := sortedKeys(d.Nonces); len(ks) > 0 {
		c := b.Clone()
		a := ks[0]
		delete(c.SU.StateDiff.Nonces, a)
		if c.SU.StateDiff.StorageDiffs[a] == nil {
			c.SU.StateDiff.StorageDiffs[a] = map[felt.Felt]*felt.Felt{}
		}
		c.SU.StateDiff.StorageDiffs[a][*lib.F(0x6e6f6e6365)] = lib.F(0x1234)
		add("difflen:nonce-entry-replaced-by-storage-entry", "one nonce entry removed, one storage entry added for the same contract: Length() kept, hash kept", c, poseidon)
	}
	if ks := sortedKeys(d.StorageDiffs); len(ks) > 0 {
		a := ks[0]
		if slots := sortedKeys(d.StorageDiffs[a]); len(slots) > 0 {
			c := b.Clone()
			k := slots[len(slots)-1]
			v := c.SU.StateDiff.StorageDiffs[a][k]
			delete(c.SU.StateDiff.StorageDiffs[a], k)
			na := a
			for {
				feltInc(&na)
				if _, ok := c.SU.StateDiff.StorageDiffs[na]; !ok {
					break
				}
			}
			c.SU.StateDiff.StorageDiffs[na] = map[felt.Felt]*felt.Felt{k: v}
			add("difflen:storage-entry-moved-to-other-contract", "one storage entry moved to a contract without storage updates: Length() kept, hash kept", c, poseidon)
		}
	}
	if ks := sortedKeys(d.DeclaredV1Classes); len(ks) > 0 {
		c := b.Clone()
		k := ks[0]
		delete(c.SU.StateDiff.DeclaredV1Classes, k)
		kk := k
		c.SU.StateDiff.DeclaredV0Classes = append(c.SU.StateDiff.DeclaredV0Classes, &kk)
		add("difflen:declared-sierra-listed-as-cairo0", "a declared Sierra class moved to the Cairo-0 list (definition kept): Length() kept, hash kept", c, poseidon)
	}

	// ---- newClasses against the diff
	{
		// a definition the diff does NOT declare, under a key that is not its hash: VerifyClassHashes walks
		// newClasses, not the diff
		c := b.Clone()
		if c.Classes == nil {
			c.Classes = map[felt.Felt]core.ClassDefinition{}
		}
		h, cls := extraSierraClass()
		for {
			feltInc(&h)
			if _, ok := c.Classes[h]; !ok {
				break
			}
		}
		c.Classes[h] = cls
		name := "classes:undeclared-definition-under-wrong-key"
		if len(d.DeclaredV1Classes) == 0 {
			name += ":diff-declares-nothing"
		}
		add(name, fmt.Sprintf("newClasses gets a Sierra definition under a key that is not its hash; the diff declares %d classes and not this one", len(d.DeclaredV1Classes)), c, true)
	}
	var sierra []felt.Felt
	for _, k := range sortedKeys(b.Classes) {
		if _, ok := b.Classes[k].(*core.SierraClass); ok {
			sierra = append(sierra, k)
		}
	}
	if len(sierra) >= 2 {
		c := b.Clone()
		k0, k1 := sierra[0], sierra[len(sierra)-1]
		c.Classes[k0], c.Classes[k1] = c.Classes[k1], c.Classes[k0]
		add("classes:two-definitions-exchanged", "the definitions of two declared Sierra classes exchanged (keys, diff and hash kept)", c, true)
	}
	if len(sierra) >= 1 {
		k := sierra[0]
		if casm, ok := d.DeclaredV1Classes[k]; ok {
			{
				c := b.Clone()
				nk := k
				for {
					feltInc(&nk)
					_, inC := c.Classes[nk]
					_, inD := c.SU.StateDiff.DeclaredV1Classes[nk]
					if !inC && !inD {
						break
					}
				}
				c.Classes[nk] = c.Classes[k]
				delete(c.Classes, k)
				c.SU.StateDiff.DeclaredV1Classes[nk] = c.SU.StateDiff.DeclaredV1Classes[k]
				delete(c.SU.StateDiff.DeclaredV1Classes, k)
				add("classes:key-and-declaration-rekeyed-together", "a declared class re-keyed consistently in newClasses AND in DeclaredV1Classes (definition kept), hash kept", c, true)
			}
			{
				// the declared class replaced by ANOTHER well-formed class in the diff and in newClasses, block
				// hash recomputed: every hash is consistent, only the class trie (state root) tells them apart
				c := b.Clone()
				h, cls := extraSierraClass()
				_, inC := c.Classes[h]
				_, inD := c.SU.StateDiff.DeclaredV1Classes[h]
				if !inC && !inD {
					delete(c.Classes, k)
					delete(c.SU.StateDiff.DeclaredV1Classes, k)
					c.Classes[h] = cls
					c.SU.StateDiff.DeclaredV1Classes[h] = new(felt.Felt).Set(casm)
					if rehash(g, c) {
						add("classes:declared-class-replaced-by-another-valid-class+rehash",
							"a declared class replaced by another well-formed class in DeclaredV1Classes and newClasses, block hash recomputed: only the state root can refuse it", c, false)
					}
				}
			}
		}
	}

	// ---- the boundary between two messages of a receipt
	for i, rc := range b.Block.Receipts {
		ms := rc.L2ToL1Message
		if len(ms) < 2 || len(ms[0].Payload) == 0 || ms[1].From == nil {
			continue
		}
		fromBytes := ms[1].From.Bytes()
		fits := true
		for _, x := range fromBytes[:12] {
			if x != 0 {
				fits = false
			}
		}
		if !fits {
			continue
		}
		c := b.Clone()
		m0, m1 := c.Block.Receipts[i].L2ToL1Message[0], c.Block.Receipts[i].L2ToL1Message[1]
		last := m0.Payload[len(m0.Payload)-1]
		m0.Payload = m0.Payload[:len(m0.Payload)-1]
		oldTo := new(felt.Felt).SetBytes(m1.To.Bytes())
		m1.Payload = append([]felt.Felt{*oldTo}, m1.Payload...)
		fb := m1.From.Bytes()
		m1.To = eth.AddressFromBytes(fb[12:])
		m1.From = &last
		add("messages:boundary-shifted-by-one-felt", fmt.Sprintf("receipt %d: the last payload felt of message 0 becomes the sender of message 1, whose sender / recipient shift into recipient / payload "+
			"(same felts in the same order, same number of messages, payload sizes %d,%d -> %d,%d), hash kept", i, len(ms[0].Payload), len(ms[1].Payload), len(m0.Payload), len(m1.Payload)), c, poseidon)
		break
	}
	return out
}
