//go:build verif

package main

// Evaluation of the Lean model's hash terms with the real primitives. posN is implemented here
// directly on the Hades permutation as the plain sponge over the flat element list (rate 2,
// padding 1 then zeros) — this is what makes "PoseidonDigest.Update/UpdateArray/Finish is the
// hash of the concatenation" a checked fact rather than an assumption. pedN is the Pedersen chain
// closed with the element count. comm builds a real height-64 trie (core.TrieBackend) over the
// evaluated leaves.

import (
	"encoding/hex"
	"fmt"
	"math/big"
	"strings"

	"github.com/NethermindEth/juno/core"
	"github.com/NethermindEth/juno/core/crypto"
	"github.com/NethermindEth/juno/core/felt"
)

func posN(xs []felt.Felt) felt.Felt {
	var st [3]felt.Felt
	i := 0
	for ; i+1 < len(xs); i += 2 {
		st[0].Add(&st[0], &xs[i])
		st[1].Add(&st[1], &xs[i+1])
		crypto.HadesPermutation(&st)
	}
	one := felt.One
	if i < len(xs) {
		st[0].Add(&st[0], &xs[i])
		st[1].Add(&st[1], &one)
	} else {
		st[0].Add(&st[0], &one)
	}
	crypto.HadesPermutation(&st)
	return st[0]
}

func pedN(xs []felt.Felt) felt.Felt {
	var acc felt.Felt
	for i := range xs {
		acc = crypto.Pedersen(&acc, &xs[i])
	}
	n := new(felt.Felt).SetUint64(uint64(len(xs)))
	return crypto.Pedersen(&acc, n)
}

func commRoot(kind string, leaves []felt.Felt, backend core.TempTrieBackend) (felt.Felt, error) {
	run := backend.RunOnTempTriePoseidon
	if kind == "ped" {
		run = backend.RunOnTempTriePedersen
	}
	var root felt.Felt
	err := run(64, func(t core.Trie) error {
		for i := range leaves {
			k := new(felt.Felt).SetUint64(uint64(i))
			if err := t.Update(k, &leaves[i]); err != nil {
				return err
			}
		}
		r, err := t.Hash()
		root = r
		return err
	})
	return root, err
}

type termParser struct {
	toks []string
	pos  int
}

func (p *termParser) next() (string, error) {
	if p.pos >= len(p.toks) {
		return "", fmt.Errorf("term: unexpected end")
	}
	t := p.toks[p.pos]
	p.pos++
	return t, nil
}

func (p *termParser) parse() (felt.Felt, error) {
	t, err := p.next()
	if err != nil {
		return felt.Felt{}, err
	}
	if t != "(" {
		n, ok := new(big.Int).SetString(t, 16)
		if !ok {
			return felt.Felt{}, fmt.Errorf("term: bad literal %q", t)
		}
		// the model must reduce modulo the field prime itself wherever juno's felt.SetBytes does: a
		// literal that is not a canonical field element is refused, not silently reduced
		if n.Sign() < 0 || n.Cmp(starkP) >= 0 {
			return felt.Felt{}, fmt.Errorf("term: literal %s is not below the field prime", t)
		}
		var f felt.Felt
		f.SetBigInt(n)
		return f, nil
	}
	op, err := p.next()
	if err != nil {
		return felt.Felt{}, err
	}
	if op == "keccak" {
		h, err := p.next()
		if err != nil {
			return felt.Felt{}, err
		}
		var bs []byte
		if h != "-" {
			if bs, err = hex.DecodeString(h); err != nil {
				return felt.Felt{}, err
			}
		}
		if c, _ := p.next(); c != ")" {
			return felt.Felt{}, fmt.Errorf("term: keccak not closed")
		}
		return crypto.StarknetKeccak(bs), nil
	}
	kind := ""
	if op == "comm" {
		if kind, err = p.next(); err != nil {
			return felt.Felt{}, err
		}
	}
	var args []felt.Felt
	for {
		if p.pos >= len(p.toks) {
			return felt.Felt{}, fmt.Errorf("term: not closed")
		}
		if p.toks[p.pos] == ")" {
			p.pos++
			break
		}
		a, err := p.parse()
		if err != nil {
			return felt.Felt{}, err
		}
		args = append(args, a)
	}
	switch op {
	case "ped":
		if len(args) != 2 {
			return felt.Felt{}, fmt.Errorf("term: ped arity %d", len(args))
		}
		return crypto.Pedersen(&args[0], &args[1]), nil
	case "pedN":
		return pedN(args), nil
	case "posN":
		return posN(args), nil
	case "comm":
		return commRoot(kind, args, core.TrieBackend)
	}
	return felt.Felt{}, fmt.Errorf("term: unknown op %q", op)
}

// evalTerm evaluates a term printed by the Lean driver.
func evalTerm(s string) (felt.Felt, error) {
	p := &termParser{toks: strings.Fields(s)}
	f, err := p.parse()
	if err != nil {
		return f, err
	}
	if p.pos != len(p.toks) {
		return f, fmt.Errorf("term: trailing tokens")
	}
	return f, nil
}
