//go:build verif

package main

// Tamper family "add" (round 4): one entry ADDED to every section of the state diff — declared v0 / v1
// classes, deployed contracts, replaced classes, nonces, storage, migrated classes — with and without
// the accompanying class definition in newClasses, for classes the chain knows and for unknown ones.
// (The reflection walker only copies / re-keys EXISTING entries, so a section that is empty in the
// valid block was never extended.) For the formats from 0.13.2 on every case exists plain (the block
// hash commits the state diff: rejected by the hash) and re-hashed (only the state application, the
// state root and Store's own checks can stop it); the Pedersen formats do not commit the state diff,
// so the plain variant already passes every hash check.
//
// Expectation: the abstract state decides. If folding the tampered diff gives another root-relevant
// state than the valid diff (another class-trie leaf, contract, nonce, slot), the block declares a
// state root that is NOT the root of (state + its diff) and must be rejected; otherwise the outcome
// is observed.

import (
	"sort"

	"github.com/NethermindEth/juno/core"
	"github.com/NethermindEth/juno/core/felt"
	"verif/harness/lib"
)

func addedEntryCases(g *lib.ChainGen, pos int) []tamperCase {
	b := g.Bundles[pos]
	prev := lib.NewAbsState()
	if pos > 0 {
		prev = g.States[pos-1]
	}
	committed := formatOf(b.Block.ProtocolVersion) != "pre0132" // the block hash commits the state diff
	var out []tamperCase
	add := func(name, detail string, c *lib.Bundle) {
		neutral := stateNeutral(g, pos, c)
		mk := func(suffix string, cc *lib.Bundle, must bool) {
			tc := tamperCase{Name: "add:" + name + suffix, Detail: detail, Bundle: cc, MustReject: must}
			if !must {
				tc.ObserveOnly, tc.Why = true, "the added entry leaves everything the state commitment depends on unchanged"
			}
			out = append(out, tc)
		}
		if committed {
			mk("", c, true) // the block hash commits the state diff
			r := c.Clone()
			if rehash(g, r) {
				mk("+rehash", r, !neutral)
			}
		} else {
			mk("", c, !neutral)
		}
	}
	var known []felt.Felt // Sierra classes declared in earlier blocks
	for c := range prev.Casm {
		if _, now := b.SU.StateDiff.DeclaredV1Classes[c]; now {
			continue
		}
		if _, now := b.SU.StateDiff.MigratedClasses[felt.SierraClassHash(c)]; now {
			continue
		}
		known = append(known, c)
	}
	sort.Slice(known, func(i, j int) bool { return known[i].Cmp(&known[j]) < 0 })
	var deployed []felt.Felt
	for a := range prev.Deployed {
		deployed = append(deployed, a)
	}
	sort.Slice(deployed, func(i, j int) bool { return deployed[i].Cmp(&deployed[j]) < 0 })

	unknown := *lib.F(0xDEC1A000 + uint64(pos))
	{
		c := b.Clone()
		c.SU.StateDiff.DeclaredV1Classes[unknown] = lib.F(0x77)
		add("declared-v1:unknown-class-without-definition", "a declared (Sierra) class entry added; no definition in newClasses", c)
	}
	{
		c := b.Clone()
		c.SU.StateDiff.DeclaredV1Classes[unknown] = lib.F(0x77)
		c.Classes[unknown] = &core.DeprecatedCairoClass{Abi: []byte(`[]`), Externals: []core.DeprecatedEntryPoint{}, L1Handlers: []core.DeprecatedEntryPoint{},
			Constructors: []core.DeprecatedEntryPoint{}, Program: "H4sIAAAAAAAA/wEAAP//AAAAAAAAAAA="}
		add("declared-v1:unknown-class-with-cairo0-definition", "a declared (Sierra) class entry added; newClasses defines it as a Cairo 0 class", c)
	}
	{
		h, cls := sierraN(700 + uint64(pos))
		c := b.Clone()
		casm := cls.Compiled.Hash(core.HashVersionV1)
		if b.Block.ProtocolVersion >= "0.14.1" {
			casm = cls.Compiled.Hash(core.HashVersionV2)
		}
		c.SU.StateDiff.DeclaredV1Classes[h] = &casm
		c.Classes[h] = cls
		add("declared-v1:new-class-with-definition", "a well-formed additional class declaration (definition supplied)", c)
	}
	if len(known) > 0 {
		k := known[0]
		c := b.Clone()
		other := prev.Casm[k]
		other.Add(&other, lib.F(1))
		c.SU.StateDiff.DeclaredV1Classes[k] = &other
		add("declared-v1:known-class-other-compiled-hash-without-definition",
			"a class declared in an earlier block declared again with another compiled class hash; no definition in newClasses (sync fetches definitions of unknown classes only)", c)
		c2 := b.Clone()
		other2 := prev.Casm[k]
		other2.Add(&other2, lib.F(1))
		c2.SU.StateDiff.MigratedClasses[felt.SierraClassHash(k)] = felt.CasmClassHash(other2)
		add("migrated:known-class-other-compiled-hash", "a class declared in an earlier block listed as migrated to another compiled class hash", c2)
		c3 := b.Clone()
		c3.SU.StateDiff.MigratedClasses[felt.SierraClassHash(k)] = felt.CasmClassHash(prev.Casm[k])
		add("migrated:known-class-same-compiled-hash", "a class declared in an earlier block listed as migrated to the compiled class hash it already has", c3)
	}
	{
		c := b.Clone()
		c.SU.StateDiff.MigratedClasses[felt.SierraClassHash(unknown)] = felt.CasmClassHash(*lib.F(0x78))
		add("migrated:unknown-class", "a migrated-class entry for a class the chain never declared", c)
	}
	{
		c := b.Clone()
		c.SU.StateDiff.DeclaredV0Classes = append(c.SU.StateDiff.DeclaredV0Classes, lib.F(0xD0D000+uint64(pos)))
		add("declared-v0:without-definition", "a declared Cairo 0 class hash added; no definition in newClasses", c)
	}
	{
		c := b.Clone()
		a := *lib.F(0xADD0 + uint64(pos))
		ch := g.ClassHash(2)
		c.SU.StateDiff.DeployedContracts[a] = &ch
		add("deployed:new-address", "a deployed-contract entry added", c)
	}
	for _, a := range deployed {
		if _, in := b.SU.StateDiff.ReplacedClasses[a]; in {
			continue
		}
		if _, in := b.SU.StateDiff.DeployedContracts[a]; in {
			continue
		}
		c := b.Clone()
		ch := g.ClassHash(3)
		if cur := prev.Contracts[a]; cur != nil && cur.Class.Equal(&ch) {
			ch = g.ClassHash(2)
		}
		c.SU.StateDiff.ReplacedClasses[a] = &ch
		add("replaced:deployed-contract", "a replaced-class entry added for a contract the chain has", c)
		break
	}
	for _, a := range deployed {
		if _, in := b.SU.StateDiff.Nonces[a]; in {
			continue
		}
		c := b.Clone()
		cur := felt.Zero
		if pc := prev.Contracts[a]; pc != nil {
			cur = pc.Nonce
		}
		c.SU.StateDiff.Nonces[a] = new(felt.Felt).Add(&cur, lib.F(3))
		add("nonce:deployed-contract", "a nonce entry added for a contract the chain has", c)
		break
	}
	for _, a := range deployed {
		c := b.Clone()
		if c.SU.StateDiff.StorageDiffs[a] == nil {
			c.SU.StateDiff.StorageDiffs[a] = map[felt.Felt]*felt.Felt{}
		}
		slot := *lib.F(0x5107 + uint64(pos))
		c.SU.StateDiff.StorageDiffs[a][slot] = lib.F(0x99)
		add("storage:deployed-contract", "a storage entry (new slot) added for a contract the chain has", c)
		break
	}
	return out
}
