//go:build verif

package main

// Phase "store-level" (round 4). The Lean driver keeps the MODEL's own index store
// (lean/JunoModel/C02/ModelStore.lean: ChainHeight, BlockHeadersByNumber, BlockHeaderNumbersByHash,
// TransactionBlockNumbersAndIndicesByHash, BlockTransactions, StateUpdatesByBlockNumber,
// BlockCommitments, L1HandlerTxnHashByMsgHash, ClassCasmHashMetadata) across requests and never sees
// the real database. After EVERY operation on the real node — a stored block, a rejected block, a
// RevertHead — the key/value content of the real database outside the state buckets is compared with
// the model's batch applied to the previous content: same keys, same bytes for every value the model
// knows byte for byte (heights, block-number-by-hash, transaction index entries, L1 message index,
// casm metadata), presence for the CBOR blobs, every other key untouched. The verdict of
// `Store` is compared by class, with the three state checks told apart (old root / application /
// new root; the state's real commitments are measured on a scratch copy with Simulate, not taken from
// the bundle) and with the rejections only the concrete Store has (casm metadata step).
//
// Also here: the exhaustive correspondence of core.ClassCasmHashMetadata (constructors, Migrate,
// Unmigrate, CasmHash, CasmHashAt, MarshalBinary) and read-fault injection into Store.

import (
	"bytes"
	"encoding/binary"
	"encoding/hex"
	"errors"
	"fmt"
	"regexp"
	"sort"
	"strings"
	"sync/atomic"

	"github.com/NethermindEth/juno/core"
	"github.com/NethermindEth/juno/core/felt"
	"github.com/NethermindEth/juno/db"
	"github.com/NethermindEth/juno/db/memory"
	"github.com/NethermindEth/juno/encoder"
	"golang.org/x/crypto/sha3"
	"verif/harness/lib"
)

// ---- which buckets belong to the state (C01/C03: abstract here) ---------------------------------

var stateBuckets = map[byte]bool{}

func init() {
	for _, b := range []db.Bucket{db.Class, db.ClassesTrie, db.ClassTrie, db.Contract, db.ContractClassHash, db.ContractNonce,
		db.ContractStorage, db.ContractDeploymentHeight, db.ContractTrieContract, db.ContractTrieStorage,
		db.DeprecatedContractClassHashHistory, db.DeprecatedContractNonceHistory, db.DeprecatedContractStorageHistory,
		db.ContractClassHashHistory, db.ContractNonceHistory, db.ContractStorageHistory,
		db.PersistedStateID, db.StateHashToTrieRoots, db.StateID, db.StateTrie, db.TrieJournal} {
		stateBuckets[b.Key()[0]] = true
	}
}

// indexDump returns the content of the database outside the state buckets.
func indexDump(d *memory.Database) map[string]string {
	m := map[string]string{}
	it, err := d.NewIterator(nil, false)
	if err != nil {
		panic(err)
	}
	defer it.Close()
	for ok := it.First(); ok; ok = it.Next() {
		k := it.Key()
		if len(k) == 0 || stateBuckets[k[0]] {
			continue
		}
		v, _ := it.Value()
		m[string(k)] = string(v)
	}
	return m
}

func keccak256(b []byte) []byte {
	h := sha3.NewLegacyKeccak256()
	h.Write(b)
	return h.Sum(nil)
}

// rawKey turns a key of the model's rendering into the key juno uses.
func rawKey(tok string) ([]byte, error) {
	if tok == "H" {
		return db.ChainHeight.Key(), nil
	}
	if len(tok) < 2 || tok[1] != ':' {
		return nil, fmt.Errorf("model key %q", tok)
	}
	payload, err := hex.DecodeString(tok[2:])
	if err != nil {
		return nil, fmt.Errorf("model key %q: %v", tok, err)
	}
	switch tok[0] {
	case 'h':
		return db.BlockHeadersByNumber.Key(payload), nil
	case 'n':
		return db.BlockHeaderNumbersByHash.Key(payload), nil
	case 't':
		return db.TransactionBlockNumbersAndIndicesByHash.Key(payload), nil
	case 'b':
		// BlockTransactionsBucket keys the block number CBOR-encoded (key.Cbor[uint64])
		enc, err := encoder.Marshal(binary.BigEndian.Uint64(payload))
		if err != nil {
			return nil, err
		}
		return db.BlockTransactions.Key(enc), nil
	case 's':
		return db.StateUpdatesByBlockNumber.Key(payload), nil
	case 'c':
		return db.BlockCommitments.Key(payload), nil
	case 'l':
		return db.L1HandlerTxnHashByMsgHash.Key(keccak256(payload)), nil
	case 'm':
		return db.ClassCasmHashMetadata.Key(payload), nil
	}
	return nil, fmt.Errorf("model key %q", tok)
}

// applyModelBatch applies the model's batch (its rendering) to a dump. Values the model does not know
// byte for byte are recorded as opaque.
const opaque = "\x00*opaque*"

func applyModelBatch(pre map[string]string, batch string) (map[string]string, error) {
	out := make(map[string]string, len(pre)+8)
	for k, v := range pre {
		out[k] = v
	}
	if batch == "-" {
		return out, nil
	}
	for _, op := range strings.Fields(batch) {
		i := strings.LastIndex(op, "=")
		if i < 0 {
			return nil, fmt.Errorf("model batch operation %q", op)
		}
		k, err := rawKey(op[:i])
		if err != nil {
			return nil, err
		}
		val := op[i+1:]
		switch {
		case val == "del":
			delete(out, string(k))
		case val == "*":
			out[string(k)] = opaque
		default:
			j := strings.Index(val, ":")
			if j < 0 {
				return nil, fmt.Errorf("model batch value %q", val)
			}
			raw, err := hex.DecodeString(val[j+1:])
			if err != nil {
				return nil, fmt.Errorf("model batch value %q: %v", val, err)
			}
			out[string(k)] = string(raw)
		}
	}
	return out, nil
}

// compareIndex: the real index content after the operation vs the model's prediction.
func compareIndex(expected, actual, pre map[string]string) string {
	var diffs []string
	for k, ev := range expected {
		av, ok := actual[k]
		switch {
		case !ok:
			diffs = append(diffs, fmt.Sprintf("missing %x", k))
		case ev == opaque:
			// present; if the key existed before and the model rewrote it, any bytes are fine
		case av != ev:
			diffs = append(diffs, fmt.Sprintf("value %x: model %x real %x", k, ev, av))
		}
	}
	for k := range actual {
		if _, ok := expected[k]; !ok {
			diffs = append(diffs, fmt.Sprintf("unexpected %x", k))
		}
	}
	_ = pre
	sort.Strings(diffs)
	if len(diffs) > 5 {
		diffs = append(diffs[:5], fmt.Sprintf("… (%d)", len(diffs)))
	}
	return strings.Join(diffs, "; ")
}

const l1PanicSig = "store-panics-on-l1-handler-without-calldata"
const l1PanicWhat = "a self-consistent block (every transaction hash, commitment and the block hash recompute; number, parent and state root continue the head) that contains an L1-handler transaction with EMPTY calldata passes SanityCheckNewHeight — the L1-handler transaction hash does not need the calldata to be non-empty — and then Blockchain.Store panics inside the write batch: writeBlockContent -> core.WriteL1HandlerMsgHashes -> L1HandlerTransaction.MessageHash indexes CallData[0] (index out of range). Nothing is written, but neither sync's verifier nor p2p sync recovers, so the node dies on a block any peer can craft"

// ---- the real Store, error classes ---------------------------------------------------------------

var (
	reNewRoot = regexp.MustCompile(`state commitment mismatch: (\S+) \(expected\) != (\S+) \(actual\)`)
	reOldRoot = regexp.MustCompile(`state's current root: (\S+) does not match the expected root: (\S+)`)
)

// storeErrClass classifies the error of Blockchain.Store (not of SanityCheckNewHeight).
func storeErrClass(err error, su *core.StateUpdate) string {
	if err == nil {
		return "ok"
	}
	s := err.Error()
	expected := ""
	if m := reNewRoot.FindStringSubmatch(s); m != nil {
		expected = m[1]
	} else if m := reOldRoot.FindStringSubmatch(s); m != nil {
		expected = m[2]
	}
	switch {
	case strings.HasPrefix(s, "panic:"):
		return "panic"
	case strings.Contains(s, "unsupported block version"), strings.Contains(s, "cannot parse starknet protocol version"),
		strings.Contains(s, "starknet protocol version is"):
		return "version"
	case strings.Contains(s, "expected block #"):
		return "number"
	case strings.Contains(s, "parent hash does not match"):
		return "parent"
	case expected != "":
		o, n := su.OldRoot.String(), su.NewRoot.String()
		switch {
		case expected == o && expected == n:
			return "state-old|state-new"
		case expected == o:
			return "state-old"
		default:
			return "state-new"
		}
	case strings.Contains(s, "metadata not found"):
		return "casm-meta-missing"
	case strings.Contains(s, "declared with V2"):
		return "casm-v2-declared"
	case strings.Contains(s, "before it was declared"):
		return "casm-before-declared"
	case strings.Contains(s, "already migrated"):
		return "casm-already-migrated"
	case strings.Contains(s, "not available in newClasses"):
		return "casm-class-missing"
	case strings.Contains(s, "must be a SierraClass"):
		return "casm-not-sierra"
	case strings.Contains(s, "malformed compiled class"):
		return "casm-compiled-malformed"
	case errors.Is(err, errInjected):
		return "injected"
	}
	return "state-apply"
}

// measureState returns the commitment of n's current state under the block's protocol version and the
// commitment after applying the bundle's diff ("" = the application fails), measured with Simulate on
// a scratch copy of the node; `valid` lends the parts of a block Simulate needs but the state does not
// depend on.
func measureState(g *lib.ChainGen, n *node, valid, b *lib.Bundle) (cur, applied string, err error) {
	scratch := openNode(g, n.newSt, n.db.Copy())
	p := valid.Clone()
	p.SU.StateDiff = lib.DeepCopy(b.SU.StateDiff).(*core.StateDiff)
	p.Classes = lib.DeepCopy(b.Classes).(map[felt.Felt]core.ClassDefinition)
	p.Block.Number = b.Block.Number
	if core.CheckBlockVersion(b.Block.ProtocolVersion) == nil {
		p.Block.ProtocolVersion = b.Block.ProtocolVersion
	}
	// the new backend's Simulate opens the state at the supplied OldRoot: give it the head's
	root := &felt.Zero
	if h, herr := scratch.bc.Height(); herr == nil {
		if r, rerr := scratch.bc.GlobalStateRootByBlockNumber(h); rerr == nil {
			root = r
		} else {
			return "", "", rerr
		}
	}
	p.SU.OldRoot = root
	var simErr error
	_, panicked, _ := lib.Try(func() error {
		_, simErr = scratch.bc.Simulate(p.Block, p.SU, p.Classes, nil)
		return nil
	})
	if panicked {
		return "", "", fmt.Errorf("Simulate panicked")
	}
	if p.SU.OldRoot == nil {
		return "", "", fmt.Errorf("Simulate left no old root")
	}
	cur = feltHex(p.SU.OldRoot)
	if simErr != nil {
		return cur, "", nil
	}
	return cur, feltHex(p.Block.GlobalStateRoot), nil
}

func v2List(b *lib.Bundle) []string {
	var out []string
	for _, k := range sortedKeys(b.Classes) {
		if sc, ok := b.Classes[k].(*core.SierraClass); ok && sc.Compiled != nil && !compiledBad(sc) {
			h := sc.Compiled.Hash(core.HashVersionV2)
			out = append(out, feltHex(&k), feltHex(&h))
		}
	}
	return out
}

// ---- one store-level node pair -------------------------------------------------------------------

type kvRun struct {
	f       lib.Flags
	res     *lib.Result
	g       *lib.ChainGen
	n       *node
	drv     *lib.Driver
	backend string
	name    string
	dead    bool
	stored  []*lib.Bundle // the blocks the real node (and the model) currently hold
	// the variant of storeCasmHashMetadataV2 found in the code under test (probeCasmV2Checked)
	casmV2Checked bool
	// the variant of storeCasmHashMetadataV1 found in the code under test: does a compiled class whose V2 hash cannot be
	// computed give an error (the proposed repair) or a panic (probeCompiledGuarded)
	compiledGuarded bool
}

func (k *kvRun) ask(line string) (string, bool) {
	if k.dead {
		return "", false
	}
	outs, err := askAllDeadline(k.drv, []string{line})
	if err != nil || len(outs) != 1 {
		k.dead = true
		k.res.Fatalf("store-level (%s): driver: %v", k.name, err)
		return "", false
	}
	if outs[0] == "bad-op" {
		k.res.Fatalf("store-level (%s): driver answered bad-op to %q", k.name, trunc(line, 200))
		return "", false
	}
	return outs[0], true
}

func (k *kvRun) replayOf(label string, pos int, extra string) map[string]any {
	return map[string]any{"case": "store-level", "history": k.name, "backend": k.backend, "position": pos, "operation": label,
		"detail": extra, "seed": k.f.Seed, "tier": k.f.Tier}
}

// offerKV offers bundle b (a variant of block `pos`, or the valid one) to the real node, with
// SanityCheckNewHeight and Store called separately, and to the model; compares verdict and database.
// It returns whether the real node stored the block.
func (k *kvRun) offerKV(label string, pos int, valid, b *lib.Bundle, mustReject bool) bool {
	res := k.res
	pre := indexDump(k.n.db)
	before := dbDigest(k.n.db)
	base := k.n.db.Copy()
	c := b.Clone()
	var commitments *core.BlockCommitments
	sanityErr, sanityPanic, _ := lib.Try(func() error {
		var e error
		commitments, e = k.n.bc.SanityCheckNewHeight(c.Block, c.SU, c.Classes)
		return e
	})
	res.Case(fmt.Sprintf("kv/%s/%s/%d/%s", k.name, k.backend, pos, label), true)
	res.Hit("kv-op-" + strings.SplitN(label, ":", 2)[0])
	if sanityPanic {
		res.Violate(lib.Violation{Sig: "store-panics:kv:" + label, What: fmt.Sprintf("SanityCheckNewHeight panics (%s, block %d, %s backend): %v", label, pos, k.backend, sanityErr),
			Replay: k.replayOf(label, pos, "")})
		k.n = openNode(k.g, k.n.newSt, base)
		return false
	}
	if sanityErr != nil {
		res.Hit("kv-sanity-rejected")
		if dbDigest(k.n.db) != before {
			res.Violate(lib.Violation{Sig: "rejected-block-has-effect:sanity", What: "SanityCheckNewHeight changed the database: " + dbDiff(base, k.n.db),
				Replay: k.replayOf(label, pos, sanityErr.Error())})
			k.n = openNode(k.g, k.n.newSt, base)
		}
		return false
	}
	cur, applied, merr := measureState(k.g, k.n, valid, b)
	if merr != nil {
		res.Fatalf("store-level (%s %s): cannot measure the state: %v", k.name, label, merr)
		return false
	}
	storeErr, panicked, stack := lib.Try(func() error { return k.n.bc.Store(c.Block, commitments, c.SU, c.Classes) })
	class := storeErrClass(storeErr, b.SU)
	if panicked {
		class = "panic"
	}
	res.Hit("kv-real-" + class)
	// the model
	var w wbuf
	w.tok("node-store")
	w.boolean(k.casmV2Checked)
	w.boolean(k.compiledGuarded)
	w.boolean(k.n.newSt)
	w.bundle(b)
	w.tok("1")
	w.tok(cur)
	if applied == "" {
		w.tok("~")
	} else {
		w.tok(applied)
	}
	v2 := v2List(b)
	w.u64(uint64(len(v2) / 2))
	for _, t := range v2 {
		w.tok(t)
	}
	ans, ok := k.ask(w.String())
	if !ok {
		return storeErr == nil
	}
	parts := strings.SplitN(ans, " | ", 3)
	if len(parts) != 3 {
		res.Mismatch(lib.Mismatch{Sig: "store-level:driver-answer", Input: label, Model: ans, Impl: class})
		return storeErr == nil
	}
	mverdict, mcasm, mbatch := parts[0], parts[1], parts[2]
	res.Compared(1)
	res.Hit("corr-kv-store")
	res.Hit("corr-kv-model-" + mverdict)
	agree := mverdict == class
	switch {
	case class == "state-old|state-new":
		agree = mverdict == "state-old" || mverdict == "state-new"
	case class == "panic":
		agree = strings.HasPrefix(mverdict, "panic-") || strings.Contains(","+mcasm+",", ",casm-compiled-malformed,")
	case strings.HasPrefix(class, "casm-"):
		// Go walks the maps in random order: any of the casm errors the model finds
		agree = strings.HasPrefix(mverdict, "casm-") && strings.Contains(","+mcasm+",", ","+class+",")
	}
	if !agree {
		res.Mismatch(lib.Mismatch{Sig: "store-level-verdict:" + label, Input: fmt.Sprintf("%s block %d (%s backend)", label, pos, k.backend),
			Model: mverdict + " [" + mcasm + "]", Impl: class + ": " + trunc(fmt.Sprint(storeErr), 200)})
	}
	post := indexDump(k.n.db)
	if storeErr != nil || panicked {
		rp := k.replayOf(label, pos, trunc(fmt.Sprint(storeErr), 300))
		if panicked {
			rp["stack"] = trunc(stack, 1200)
			sig := "store-panics:kv:" + label
			what := fmt.Sprintf("Blockchain.Store panics on a block that passed SanityCheckNewHeight (%s, block %d, %s backend): %v — sync's verifier does not recover, the node dies", label, pos, k.backend, storeErr)
			if strings.HasPrefix(label, "casm:compiled-class") && malformedDeclaredCompiled(b) {
				sig = casmPanicSig
				what = casmPanicWhat + fmt.Sprintf(" (%s, block %d of the store-level chain, version %s, %s backend: %v)", label, pos, b.Block.ProtocolVersion, k.backend, storeErr)
			} else if strings.HasPrefix(label, "l1handler:calldata-emptied") && strings.Contains(fmt.Sprint(storeErr), "index out of range [0] with length 0") {
				// one known cause, its own stable sig
				sig = l1PanicSig
				what = l1PanicWhat + fmt.Sprintf(" (block %d of the store-level chain, %s backend: %v)", pos, k.backend, storeErr)
			}
			res.Violate(lib.Violation{Sig: sig, What: what, Replay: rp})
		}
		if dbDigest(k.n.db) != before {
			res.Violate(lib.Violation{Sig: "rejected-block-has-effect:store:" + class,
				What:   fmt.Sprintf("Store rejected the block (%s; class %s, %s backend) and the database changed: %s", label, class, k.backend, dbDiff(base, k.n.db)),
				Replay: rp})
			k.n = openNode(k.g, k.n.newSt, base)
		} else if panicked {
			k.n = openNode(k.g, k.n.newSt, base)
		}
		return false
	}
	// stored: the index content must be what the model's batch makes of the previous content
	if mverdict == "ok" {
		exp, err := applyModelBatch(pre, mbatch)
		if err != nil {
			res.Fatalf("store-level (%s %s): %v", k.name, label, err)
		} else if d := compareIndex(exp, post, pre); d != "" {
			res.Mismatch(lib.Mismatch{Sig: "store-level-writes:" + strings.SplitN(label, ":", 2)[0], Input: fmt.Sprintf("%s block %d (%s backend)", label, pos, k.backend),
				Model: trunc(mbatch, 300), Impl: d})
		} else {
			res.Hit("corr-kv-writes-equal")
		}
	}
	if !mustReject {
		k.stored = append(k.stored, b)
	}
	if mustReject {
		if sig, what := knownRootCause(tamperCase{Name: label, Bundle: b}, valid); sig != "" {
			res.Violate(lib.Violation{Sig: sig, What: fmt.Sprintf("%s (%s, block %d of the store-level chain, %s backend)", what, label, pos, k.backend),
				Replay: k.replayOf(label, pos, "")})
		} else {
			res.Violate(lib.Violation{Sig: "tampered-block-accepted:kv:" + label,
				What:   fmt.Sprintf("a block that must be rejected was stored (%s, block %d, %s backend)", label, pos, k.backend),
				Replay: k.replayOf(label, pos, "")})
		}
		k.n = openNode(k.g, k.n.newSt, base)
		// the model stored it too (or disagreed, reported above): bring it back
		k.resyncModel()
		return false
	}
	return true
}

// revertKV: RevertHead on the real node and on the model, index content compared.
func (k *kvRun) revertKV(pos int) bool {
	pre := indexDump(k.n.db)
	err, panicked, _ := lib.Try(func() error { return k.n.bc.RevertHead() })
	k.res.Case(fmt.Sprintf("kv/%s/%s/%d/revert", k.name, k.backend, pos), true)
	k.res.Hit("kv-op-revert")
	if err != nil || panicked {
		k.res.Fatalf("store-level (%s): RevertHead of block %d failed: %v", k.name, pos, err) // C04's subject; it blocks the history
		return false
	}
	ans, ok := k.ask("node-revert")
	if !ok {
		return false
	}
	parts := strings.SplitN(ans, " | ", 2)
	k.res.Compared(1)
	k.res.Hit("corr-kv-revert")
	if len(parts) != 2 || parts[0] != "ok" {
		k.res.Mismatch(lib.Mismatch{Sig: "store-level-verdict:revert", Input: fmt.Sprintf("RevertHead of block %d", pos), Model: ans, Impl: "ok"})
		return false
	}
	exp, aerr := applyModelBatch(pre, parts[1])
	if aerr != nil {
		k.res.Fatalf("store-level (%s revert): %v", k.name, aerr)
		return false
	}
	if d := compareIndex(exp, indexDump(k.n.db), pre); d != "" {
		k.res.Mismatch(lib.Mismatch{Sig: "store-level-writes:revert", Input: fmt.Sprintf("RevertHead of block %d (%s backend)", pos, k.backend),
			Model: trunc(parts[1], 300), Impl: d})
		return false
	}
	k.res.Hit("corr-kv-writes-equal")
	if len(k.stored) > 0 {
		k.stored = k.stored[:len(k.stored)-1]
	}
	return true
}

// resyncModel rebuilds the model's store from the blocks the real node holds (after the real node was
// reset to a snapshot).
func (k *kvRun) resyncModel() {
	if _, ok := k.ask("node-reset"); !ok {
		return
	}
	h, err := k.n.bc.Height()
	if err != nil {
		return
	}
	replay := openNode(k.g, k.n.newSt, memory.New())
	for i := uint64(0); i <= h && int(i) < len(k.stored); i++ {
		b := k.stored[i]
		sub := &kvRun{f: k.f, res: lib.NewResult("resync"), g: k.g, n: replay, drv: k.drv, backend: k.backend, name: k.name, casmV2Checked: k.casmV2Checked, compiledGuarded: k.compiledGuarded}
		sub.offerKV("resync", int(i), b, b, false)
		replay = sub.n
	}
}

// headAgrees: the head the model derives from ITS store is the real node's head.
func (k *kvRun) headAgrees(pos int) {
	ans, ok := k.ask("node-head")
	if !ok {
		return
	}
	h, hash := headOf(k.n)
	real := "empty"
	if h >= 0 {
		var f felt.Felt
		if _, err := f.SetString(hash); err == nil {
			b := f.Bytes()
			real = fmt.Sprintf("%016x %s", uint64(h), hex.EncodeToString(b[:]))
		}
	}
	k.res.Compared(1)
	k.res.Hit("corr-kv-head")
	if ans != real {
		k.res.Mismatch(lib.Mismatch{Sig: "store-level-head", Input: fmt.Sprintf("after position %d (%s, %s backend)", pos, k.name, k.backend), Model: ans, Impl: real})
	}
}

var _ = bytes.Equal

// ---- read-fault injection ------------------------------------------------------------------------

var errReadInjected = errors.New("c02: injected read failure")

// readFaultDB fails the k-th Get (on the database or on any batch it hands out) with an error that is
// NOT db.ErrKeyNotFound.
type readFaultDB struct {
	*memory.Database
	reads  *atomic.Int64
	failAt int64
}

type readFaultBatch struct {
	db.IndexedBatch
	f *readFaultDB
}

func (f *readFaultDB) tick() error {
	n := f.reads.Add(1)
	if f.failAt != 0 && n == f.failAt {
		return errReadInjected
	}
	return nil
}

func (f *readFaultDB) Get(key []byte, cb func([]byte) error) error {
	if err := f.tick(); err != nil {
		return err
	}
	return f.Database.Get(key, cb)
}

func (b *readFaultBatch) Get(key []byte, cb func([]byte) error) error {
	if err := b.f.tick(); err != nil {
		return err
	}
	return b.IndexedBatch.Get(key, cb)
}

func (f *readFaultDB) NewBatch() db.Batch            { return &readFaultBatch{f.Database.NewIndexedBatch(), f} }
func (f *readFaultDB) NewBatchWithSize(int) db.Batch { return f.NewBatch() }
func (f *readFaultDB) NewIndexedBatch() db.IndexedBatch {
	return &readFaultBatch{f.Database.NewIndexedBatch(), f}
}
func (f *readFaultDB) NewIndexedBatchWithSize(int) db.IndexedBatch    { return f.NewIndexedBatch() }
func (f *readFaultDB) WithListener(db.EventListener) db.KeyValueStore { return f }
func (f *readFaultDB) Update(fn func(db.IndexedBatch) error) error {
	b := f.NewIndexedBatch()
	if err := fn(b); err != nil {
		return err
	}
	return b.Write()
}
func (f *readFaultDB) Write(fn func(db.Batch) error) error {
	b := f.NewBatch()
	if err := fn(b); err != nil {
		return err
	}
	return b.Write()
}
