//go:build verif

// Harness for C02 — "a block is stored only if hash, linkage, tx hashes and state root all verify".
//
//	phase 1 (hashcorr.go)  Lean hash terms evaluated with the real primitives == juno's hashes
//	phase 2 (tamper.go)    every single-field / compound / re-hashed tampering and wrongly placed
//	                       valid blocks offered to the real node on both state backends
//	phase 3 (fixtures.go)  real-network fixture blocks of every format: hash agreement
package main

import (
	"encoding/json"
	"os"
	"runtime"
	"strings"
	"sync"
	"time"

	"verif/harness/lib"
)

func main() {
	f := lib.ParseFlags()
	res := lib.NewResult("case = one block offered to SanityCheckNewHeight+Store on a real node (a tampered, re-hashed or " +
		"misplaced variant of a valid generated block) or one hash correspondence line; non-trivial = every offered block and " +
		"every tx/block/state-diff hash line (ConcatCounts and version-dispatch lines are counted as trivial); distinct by " +
		"(chain, backend, position, tamper site, mutation) resp. by request line")
	r := lib.NewRNG(f.Seed)

	if f.Replay != "" {
		runReplay(f, res)
		lib.Finish(f, res)
	}

	// debugging aid (never set by ./check): run one phase only
	if os.Getenv("C02_ONLY") == "store-level" {
		runStoreLevel(f, res)
		lib.Finish(f, res)
	}
	if os.Getenv("C02_ONLY") == "fault" {
		for _, chain := range []int{0, 100} {
			if fg, err := buildChain(f, chainTask{Chain: chain}); err != nil {
				res.Fatalf("generator (fault injection): %v", err)
			} else {
				for _, dstNew := range []bool{false, true} {
					runFaultInjection(f, res, fg, dstNew, (len(fg.Bundles)-1)/2)
				}
			}
		}
		lib.Finish(f, res)
	}
	if os.Getenv("C02_ONLY") == "class" {
		runClassHash(f, res)
		lib.Finish(f, res)
	}
	if os.Getenv("C02_ONLY") == "bodylen" {
		runBodyLen(f, res, nil)
		lib.Finish(f, res)
	}
	if os.Getenv("C02_ONLY") == "net" {
		runNetBoundaries(f, res, nil)
		lib.Finish(f, res)
	}

	// phase "wide": position-exhaustive tampering around multiples of the worker count (alone:
	// it changes GOMAXPROCS)
	tWide := time.Now()
	runWide(f, res, nil)
	res.SetExtra("wide_phase_seconds", time.Since(tWide).Seconds())
	checkpoint(f, res)

	// phase "store-level": the model's own index store against the real database after every
	// operation (own driver process; next to the tamper passes)
	var kvDone sync.WaitGroup
	kvDone.Add(1)
	go func() {
		defer kvDone.Done()
		tKV := time.Now()
		runStoreLevel(f, res)
		res.SetExtra("store_level_phase_seconds", time.Since(tKV).Seconds())
		tNet := time.Now()
		runNetBoundaries(f, res, nil)
		res.SetExtra("network_boundaries_phase_seconds", time.Since(tNet).Seconds())
		tBody := time.Now()
		runBodyLen(f, res, nil)
		res.SetExtra("body_length_phase_seconds", time.Since(tBody).Seconds())
	}()

	// hash correspondence and fixtures run next to the first tamper pass (own driver process)
	var side sync.WaitGroup
	side.Add(1)
	go func() {
		defer side.Done()
		drv, err := lib.StartDriver(f.Driver)
		if err != nil {
			res.Fatalf("driver: %v", err)
			return
		}
		t0 := time.Now()
		runHashCorrespondence(f, res, drv, r.Fork(1))
		t1 := time.Now()
		runFixtures(f, res, drv)
		drv.Close()
		runClassFixtures(f, res)
		t2 := time.Now()
		runClassHash(f, res)
		res.SetExtra("phase_seconds", map[string]float64{"hash_correspondence": t1.Sub(t0).Seconds(), "fixtures": t2.Sub(t1).Seconds(),
			"class_hash": time.Since(t2).Seconds()})
	}()

	// phase 2: a directed history first (its report is the most detailed one), then independent
	// chains in parallel
	tTamper := time.Now()
	for _, dstNew := range []bool{false, true} {
		runOldRootDirected(f, res, dstNew)
		runDowngradeDirected(f, res, dstNew)
	}
	// fault injection into Store's batch: the all-kinds middle block of chain 0 and of the Pedersen chain
	for _, chain := range []int{0, 100} {
		if fg, err := buildChain(f, chainTask{Chain: chain}); err != nil {
			res.Fatalf("generator (fault injection): %v", err)
		} else {
			for _, dstNew := range []bool{false, true} {
				runFaultInjection(f, res, fg, dstNew, (len(fg.Bundles)-1)/2)
			}
		}
	}
	nChains := f.Scale(4, 12)
	workers := runtime.NumCPU()
	if workers > 16 {
		workers = 16
	}
	// two passes: everything that cannot crash the process first; the result file is checkpointed
	// before the nil-dereference tamperings of the second pass
	for _, risky := range []bool{false, true} {
		var jsonDone sync.WaitGroup
		if risky {
			// phase "json" (feeder JSON -> sn2core -> SanityCheckNewHeight on real fixture blocks) also
			// contains nil-producing tamperings (a transaction version switched in the JSON): after
			// the checkpoint as well, next to the second pass
			side.Wait()
			checkpoint(f, res)
			jsonDone.Add(1)
			go func() {
				defer jsonDone.Done()
				tJSON := time.Now()
				runJSONTamper(f, res)
				res.SetExtra("json_phase_seconds", time.Since(tJSON).Seconds())
			}()
		}
		var tasks []chainTask
		chains := []int{100} // one chain of the pre-0.13.2 Pedersen format
		for c := 0; c < nChains; c++ {
			chains = append(chains, c)
		}
		for _, c := range chains {
			for _, dstNew := range []bool{false, true} {
				for slot := 0; slot < tamperSlots(f); slot++ {
					tasks = append(tasks, chainTask{Chain: c, SrcNew: c%2 == 1, DstNew: dstNew, Slot: slot, Risky: risky})
				}
			}
		}
		ch := make(chan chainTask)
		var wg sync.WaitGroup
		for w := 0; w < workers; w++ {
			wg.Add(1)
			go func() {
				defer wg.Done()
				for t := range ch {
					runTask(f, res, t, nil)
				}
			}()
		}
		for _, t := range tasks {
			ch <- t
		}
		close(ch)
		wg.Wait()
		jsonDone.Wait()
		checkpoint(f, res)
	}
	res.SetExtra("tamper_phase_seconds", time.Since(tTamper).Seconds())
	kvDone.Wait()
	lib.Finish(f, res)
}

// checkpoint writes what has been found so far: if a later tampering kills the process (a panic on
// a goroutine of juno's cannot be recovered), ./check still reads the violations and their replays.
func checkpoint(f lib.Flags, res *lib.Result) {
	if f.Out != "" {
		_ = res.Write(f.Out)
	}
}

// runReplay re-runs the single offer named by a replay file written by ./check.
func runReplay(f lib.Flags, res *lib.Result) {
	raw, err := os.ReadFile(f.Replay)
	if err != nil {
		res.Fatalf("replay: %v", err)
		return
	}
	// the store-level phase and the read-fault oracle are short and deterministic: their replays name the
	// operation, the whole phase is re-run
	var generic struct {
		Replay map[string]any `json:"replay"`
	}
	if err := json.Unmarshal(raw, &generic); err == nil {
		c, _ := generic.Replay["case"].(string)
		if c == "store-level" || c == "read-fault" {
			runStoreLevel(f, res)
			return
		}
		// the class-hash phase and the fixture part of the body-length phase are short and deterministic as well
		if c == "class-definition" || strings.HasPrefix(c, "compiled-class:") {
			runClassHash(f, res)
			return
		}
		if c == "body-length-fixture" || c == "adapted-counts" {
			runBodyLenFixtures(f, res)
			return
		}
	}
	var doc struct {
		Replay replay `json:"replay"`
	}
	if err := json.Unmarshal(raw, &doc); err != nil {
		res.Fatalf("replay: %v", err)
		return
	}
	rp := doc.Replay
	if rp.Task.Chain == bodyLenChain || rp.Task.Chain == bodyLenChain+1 {
		ff := f
		if rp.Seed != 0 {
			ff.Seed = rp.Seed
		}
		if rp.Tier != "" {
			ff.Tier = rp.Tier
		}
		runBodyLen(ff, res, &rp)
		return
	}
	if rp.Task.Chain == 200 {
		ff := f
		if rp.Seed != 0 {
			ff.Seed = rp.Seed
		}
		if rp.Tier != "" {
			ff.Tier = rp.Tier
		}
		runNetBoundaries(ff, res, &rp)
		return
	}
	ff := f
	if rp.Seed != 0 {
		ff.Seed = rp.Seed
	}
	if rp.Tier != "" {
		ff.Tier = rp.Tier
	}
	if rp.Wide != nil {
		runWide(ff, res, rp.Wide)
		return
	}
	runTask(ff, res, rp.Task, &rp)
}
