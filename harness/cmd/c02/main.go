//go:build verif

// Harness for C02 — "a block is stored only if hash, linkage, tx hashes and state root all verify".
//
//	phase 1 (hashcorr.go)  Lean hash terms evaluated with the real primitives == juno's hashes
//	phase 2 (tamper.go)    every single-field / compound / re-hashed tampering and wrongly placed
//	                       valid blocks offered to the real node on both state backends
//	phase 3 (fixtures.go)  real-network fixture blocks of every format: hash agreement
package main

import (
	"encoding/json"
	"os"
	"runtime"
	"sync"
	"time"

	"verif/harness/lib"
)

func main() {
	f := lib.ParseFlags()
	res := lib.NewResult("case = one block offered to SanityCheckNewHeight+Store on a real node (a tampered, re-hashed or " +
		"misplaced variant of a valid generated block) or one hash correspondence line; non-trivial = every offered block and " +
		"every tx/block/state-diff hash line (ConcatCounts and version-dispatch lines are counted as trivial); distinct by " +
		"(chain, backend, position, tamper site, mutation) resp. by request line")
	r := lib.NewRNG(f.Seed)

	if f.Replay != "" {
		runReplay(f, res)
		lib.Finish(f, res)
	}

	drv, err := lib.StartDriver(f.Driver)
	if err != nil {
		res.Note("driver: %v", err)
	} else {
		t0 := time.Now()
		runHashCorrespondence(f, res, drv, r.Fork(1))
		t1 := time.Now()
		runFixtures(f, res, drv)
		drv.Close()
		res.SetExtra("phase_seconds", map[string]float64{"hash_correspondence": t1.Sub(t0).Seconds(), "fixtures": time.Since(t1).Seconds()})
	}

	// phase 2: a directed history first (its report is the most detailed one), then independent
	// chains in parallel
	tTamper := time.Now()
	for _, dstNew := range []bool{false, true} {
		runOldRootDirected(f, res, dstNew)
	}
	nChains := f.Scale(4, 12)
	var tasks []chainTask
	for c := 0; c < nChains; c++ {
		for _, dstNew := range []bool{false, true} {
			for slot := 0; slot < tamperSlots(f); slot++ {
				tasks = append(tasks, chainTask{Chain: c, SrcNew: c%2 == 1, DstNew: dstNew, Slot: slot})
			}
		}
	}
	workers := runtime.NumCPU()
	if workers > 16 {
		workers = 16
	}
	ch := make(chan chainTask)
	var wg sync.WaitGroup
	for w := 0; w < workers; w++ {
		wg.Add(1)
		go func() {
			defer wg.Done()
			for t := range ch {
				runTask(f, res, t, nil)
			}
		}()
	}
	for _, t := range tasks {
		ch <- t
	}
	close(ch)
	wg.Wait()
	res.SetExtra("tamper_phase_seconds", time.Since(tTamper).Seconds())
	lib.Finish(f, res)
}

// runReplay re-runs the single offer named by a replay file written by ./check.
func runReplay(f lib.Flags, res *lib.Result) {
	raw, err := os.ReadFile(f.Replay)
	if err != nil {
		res.Note("replay: %v", err)
		return
	}
	var doc struct {
		Replay replay `json:"replay"`
	}
	if err := json.Unmarshal(raw, &doc); err != nil {
		res.Note("replay: %v", err)
		return
	}
	rp := doc.Replay
	ff := f
	if rp.Seed != 0 {
		ff.Seed = rp.Seed
	}
	if rp.Tier != "" {
		ff.Tier = rp.Tier
	}
	runTask(ff, res, rp.Task, &rp)
}
