//go:build verif

package main

// Phase 1 — hash correspondence: generated (and deliberately malformed) blocks, transactions,
// receipts and state diffs go to the Lean model, which answers with a hash TERM; the term is
// evaluated here with the real Pedersen / Poseidon / Keccak / trie and must equal what juno's
// core.BlockHash / core.TransactionHash / StateDiff.Hash / commitments return on the same input.

import (
	"fmt"
	"math/big"
	"reflect"
	"strings"

	"github.com/NethermindEth/juno/blockchain/networks"
	"github.com/NethermindEth/juno/core"
	"github.com/NethermindEth/juno/core/felt"
	"verif/harness/lib"
)

type corrCase struct {
	kind string // tx | bh | sd | parts
	line string
	impl string // canonical result of the implementation
	desc string
}

func implFelt(f felt.Felt, err error, panicked bool) string {
	if err != nil || panicked {
		return "err"
	}
	return feltHex(&f)
}

func realTxHash(tx core.Transaction, net *networks.Network) string {
	var h felt.Felt
	err, panicked, _ := lib.Try(func() error {
		var e error
		h, e = core.TransactionHash(tx, net)
		return e
	})
	return implFelt(h, err, panicked)
}

func realBlockHash(b *core.Block, sd *core.StateDiff, net *networks.Network, override *felt.Felt) (string, *core.BlockCommitments) {
	var h felt.Felt
	var c *core.BlockCommitments
	bb := lib.DeepCopy(b).(*core.Block)
	dd := lib.DeepCopy(sd).(*core.StateDiff)
	err, panicked, _ := lib.Try(func() error {
		var e error
		h, c, e = core.BlockHash(bb, dd, net, override, core.TrieBackend)
		return e
	})
	return implFelt(h, err, panicked), c
}

func txLine(net *networks.Network, tx core.Transaction) string {
	var w wbuf
	w.tok("tx")
	w.net(net)
	w.tx(tx)
	return w.String()
}

func bhLine(net *networks.Network, override *felt.Felt, b *core.Block, sd *core.StateDiff) string {
	var w wbuf
	w.tok("bh")
	w.net(net)
	w.optFelt(override)
	w.block(b)
	w.stateDiff(sd)
	return w.String()
}

func sdLine(sd *core.StateDiff) string {
	var w wbuf
	w.tok("sd")
	w.stateDiff(sd)
	return w.String()
}

func partsLine(format string, b *core.Block, sd *core.StateDiff) string {
	var w wbuf
	w.tok("parts")
	w.tok(format)
	w.block(b)
	w.stateDiff(sd)
	return w.String()
}

func formatOf(version string) string {
	v, err := core.ParseBlockVersion(version)
	if err != nil {
		return "err"
	}
	switch {
	case v.GreaterThanEqual(core.Ver0_13_4):
		return "v0134"
	case v.GreaterThanEqual(core.Ver0_13_2):
		return "v0132"
	}
	return "pre0132"
}

var edgeVersions = []string{"", "0.13.2", "0.13.3", "0.13.4", "0.13.10", "0.14", "0.14.0.7", "00.013.04", "0.13",
	"0.12.3", "0.11.1", "0.11.0", "0.10.9", "1.0.0", "0.13.x", "0.13.2-rc1", "0..1", ".", "0.13.18446744073709551616",
	"0.13.18446744073709551615", "+0.13.2", "0.13.2.", "0.14.1", "0.13.2.garbage", "0.13. 2",
	// 32 bytes and more: felt.SetBytes wraps modulo the prime (the model must reduce too)
	wrapModP("0.14.0", "0.14.0."), wrapModP("0.14.0", "0.14.1."), wrapModP("0.13.2", "0.13.2."), wrapModP("0.13.4", "0.12.3."),
	"0.14.0." + strings.Repeat("\xff", 25), "0.13.3." + strings.Repeat("z", 40)}

func bigFelt(s string) *felt.Felt {
	n, _ := new(big.Int).SetString(s, 0)
	return new(felt.Felt).SetBigInt(n)
}

var edgeFelts = []*felt.Felt{
	lib.F(0), lib.F(1), lib.F(2), bigFelt("0xffffffffffffffffffffffffffffffff"), bigFelt("0x100000000000000000000000000000000"),
	bigFelt("0x100000000000000000000000000000003"), bigFelt("0x7ffffffffffffffffffffffffffffffffffffffffffffffffffffffffffffff"),
	bigFelt("0x800000000000011000000000000000000000000000000000000000000000000"), // P-1
	bigFelt("0xffffffffffffffff"), bigFelt("0x10000000000000000"),
}

func queryVersion(v uint64) *core.TransactionVersion {
	f := bigFelt("0x100000000000000000000000000000000")
	f.Add(f, lib.F(v))
	return (*core.TransactionVersion)(f)
}

// edgeTx applies one deliberately unusual change to a generated transaction.
func edgeTx(r *lib.RNG, tx core.Transaction) (core.Transaction, string) {
	tx = lib.DeepCopy(tx).(core.Transaction)
	setBounds := func(m map[core.Resource]core.ResourceBounds) string {
		if m == nil {
			return "bounds-nil-map"
		}
		switch r.Intn(7) {
		case 0:
			rb := m[core.ResourceL1Gas]
			rb.MaxPricePerUnit = lib.Pick(r, edgeFelts)
			m[core.ResourceL1Gas] = rb
			return "bounds-l1-price-edge"
		case 1:
			rb := m[core.ResourceL2Gas]
			rb.MaxAmount = ^uint64(0)
			m[core.ResourceL2Gas] = rb
			return "bounds-l2-amount-max"
		case 2:
			delete(m, core.ResourceL1DataGas)
			return "bounds-l1data-absent"
		case 3:
			m[core.ResourceL1DataGas] = core.ResourceBounds{MaxAmount: uint64(r.Intn(9))}
			return "bounds-l1data-nil-price"
		case 4:
			m[core.ResourceL1DataGas] = core.ResourceBounds{MaxAmount: uint64(r.Intn(9)), MaxPricePerUnit: lib.Pick(r, edgeFelts)}
			return "bounds-l1data-edge"
		case 5:
			delete(m, core.ResourceL1Gas)
			return "bounds-l1-absent"
		default:
			m[core.Resource(4)] = core.ResourceBounds{MaxAmount: 5, MaxPricePerUnit: lib.F(5)}
			return "bounds-unknown-key"
		}
	}
	switch t := tx.(type) {
	case *core.InvokeTransaction:
		switch r.Intn(8) {
		case 0:
			t.Version = queryVersion(t.Version.AsFelt().Uint64())
			return tx, "invoke-query-bit"
		case 1:
			t.Version = new(core.TransactionVersion).SetUint64(uint64(lib.Pick(r, []int{2, 4, 5})))
			return tx, "invoke-bad-version"
		case 2:
			if t.ResourceBounds != nil {
				return tx, "invoke-" + setBounds(t.ResourceBounds)
			}
		case 3:
			t.NonceDAMode = core.DataAvailabilityMode(lib.Pick(r, []uint32{1 << 31, ^uint32(0), 2}))
			t.FeeDAMode = core.DataAvailabilityMode(lib.Pick(r, []uint32{1 << 31, ^uint32(0), 0}))
			return tx, "invoke-damode-edge"
		case 4:
			t.ProofFacts = []felt.Felt{}
			return tx, "invoke-prooffacts-empty"
		case 5:
			t.ProofFacts = []felt.Felt{*lib.F(0)}
			return tx, "invoke-prooffacts-zero"
		case 6:
			t.Tip = ^uint64(0)
			return tx, "invoke-tip-max"
		default:
			t.CallData = append(t.CallData, *lib.Pick(r, edgeFelts))
			return tx, "invoke-calldata-edge"
		}
	case *core.DeclareTransaction:
		switch r.Intn(5) {
		case 0:
			t.Version = new(core.TransactionVersion).SetUint64(0)
			return tx, "declare-v0-with-hash"
		case 1:
			t.Version = new(core.TransactionVersion).SetUint64(0)
			t.TransactionHash = nil
			if t.MaxFee == nil {
				t.MaxFee = lib.F(3) // v3 declares have no MaxFee; a nil one panics in PedersenElems
			}
			return tx, "declare-v0-nil-hash"
		case 2:
			t.Version = queryVersion(t.Version.AsFelt().Uint64())
			return tx, "declare-query-bit"
		case 3:
			if t.ResourceBounds != nil {
				return tx, "declare-" + setBounds(t.ResourceBounds)
			}
		default:
			t.Version = new(core.TransactionVersion).SetUint64(4)
			return tx, "declare-bad-version"
		}
	case *core.DeployTransaction:
		if r.Bool() {
			t.TransactionHash = nil
			return tx, "deploy-nil-hash"
		}
	case *core.DeployAccountTransaction:
		switch r.Intn(4) {
		case 0:
			t.Version = new(core.TransactionVersion).SetUint64(uint64(lib.Pick(r, []int{0, 2})))
			return tx, "deployaccount-bad-version"
		case 1:
			t.Version = queryVersion(t.Version.AsFelt().Uint64())
			return tx, "deployaccount-query-bit"
		case 2:
			if t.ResourceBounds != nil {
				return tx, "deployaccount-" + setBounds(t.ResourceBounds)
			}
		}
	case *core.L1HandlerTransaction:
		switch r.Intn(3) {
		case 0:
			t.Nonce = nil
			return tx, "l1handler-nil-nonce"
		case 1:
			t.Version = new(core.TransactionVersion).SetUint64(1)
			return tx, "l1handler-bad-version"
		}
	}
	return tx, "tx-unchanged"
}

// edgeBundle applies one unusual change to a generated bundle (block hash still has to agree).
func edgeBundle(r *lib.RNG, b *lib.Bundle) (*lib.Bundle, string) {
	c := b.Clone()
	h := c.Block.Header
	d := c.SU.StateDiff
	switch r.Intn(16) {
	case 0, 1, 2:
		h.ProtocolVersion = lib.Pick(r, edgeVersions)
		return c, "version:" + h.ProtocolVersion
	case 3:
		h.SequencerAddress = nil
		return c, "nil-sequencer"
	case 4:
		h.L1GasPriceSTRK = nil
		return c, "nil-strk-price"
	case 5:
		if r.Bool() {
			h.L1DataGasPrice = nil
		} else {
			h.L1DataGasPrice = &core.GasPrice{PriceInWei: h.L1DataGasPrice.PriceInWei}
		}
		return c, "nil-data-gas-price"
	case 6:
		h.L2GasPrice = nil
		return c, "nil-l2-gas-price"
	case 7:
		h.L1DAMode = core.L1DAMode(lib.Pick(r, []uint{0, 1, 2, 3, 255}))
		return c, fmt.Sprintf("damode-%d", h.L1DAMode)
	case 8:
		h.TransactionCount = lib.Pick(r, []uint64{0, 1, 1 << 32, ^uint64(0), 1<<59 + 17})
		h.EventCount = lib.Pick(r, []uint64{0, 1 << 63, ^uint64(0)})
		return c, "counts-edge"
	case 9:
		// the same address deployed and replaced
		for a, ch := range d.DeployedContracts {
			x := *ch
			feltInc(&x)
			d.ReplacedClasses[a] = &x
			return c, "diff-deployed-and-replaced"
		}
		a := *lib.F(0x999)
		d.DeployedContracts[a] = lib.F(5)
		d.ReplacedClasses[a] = lib.F(6)
		return c, "diff-deployed-and-replaced"
	case 10:
		k := *lib.F(0xabc)
		d.DeclaredV1Classes[k] = lib.F(11)
		d.MigratedClasses[felt.SierraClassHash(k)] = felt.CasmClassHash(*lib.F(12))
		return c, "diff-declared-and-migrated"
	case 11:
		d.DeclaredV0Classes = append(d.DeclaredV0Classes, lib.F(0xd9), lib.F(0xd1), lib.F(0xd9))
		return c, "diff-v0-dup-unsorted"
	case 12:
		d.StorageDiffs[*lib.F(0x777)] = map[felt.Felt]*felt.Felt{}
		return c, "diff-empty-inner-map"
	case 13:
		for _, rc := range c.Block.Receipts {
			switch r.Intn(4) {
			case 0:
				rc.ExecutionResources = nil
			case 1:
				rc.ExecutionResources.TotalGasConsumed = nil
			case 2:
				rc.Reverted, rc.RevertReason = true, ""
			case 3:
				rc.Reverted = false
			}
		}
		return c, "receipts-edge"
	case 14:
		for i, tx := range c.Block.Transactions {
			if r.Bool() {
				// a nil transaction hash makes juno panic inside a commitment worker goroutine
				// (not recoverable by the caller): keep those for the `tx` lines only
				if et, _ := edgeTx(r, tx); et.Hash() != nil {
					c.Block.Transactions[i] = et
				}
			}
		}
		return c, "txs-edge"
	default:
		sites := enumerate(c)
		for try := 0; try < 20; try++ {
			i := r.Intn(len(sites))
			if strings.HasPrefix(sites[i].Norm, ".Classes") {
				continue
			}
			m := lib.Pick(r, sites[i].Muts)
			if sites[i].Norm == ".Block.Transactions" && strings.HasPrefix(m, "append") {
				continue // a nil transaction panics inside a commitment worker goroutine (unrecoverable)
			}
			return tamper(c, i, m), "site:" + sites[i].Norm + ":" + m
		}
		return c, "unchanged"
	}
}

func stripIdx(s string) string { return s }

// runHashCorrespondence is phase 1.
func runHashCorrespondence(f lib.Flags, res *lib.Result, drv *lib.Driver, r *lib.RNG) {
	net := lib.TestNetwork()
	var cases []corrCase
	add := func(c corrCase) { cases = append(cases, c) }

	nChains := f.Scale(3, 12)
	nBlocks := f.Scale(8, 14)
	nEdge := f.Scale(6, 30)
	var lastGen *lib.ChainGen
	for ci := 0; ci < nChains; ci++ {
		opt := lib.DefaultGenOptions()
		opt.MaxTxs = 5
		g := lib.NewChainGen(r.Fork(uint64(1000+ci)), ci%2 == 1, opt)
		lastGen = g
		for bi := 0; bi < nBlocks; bi++ {
			spec := &lib.BlockSpec{}
			if bi < 4 {
				spec.Version = opt.Versions[bi] // every format at least once per chain
			}
			b, err := g.Next(spec)
			if err != nil {
				res.Fatalf("generator: %v", err)
				return
			}
			format := formatOf(b.Block.ProtocolVersion)
			res.Hit("corr-block-" + format)
			// the valid block: term must evaluate to the declared hash
			add(corrCase{"bh", bhLine(net, nil, b.Block, b.SU.StateDiff), feltHex(b.Block.Hash), "valid block"})
			_, comm := realBlockHash(b.Block, b.SU.StateDiff, net, nil)
			if comm != nil && comm.StateDiffCommitment != nil {
				impl := fmt.Sprintf("%s | %s | %s | %s | %x", feltHex(comm.TransactionCommitment), feltHex(comm.EventCommitment),
					feltHex(comm.ReceiptCommitment), feltHex(comm.StateDiffCommitment), comm.StateDiffLength)
				add(corrCase{"parts", partsLine(format, b.Block, b.SU.StateDiff), impl, "commitments of valid block"})
			}
			sd := lib.DeepCopy(b.SU.StateDiff).(*core.StateDiff)
			hh := sd.Hash()
			add(corrCase{"sd", sdLine(b.SU.StateDiff), fmt.Sprintf("%x %s", sd.Length(), feltHex(&hh)), "state diff"})
			for _, tx := range b.Block.Transactions {
				res.Hit("corr-tx-" + txKindOf(tx))
				add(corrCase{"tx", txLine(net, tx), realTxHash(tx, net), "valid " + txKindOf(tx)})
				for k := 0; k < 2; k++ {
					et, what := edgeTx(r, tx)
					res.Hit("corr-edge-" + what)
					add(corrCase{"tx", txLine(net, et), realTxHash(et, net), what})
				}
			}
			for k := 0; k < nEdge; k++ {
				eb, what := edgeBundle(r, b)
				tag := what
				if i := strings.Index(tag, ":"); i > 0 && !strings.HasPrefix(tag, "version") {
					tag = tag[:i]
				}
				res.Hit("corr-edge-" + tag)
				var override *felt.Felt
				if r.Chance(1, 4) {
					override = lib.Pick(r, edgeFelts)
				}
				impl, _ := realBlockHash(eb.Block, eb.SU.StateDiff, net, override)
				add(corrCase{"bh", bhLine(net, override, eb.Block, eb.SU.StateDiff), impl, what})
				sd := lib.DeepCopy(eb.SU.StateDiff).(*core.StateDiff)
				hh := sd.Hash()
				add(corrCase{"sd", sdLine(eb.SU.StateDiff), fmt.Sprintf("%x %s", sd.Length(), feltHex(&hh)), what})
			}
		}
	}
	// round 6: diffs with Length() == 0 that are NOT the empty diff (k addresses with an empty storage map): the state
	// diff hash and, on every generated block, the block hash must tell them from the empty diff
	for k := 0; k <= 3; k++ {
		zd := core.EmptyStateDiff()
		for j := 0; j < k; j++ {
			zd.StorageDiffs[*lib.F(0x7e57ab10 + uint64(j))] = map[felt.Felt]*felt.Felt{}
		}
		cp := lib.DeepCopy(&zd).(*core.StateDiff)
		hh := cp.Hash()
		res.Hit("corr-sd-zero-length")
		add(corrCase{"sd", sdLine(&zd), fmt.Sprintf("%x %s", cp.Length(), feltHex(&hh)), fmt.Sprintf("zero-length diff with %d empty storage maps", k)})
		if lastGen != nil {
			for _, b := range lastGen.Bundles {
				impl, _ := realBlockHash(b.Block, &zd, net, nil)
				add(corrCase{"bh", bhLine(net, nil, b.Block, &zd), impl, fmt.Sprintf("block %d over a zero-length diff with %d empty storage maps", b.Block.Number, k)})
			}
		}
	}
	// ConcatCounts on edge values, and version support
	for _, tx := range []uint64{0, 1, 1 << 59, 1<<59 + 17, ^uint64(0)} {
		for _, ev := range []uint64{0, 7, ^uint64(0)} {
			for _, sdl := range []uint64{0, 9, 1 << 63, ^uint64(0)} {
				for _, da := range []core.L1DAMode{0, 1, 2} {
					cc := core.ConcatCounts(tx, ev, sdl, da)
					add(corrCase{"cc", fmt.Sprintf("cc %x %x %x %x", tx, ev, sdl, uint(da)), feltHex(&cc), "concat counts"})
				}
			}
		}
	}
	for _, v := range edgeVersions {
		for _, num := range []uint64{0, 5} {
			var w wbuf
			w.tok("dispatch")
			w.net(net)
			w.u64(num)
			w.bytes([]byte(v))
			format := formatOf(v)
			if format == "pre0132" {
				format = "post07" // Sepolia: First07Block = 0
			}
			sup := "supported"
			if core.CheckBlockVersion(v) != nil {
				sup = "unsupported"
			}
			add(corrCase{"dispatch", w.String(), format + " " + sup, "version " + v})
		}
	}

	// VerifyTransactions on the transaction variants whose hash juno does not recompute (the model's
	// verdict needs no hash evaluation for them): ties the model's `strictTxKinds` switch to the code
	v0 := func(n uint64) *core.TransactionVersion { return new(core.TransactionVersion).SetUint64(n) }
	unverifiable := map[string]core.Transaction{
		"declare-v0": &core.DeclareTransaction{TransactionHash: lib.F(0x77), ClassHash: lib.F(1), SenderAddress: lib.F(2), MaxFee: lib.F(3),
			Nonce: lib.F(0), Version: v0(0), TransactionSignature: []felt.Felt{}},
		"l1handler-no-nonce": &core.L1HandlerTransaction{TransactionHash: lib.F(0x78), ContractAddress: lib.F(1), EntryPointSelector: lib.F(2),
			CallData: []felt.Felt{*lib.F(5)}, Version: v0(0)},
		"legacy-deploy": &core.DeployTransaction{TransactionHash: lib.F(0x79), ContractAddressSalt: lib.F(1), ContractAddress: lib.F(2),
			ClassHash: lib.F(3), ConstructorCallData: []felt.Felt{}, Version: v0(0)},
	}
	for name, tx := range unverifiable {
		for _, ver := range []string{"0.10.9", "0.11.0", "0.12.3", "0.13.1", "0.13.2", "0.13.3", "0.13.4", "0.14.1"} {
			var w wbuf
			w.tok("vtx")
			w.net(net)
			w.bytes([]byte(ver))
			w.u64(1)
			w.tx(tx)
			impl := "true"
			if core.VerifyTransactions([]core.Transaction{tx}, net, ver) != nil {
				impl = "false"
			}
			add(corrCase{"vtx", w.String(), impl, "VerifyTransactions " + name + " in " + ver})
		}
	}

	lines := make([]string, len(cases))
	for i, c := range cases {
		lines[i] = c.line
	}
	outs, err := askAllDeadline(drv, lines)
	if err != nil {
		res.Fatalf("driver: %v", err)
		return
	}
	for i, c := range cases {
		model := outs[i]
		got := model
		switch c.kind {
		case "tx", "bh":
			if model != "err" && model != "bad-op" {
				v, err := evalTerm(model)
				if err != nil {
					got = "eval-error: " + err.Error()
				} else {
					got = feltHex(&v)
				}
			}
		case "sd":
			parts := strings.SplitN(model, " ", 2)
			if len(parts) == 2 {
				v, err := evalTerm(parts[1])
				if err != nil {
					got = "eval-error: " + err.Error()
				} else {
					got = parts[0] + " " + feltHex(&v)
				}
			}
		case "parts":
			ps := strings.Split(model, " | ")
			if len(ps) == 5 {
				var outp []string
				for _, p := range ps[:4] {
					v, err := evalTerm(p)
					if err != nil {
						outp = append(outp, "eval-error")
					} else {
						outp = append(outp, feltHex(&v))
					}
				}
				got = strings.Join(append(outp, ps[4]), " | ")
			}
		case "cc":
			// the driver answers with the reduced number, as felt.SetBytes makes it
		}
		res.Compared(1)
		res.Case(c.kind+":"+c.line, c.kind != "cc" && c.kind != "dispatch")
		res.Hit("corr-" + c.kind)
		if c.impl == "err" {
			res.Hit("corr-impl-err")
		}
		if got != c.impl {
			in := c.line
			if len(in) > 1500 {
				in = in[:1500] + "…"
			}
			res.Mismatch(lib.Mismatch{Sig: "hash-" + c.kind + ":" + sigOf(c.desc), Input: map[string]string{"what": c.desc, "line": in},
				Model: got, Impl: c.impl})
		}
		if i < 4 {
			res.Sample(8, map[string]string{"op": c.kind, "what": c.desc, "impl": c.impl, "model_term_prefix": trunc(model, 160)})
		}
	}
}

func trunc(s string, n int) string {
	if len(s) > n {
		return s[:n] + "…"
	}
	return s
}

// sigOf keeps only the stable part of a description.
func sigOf(desc string) string {
	if i := strings.Index(desc, ":"); i > 0 {
		return desc[:i]
	}
	return desc
}

var _ = reflect.TypeOf
