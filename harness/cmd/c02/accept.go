//go:build verif

package main

// Verdict correspondence for `accept` (SanityCheckNewHeight + Store up to the state application):
// the Lean model decides a tampered bundle symbolically. Its hash terms for this very bundle
// (every transaction hash, the block hash per sequencer override) are evaluated here with the real
// primitives and sent along, so that the driver can recognise which declared literals ARE those
// hashes (abstractBundle in Driver.lean). The model's verdict class must be the real node's:
//   model "pass"      <-> real accepted, or rejected while applying the state ("state")
//   model reject X    <-> real rejected with class X
// Real panics (nil dereferences, which the wire format cannot express) are skipped.

import (
	"fmt"
	"math/big"
	"strings"
	"sync"
	"time"

	"github.com/NethermindEth/juno/blockchain/networks"
	"github.com/NethermindEth/juno/core"
	"github.com/NethermindEth/juno/core/felt"
	"verif/harness/lib"
)

type acceptChecker struct {
	drv   *lib.Driver
	net   *networks.Network
	dead  bool
	cache map[string]string // tx line -> evaluated hash ("~" when the model reports an error)
	mu    sync.Mutex
}

func newAcceptChecker(f lib.Flags, res *lib.Result, g *lib.ChainGen) *acceptChecker {
	drv, err := lib.StartDriver(f.Driver)
	if err != nil {
		res.Fatalf("accept correspondence: the Lean driver did not start: %v", err)
		return nil
	}
	return &acceptChecker{drv: drv, net: g.Net, cache: map[string]string{}}
}

func (a *acceptChecker) close() {
	if a != nil && !a.dead {
		a.drv.Close()
	}
}

// askDeadline bounds a driver round trip: a driver that hangs must not hang the harness.
func (a *acceptChecker) ask(line string) (string, error) {
	if a.dead {
		return "", fmt.Errorf("driver abandoned after an earlier timeout")
	}
	var out string
	var err error
	if !lib.WithDeadline(3*time.Minute, func() { out, err = a.drv.Ask(line) }) {
		a.dead = true
		return "", fmt.Errorf("driver did not answer within 3 minutes")
	}
	return out, err
}

func (a *acceptChecker) evalLine(line string) (string, error) {
	out, err := a.ask(line)
	if err != nil {
		return "", err
	}
	if out == "err" {
		return "~", nil
	}
	if out == "bad-op" {
		return "", fmt.Errorf("driver: bad-op")
	}
	v, err := evalTerm(out)
	if err != nil {
		return "", err
	}
	return feltHex(&v), nil
}

func (w *wbuf) bundle(b *lib.Bundle) { w.bundleWith(b, nil) }

// bundleWith: classVals (optional) maps a Sierra class key to the value of the MODEL's class-hash term for its
// definition (round 5: the accept verdict then depends on the model's SierraClass.Hash, not on the real one).
func (w *wbuf) bundleWith(b *lib.Bundle, classVals map[felt.Felt]string) {
	w.block(b.Block)
	w.felt(b.SU.BlockHash)
	w.felt(b.SU.NewRoot)
	w.felt(b.SU.OldRoot)
	w.stateDiff(b.SU.StateDiff)
	keys := sortedKeys(b.Classes)
	w.u64(uint64(len(keys)))
	for _, k := range keys {
		w.tok(feltHex(&k))
		switch c := b.Classes[k].(type) {
		case *core.DeprecatedCairoClass:
			w.tok("1")
			w.tok("0")
			w.tok("0")
			continue
		default:
			w.tok("0")
			if v, ok := classVals[k]; ok {
				if v == "~" {
					v = "0"
				}
				w.tok(v)
			} else if h, err := c.Hash(); err != nil {
				w.tok("0")
			} else {
				var bi big.Int
				h.BigInt(&bi)
				w.tok(bi.Text(16))
			}
			// ClassDef.compiledBad: does Compiled.Hash(V2) return for this definition?
			w.boolean(compiledBad(c))
		}
	}
}

// compiledBad: the V2 hash of the definition's compiled class cannot be computed (nil Compiled, segment lengths beyond
// the bytecode). Judged on a deep copy: Go slices up to the capacity, and StoreOn offers a deep copy.
func compiledBad(def core.ClassDefinition) bool {
	sc, ok := def.(*core.SierraClass)
	if !ok {
		return false
	}
	cc := lib.DeepCopy(sc).(*core.SierraClass)
	_, panicked, _ := lib.Try(func() error { _ = cc.Compiled.Hash(core.HashVersionV2); return nil })
	return panicked
}

// modelVerdict returns the model's verdict class for bundle b offered to a node whose head is
// (headNumber, headHash) (headHash nil: empty chain).
func (a *acceptChecker) modelVerdict(b *lib.Bundle, headNumber uint64, headHash *felt.Felt) (string, error) {
	net := a.net
	var tv []string
	for _, tx := range b.Block.Transactions {
		if tx == nil {
			return "", fmt.Errorf("nil transaction")
		}
		line := txLine(net, tx)
		v, ok := a.cache[line]
		if !ok {
			var err error
			if v, err = a.evalLine(line); err != nil {
				return "", err
			}
			a.cache[line] = v
		}
		tv = append(tv, v)
	}
	// the block hash for each fallback the verification loop may try
	overrides := []*felt.Felt{nil, nil}
	if b.Block.SequencerAddress == nil {
		overrides = []*felt.Felt{&felt.Zero, net.BlockHashMetaInfo.FallBackSequencerAddress}
	}
	var bv []string
	for i, ov := range overrides {
		if i == 1 && b.Block.SequencerAddress != nil {
			bv = append(bv, bv[0])
			continue
		}
		v, err := a.evalLine(bhLine(net, ov, b.Block, b.SU.StateDiff))
		if err != nil {
			return "", err
		}
		bv = append(bv, v)
	}
	// the class hash of every Sierra definition, computed by the model (term evaluated with the real Poseidon)
	classVals := map[felt.Felt]string{}
	for k, def := range b.Classes {
		sc, ok := def.(*core.SierraClass)
		if !ok || sc.AbiHash == nil || sc.ProgramHash == nil {
			continue
		}
		nilSel := false
		for _, eps := range [][]core.SierraEntryPoint{sc.EntryPoints.External, sc.EntryPoints.L1Handler, sc.EntryPoints.Constructor} {
			for _, ep := range eps {
				if ep.Selector == nil {
					nilSel = true
				}
			}
		}
		if nilSel {
			continue
		}
		line := clsHashLine(classVersionLimited(), sc)
		v, ok := a.cache[line]
		if !ok {
			var err error
			if v, err = a.evalLine(line); err != nil {
				return "", err
			}
			a.cache[line] = v
		}
		classVals[k] = v
	}
	var w wbuf
	w.tok("accept")
	w.net(net)
	if headHash == nil {
		w.tok("~")
	} else {
		w.u64(headNumber)
		w.felt(headHash)
	}
	w.bundleWith(b, classVals)
	w.u64(uint64(len(tv)))
	for _, v := range tv {
		w.tok(v)
	}
	w.u64(uint64(len(bv)))
	for _, v := range bv {
		w.tok(v)
	}
	return a.ask(w.String())
}

// compare records the correspondence of one offer.
func (a *acceptChecker) compare(res *lib.Result, tc tamperCase, headNumber uint64, headHash *felt.Felt, realClass string) {
	if a == nil || realClass == "panic" || realClass == "malformed" || realClass == "hang" {
		return
	}
	for _, tx := range tc.Bundle.Block.Transactions {
		if tx == nil || tx.Hash() == nil {
			return
		}
	}
	if len(tc.Bundle.Block.Transactions) != len(tc.Bundle.Block.Receipts) && realClass != "tx-receipt-len" {
		return
	}
	model, err := a.modelVerdict(tc.Bundle, headNumber, headHash)
	if err != nil {
		res.Fatalf("accept correspondence (%s): %v", tc.Name, err)
		return
	}
	// answer: "<verdict of accept> | <every check that fails on its own>"
	parts := strings.SplitN(model, " | ", 2)
	if len(parts) != 2 {
		res.Mismatch(lib.Mismatch{Sig: "accept-verdict:driver-answer", Input: tc.Detail, Model: model, Impl: realClass})
		return
	}
	verdict := parts[0]
	failing := map[string]bool{}
	for _, c := range strings.Split(parts[1], ",") {
		if c != "" {
			failing[c] = true
		}
	}
	res.Compared(1)
	res.Hit("corr-accept")
	res.Hit("corr-accept-model-" + verdict)
	realPassed := realClass == "accepted" || realClass == "state"
	ok := (verdict == "pass") == (len(failing) == 0) && // the model's two views agree with each other
		realPassed == (len(failing) == 0) && (realPassed || failing[realClass])
	if !ok {
		res.Mismatch(lib.Mismatch{Sig: "accept-verdict:" + tc.Name, Input: tc.Detail, Model: model, Impl: realClass})
	}
}

// askAllDeadline bounds a scripted exchange with the driver.
func askAllDeadline(drv *lib.Driver, lines []string) ([]string, error) {
	var outs []string
	var err error
	if !lib.WithDeadline(10*time.Minute, func() { outs, err = drv.AskAll(lines) }) {
		return nil, fmt.Errorf("driver did not answer %d lines within 10 minutes", len(lines))
	}
	return outs, err
}
