//go:build verif

package main

// Serialisation of juno's structs into the token format of the Lean driver
// (lean/JunoModel/C02/Driver.lean): hex numbers, "~" for nil, lists as length + elements,
// records as their fields in the order of the Lean structures.

import (
	"encoding/hex"
	"fmt"
	"math/big"
	"sort"
	"strings"

	"github.com/NethermindEth/juno/blockchain/networks"
	"github.com/NethermindEth/juno/core"
	"github.com/NethermindEth/juno/core/felt"
)

type wbuf struct{ sb strings.Builder }

func (w *wbuf) tok(s string) {
	if w.sb.Len() > 0 {
		w.sb.WriteByte(' ')
	}
	w.sb.WriteString(s)
}
func (w *wbuf) String() string { return w.sb.String() }

func (w *wbuf) u64(x uint64) { w.tok(fmt.Sprintf("%x", x)) }

func feltHex(f *felt.Felt) string {
	var b big.Int
	f.BigInt(&b)
	return b.Text(16)
}

// felt writes a non-optional felt field; a nil pointer (a field the struct's version does not
// use) is written as 0.
func (w *wbuf) felt(f *felt.Felt) {
	if f == nil {
		w.tok("0")
		return
	}
	w.tok(feltHex(f))
}

func (w *wbuf) optFelt(f *felt.Felt) {
	if f == nil {
		w.tok("~")
		return
	}
	w.tok(feltHex(f))
}

func (w *wbuf) felts(fs []felt.Felt) {
	w.u64(uint64(len(fs)))
	for i := range fs {
		w.felt(&fs[i])
	}
}

func (w *wbuf) bytes(b []byte) {
	if len(b) == 0 {
		w.tok("-")
		return
	}
	w.tok(hex.EncodeToString(b))
}

func (w *wbuf) boolean(b bool) {
	if b {
		w.tok("1")
	} else {
		w.tok("0")
	}
}

func (w *wbuf) gasPrice(g *core.GasPrice) {
	if g == nil {
		w.tok("~")
		return
	}
	w.optFelt(g.PriceInWei)
	w.optFelt(g.PriceInFri)
}

func (w *wbuf) header(h *core.Header) {
	w.felt(h.Hash)
	w.felt(h.ParentHash)
	w.u64(h.Number)
	w.felt(h.GlobalStateRoot)
	w.optFelt(h.SequencerAddress)
	w.u64(h.TransactionCount)
	w.u64(h.EventCount)
	w.u64(h.Timestamp)
	w.bytes([]byte(h.ProtocolVersion))
	w.felt(h.L1GasPriceETH)
	w.optFelt(h.L1GasPriceSTRK)
	w.u64(uint64(h.L1DAMode))
	w.gasPrice(h.L1DataGasPrice)
	w.gasPrice(h.L2GasPrice)
}

func (w *wbuf) bounds(m map[core.Resource]core.ResourceBounds) {
	for _, r := range []core.Resource{core.ResourceL1Gas, core.ResourceL2Gas, core.ResourceL1DataGas} {
		rb, ok := m[r]
		if !ok {
			w.tok("~")
			continue
		}
		w.u64(rb.MaxAmount)
		w.optFelt(rb.MaxPricePerUnit)
	}
}

func verHex(v *core.TransactionVersion) string {
	if v == nil {
		return "0"
	}
	return feltHex(v.AsFelt())
}

func (w *wbuf) tx(t core.Transaction) {
	switch x := t.(type) {
	case *core.InvokeTransaction:
		w.tok("I")
		w.felt(x.TransactionHash)
		w.felts(x.CallData)
		w.felts(x.TransactionSignature)
		w.felt(x.MaxFee)
		w.felt(x.ContractAddress)
		w.tok(verHex(x.Version))
		w.felt(x.EntryPointSelector)
		w.felt(x.Nonce)
		w.felt(x.SenderAddress)
		w.bounds(x.ResourceBounds)
		w.u64(x.Tip)
		w.felts(x.PaymasterData)
		w.felts(x.AccountDeploymentData)
		w.u64(uint64(x.NonceDAMode))
		w.u64(uint64(x.FeeDAMode))
		w.felts(x.ProofFacts)
	case *core.DeclareTransaction:
		w.tok("D")
		w.optFelt(x.TransactionHash)
		w.felt(x.ClassHash)
		w.felt(x.SenderAddress)
		w.felt(x.MaxFee)
		w.felts(x.TransactionSignature)
		w.felt(x.Nonce)
		w.tok(verHex(x.Version))
		w.felt(x.CompiledClassHash)
		w.bounds(x.ResourceBounds)
		w.u64(x.Tip)
		w.felts(x.PaymasterData)
		w.felts(x.AccountDeploymentData)
		w.u64(uint64(x.NonceDAMode))
		w.u64(uint64(x.FeeDAMode))
	case *core.DeployTransaction:
		w.tok("P")
		w.optFelt(x.TransactionHash)
		w.felt(x.ContractAddressSalt)
		w.felt(x.ContractAddress)
		w.felt(x.ClassHash)
		w.felts(x.ConstructorCallData)
		w.tok(verHex(x.Version))
	case *core.DeployAccountTransaction:
		w.tok("A")
		w.felt(x.TransactionHash)
		w.felt(x.ContractAddressSalt)
		w.felt(x.ContractAddress)
		w.felt(x.ClassHash)
		w.felts(x.ConstructorCallData)
		w.tok(verHex(x.Version))
		w.felt(x.MaxFee)
		w.felts(x.TransactionSignature)
		w.felt(x.Nonce)
		w.bounds(x.ResourceBounds)
		w.u64(x.Tip)
		w.felts(x.PaymasterData)
		w.u64(uint64(x.NonceDAMode))
		w.u64(uint64(x.FeeDAMode))
	case *core.L1HandlerTransaction:
		w.tok("L")
		w.felt(x.TransactionHash)
		w.felt(x.ContractAddress)
		w.felt(x.EntryPointSelector)
		w.optFelt(x.Nonce)
		w.felts(x.CallData)
		w.tok(verHex(x.Version))
	default:
		panic(fmt.Sprintf("wire: unknown transaction type %T", t))
	}
}

func (w *wbuf) receipt(r *core.TransactionReceipt) {
	w.felt(r.Fee)
	w.u64(uint64(r.FeeUnit))
	w.u64(uint64(len(r.Events)))
	for _, e := range r.Events {
		w.felt(e.From)
		w.felts(e.Keys)
		w.felts(e.Data)
	}
	var steps uint64
	if r.ExecutionResources != nil && r.ExecutionResources.TotalGasConsumed != nil {
		g := r.ExecutionResources.TotalGasConsumed
		w.u64(g.L1Gas)
		w.u64(g.L1DataGas)
		w.u64(g.L2Gas)
	} else {
		w.tok("~")
	}
	if r.ExecutionResources != nil {
		steps = r.ExecutionResources.Steps
	}
	w.u64(steps)
	if r.L1ToL2Message != nil {
		w.felt(r.L1ToL2Message.Selector)
	} else {
		w.tok("~")
	}
	w.u64(uint64(len(r.L2ToL1Message)))
	for _, m := range r.L2ToL1Message {
		w.felt(m.From)
		w.felts(m.Payload)
		w.tok(new(big.Int).SetBytes(m.To.Bytes()).Text(16))
	}
	w.felt(r.TransactionHash)
	w.boolean(r.Reverted)
	w.bytes([]byte(r.RevertReason))
}

func sortedKeys[V any](m map[felt.Felt]V) []felt.Felt {
	ks := make([]felt.Felt, 0, len(m))
	for k := range m {
		ks = append(ks, k)
	}
	sort.Slice(ks, func(i, j int) bool { return ks[i].Cmp(&ks[j]) < 0 })
	return ks
}

func (w *wbuf) fmap(m map[felt.Felt]*felt.Felt) {
	w.u64(uint64(len(m)))
	for _, k := range sortedKeys(m) {
		w.tok(feltHex(&k))
		w.felt(m[k])
	}
}

func (w *wbuf) stateDiff(d *core.StateDiff) {
	w.u64(uint64(len(d.StorageDiffs)))
	for _, a := range sortedKeys(d.StorageDiffs) {
		w.tok(feltHex(&a))
		w.fmap(d.StorageDiffs[a])
	}
	w.fmap(d.Nonces)
	w.fmap(d.DeployedContracts)
	w.u64(uint64(len(d.DeclaredV0Classes)))
	for _, c := range d.DeclaredV0Classes {
		w.felt(c)
	}
	w.fmap(d.DeclaredV1Classes)
	w.fmap(d.ReplacedClasses)
	mig := make(map[felt.Felt]*felt.Felt, len(d.MigratedClasses))
	for k, v := range d.MigratedClasses {
		vv := felt.Felt(v)
		mig[felt.Felt(k)] = &vv
	}
	w.fmap(mig)
}

func (w *wbuf) block(b *core.Block) {
	w.header(b.Header)
	w.u64(uint64(len(b.Transactions)))
	for _, t := range b.Transactions {
		w.tx(t)
	}
	w.u64(uint64(len(b.Receipts)))
	for _, r := range b.Receipts {
		w.receipt(r)
	}
}

func (w *wbuf) net(n *networks.Network) {
	w.felt(n.L2ChainIDFelt())
	mi := n.BlockHashMetaInfo
	w.u64(mi.First07Block)
	if len(mi.UnverifiableRange) == 2 {
		w.u64(mi.UnverifiableRange[0])
		w.u64(mi.UnverifiableRange[1])
	} else {
		w.tok("~")
	}
	w.optFelt(mi.FallBackSequencerAddress)
}
