//go:build verif

package main

// Enumeration of every single-field tampering of a bundle (block + state update + classes) by
// reflection over juno's own structs, so that a field added to any of them is picked up
// without touching this file (its default expectation is "committed: must be rejected").

import (
	"fmt"
	"math/big"
	"reflect"
	"sort"
	"strings"

	"github.com/NethermindEth/juno/core"
	"github.com/NethermindEth/juno/core/felt"
	"github.com/NethermindEth/juno/l1/eth"
	"github.com/bits-and-blooms/bloom/v3"
	"verif/harness/lib"
)

var (
	feltType    = reflect.TypeOf(felt.Felt{})
	feltPtrType = reflect.TypeOf((*felt.Felt)(nil))
	bloomPtr    = reflect.TypeOf((*bloom.BloomFilter)(nil))
	bigPtr      = reflect.TypeOf((*big.Int)(nil))
	ethAddrType = reflect.TypeOf(eth.Address{})
	classesType = reflect.TypeOf(map[felt.Felt]core.ClassDefinition{})
	txIfaceType = reflect.TypeOf((*core.Transaction)(nil)).Elem()
)

// isFelt: felt.Felt and the named types with the same representation
// (felt.SierraClassHash, felt.CasmClassHash, core.TransactionVersion, ...).
func isFelt(t reflect.Type) bool { return t.Kind() == reflect.Array && t.ConvertibleTo(feltType) }

// site is one place of a bundle that can be tampered with.
type site struct {
	Path string   // concrete path, e.g. Block.Transactions[1]<Invoke v3>.CallData[0]
	Norm string   // path with indices and keys removed: stable across seeds (used in Sigs)
	Kind string   // felt | nilfelt | uint | bool | string | slice | map | bloom | addr | classes
	Muts []string // mutation names applicable here
	Ctx  siteCtx
}

// siteCtx is what the expectation table needs to know about where the site lives.
type siteCtx struct {
	TxKind  string // "Invoke v3", "Declare v2", ... ("" outside transactions)
	Len     int    // length of the slice / map at a structural site
	IsZero  bool   // the felt / uint at the site is zero
	UintVal uint64
	Elem    string // element type name of a slice site
}

type walker struct {
	sites  []site
	target int // >= 0: apply mutation `mut` at the site with this index
	mut    string
	done   bool
	txKind string
}

func txKindOf(t core.Transaction) string {
	ver := func(v *core.TransactionVersion) string {
		if v == nil {
			return "nil"
		}
		w := v.WithoutQueryBit()
		return (&w).AsFelt().Text(10)
	}
	switch x := t.(type) {
	case *core.InvokeTransaction:
		return "Invoke v" + ver(x.Version)
	case *core.DeclareTransaction:
		return "Declare v" + ver(x.Version)
	case *core.DeployTransaction:
		return "Deploy v" + ver(x.Version)
	case *core.DeployAccountTransaction:
		return "DeployAccount v" + ver(x.Version)
	case *core.L1HandlerTransaction:
		return "L1Handler v" + ver(x.Version)
	}
	return fmt.Sprintf("%T", t)
}

func positions(n int) []int {
	switch {
	case n <= 0:
		return nil
	case n == 1:
		return []int{0}
	case n == 2:
		return []int{0, 1}
	}
	return []int{0, n / 2, n - 1}
}

func posName(i, n int) string {
	switch {
	case i == 0:
		return "first"
	case i == n-1:
		return "last"
	}
	return "mid"
}

// visit registers a site; when the walker is in apply mode and this is the target, f is run.
func (w *walker) visit(path, norm, kind string, muts []string, ctx siteCtx, apply func(mut string)) {
	ctx.TxKind = w.txKind
	idx := len(w.sites)
	w.sites = append(w.sites, site{Path: path, Norm: norm, Kind: kind, Muts: muts, Ctx: ctx})
	if w.target == idx && !w.done {
		apply(w.mut)
		w.done = true
	}
}

func feltInc(f *felt.Felt) { f.Add(f, new(felt.Felt).SetUint64(1)) }
func feltAsPtr(v reflect.Value) *felt.Felt {
	return v.Addr().Convert(feltPtrType).Interface().(*felt.Felt)
}

func (w *walker) walk(v reflect.Value, path, norm string) {
	if w.done {
		return // apply mode: the mutation has been made, nothing after it matters
	}
	t := v.Type()
	switch {
	case t == classesType:
		w.walkClasses(v, path, norm)
		return
	case t == bloomPtr:
		if !v.IsNil() {
			w.visit(path, norm, "bloom", []string{"add"}, siteCtx{}, func(string) {
				v.Interface().(*bloom.BloomFilter).Add([]byte("c02-tamper"))
			})
		}
		return
	case t == bigPtr:
		return
	case t == ethAddrType:
		w.visit(path, norm, "addr", []string{"inc"}, siteCtx{}, func(string) {
			a := v.Interface().(eth.Address)
			a[len(a)-1]++
			v.Set(reflect.ValueOf(a))
		})
		return
	case isFelt(t):
		f := feltAsPtr(v)
		w.visit(path, norm, "felt", []string{"inc"}, siteCtx{IsZero: f.IsZero()}, func(string) { feltInc(f) })
		return
	}
	switch t.Kind() {
	case reflect.Ptr:
		el := t.Elem()
		if v.IsNil() {
			if isFelt(el) {
				w.visit(path, norm, "nilfelt", []string{"set1"}, siteCtx{}, func(string) {
					n := reflect.New(el)
					n.Elem().Set(reflect.ValueOf(*new(felt.Felt).SetUint64(1)).Convert(el))
					v.Set(n)
				})
			}
			return
		}
		if isFelt(el) {
			f := v.Convert(feltPtrType).Interface().(*felt.Felt)
			muts := []string{"inc"}
			if !f.IsZero() {
				muts = append(muts, "zero")
			}
			// nil-ing a pointer: only where juno reads the field synchronously (transaction hashing,
			// header checks); a nil inside a commitment worker goroutine would kill the whole process
			if w.txKind != "" && !strings.HasSuffix(norm, ".TransactionHash") && !strings.HasSuffix(norm, ".Version") {
				muts = append(muts, "setnil")
			}
			w.visit(path, norm, "felt", muts, siteCtx{IsZero: f.IsZero()}, func(m string) {
				switch m {
				case "zero":
					f.SetUint64(0)
				case "setnil":
					v.Set(reflect.Zero(t))
				default:
					feltInc(f)
				}
			})
			return
		}
		w.walk(v.Elem(), path, norm)
	case reflect.Interface:
		if v.IsNil() {
			return
		}
		inner := v.Elem()
		if tx, ok := v.Interface().(core.Transaction); ok {
			k := txKindOf(tx)
			old := w.txKind
			w.txKind = k
			w.walk(inner, path+"<"+k+">", norm+"<"+k+">")
			w.txKind = old
			return
		}
		w.walk(inner, path, norm)
	case reflect.Struct:
		for i := 0; i < t.NumField(); i++ {
			f := t.Field(i)
			if !f.IsExported() {
				continue
			}
			if f.Anonymous {
				w.walk(v.Field(i), path, norm)
				continue
			}
			w.walk(v.Field(i), path+"."+f.Name, norm+"."+f.Name)
		}
	case reflect.Slice:
		w.walkSlice(v, path, norm)
	case reflect.Map:
		w.walkMap(v, path, norm)
	case reflect.Uint, reflect.Uint8, reflect.Uint16, reflect.Uint32, reflect.Uint64:
		muts := []string{"inc"}
		if t.Kind() != reflect.Uint64 {
			muts = append(muts, "inc2") // enums: also reach the first value outside the enum
		}
		w.visit(path, norm, "uint", muts, siteCtx{IsZero: v.Uint() == 0, UintVal: v.Uint()}, func(m string) {
			d := uint64(1)
			if m == "inc2" {
				d = 2
			}
			v.SetUint(v.Uint() + d)
		})
	case reflect.Bool:
		w.visit(path, norm, "bool", []string{"flip"}, siteCtx{}, func(string) { v.SetBool(!v.Bool()) })
	case reflect.String:
		muts := []string{"append"}
		if v.Len() > 0 {
			// wrapP*: a LONGER string with the same value modulo the field prime — what felt.SetBytes
			// makes of a string of 32 bytes or more (same prefix; prefix with the last digit bumped)
			muts = append(muts, "chop", "wrapP", "wrapPbump")
			if c := v.String()[v.Len()-1]; c >= '0' && c <= '9' {
				muts = append(muts, "zeropad") // "0.14.0" -> "0.14.00": same parsed version, other bytes
			}
		}
		w.visit(path, norm, "string", muts, siteCtx{Len: v.Len()}, func(m string) {
			switch m {
			case "chop":
				v.SetString(v.String()[:v.Len()-1])
			case "zeropad":
				x := v.String()
				v.SetString(x[:len(x)-1] + "0" + x[len(x)-1:])
			case "wrapP":
				v.SetString(wrapModP(v.String(), v.String()+"."))
			case "wrapPbump":
				b := []byte(v.String())
				b[len(b)-1]++
				v.SetString(wrapModP(v.String(), string(b)+"."))
			default:
				v.SetString(v.String() + "1")
			}
		})
	}
}

func (w *walker) walkSlice(v reflect.Value, path, norm string) {
	t := v.Type()
	n := v.Len()
	if t.Elem().Kind() == reflect.Uint8 {
		w.visit(path, norm, "bytes", []string{"append"}, siteCtx{Len: n}, func(string) {
			v.Set(reflect.Append(v, reflect.ValueOf(byte('x'))))
		})
		return
	}
	// structural tamperings of the list itself
	muts := []string{"append"}
	if n > 0 {
		muts = append(muts, "droplast", "duplast")
	}
	if n > 1 && !reflect.DeepEqual(v.Index(0).Interface(), v.Index(1).Interface()) {
		muts = append(muts, "swap01") // swapping equal elements would not be a tampering
	}
	if n == 0 {
		muts = append(muts, "appendzero")
	}
	w.visit(path, norm, "slice", muts, siteCtx{Len: n, Elem: t.Elem().String()}, func(m string) {
		switch m {
		case "append", "appendzero":
			el := reflect.New(t.Elem()).Elem()
			fillNew(el, m == "appendzero")
			v.Set(reflect.Append(v, el))
		case "droplast":
			v.Set(v.Slice(0, n-1))
		case "duplast":
			v.Set(reflect.Append(v, reflect.ValueOf(lib.DeepCopy(v.Index(n-1).Interface()))))
		case "swap01":
			a := reflect.ValueOf(lib.DeepCopy(v.Index(0).Interface()))
			b := reflect.ValueOf(lib.DeepCopy(v.Index(1).Interface()))
			v.Index(0).Set(b)
			v.Index(1).Set(a)
		}
	})
	if w.done {
		return
	}
	idxs := positions(n)
	if t.Elem() == txIfaceType {
		idxs = idxs[:0]
		for i := 0; i < n; i++ { // every transaction: each kind / version is a struct of its own
			idxs = append(idxs, i)
		}
	}
	for _, i := range idxs {
		w.walk(v.Index(i), fmt.Sprintf("%s[%d]", path, i), norm+"[]")
	}
}

// fillNew makes a fresh element for an "append" tampering: felts become 7 (or 0), pointers to
// structs are allocated with felt fields set, so that the new element is well-formed.
func fillNew(el reflect.Value, zero bool) {
	t := el.Type()
	switch {
	case isFelt(t):
		if !zero {
			el.Set(reflect.ValueOf(*new(felt.Felt).SetUint64(7)).Convert(t))
		}
	case t.Kind() == reflect.Ptr:
		n := reflect.New(t.Elem())
		fillNew(n.Elem(), zero)
		el.Set(n)
	case t.Kind() == reflect.Struct:
		for i := 0; i < t.NumField(); i++ {
			if t.Field(i).IsExported() && (t.Field(i).Type.Kind() == reflect.Ptr || t.Field(i).Type.Kind() == reflect.Struct || isFelt(t.Field(i).Type)) &&
				t.Field(i).Type != bloomPtr && t.Field(i).Type != bigPtr {
				fillNew(el.Field(i), zero)
			}
		}
	}
}

func sortedMapKeys(v reflect.Value) []reflect.Value {
	keys := v.MapKeys()
	sort.Slice(keys, func(i, j int) bool { return keyLess(keys[i], keys[j]) })
	return keys
}

func keyLess(a, b reflect.Value) bool {
	if isFelt(a.Type()) {
		x := a.Convert(feltType).Interface().(felt.Felt)
		y := b.Convert(feltType).Interface().(felt.Felt)
		return x.Cmp(&y) < 0
	}
	switch a.Kind() {
	case reflect.Uint, reflect.Uint8, reflect.Uint16, reflect.Uint32, reflect.Uint64:
		return a.Uint() < b.Uint()
	}
	return fmt.Sprint(a.Interface()) < fmt.Sprint(b.Interface())
}

func keyString(k reflect.Value) string {
	if isFelt(k.Type()) {
		x := k.Convert(feltType).Interface().(felt.Felt)
		return x.String()
	}
	return fmt.Sprint(k.Interface())
}

// bumpKey returns key+1 (a key not present in the map is searched upwards).
func bumpKey(m reflect.Value, k reflect.Value) reflect.Value {
	cur := k
	for i := 0; i < 1000; i++ {
		n := reflect.New(k.Type()).Elem()
		if isFelt(k.Type()) {
			x := cur.Convert(feltType).Interface().(felt.Felt)
			feltInc(&x)
			n.Set(reflect.ValueOf(x).Convert(k.Type()))
		} else {
			n.SetUint(cur.Uint() + 1)
		}
		if !m.MapIndex(n).IsValid() {
			return n
		}
		cur = n
	}
	panic("bumpKey: no free key")
}

func (w *walker) walkMap(v reflect.Value, path, norm string) {
	if v.IsNil() {
		return
	}
	keys := sortedMapKeys(v)
	n := len(keys)
	muts := []string{}
	if n > 0 {
		muts = append(muts, "delfirst", "dellast", "rekeyfirst", "rekeylast", "addcopy")
	}
	if n > 2 {
		muts = append(muts, "delmid", "rekeymid")
	}
	if len(muts) > 0 {
		w.visit(path, norm, "map", muts, siteCtx{Len: n}, func(m string) {
			pick := keys[0]
			switch {
			case strings.HasSuffix(m, "last"), m == "addcopy":
				pick = keys[n-1]
			case strings.HasSuffix(m, "mid"):
				pick = keys[n/2]
			}
			val := v.MapIndex(pick)
			switch {
			case strings.HasPrefix(m, "del"):
				v.SetMapIndex(pick, reflect.Value{})
			case strings.HasPrefix(m, "rekey"):
				nk := bumpKey(v, pick)
				v.SetMapIndex(pick, reflect.Value{})
				v.SetMapIndex(nk, val)
			case m == "addcopy":
				nk := bumpKey(v, pick)
				v.SetMapIndex(nk, reflect.ValueOf(lib.DeepCopy(val.Interface())))
			}
		})
	}
	if w.done {
		return
	}
	for _, i := range positions(n) {
		k := keys[i]
		tmp := reflect.New(v.Type().Elem()).Elem()
		tmp.Set(v.MapIndex(k))
		before := len(w.sites)
		wasDone := w.done
		w.walk(tmp, fmt.Sprintf("%s[%s]", path, keyString(k)), norm+"[]")
		if !wasDone && w.done && w.target >= before {
			v.SetMapIndex(k, tmp) // write a mutated value-typed entry back
		}
	}
}

// walkClasses: class definitions are a black box for C02 (VerifyClassHashes); a few whole-entry
// tamperings instead of field-by-field.
func (w *walker) walkClasses(v reflect.Value, path, norm string) {
	if v.IsNil() {
		return
	}
	m := v.Interface().(map[felt.Felt]core.ClassDefinition)
	keys := sortedKeys(m)
	for _, i := range positions(len(keys)) {
		k := keys[i]
		kind := "Sierra"
		if _, ok := m[k].(*core.DeprecatedCairoClass); ok {
			kind = "Cairo0"
		}
		p := fmt.Sprintf("%s[%s]<%s>", path, k.String(), kind)
		nrm := norm + "[]<" + kind + ">"
		w.visit(p, nrm, "classes", []string{"edit", "del", "rekey"}, siteCtx{Len: len(keys)}, func(mut string) {
			switch mut {
			case "edit":
				switch c := m[k].(type) {
				case *core.SierraClass:
					// SierraClass.Hash() reads ProgramHash / AbiHash (precomputed by the adapter),
					// not Program / Abi themselves
					ph := *c.ProgramHash
					feltInc(&ph)
					c.ProgramHash = &ph
				case *core.DeprecatedCairoClass:
					c.Abi = append(append([]byte{}, c.Abi...), ' ')
				}
			case "del":
				delete(m, k)
			case "rekey":
				nk := k
				for {
					feltInc(&nk)
					if _, ok := m[nk]; !ok {
						break
					}
				}
				m[nk] = m[k]
				delete(m, k)
			}
		})
	}
	w.visit(path, norm, "classes", []string{"addextra"}, siteCtx{Len: len(keys)}, func(string) {
		h, c := extraSierraClass()
		m[h] = c
	})
	// round 5: field by field through the definition of the first Sierra class (what SierraClass.Hash()
	// reads, what it does not read, and the compiled class nobody compares)
	for _, k := range keys {
		if c, ok := m[k].(*core.SierraClass); ok {
			w.walkSierra(c, fmt.Sprintf("%s[%s]<Sierra>", path, k.String()), norm+"[]<Sierra>")
			break
		}
	}
}

const classTag = "CONTRACT_CLASS_V"

// wrapClassVersion returns a semantic version string prefix ++ 33 bytes such that classTag+result has the
// value of classTag+orig modulo the Stark prime (what felt.SetBytes makes of a string of 32 bytes or more).
func wrapClassVersion(orig, prefix string) string {
	return wrapModP(classTag+orig, classTag+prefix)[len(classTag):]
}

// walkSierra enumerates the fields of one Sierra class definition. The map holds a pointer, and the
// bundle under the walker is a private deep copy, so the fields are mutated in place.
func (w *walker) walkSierra(c *core.SierraClass, path, norm string) {
	v := reflect.ValueOf(c).Elem()
	muts := []string{"append"}
	if len(c.SemanticVersion) > 0 {
		muts = append(muts, "chop", "wrapPtag", "wrapPtagbump")
	}
	w.visit(path+".SemanticVersion", norm+".SemanticVersion", "string", muts, siteCtx{Len: len(c.SemanticVersion)}, func(m string) {
		sv := c.SemanticVersion
		switch m {
		case "chop":
			c.SemanticVersion = sv[:len(sv)-1]
		case "wrapPtag":
			c.SemanticVersion = wrapClassVersion(sv, sv+".")
		case "wrapPtagbump":
			b := []byte(sv)
			b[len(b)-1]++
			c.SemanticVersion = wrapClassVersion(sv, string(b)+".")
		default:
			c.SemanticVersion = sv + "1"
		}
	})
	for _, name := range []string{"AbiHash", "ProgramHash", "EntryPoints", "Program", "Abi"} {
		w.walk(v.FieldByName(name), path+"."+name, norm+"."+name)
	}
	// an entry point moved from one list to another (same selector / index, other type)
	if n := len(c.EntryPoints.External); n > 0 {
		w.visit(path+".EntryPoints", norm+".EntryPoints", "struct", []string{"external-to-l1handler", "external-to-constructor"}, siteCtx{Len: n}, func(m string) {
			ep := c.EntryPoints.External[n-1]
			c.EntryPoints.External = append([]core.SierraEntryPoint{}, c.EntryPoints.External[:n-1]...)
			if m == "external-to-l1handler" {
				c.EntryPoints.L1Handler = append(append([]core.SierraEntryPoint{}, c.EntryPoints.L1Handler...), ep)
			} else {
				c.EntryPoints.Constructor = append(append([]core.SierraEntryPoint{}, c.EntryPoints.Constructor...), ep)
			}
		})
	}
	if c.Compiled != nil {
		w.visit(path+".Compiled", norm+".Compiled", "ptr", []string{"setnil"}, siteCtx{}, func(string) { c.Compiled = nil })
	}
	if c.Compiled != nil {
		cv := reflect.ValueOf(c.Compiled).Elem()
		for _, name := range []string{"Bytecode", "CompilerVersion", "External"} {
			w.walk(cv.FieldByName(name), path+".Compiled."+name, norm+".Compiled."+name)
		}
	}
}

// extraSierraClass is a well-formed Sierra class (its hash verifies) that no generated diff declares.
func extraSierraClass() (felt.Felt, *core.SierraClass) {
	F := lib.F
	casm := &core.CasmClass{
		Bytecode:        []felt.Felt{*F(9), *F(9), *F(9)},
		CompilerVersion: "2.1.0",
		Prime:           new(big.Int).SetUint64(1),
		External:        []core.CasmEntryPoint{},
		L1Handler:       []core.CasmEntryPoint{},
		Constructor:     []core.CasmEntryPoint{},
	}
	cls := &core.SierraClass{
		Abi:     "[c02 extra]",
		AbiHash: F(4242),
		EntryPoints: core.SierraEntryPointsByType{
			Constructor: []core.SierraEntryPoint{},
			External:    []core.SierraEntryPoint{{Index: 0, Selector: F(4243)}},
			L1Handler:   []core.SierraEntryPoint{},
		},
		Program:         []felt.Felt{*F(4), *F(2), *F(4), *F(2)},
		ProgramHash:     F(4244),
		SemanticVersion: "0.1.0",
		Compiled:        casm,
	}
	h, err := cls.Hash()
	if err != nil {
		panic(err)
	}
	return h, cls
}

var starkP, _ = new(big.Int).SetString("800000000000011000000000000000000000000000000000000000000000001", 16)

// wrapModP returns prefix ++ 33 bytes such that the big-endian value of the result is congruent to
// the value of orig modulo the Stark prime: felt.SetBytes maps both strings to the same felt.
func wrapModP(orig, prefix string) string {
	const tail = 33
	v := new(big.Int).SetBytes([]byte(orig))
	lo := new(big.Int).SetBytes(append([]byte(prefix), make([]byte, tail)...))
	d := new(big.Int).Sub(v, lo)
	d.Mod(d, starkP)
	out := new(big.Int).Add(lo, d)
	b := out.Bytes()
	want := len(prefix) + tail
	for len(b) < want {
		b = append([]byte{0}, b...)
	}
	return string(b)
}

// enumerate lists the tamper sites of a bundle.
func enumerate(b *lib.Bundle) []site {
	w := &walker{target: -1}
	w.walk(reflect.ValueOf(b).Elem(), "", "")
	return w.sites
}

// tamper returns a deep copy of b with mutation mut applied at site idx.
func tamper(b *lib.Bundle, idx int, mut string) *lib.Bundle {
	c := b.Clone()
	w := &walker{target: idx, mut: mut}
	w.walk(reflect.ValueOf(c).Elem(), "", "")
	if !w.done {
		panic(fmt.Sprintf("tamper: site %d not reached", idx))
	}
	return c
}
