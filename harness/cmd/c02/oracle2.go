//go:build verif

package main

// Oracles added after the independent review:
//
//   - fault injection into Store's write batch: on a fresh node holding the valid prefix, the k-th batch
//     operation (Put / Delete / DeleteRange) of the VALID block's Store is made to fail, for EVERY k;
//     expected: Store returns an error and the database is byte for byte what it was; then without
//     fault the block is stored ("a failed Store is side-effect free for every failure position").
//   - the stored content of accepted blocks: after the whole valid chain has been stored through
//     SanityCheckNewHeight + Store, every key/value of the destination database must equal the source
//     node's (which built the chain with Finalise) when both use the same state backend — headers,
//     transactions, receipts, state updates, commitments, indexes, state and history.
//   - reverts in the history: RevertHead, a tampered offer (rejected, no effect), the valid block again.
//   - a directed history for the Pedersen formats: protocol version downgraded below 0.11.0 together
//     with a changed transaction field.

import (
	"errors"
	"fmt"
	"sort"
	"sync/atomic"

	"github.com/NethermindEth/juno/core"
	"github.com/NethermindEth/juno/core/felt"
	"github.com/NethermindEth/juno/db"
	"github.com/NethermindEth/juno/db/memory"
	"verif/harness/lib"
)

var errInjected = errors.New("c02: injected batch failure")

// faultDB wraps the memory database: every batch it hands out counts its write operations on a
// shared counter and fails the one whose index is failAt (counting from 1; 0 = never).
type faultDB struct {
	*memory.Database
	ops    *atomic.Int64
	failAt int64
}

type faultBatch struct {
	db.IndexedBatch
	f *faultDB
}

func (b *faultBatch) tick() error {
	n := b.f.ops.Add(1)
	if b.f.failAt != 0 && n == b.f.failAt {
		return errInjected
	}
	return nil
}

func (b *faultBatch) Put(k, v []byte) error {
	if err := b.tick(); err != nil {
		return err
	}
	return b.IndexedBatch.Put(k, v)
}

func (b *faultBatch) Delete(k []byte) error {
	if err := b.tick(); err != nil {
		return err
	}
	return b.IndexedBatch.Delete(k)
}

func (b *faultBatch) DeleteRange(s, e []byte) error {
	if err := b.tick(); err != nil {
		return err
	}
	return b.IndexedBatch.DeleteRange(s, e)
}

func (f *faultDB) NewBatch() db.Batch            { return &faultBatch{f.Database.NewIndexedBatch(), f} }
func (f *faultDB) NewBatchWithSize(int) db.Batch { return f.NewBatch() }
func (f *faultDB) NewIndexedBatch() db.IndexedBatch {
	return &faultBatch{f.Database.NewIndexedBatch(), f}
}
func (f *faultDB) NewIndexedBatchWithSize(int) db.IndexedBatch    { return f.NewIndexedBatch() }
func (f *faultDB) WithListener(db.EventListener) db.KeyValueStore { return f }

func (f *faultDB) Update(fn func(db.IndexedBatch) error) error {
	b := f.NewIndexedBatch()
	if err := fn(b); err != nil {
		return err
	}
	return b.Write()
}

func (f *faultDB) Write(fn func(db.Batch) error) error {
	b := f.NewBatch()
	if err := fn(b); err != nil {
		return err
	}
	return b.Write()
}

// runFaultInjection: every failure position of the valid block's Store, on both backends.
func runFaultInjection(f lib.Flags, res *lib.Result, g *lib.ChainGen, dstNew bool, upto int) {
	backend := "legacy"
	if dstNew {
		backend = "new"
	}
	// the valid prefix
	prefix := memory.New()
	pn := lib.NodeOn(prefix, g.Net, dstNew)
	for i := 0; i < upto; i++ {
		if err := lib.StoreOn(pn, g.Bundles[i]); err != nil {
			res.Fatalf("fault injection: valid prefix block %d rejected: %v", i, err)
			return
		}
	}
	valid := g.Bundles[upto]
	// how many batch operations does the valid Store perform?
	probe := &faultDB{Database: prefix.Copy(), ops: new(atomic.Int64)}
	if err := lib.StoreOn(lib.NodeOn(probe, g.Net, dstNew), valid); err != nil {
		res.Fatalf("fault injection: valid block %d rejected on the counting store: %v", upto, err)
		return
	}
	total := probe.ops.Load()
	if total == 0 {
		res.Fatalf("fault injection: Store of block %d performed no batch operation through the wrapper", upto)
		return
	}
	res.HitN("fault-injection-batch-ops-"+backend, int(total))
	step := int64(1)
	if !f.Thorough() && total > 60 {
		step = total / 60 // quick tier: about 60 positions spread over the batch, plus first and last
	}
	for k := int64(1); k <= total; k += step {
		if k+step > total {
			k = total // always the last operation
		}
		fd := &faultDB{Database: prefix.Copy(), ops: new(atomic.Int64), failAt: k}
		before := dbDigest(fd.Database)
		node := lib.NodeOn(fd, g.Net, dstNew)
		err, panicked, _ := lib.Try(func() error { return lib.StoreOn(node, valid) })
		res.Case(fmt.Sprintf("fault/%v/%d/%d", dstNew, upto, k), true)
		res.Hit("tamper-fault-injection")
		rp := map[string]any{"case": "fault-injection", "block": upto, "failing_batch_operation": k, "of": total, "dst_new_state": dstNew, "seed": f.Seed, "tier": f.Tier}
		switch {
		case panicked:
			res.Violate(lib.Violation{Sig: "store-panics:fault-injection", What: fmt.Sprintf("Store panics when batch operation %d of %d fails (%s backend): %v", k, total, backend, err), Replay: rp})
		case err == nil && fd.ops.Load() < k:
			// the fault was never injected: this run of Store performed fewer batch operations than the counting run
			// (the legacy state update's number of puts varies by one between runs of the same block — scheduling of
			// its worker goroutines); nothing failed, so nothing is to be judged
			res.Hit("fault-injection-position-not-reached-" + backend)
		case err == nil:
			res.Violate(lib.Violation{Sig: "store-ignores-failed-batch-write",
				What: fmt.Sprintf("batch operation %d of %d of the valid block's Store failed (%s backend) and Store returned nil", k, total, backend), Replay: rp})
		case dbDigest(fd.Database) != before:
			res.Violate(lib.Violation{Sig: "failed-store-has-effect",
				What: fmt.Sprintf("Store failed at batch operation %d of %d (%s backend) and the database changed: %s", k, total, backend, dbDiff(prefix, fd.Database)), Replay: rp})
		}
		if k == total {
			break
		}
	}
}

// compareWithSource: the destination's database after storing the whole chain vs the source node's.
func compareWithSource(res *lib.Result, g *lib.ChainGen, n *node, task chainTask) {
	if task.SrcNew != task.DstNew {
		return
	}
	res.Hit("stored-content-compared-with-source")
	res.Case(fmt.Sprintf("stored-content/%d/%v", task.Chain, task.DstNew), true)
	// The legacy trie stores nodes with or without cached child hashes depending on the path that
	// wrote them (Finalise vs Store): same tries, same root (juno verified it), other bytes. That
	// encoding is C01's subject; here the node buckets of the legacy tries are left out.
	skip := [][]byte{db.StateTrie.Key(), db.ContractStorage.Key(), db.ClassesTrie.Key()}
	a, b := filteredCopy(g.SrcDB, skip), filteredCopy(n.db, skip)
	if dbDigest(a) == dbDigest(b) {
		return
	}
	res.Violate(lib.Violation{Sig: "stored-content-differs-from-source",
		What: fmt.Sprintf("after storing the %d valid blocks through SanityCheckNewHeight+Store the database differs from the source node's (same state backend): %s",
			len(g.Bundles), dbDiffValues(a, b)),
		Replay: replay{Task: task, Case: "stored-content"}})
}

// filteredCopy copies a database without the keys that start with one of the prefixes.
func filteredCopy(d *memory.Database, skip [][]byte) *memory.Database {
	out := memory.New()
	it, err := d.NewIterator(nil, false)
	if err != nil {
		panic(err)
	}
	defer it.Close()
	for ok := it.First(); ok; ok = it.Next() {
		k := it.Key()
		drop := false
		for _, p := range skip {
			if len(k) >= len(p) && string(k[:len(p)]) == string(p) {
				drop = true
			}
		}
		if !drop {
			v, _ := it.Value()
			_ = out.Put(append([]byte{}, k...), append([]byte{}, v...))
		}
	}
	return out
}

// revertAndReoffer: RevertHead on the destination, a tampered offer, then the valid head again.
func revertAndReoffer(res *lib.Result, g *lib.ChainGen, n *node, task chainTask) {
	last := len(g.Bundles) - 1
	if last < 1 {
		return
	}
	legacyTrieNodes := [][]byte{db.StateTrie.Key(), db.ContractStorage.Key(), db.ClassesTrie.Key()}
	full := dbDigest(filteredCopy(n.db, legacyTrieNodes))
	if err := n.bc.RevertHead(); err != nil {
		res.Fatalf("revert history: RevertHead failed: %v", err) // C04's subject; here it only blocks the history
		return
	}
	res.Hit("history-revert")
	before := dbDigest(n.db)
	c := g.Bundles[last].Clone()
	c.Block.Timestamp++
	r := offer(n, c)
	res.Case(fmt.Sprintf("revert-history/%d/%v", task.Chain, task.DstNew), true)
	rp := replay{Task: task, Position: last, Case: "history:revert+tampered-offer"}
	if r.err == nil {
		res.Violate(lib.Violation{Sig: "tampered-block-accepted:after-revert", What: "after RevertHead a block with a changed timestamp (hash kept) was stored", Replay: rp})
		return
	}
	if dbDigest(n.db) != before {
		res.Violate(lib.Violation{Sig: "rejected-block-has-effect:" + errClass(r.err), What: "after RevertHead a rejected offer changed the database", Replay: rp})
		return
	}
	if r := offer(n, g.Bundles[last]); r.err != nil {
		res.Violate(lib.Violation{Sig: "valid-block-rejected", What: fmt.Sprintf("after RevertHead the valid head block is rejected: %v", r.err), Replay: rp})
		return
	}
	if dbDigest(filteredCopy(n.db, legacyTrieNodes)) != full {
		res.Violate(lib.Violation{Sig: "stored-content-differs-after-revert-and-restore",
			What: "revert + re-store of the head block does not give back the database the node had", Replay: rp})
	}
}

const downgradeSig = "version-downgrade-skips-tx-hash-verification"
const downgradeWhat = "Pedersen block-hash format (protocol < 0.13.2): the hash does not commit the protocol version string and VerifyTransactions verifies nothing below 0.11.0, so a block whose version string is lowered (\"0.10.0\" or empty) together with a changed transaction field, every hash kept, passes SanityCheckNewHeight and is stored"

// runDowngradeDirected: chain of two 0.12.3 blocks, block 1 = three invoke transactions.
func runDowngradeDirected(f lib.Flags, res *lib.Result, dstNew bool) {
	opt := lib.DefaultGenOptions()
	opt.NoClasses = true
	g := lib.NewChainGen(lib.NewRNG(f.Seed).Fork(5151), false, opt)
	if _, err := g.Next(&lib.BlockSpec{Version: "0.12.3", NoTxs: true}); err != nil {
		res.Fatalf("generator (downgrade-directed): %v", err)
		return
	}
	spec := &lib.BlockSpec{Version: "0.12.3"}
	for len(spec.Txs) < 3 {
		tx := g.GenTx("0.12.3")
		inv, ok := tx.(*core.InvokeTransaction)
		if !ok || inv.Version.Is(3) {
			continue
		}
		spec.Txs = append(spec.Txs, tx)
		spec.Rcs = append(spec.Rcs, g.GenReceipt(tx))
	}
	b, err := g.Next(spec)
	if err != nil {
		res.Fatalf("generator (downgrade-directed): %v", err)
		return
	}
	n := openNode(g, dstNew, memory.New())
	if r := offer(n, g.Bundles[0]); r.err != nil {
		res.Fatalf("downgrade-directed: valid block 0 rejected: %v", r.err)
		return
	}
	base := n.db.Copy()
	before := dbDigest(n.db)
	for _, ver := range []string{"0.12.3", "0.11.0", "0.10.9", "0.10.0", ""} {
		c := b.Clone()
		c.Block.ProtocolVersion = ver
		tx := c.Block.Transactions[1].(*core.InvokeTransaction)
		tx.CallData = append(tx.CallData, *lib.F(77))
		mf := *tx.MaxFee
		feltInc(&mf)
		tx.MaxFee = &mf
		r := offer(n, c)
		res.Case(fmt.Sprintf("downgrade-directed/%v/%q", dstNew, ver), true)
		res.Hit("tamper-directed-downgrade")
		res.Hit("outcome-" + errClass(r.err))
		rp := replay{Task: chainTask{Chain: -3, DstNew: dstNew}, Seed: f.Seed, Tier: f.Tier, Position: 1, Case: "directed:downgrade",
			Detail: fmt.Sprintf("two 0.12.3 blocks; block 1 (three invoke transactions) offered with ProtocolVersion %q, Transactions[1].CallData extended and MaxFee changed, every hash kept", ver)}
		if r.err == nil {
			res.Violate(lib.Violation{Sig: downgradeSig, What: downgradeWhat + " — " + rp.Detail, Replay: rp})
			n = openNode(g, dstNew, base.Copy())
			continue
		}
		if dbDigest(n.db) != before {
			res.Violate(lib.Violation{Sig: "rejected-block-has-effect:" + errClass(r.err), What: "downgrade-directed: rejected block changed the database", Replay: rp})
			n = openNode(g, dstNew, base.Copy())
		}
	}
	if r := offer(n, b); r.err != nil {
		res.Violate(lib.Violation{Sig: "valid-block-rejected", What: fmt.Sprintf("downgrade-directed: valid block 1 rejected: %v", r.err),
			Replay: replay{Position: 1, Case: "valid"}})
	}
}

// rootRelevant renders what the state commitment depends on of an abstract state.
func rootRelevant(s *lib.AbsState) string {
	var out []string
	for a, c := range s.Contracts {
		line := fmt.Sprintf("%s class=%s nonce=%s dep=%v", a.String(), c.Class.String(), c.Nonce.String(), s.Deployed[a])
		var ks []felt.Felt
		for k := range c.Storage {
			ks = append(ks, k)
		}
		for _, k := range sortFelts(ks) {
			v := c.Storage[k]
			line += " " + k.String() + "=" + v.String()
		}
		if !s.Deployed[a] && len(c.Storage) == 0 {
			continue // an address that holds nothing is not in the trie
		}
		out = append(out, line)
	}
	for c, h := range s.Casm {
		out = append(out, "casm "+c.String()+"="+h.String())
	}
	return fmt.Sprint(sortStrings(out))
}

// stateNeutral: applying the tampered diff instead of the valid one gives the same root-relevant state.
func stateNeutral(g *lib.ChainGen, idx int, tampered *lib.Bundle) bool {
	prev := lib.NewAbsState()
	if idx > 0 {
		prev = g.States[idx-1]
	}
	st := prev.Clone()
	if _, panicked, _ := lib.Try(func() error {
		st.Apply(uint64(idx), tampered.SU.StateDiff, tampered.Classes)
		return nil
	}); panicked {
		return false
	}
	return rootRelevant(st) == rootRelevant(g.States[idx])
}

func sortFelts(ks []felt.Felt) []felt.Felt {
	sort.Slice(ks, func(i, j int) bool { return ks[i].Cmp(&ks[j]) < 0 })
	return ks
}

func sortStrings(xs []string) []string {
	sort.Strings(xs)
	return xs
}

// dbDiffValues is dbDiff with the two values of changed keys.
func dbDiffValues(a, b *memory.Database) string {
	out := dbDiff(a, b)
	get := func(d *memory.Database, k []byte) string {
		var v []byte
		_ = d.Get(k, func(x []byte) error { v = append([]byte{}, x...); return nil })
		return fmt.Sprintf("%x", v)
	}
	it, _ := b.NewIterator(nil, false)
	defer it.Close()
	n := 0
	for ok := it.First(); ok && n < 3; ok = it.Next() {
		k := append([]byte{}, it.Key()...)
		va, vb := get(a, k), get(b, k)
		if va != vb && va != "" {
			out += fmt.Sprintf(" [%x: source=%s destination=%s]", k, va, vb)
			n++
		}
	}
	return out
}
