//go:build verif

package main

// Phase "body length" (round 5). The header's TransactionCount / EventCount are hashed as NUMBERS,
// next to commitments over the CONTENT; nothing in juno compares a count with a length. A shortcut in
// a hash / commitment computation that is keyed on a header count (or on a length) instead of on the
// content — "no transactions according to the header: skip the three commitment tries" — leaves every
// single-field tampering rejected (the count itself is hashed) and every valid block accepted. What
// it breaks is this family: the BODY changes its length while the WHOLE header (hash and counts
// included) is kept:
//
//	add-txs        k transaction + receipt pairs (with / without events) appended — in particular to a
//	               valid EMPTY block
//	add-events     events added to existing receipts (a block with transactions and EventCount = 0)
//	remove-all     every transaction and receipt removed from a non-empty block
//	remove-events  every event / the last event removed
//	drop / dup     the last (first) pair dropped, the last pair duplicated
//
// each "sealed" (declared hash kept: must be REJECTED in every format that commits the list — the
// pre-0.7 format commits no events, inside an unverifiable range nothing is compared) and "unsealed"
// (block hash recomputed over the new body, header counts still the old ones: juno as it is accepts —
// it never compares count and length — observed, and the model must agree). Chains: every format on
// Sepolia's parameters (0.12.3 … 0.14.1, three blocks each: empty / with events / with transactions
// but without events) and the boundary network of netbound.go (pre-0.7, post-0.7, unverifiable range);
// both backends; after every rejected offer the database must be byte-identical, afterwards the valid
// block is stored. The real-network fixture blocks get the same family through SanityCheckNewHeight.
//
// The driver op `counts` ties the model's body lengths / derived counts (ModelBody.lean) to
// sn2core.AdaptBlock on every fixture block and to every generated and tampered block.

import (
	"encoding/json"
	"fmt"
	"os"
	"path/filepath"
	"sort"
	"strings"
	"sync"

	"github.com/NethermindEth/juno/adapters/sn2core"
	"github.com/NethermindEth/juno/blockchain/networks"
	"github.com/NethermindEth/juno/core"
	"github.com/NethermindEth/juno/core/felt"
	"github.com/NethermindEth/juno/db/memory"
	"github.com/NethermindEth/juno/l1/eth"
	"github.com/NethermindEth/juno/starknet"
	"verif/harness/lib"
)

const bodyLenChain = 300 // replay.Task.Chain of this phase (301: the boundary network)

var bodyLenVersions = []string{"0.12.3", "0.13.1", "0.13.2", "0.13.3", "0.13.4", "0.14.0", "0.14.1"}

func eventTotal(b *core.Block) uint64 {
	var n uint64
	for _, r := range b.Receipts {
		n += uint64(len(r.Events))
	}
	return n
}

// genPairs draws k valid transactions of the version with their receipts; events: +1 = at least one
// event per receipt, -1 = none, 0 = as drawn
func genPairs(g *lib.ChainGen, version string, k int, events int) ([]core.Transaction, []*core.TransactionReceipt) {
	var txs []core.Transaction
	var rcs []*core.TransactionReceipt
	for len(txs) < k {
		tx := g.GenTx(version)
		rc := g.GenReceipt(tx)
		switch {
		case events < 0:
			rc.Events = []*core.Event{}
		case events > 0 && len(rc.Events) == 0:
			from := g.Addr(1)
			rc.Events = []*core.Event{{From: &from, Keys: []felt.Felt{lib.EventKey(1)}, Data: []felt.Felt{*lib.F(7)}}}
		}
		if events > 0 && len(rcs) == 0 && k >= 2 {
			// round 6: the first receipt of a block "with events" carries TWO messages, the first with a payload of two
			// felts (the generator itself never draws more than one message per receipt) — messages:boundary-shifted
			f0, f1 := g.Addr(4), g.Addr(1) // the second sender must fit the 20 bytes of an L1 address
			rc.L2ToL1Message = []*core.L2ToL1Message{
				{From: &f0, Payload: []felt.Felt{*lib.F(0x61), *lib.F(0x62)}, To: eth.AddressFromBytes([]byte{0x10, 1})},
				{From: &f1, Payload: []felt.Felt{*lib.F(0x63)}, To: eth.AddressFromBytes([]byte{0x10, 2})},
			}
		}
		txs = append(txs, tx)
		rcs = append(rcs, rc)
	}
	return txs, rcs
}

func buildBodyLenChain(f lib.Flags, srcNew bool, custom bool) (*lib.ChainGen, error) {
	opt := lib.DefaultGenOptions()
	opt.EmptyDiffs = 30
	fork := uint64(7400)
	if custom {
		fork = 7401
	}
	g := lib.NewChainGen(lib.NewRNG(f.Seed).Fork(fork), srcNew, opt)
	type bs struct {
		version string
		shape   string // empty | events | noevents
	}
	var plan []bs
	if custom {
		g.Net = customNet()
		g.Src, g.SrcDB = lib.NewNode(g.Net, srcNew)
		plan = []bs{{"0.10.3", "empty"}, {"0.10.3", "events"}, // pre07
			{"0.10.3", "empty"}, {"0.11.0", "events"}, // post07
			{"0.12.3", "empty"}, {"0.12.3", "events"}, // unverifiable range
			{"0.12.3", "noevents"}, {"0.13.2", "empty"}}
	} else {
		for _, v := range bodyLenVersions {
			plan = append(plan, bs{v, "empty"}, bs{v, "events"}, bs{v, "noevents"})
		}
	}
	for i, p := range plan {
		spec := &lib.BlockSpec{Version: p.version}
		switch p.shape {
		case "empty":
			spec.NoTxs = true
		case "events":
			spec.Txs, spec.Rcs = genPairs(g, p.version, 3, +1)
		case "noevents":
			spec.Txs, spec.Rcs = genPairs(g, p.version, 2, -1)
		}
		if _, err := g.Next(spec); err != nil {
			return nil, fmt.Errorf("block %d (%s, %s): %w", i, p.version, p.shape, err)
		}
	}
	return g, nil
}

// bodyLenCases: the family for block pos. expect: "reject" | "accept" | "" (observed).
func bodyLenCases(g *lib.ChainGen, pos int, format string) []netCase {
	b := g.Bundles[pos]
	version := b.Block.ProtocolVersion
	nt := len(b.Block.Transactions)
	ne := eventTotal(b.Block)
	var out []netCase
	// what the sealed variant must meet, by what the format commits
	listExpect := func(events bool) string {
		switch format {
		case "unverifiable":
			return "accept"
		case "pre07":
			if events {
				return "accept"
			}
		}
		return "reject"
	}
	add := func(name, detail string, eventsOnly bool, withRehash bool, c *lib.Bundle) {
		e := listExpect(eventsOnly)
		detail = fmt.Sprintf("%s; header kept (TransactionCount %d, EventCount %d), body now %d transactions / %d receipts / %d events",
			detail, b.Block.TransactionCount, b.Block.EventCount, len(c.Block.Transactions), len(c.Block.Receipts), eventTotal(c.Block))
		out = append(out, netCase{tamperCase{Name: "body-length:" + name, Detail: detail + "; declared hash kept", Bundle: c, MustReject: e == "reject"}, e})
		if withRehash {
			u := c.Clone()
			if rehash(g, u) {
				out = append(out, netCase{tamperCase{Name: "body-length:" + name + "+rehash", Detail: detail + "; block hash recomputed (counts still the old ones)", Bundle: u,
					ObserveOnly: true, Why: "juno never compares a header count with a length: a self-consistent block whose counts disagree with its body is accepted"}, ""})
			}
		}
	}
	appendPairs := func(c *lib.Bundle, txs []core.Transaction, rcs []*core.TransactionReceipt) {
		c.Block.Transactions = append(append([]core.Transaction{}, c.Block.Transactions...), txs...)
		c.Block.Receipts = append(append([]*core.TransactionReceipt{}, c.Block.Receipts...), rcs...)
	}
	for _, v := range []struct {
		name   string
		k, evs int
		rh     bool
	}{{"add-txs:1-with-events", 1, +1, true}, {"add-txs:3-with-events", 3, +1, false}, {"add-txs:1-without-events", 1, -1, true}} {
		c := b.Clone()
		txs, rcs := genPairs(g, version, v.k, v.evs)
		appendPairs(c, txs, rcs)
		shape := "non-empty"
		if nt == 0 {
			shape = "EMPTY"
		}
		add(v.name, fmt.Sprintf("%d transaction+receipt pair(s) appended to the valid %s block %d", v.k, shape, pos), false, v.rh, c)
	}
	newEvent := func() *core.Event {
		from := g.Addr(2)
		return &core.Event{From: &from, Keys: []felt.Felt{lib.EventKey(2)}, Data: []felt.Felt{*lib.F(9), *lib.F(10)}}
	}
	if nt > 0 {
		for _, w := range []struct {
			name string
			idx  int
		}{{"first", 0}, {"last", nt - 1}} {
			c := b.Clone()
			c.Block.Receipts[w.idx].Events = append(c.Block.Receipts[w.idx].Events, newEvent())
			add("add-events:"+w.name+"-receipt", fmt.Sprintf("one event appended to the %s receipt of block %d (EventCount was %d)", w.name, pos, ne), true, w.idx == 0, c)
		}
		{
			c := b.Clone()
			c.Block.Transactions = []core.Transaction{}
			c.Block.Receipts = []*core.TransactionReceipt{}
			add("remove-all", fmt.Sprintf("every transaction and receipt of block %d removed", pos), false, true, c)
		}
		{
			c := b.Clone()
			c.Block.Transactions = c.Block.Transactions[:nt-1]
			c.Block.Receipts = c.Block.Receipts[:nt-1]
			add("drop-last-pair", fmt.Sprintf("the last transaction+receipt of block %d dropped", pos), false, false, c)
		}
		if nt > 1 {
			c := b.Clone()
			c.Block.Transactions = c.Block.Transactions[1:]
			c.Block.Receipts = c.Block.Receipts[1:]
			add("drop-first-pair", fmt.Sprintf("the first transaction+receipt of block %d dropped", pos), false, false, c)
		}
		{
			c := b.Clone()
			d := b.Clone()
			appendPairs(c, []core.Transaction{d.Block.Transactions[nt-1]}, []*core.TransactionReceipt{d.Block.Receipts[nt-1]})
			add("dup-last-pair", fmt.Sprintf("the last transaction+receipt of block %d duplicated", pos), false, false, c)
		}
	}
	if ne > 0 {
		{
			c := b.Clone()
			for _, r := range c.Block.Receipts {
				r.Events = []*core.Event{}
			}
			add("remove-events:all", fmt.Sprintf("every event of block %d removed", pos), true, true, c)
		}
		{
			c := b.Clone()
			for i := len(c.Block.Receipts) - 1; i >= 0; i-- {
				if n := len(c.Block.Receipts[i].Events); n > 0 {
					c.Block.Receipts[i].Events = c.Block.Receipts[i].Events[:n-1]
					break
				}
			}
			add("remove-events:last", fmt.Sprintf("the last event of block %d removed", pos), true, false, c)
		}
	}
	return out
}

// countsLine / checkCounts: the model's body lengths and derived counts for a block
func countsLine(b *core.Block) string {
	var w wbuf
	w.tok("counts")
	w.block(b)
	return w.String()
}

func checkCounts(res *lib.Result, drv *lib.Driver, desc string, blocks []*core.Block, adapted bool) {
	if len(blocks) == 0 {
		return
	}
	lines := make([]string, len(blocks))
	for i, b := range blocks {
		lines[i] = countsLine(b)
	}
	outs, err := askAllDeadline(drv, lines)
	if err != nil {
		res.Fatalf("driver (counts, %s): %v", desc, err)
		return
	}
	for i, b := range blocks {
		ne := eventTotal(b)
		match := b.TransactionCount == uint64(len(b.Transactions)) && b.EventCount == ne
		want := fmt.Sprintf("%x %x %x %x %x %s %s", len(b.Transactions), len(b.Receipts), ne, len(b.Transactions), ne, map[bool]string{true: "1", false: "0"}[match],
			map[bool]string{true: "1", false: "0"}[match])
		res.Compared(1)
		res.Hit("corr-counts")
		if match {
			res.Hit("corr-counts-match")
		} else {
			res.Hit("corr-counts-differ")
		}
		if outs[i] != want {
			res.Mismatch(lib.Mismatch{Sig: "body-counts", Input: fmt.Sprintf("%s #%d (block %d)", desc, i, b.Number), Model: outs[i], Impl: want})
		}
		if adapted && !match {
			// the real adapter produced a header whose counts disagree with the body it adapted
			res.Violate(lib.Violation{Sig: "adapted-block-counts-differ-from-body", What: fmt.Sprintf("sn2core.AdaptBlock returned block %d with TransactionCount %d / EventCount %d for a body of %d transactions / %d events (%s)",
				b.Number, b.TransactionCount, b.EventCount, len(b.Transactions), ne, desc), Replay: map[string]any{"case": "adapted-counts", "fixture": desc}})
		}
	}
}

func runBodyLen(f lib.Flags, res *lib.Result, only *replay) {
	var wg sync.WaitGroup
	for _, custom := range []bool{false, true} {
		for _, dstNew := range []bool{false, true} {
			if only != nil && (only.Task.DstNew != dstNew || (only.Task.Chain == bodyLenChain+1) != custom) {
				continue
			}
			wg.Add(1)
			go func(custom, dstNew bool) {
				defer wg.Done()
				runBodyLenOn(f, res, only, dstNew, custom)
			}(custom, dstNew)
		}
	}
	if only == nil {
		wg.Add(1)
		go func() {
			defer wg.Done()
			runBodyLenFixtures(f, res)
		}()
	}
	wg.Wait()
}

func runBodyLenOn(f lib.Flags, res *lib.Result, only *replay, dstNew bool, custom bool) {
	backend := "legacy"
	if dstNew {
		backend = "new"
	}
	g, err := buildBodyLenChain(f, dstNew, custom)
	if err != nil {
		res.Fatalf("generator (body length): %v", err)
		return
	}
	n := openNode(g, dstNew, memory.New())
	var ac *acceptChecker
	var drv *lib.Driver
	if only == nil {
		ac = newAcceptChecker(f, res, g)
		defer ac.close()
		if drv, err = lib.StartDriver(f.Driver); err != nil {
			res.Fatalf("body length: the Lean driver did not start: %v", err)
			return
		}
		defer drv.Close()
	}
	task := chainTask{Chain: bodyLenChain, SrcNew: dstNew, DstNew: dstNew}
	if custom {
		task.Chain = bodyLenChain + 1
	}
	for pos := range g.Bundles {
		valid := g.Bundles[pos]
		format := formatOf(valid.Block.ProtocolVersion)
		if format == "pre0132" {
			format = "post07"
		}
		if custom {
			format = netFormat(valid)
		}
		shape := "empty"
		switch {
		case len(valid.Block.Transactions) > 0 && eventTotal(valid.Block) > 0:
			shape = "with-events"
		case len(valid.Block.Transactions) > 0:
			shape = "without-events"
		}
		base := n.db.Copy()
		before := dbDigest(n.db)
		h0, head0 := headOf(n)
		var headHash *felt.Felt
		var headNumber uint64
		if pos > 0 {
			headNumber, headHash = uint64(pos-1), g.Bundles[pos-1].Block.Hash
		}
		cases := bodyLenCases(g, pos, format)
		for _, tc := range compensatingCases(g, pos) { // round 6: compensating tamperings on every format / shape / empty diff
			e := "reject"
			if !tc.MustReject {
				e = ""
			}
			cases = append(cases, netCase{tc: tc, expect: e})
		}
		if drv != nil {
			blocks := []*core.Block{valid.Block}
			for _, nc := range cases {
				blocks = append(blocks, nc.tc.Bundle.Block)
			}
			checkCounts(res, drv, fmt.Sprintf("body-length chain %d block %d", task.Chain, pos), blocks, false)
		}
		for _, nc := range cases {
			tc := nc.tc
			if only != nil && (only.Position != pos || only.Case != tc.Name+"|"+tc.Detail) {
				continue
			}
			r := offer(n, tc.Bundle)
			class := errClass(r.err)
			if r.hung {
				class = "hang"
			}
			ac.compare(res, tc, headNumber, headHash, class)
			res.Case(fmt.Sprintf("bodylen/%d/%v/%d/%s", task.Chain, dstNew, pos, tc.Name), true)
			res.Hit("bodylen-format-" + format)
			res.Hit("bodylen-shape-" + shape)
			res.Hit("bodylen-" + strings.TrimPrefix(tc.Name, "body-length:") + "-" + class)
			res.Hit("bodylen-expect-" + map[string]string{"": "observe", "reject": "reject", "accept": "accept"}[nc.expect])
			res.Hit("tamper-body-length")
			rp := replay{Task: task, Seed: f.Seed, Tier: f.Tier, Position: pos, Case: tc.Name + "|" + tc.Detail,
				Detail: fmt.Sprintf("block %d (format %s, version %s, %s); %s", pos, format, valid.Block.ProtocolVersion, shape, tc.Detail)}
			if r.err != nil {
				rp.Error = trunc(r.err.Error(), 300)
			}
			switch {
			case r.hung:
				res.Violate(lib.Violation{Sig: "store-hangs:" + tc.Name, What: "offering the block does not return: " + rp.Detail, Replay: rp})
			case r.panicked:
				rp.Note = trunc(r.stack, 1200)
				res.Violate(lib.Violation{Sig: "store-panics:" + tc.Name, What: fmt.Sprintf("SanityCheckNewHeight/Store panics (%s, %s backend): %v", rp.Detail, backend, r.err), Replay: rp})
			case r.err == nil && nc.expect == "reject":
				what := fmt.Sprintf("a block that keeps the header of valid block %d — declared hash, TransactionCount and EventCount included — but has a body of another length was stored: "+
					"the hash check did not look at the content (%s; %s backend)", pos, rp.Detail, backend)
				if strings.HasPrefix(tc.Name, "compound:") {
					what = fmt.Sprintf("a block that differs from valid block %d in committed content — fields changed together so that a summary (sum of counts, Length() of the diff, "+
						"set of declared classes, number of messages) stays the same — was stored (%s; %s backend)", pos, rp.Detail, backend)
				}
				res.Violate(lib.Violation{Sig: "tampered-block-accepted:" + tc.Name, What: what, Replay: rp})
			case r.err != nil && nc.expect == "accept":
				res.Mismatch(lib.Mismatch{Sig: "exception-is-committed:body-length:" + format + ":" + tc.Name, Input: rp.Detail,
					Model: "not committed by this format / inside the unverifiable range", Impl: "rejected: " + class})
			case r.err == nil:
				res.Hit("bodylen-accepted-" + format + ":" + tc.Name)
			}
			after := dbDigest(n.db)
			h1, head1 := headOf(n)
			if r.err != nil && !r.hung && (after != before || h1 != h0 || head1 != head0) {
				res.Violate(lib.Violation{Sig: "rejected-block-has-effect:" + class,
					What:   fmt.Sprintf("a rejected block (%s; class %s, %s backend) changed the node: %s", rp.Detail, class, backend, dbDiff(base, n.db)),
					Replay: rp})
			}
			if r.err == nil || r.panicked || r.hung || after != before {
				n = openNode(g, dstNew, base.Copy())
			}
		}
		r := offer(n, valid)
		if r.err != nil {
			res.Violate(lib.Violation{Sig: "valid-block-rejected", What: fmt.Sprintf("body length: valid block %d (%s, %s) rejected by the %s backend: %v", pos, format, shape, backend, r.err),
				Replay: replay{Task: task, Seed: f.Seed, Tier: f.Tier, Position: pos, Case: "valid"}})
			return
		}
		res.Hit("valid-block-stored")
	}
}

// runBodyLenFixtures: the family on the real-network fixture blocks (every format, mainnet's pre-0.7
// blocks included) through SanityCheckNewHeight, and the `counts` tie to sn2core.AdaptBlock.
func runBodyLenFixtures(f lib.Flags, res *lib.Result) {
	drv, err := lib.StartDriver(f.Driver)
	if err != nil {
		res.Fatalf("body length (fixtures): the Lean driver did not start: %v", err)
		return
	}
	defer drv.Close()
	nets := map[string]*networks.Network{
		"mainnet": &networks.Mainnet, "goerli": &networks.Goerli, "goerli2": &networks.Goerli2,
		"integration": &networks.Integration, "sepolia": &networks.Sepolia, "sepolia-integration": &networks.SepoliaIntegration,
	}
	root := filepath.Join(repoDir(), "clients", "feeder", "testdata")
	var names []string
	for n := range nets {
		names = append(names, n)
	}
	sort.Strings(names)
	maxTx := f.Scale(40, 1000)
	var adaptedBlocks []*core.Block
	nOffers := 0
	for _, name := range names {
		net := nets[name]
		files, _ := filepath.Glob(filepath.Join(root, name, "block", "*.json"))
		sort.Strings(files)
		for _, file := range files {
			base := strings.TrimSuffix(filepath.Base(file), ".json")
			raw, err := os.ReadFile(file)
			if err != nil {
				continue
			}
			var sb starknet.Block
			if err := json.Unmarshal(raw, &sb); err != nil || sb.Hash == nil {
				continue
			}
			b, err := sn2core.AdaptBlock(&sb, nil)
			if err != nil {
				continue
			}
			adaptedBlocks = append(adaptedBlocks, b)
			if len(b.Transactions) > maxTx || base == "latest" || base == "pending" {
				continue
			}
			var sd *core.StateDiff
			for _, dir := range []string{"state_update", "state_update_with_block"} {
				raw, err := os.ReadFile(filepath.Join(root, name, dir, base+".json"))
				if err != nil {
					continue
				}
				var ssu starknet.StateUpdate
				if dir == "state_update_with_block" {
					var both struct {
						StateUpdate *starknet.StateUpdate `json:"state_update"`
					}
					if json.Unmarshal(raw, &both) != nil || both.StateUpdate == nil {
						continue
					}
					ssu = *both.StateUpdate
				} else if json.Unmarshal(raw, &ssu) != nil {
					continue
				}
				if su, err := sn2core.AdaptStateUpdate(&ssu); err == nil {
					sd = su.StateDiff
					break
				}
			}
			format := formatOf(b.ProtocolVersion)
			if sd == nil {
				if format != "pre0132" {
					continue
				}
				e := core.EmptyStateDiff()
				sd = &e
			}
			if format == "pre0132" {
				format = "post07"
				if b.Number < net.BlockHashMetaInfo.First07Block {
					format = "pre07"
				}
			}
			ur := net.BlockHashMetaInfo.UnverifiableRange
			if len(ur) == 2 && b.Number >= ur[0] && b.Number <= ur[1] {
				continue
			}
			sanity := func(blk *core.Block) (error, bool) {
				bc, _ := lib.NewNode(net, true)
				var realErr error
				_, panicked, _ := lib.Try(func() error {
					_, realErr = bc.SanityCheckNewHeight(lib.DeepCopy(blk).(*core.Block),
						&core.StateUpdate{BlockHash: blk.Hash, NewRoot: blk.GlobalStateRoot, OldRoot: &felt.Zero, StateDiff: lib.DeepCopy(sd).(*core.StateDiff)}, nil)
					return nil
				})
				return realErr, panicked
			}
			if err, panicked := sanity(b); err != nil || panicked {
				res.Hit("bodylen-fixture-does-not-verify")
				continue
			}
			res.Hit("bodylen-fixture-" + format)
			nt := len(b.Transactions)
			type variant struct {
				name   string
				events bool
				do     func(c *core.Block) bool
			}
			variants := []variant{
				{"remove-all", false, func(c *core.Block) bool {
					if nt == 0 {
						return false
					}
					c.Transactions, c.Receipts = []core.Transaction{}, []*core.TransactionReceipt{}
					return true
				}},
				{"drop-last-pair", false, func(c *core.Block) bool {
					if nt == 0 {
						return false
					}
					c.Transactions, c.Receipts = c.Transactions[:nt-1], c.Receipts[:nt-1]
					return true
				}},
				{"dup-last-pair", false, func(c *core.Block) bool {
					if nt == 0 {
						return false
					}
					d := lib.DeepCopy(c).(*core.Block)
					c.Transactions = append(c.Transactions, d.Transactions[nt-1])
					c.Receipts = append(c.Receipts, d.Receipts[nt-1])
					return true
				}},
				{"add-events:last-receipt", true, func(c *core.Block) bool {
					if nt == 0 {
						return false
					}
					c.Receipts[nt-1].Events = append(c.Receipts[nt-1].Events, &core.Event{From: lib.F(0x101), Keys: []felt.Felt{*lib.F(1)}, Data: []felt.Felt{*lib.F(2)}})
					return true
				}},
				{"remove-events:all", true, func(c *core.Block) bool {
					if eventTotal(c) == 0 {
						return false
					}
					for _, r := range c.Receipts {
						r.Events = []*core.Event{}
					}
					return true
				}},
			}
			for _, v := range variants {
				c := lib.DeepCopy(b).(*core.Block)
				if !v.do(c) {
					continue
				}
				err, panicked := sanity(c)
				nOffers++
				res.Case(fmt.Sprintf("bodylen-fixture/%s/%s/%s", name, base, v.name), true)
				res.Hit("tamper-body-length-fixture")
				mustReject := !(format == "pre07" && v.events)
				desc := fmt.Sprintf("real-network block %s/%s (%s, version %q, %d transactions, %d events): %s, header kept", name, base, format, b.ProtocolVersion, nt, eventTotal(b), v.name)
				rp := map[string]any{"case": "body-length-fixture", "fixture": name + "/" + base, "variant": v.name}
				switch {
				case panicked:
					res.Violate(lib.Violation{Sig: "store-panics:body-length-fixture:" + v.name, What: "SanityCheckNewHeight panics: " + desc, Replay: rp})
				case err == nil && mustReject:
					res.Violate(lib.Violation{Sig: "tampered-block-accepted:body-length-fixture:" + v.name,
						What: "SanityCheckNewHeight accepts a real-network block whose body changed its length while header, counts and declared hash were kept: " + desc, Replay: rp})
				case err != nil && !mustReject:
					res.Mismatch(lib.Mismatch{Sig: "exception-is-committed:body-length-fixture:" + v.name, Input: desc, Model: "pre07Hash commits no events", Impl: "rejected: " + err.Error()})
				}
			}
		}
	}
	if nOffers == 0 {
		res.Fatalf("body length (fixtures): no fixture block could be used under %s", root)
	}
	// every fixture block as sn2core.AdaptBlock returns it: count = length, on the model and on the code
	checkCounts(res, drv, "sn2core.AdaptBlock on the feeder fixtures", adaptedBlocks, true)
}
