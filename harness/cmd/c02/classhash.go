//go:build verif

package main

// Phase "class hash" (round 5). core.SierraClass.Hash() — what core.VerifyClassHashes recomputes for
// every new Sierra class of a block — was a black box of the model. It is now transcribed
// (lean/JunoModel/C02/ModelBody.lean: sierraClassHashWith, adaptSierra) and tied here:
//
//  1. `clshash` lines: generated classes with entry-point lists of 0..4 entries, indices 0 / 2^64-1,
//     and semantic versions that straddle the two constants of the preimage (tag 16 bytes + version:
//     15 | 16 bytes = 31 | 32 bytes of felt.SetBytes input, plus 40-byte strings and strings that wrap
//     modulo P). model term evaluated with the real Poseidon == SierraClass.Hash().
//  2. `clsadapt` lines: the real-network class fixtures through sn2core.AdaptSierraClass (program hash,
//     ABI hash computed by the adapter): model == code == file name.
//  3. core.VerifyClassHashes on every field tampering of those classes: real verdict == model verdict
//     (model hash term evaluated == key), and the property oracle: a tampering that changes a committed
//     field and is accepted under the old class hash is a violation with the class as replay.
//
// The variant of the code (does Hash() refuse a version that does not fit a field element?) is
// probed first; the driver is asked for that variant.

import (
	"encoding/json"
	"fmt"
	"os"
	"path/filepath"
	"sort"
	"strings"
	"sync"

	"github.com/NethermindEth/juno/adapters/sn2core"
	"github.com/NethermindEth/juno/core"
	"github.com/NethermindEth/juno/core/felt"
	"github.com/NethermindEth/juno/db/memory"
	"github.com/NethermindEth/juno/starknet"
	"verif/harness/lib"
)

// probeClassVersionLimited: does SierraClass.Hash() fail for a 16-byte semantic version?
func probeClassVersionLimited() bool {
	c := &core.SierraClass{AbiHash: lib.F(1), ProgramHash: lib.F(2), SemanticVersion: "0.1.0.0000000000"}
	var limited bool
	_, _, _ = lib.Try(func() error {
		_, err := c.Hash()
		limited = err != nil
		return nil
	})
	return limited
}

var (
	classVersionLimitedOnce sync.Once
	classVersionLimitedVal  bool
)

// classVersionLimited: the variant of SierraClass.Hash() the code under test has (probed once)
func classVersionLimited() bool {
	classVersionLimitedOnce.Do(func() { classVersionLimitedVal = probeClassVersionLimited() })
	return classVersionLimitedVal
}

func (w *wbuf) sierraEPs(eps []core.SierraEntryPoint) {
	w.u64(uint64(len(eps)))
	for _, ep := range eps {
		w.u64(ep.Index)
		w.felt(ep.Selector)
	}
}

func clsHashLine(limited bool, c *core.SierraClass) string {
	var w wbuf
	w.tok("clshash")
	w.boolean(limited)
	w.bytes([]byte(c.SemanticVersion))
	w.sierraEPs(c.EntryPoints.External)
	w.sierraEPs(c.EntryPoints.L1Handler)
	w.sierraEPs(c.EntryPoints.Constructor)
	w.felt(c.AbiHash)
	w.felt(c.ProgramHash)
	return w.String()
}

func clsAdaptLine(limited bool, s *starknet.SierraClass) string {
	var w wbuf
	w.tok("clsadapt")
	w.boolean(limited)
	w.bytes([]byte(s.Version))
	for _, eps := range [][]starknet.SierraEntryPoint{s.EntryPoints.External, s.EntryPoints.L1Handler, s.EntryPoints.Constructor} {
		w.u64(uint64(len(eps)))
		for _, ep := range eps {
			w.u64(ep.Index)
			w.felt(ep.Selector)
		}
	}
	w.felts(s.Program)
	w.bytes([]byte(s.Abi))
	return w.String()
}

// realClassHash: "err" when Hash() fails, "panic" when it panics
func realClassHash(c *core.SierraClass) string {
	var out string
	_, panicked, _ := lib.Try(func() error {
		h, err := c.Hash()
		if err != nil {
			out = "err"
			return nil
		}
		out = feltHex(&h)
		return nil
	})
	if panicked {
		return "panic"
	}
	return out
}

func evalAnswer(ans string) string {
	if ans == "err" || ans == "bad-op" {
		return ans
	}
	v, err := evalTerm(ans)
	if err != nil {
		return "eval-error: " + err.Error()
	}
	return feltHex(&v)
}

var classVersions = []string{
	"0.1.0", "", "0", "0.1", "0.1.1", "1.0.0", "0.1.0-rc0",
	"0.1.0.000000000",                          // 15 bytes: tag + version = 31 bytes, the last length that is not reduced
	"0.1.0.0000000000",                         // 16 bytes: 32 bytes, reduced only if the first byte is large (it is 'C': not reduced in value, but over the limit of the repair)
	"0.1.0.00000000000",                        // 17 bytes: 33 bytes, reduced
	"0.1.0.000000000000000000000000",           // 30 bytes
	"0.1.0.0000000000000000000000000000000000", // 40 bytes
	"\x00\x00",                                 // leading NUL bytes behind the tag
	"\xff\xff\xff\xff\xff\xff\xff\xff\xff\xff\xff\xff\xff\xff\xff",     // 15 × 0xff
	"\xff\xff\xff\xff\xff\xff\xff\xff\xff\xff\xff\xff\xff\xff\xff\xff", // 16 × 0xff
}

func genSierra(r *lib.RNG, version string) *core.SierraClass {
	eps := func() []core.SierraEntryPoint {
		n := r.Intn(5)
		out := make([]core.SierraEntryPoint, 0, n)
		for i := 0; i < n; i++ {
			idx := lib.Pick(r, []uint64{0, 1, uint64(r.Intn(50)), 1 << 32, ^uint64(0)})
			out = append(out, core.SierraEntryPoint{Index: idx, Selector: lib.F(lib.Pick(r, []uint64{0, 1, 77, uint64(r.Intn(1000)) + 2}))})
		}
		return out
	}
	return &core.SierraClass{
		Abi: "[gen]", AbiHash: lib.F(uint64(r.Intn(1 << 30))), ProgramHash: lib.F(uint64(r.Intn(1 << 30))),
		Program:         []felt.Felt{*lib.F(1), *lib.F(2), *lib.F(0), *lib.F(uint64(r.Intn(9)))},
		SemanticVersion: version,
		EntryPoints:     core.SierraEntryPointsByType{External: eps(), L1Handler: eps(), Constructor: eps()},
	}
}

func cloneSierra(c *core.SierraClass) *core.SierraClass {
	return lib.DeepCopy(c).(*core.SierraClass)
}

type classMut struct {
	name      string
	committed bool // does it change a field SierraClass.Hash() commits?
	do        func(c *core.SierraClass) bool
}

func classMuts() []classMut {
	epMuts := func(list string, get func(c *core.SierraClass) *[]core.SierraEntryPoint) []classMut {
		return []classMut{
			{list + ":append", true, func(c *core.SierraClass) bool {
				l := get(c)
				*l = append(*l, core.SierraEntryPoint{Index: 9, Selector: lib.F(9)})
				return true
			}},
			{list + ":appendzero", true, func(c *core.SierraClass) bool {
				l := get(c)
				*l = append(*l, core.SierraEntryPoint{Index: 0, Selector: lib.F(0)})
				return true
			}},
			{list + ":droplast", true, func(c *core.SierraClass) bool {
				l := get(c)
				if len(*l) == 0 {
					return false
				}
				*l = (*l)[:len(*l)-1]
				return true
			}},
			{list + ":duplast", true, func(c *core.SierraClass) bool {
				l := get(c)
				if len(*l) == 0 {
					return false
				}
				*l = append(*l, (*l)[len(*l)-1])
				return true
			}},
			{list + ":swap01", true, func(c *core.SierraClass) bool {
				l := get(c)
				if len(*l) < 2 || ((*l)[0].Index == (*l)[1].Index && (*l)[0].Selector.Equal((*l)[1].Selector)) {
					return false
				}
				(*l)[0], (*l)[1] = (*l)[1], (*l)[0]
				return true
			}},
			{list + "[last].Index:inc", true, func(c *core.SierraClass) bool {
				l := get(c)
				if len(*l) == 0 {
					return false
				}
				(*l)[len(*l)-1].Index++
				return true
			}},
			// only bits above 2^32 of the index change (an index narrowed to 32 bits on its way into the digest)
			{list + "[last].Index:add-2^32", true, func(c *core.SierraClass) bool {
				l := get(c)
				if len(*l) == 0 {
					return false
				}
				(*l)[len(*l)-1].Index += 1 << 32
				return true
			}},
			{list + "[first].Index:flip-bit-63", true, func(c *core.SierraClass) bool {
				l := get(c)
				if len(*l) == 0 {
					return false
				}
				(*l)[0].Index ^= 1 << 63
				return true
			}},
			{list + "[first].Selector:inc", true, func(c *core.SierraClass) bool {
				l := get(c)
				if len(*l) == 0 {
					return false
				}
				s := *(*l)[0].Selector
				feltInc(&s)
				(*l)[0].Selector = &s
				return true
			}},
			// selector and index of one entry exchanged (same two felts in the digest, other order)
			{list + "[first]:selector<->index", true, func(c *core.SierraClass) bool {
				l := get(c)
				if len(*l) == 0 || !lib.F((*l)[0].Selector.Uint64()).Equal((*l)[0].Selector) || (*l)[0].Selector.Uint64() == (*l)[0].Index {
					return false
				}
				old := (*l)[0]
				(*l)[0] = core.SierraEntryPoint{Index: old.Selector.Uint64(), Selector: lib.F(old.Index)}
				return true
			}},
		}
	}
	ext := func(c *core.SierraClass) *[]core.SierraEntryPoint { return &c.EntryPoints.External }
	l1 := func(c *core.SierraClass) *[]core.SierraEntryPoint { return &c.EntryPoints.L1Handler }
	ctor := func(c *core.SierraClass) *[]core.SierraEntryPoint { return &c.EntryPoints.Constructor }
	var out []classMut
	out = append(out, epMuts("External", ext)...)
	out = append(out, epMuts("L1Handler", l1)...)
	out = append(out, epMuts("Constructor", ctor)...)
	move := func(name string, from, to func(c *core.SierraClass) *[]core.SierraEntryPoint, last bool) classMut {
		return classMut{name, true, func(c *core.SierraClass) bool {
			f, t := from(c), to(c)
			if len(*f) == 0 {
				return false
			}
			var ep core.SierraEntryPoint
			if last {
				ep = (*f)[len(*f)-1]
				*f = (*f)[:len(*f)-1]
				*t = append([]core.SierraEntryPoint{ep}, *t...)
			} else {
				ep = (*f)[0]
				*f = (*f)[1:]
				*t = append(*t, ep)
			}
			return true
		}}
	}
	out = append(out,
		// the boundary between two lists moved: the flat sequence of (selector, index) pairs is the same
		move("External->L1Handler:move-last-to-front", ext, l1, true),
		move("L1Handler->Constructor:move-last-to-front", l1, ctor, true),
		move("L1Handler->External:move-first-to-back", l1, ext, false),
		move("Constructor->L1Handler:move-first-to-back", ctor, l1, false),
		classMut{"AbiHash:inc", true, func(c *core.SierraClass) bool { h := *c.AbiHash; feltInc(&h); c.AbiHash = &h; return true }},
		classMut{"ProgramHash:inc", true, func(c *core.SierraClass) bool { h := *c.ProgramHash; feltInc(&h); c.ProgramHash = &h; return true }},
		classMut{"AbiHash<->ProgramHash", true, func(c *core.SierraClass) bool {
			if c.AbiHash.Equal(c.ProgramHash) {
				return false
			}
			c.AbiHash, c.ProgramHash = c.ProgramHash, c.AbiHash
			return true
		}},
		classMut{"SemanticVersion:append", true, func(c *core.SierraClass) bool { c.SemanticVersion += "1"; return true }},
		classMut{"SemanticVersion:appendNUL", true, func(c *core.SierraClass) bool { c.SemanticVersion += "\x00"; return true }},
		classMut{"SemanticVersion:chop", true, func(c *core.SierraClass) bool {
			if c.SemanticVersion == "" {
				return false
			}
			c.SemanticVersion = c.SemanticVersion[:len(c.SemanticVersion)-1]
			return true
		}},
		classMut{"SemanticVersion:wrapPtag", true, func(c *core.SierraClass) bool {
			c.SemanticVersion = wrapClassVersion(c.SemanticVersion, c.SemanticVersion+".")
			return true
		}},
		classMut{"SemanticVersion:wrapPtagbump", true, func(c *core.SierraClass) bool {
			if c.SemanticVersion == "" {
				return false
			}
			b := []byte(c.SemanticVersion)
			b[len(b)-1]++
			c.SemanticVersion = wrapClassVersion(c.SemanticVersion, string(b)+".")
			return true
		}},
		// not read by Hash()
		classMut{"Program[first]:inc", false, func(c *core.SierraClass) bool {
			if len(c.Program) == 0 {
				return false
			}
			feltInc(&c.Program[0])
			return true
		}},
		classMut{"Program:append", false, func(c *core.SierraClass) bool { c.Program = append(c.Program, *lib.F(7)); return true }},
		classMut{"Abi:append", false, func(c *core.SierraClass) bool { c.Abi += " "; return true }},
	)
	return out
}

func runClassHash(f lib.Flags, res *lib.Result) {
	drv, err := lib.StartDriver(f.Driver)
	if err != nil {
		res.Fatalf("class hash: the Lean driver did not start: %v", err)
		return
	}
	defer drv.Close()
	limited := classVersionLimited()
	if limited {
		res.Hit("probe-class-version-limited")
	} else {
		res.Hit("probe-class-version-unlimited")
	}
	r := lib.NewRNG(f.Seed).Fork(5150)

	// ---- 1. hash lines --------------------------------------------------------------------------
	type hcase struct {
		desc string
		line string
		impl string
	}
	var hcases []hcase
	var bases []*core.SierraClass
	reps := f.Scale(4, 40)
	for _, v := range classVersions {
		for k := 0; k < reps; k++ {
			c := genSierra(r, v)
			if k == 0 && len(v) <= 5 {
				bases = append(bases, c)
			}
			hcases = append(hcases, hcase{fmt.Sprintf("generated class, version %q (%d bytes)", v, len(v)), clsHashLine(limited, c), realClassHash(c)})
			res.Hit(fmt.Sprintf("corr-class-version-len-%d", len(v)))
		}
	}
	// the generator's own classes (the ones the tamper chains declare)
	for i := uint64(0); i < 4; i++ {
		_, c := sierraN(i)
		bases = append(bases, c)
		hcases = append(hcases, hcase{"tamper-chain class", clsHashLine(limited, c), realClassHash(c)})
	}
	{
		_, c := extraSierraClass()
		hcases = append(hcases, hcase{"extra class", clsHashLine(limited, c), realClassHash(c)})
	}

	// ---- 2. fixtures through the adapter --------------------------------------------------------
	root := filepath.Join(repoDir(), "clients", "feeder", "testdata")
	files, _ := filepath.Glob(filepath.Join(root, "*", "class", "0x*.json"))
	sort.Strings(files)
	nfix := 0
	for _, file := range files {
		if st, err := os.Stat(file); err != nil || st.Size() > int64(f.Scale(1_500_000, 30_000_000)) {
			continue
		}
		raw, err := os.ReadFile(file)
		if err != nil {
			continue
		}
		var def starknet.ClassDefinition
		if err := json.Unmarshal(raw, &def); err != nil || def.Sierra == nil || len(def.Sierra.Program) > 90000 {
			continue
		}
		cls, err := sn2core.AdaptSierraClass(def.Sierra, nil)
		if err != nil {
			continue
		}
		nfix++
		hcases = append(hcases, hcase{"fixture " + filepath.Base(file) + " through AdaptSierraClass", clsAdaptLine(limited, def.Sierra), realClassHash(cls)})
		hcases = append(hcases, hcase{"fixture " + filepath.Base(file) + " adapted", clsHashLine(limited, cls), realClassHash(cls)})
		res.Hit("corr-class-fixture")
		if nfix <= 2 {
			small := cloneSierra(cls)
			bases = append(bases, small)
		}
	}
	if nfix == 0 {
		res.Fatalf("class hash: no Sierra class fixture under %s", root)
	}
	lines := make([]string, len(hcases))
	for i := range hcases {
		lines[i] = hcases[i].line
	}
	outs, err := askAllDeadline(drv, lines)
	if err != nil {
		res.Fatalf("driver (class hash): %v", err)
		return
	}
	for i, c := range hcases {
		got := evalAnswer(outs[i])
		res.Compared(1)
		res.Case("clshash:"+c.desc+fmt.Sprint(i), true)
		res.Hit("corr-class-hash")
		if got == "err" {
			res.Hit("corr-class-hash-err")
		}
		if got != c.impl {
			res.Mismatch(lib.Mismatch{Sig: "class-hash", Input: c.desc + " | " + trunc(c.line, 400), Model: got, Impl: c.impl})
		}
	}

	// ---- 3. VerifyClassHashes on tampered definitions --------------------------------------------
	muts := classMuts()
	var vlines []string
	type vcase struct {
		base    int
		mut     classMut
		cls     *core.SierraClass
		key     felt.Felt
		realOK  bool
		realErr string
	}
	var vcases []vcase
	for bi, base := range bases {
		keyStr := realClassHash(base)
		if keyStr == "err" || keyStr == "panic" {
			continue
		}
		key, _ := base.Hash()
		for _, m := range muts {
			c := cloneSierra(base)
			if !m.do(c) {
				continue
			}
			err, panicked, _ := lib.Try(func() error {
				return core.VerifyClassHashes(map[felt.Felt]core.ClassDefinition{key: c})
			})
			vc := vcase{base: bi, mut: m, cls: c, key: key, realOK: err == nil && !panicked}
			if err != nil {
				vc.realErr = err.Error()
			}
			vcases = append(vcases, vc)
			vlines = append(vlines, clsHashLine(limited, c))
		}
	}
	vouts, err := askAllDeadline(drv, vlines)
	if err != nil {
		res.Fatalf("driver (class verdicts): %v", err)
		return
	}
	for i, vc := range vcases {
		got := evalAnswer(vouts[i])
		modelOK := got == feltHex(&vc.key)
		res.Compared(1)
		res.Case(fmt.Sprintf("clsverify:%d:%s", vc.base, vc.mut.name), true)
		res.Hit("corr-class-verdict")
		field := strings.SplitN(vc.mut.name, ":", 2)[0]
		res.Hit("tamper-class:" + strings.SplitN(field, "[", 2)[0])
		if modelOK != vc.realOK {
			res.Mismatch(lib.Mismatch{Sig: "class-verdict:" + vc.mut.name, Input: trunc(vlines[i], 400),
				Model: fmt.Sprintf("verifies=%v (hash %s)", modelOK, got), Impl: fmt.Sprintf("verifies=%v %s", vc.realOK, trunc(vc.realErr, 120))})
		}
		rp := map[string]any{"case": "class-definition", "mutation": vc.mut.name, "class_hash": vc.key.String(), "driver_line": trunc(vlines[i], 2000),
			"semantic_version_hex": fmt.Sprintf("%x", vc.cls.SemanticVersion), "seed": f.Seed}
		switch {
		case vc.realOK && vc.mut.committed && strings.HasPrefix(vc.mut.name, "SemanticVersion:wrapPtag"):
			res.Violate(lib.Violation{Sig: classWrapSig, What: classWrapWhat + fmt.Sprintf(" (core.VerifyClassHashes on a class whose SemanticVersion became %d bytes: accepted under class hash %s)",
				len(vc.cls.SemanticVersion), vc.key.String()), Replay: rp})
		case vc.realOK && vc.mut.committed:
			res.Violate(lib.Violation{Sig: "tampered-class-definition-accepted:" + strings.SplitN(field, "[", 2)[0],
				What:   fmt.Sprintf("core.VerifyClassHashes accepts a Sierra class definition under its old class hash %s after the tampering %s", vc.key.String(), vc.mut.name),
				Replay: rp})
		case !vc.realOK && !vc.mut.committed:
			res.Mismatch(lib.Mismatch{Sig: "exception-is-committed:class:" + vc.mut.name, Input: trunc(vlines[i], 300),
				Model: "not read by SierraClass.Hash()", Impl: "rejected: " + trunc(vc.realErr, 120)})
		case vc.realOK:
			res.Hit("class-uncommitted-accepted:" + field)
		default:
			res.Hit("class-tamper-rejected")
		}
	}
	runCasmSegCorr(f, res, drv)
	for _, dstNew := range []bool{false, true} {
		runCompiledDirected(f, res, dstNew)
	}
}

// ---- compiled (CASM) class: when does CasmClass.Hash panic? -------------------------------------------

func segTok(w *wbuf, s core.SegmentLengths) {
	w.u64(uint64(len(s.Children)))
	for _, c := range s.Children {
		segTok(w, c)
	}
	w.u64(s.Length)
}

func casmSegLine(guarded bool, c *core.CasmClass) string {
	var w wbuf
	w.tok("casmseg")
	w.boolean(guarded)
	if c == nil {
		w.tok("~")
		return w.String()
	}
	w.u64(uint64(cap(c.Bytecode)))
	w.u64(uint64(len(c.BytecodeSegmentLengths.Children)))
	for _, s := range c.BytecodeSegmentLengths.Children {
		segTok(&w, s)
	}
	return w.String()
}

func realCasmHashOutcome(c *core.CasmClass) string {
	_, panicked, _ := lib.Try(func() error { _ = c.Hash(core.HashVersionV2); return nil })
	if panicked {
		return "panic"
	}
	return "value"
}

// runCasmSegCorr: small shapes exhaustively — bytecode of 0..4 felts (capacity = length, and capacity >
// length: Go slices up to the CAPACITY), flat segment lists of up to 3 lengths over values that straddle the
// bytecode length and the uint64 wrap, and segment trees of depth 2.
func runCasmSegCorr(f lib.Flags, res *lib.Result, drv *lib.Driver) {
	lens := []uint64{0, 1, 2, 3, 5, 1 << 63, ^uint64(0)}
	var flats [][]uint64
	for _, a := range lens {
		flats = append(flats, []uint64{a})
		for _, b := range lens {
			flats = append(flats, []uint64{a, b})
			if !f.Thorough() && (a > 5 || b > 5) {
				continue
			}
			for _, c := range []uint64{0, 1, 2, ^uint64(0)} {
				flats = append(flats, []uint64{a, b, c})
			}
		}
	}
	leaf := func(n uint64) core.SegmentLengths { return core.SegmentLengths{Length: n} }
	var trees [][]core.SegmentLengths
	trees = append(trees, nil) // no segment lengths: the whole bytecode is hashed
	for _, fl := range flats {
		var t []core.SegmentLengths
		for _, n := range fl {
			t = append(t, leaf(n))
		}
		trees = append(trees, t)
	}
	small := []uint64{0, 1, 2}
	for _, a := range small {
		for _, b := range small {
			node := core.SegmentLengths{Children: []core.SegmentLengths{leaf(a), leaf(b)}, Length: 7}
			one := core.SegmentLengths{Children: []core.SegmentLengths{leaf(a)}, Length: 0}
			for _, c := range small {
				trees = append(trees, []core.SegmentLengths{node, leaf(c)}, []core.SegmentLengths{leaf(c), node}, []core.SegmentLengths{one, leaf(b), leaf(c)},
					[]core.SegmentLengths{{Children: []core.SegmentLengths{one, leaf(c)}}})
			}
		}
	}
	type sc struct {
		line, impl, desc string
	}
	var cases []sc
	cases = append(cases, sc{casmSegLine(false, nil), realCasmHashOutcome(nil), "nil Compiled"})
	for n := 0; n <= 4; n++ {
		for _, extra := range []int{0, 2} {
			for _, t := range trees {
				bc := make([]felt.Felt, n, n+extra)
				c := &core.CasmClass{Bytecode: bc, BytecodeSegmentLengths: core.SegmentLengths{Children: t}, Prime: nil,
					External: []core.CasmEntryPoint{}, L1Handler: []core.CasmEntryPoint{}, Constructor: []core.CasmEntryPoint{}}
				cases = append(cases, sc{casmSegLine(false, c), realCasmHashOutcome(c), fmt.Sprintf("bytecode len %d cap %d, %d top-level segments", n, n+extra, len(t))})
			}
		}
	}
	lines := make([]string, len(cases))
	for i := range cases {
		lines[i] = cases[i].line
	}
	outs, err := askAllDeadline(drv, lines)
	if err != nil {
		res.Fatalf("driver (casm segments): %v", err)
		return
	}
	for i, c := range cases {
		res.Compared(1)
		res.Case("casmseg:"+c.line, false)
		res.Hit("corr-casm-segments")
		res.Hit("corr-casm-segments-" + c.impl)
		if outs[i] != c.impl {
			res.Mismatch(lib.Mismatch{Sig: "casm-segments", Input: c.desc + " | " + trunc(c.line, 300), Model: outs[i], Impl: c.impl})
		}
	}
}

// runCompiledDirected: a block of protocol < 0.14.1 (and one of 0.14.1) that declares a Sierra class whose
// COMPILED class is malformed, everything else valid: the block must be rejected with an error — not take the
// node down — and leave no trace; from 0.14.1 on the compiled class is not hashed by Store (observed).
func runCompiledDirected(f lib.Flags, res *lib.Result, dstNew bool) {
	backend := "legacy"
	if dstNew {
		backend = "new"
	}
	opt := lib.DefaultGenOptions()
	opt.NoClasses = true
	g := lib.NewChainGen(lib.NewRNG(f.Seed).Fork(6200), dstNew, opt)
	versions := []string{"0.13.2", "0.14.0", "0.14.1"}
	var hashes []felt.Felt
	for i, ver := range versions {
		h, c := sierraN(950 + uint64(i))
		c.Compiled.BytecodeSegmentLengths = core.SegmentLengths{Children: []core.SegmentLengths{{Length: 1}, {Length: 2}}}
		diff, classes := g.GenDiff(g.HeadState(), uint64(i), ver)
		casm := c.Compiled.Hash(core.HashVersionV1)
		if ver >= "0.14.1" {
			casm = c.Compiled.Hash(core.HashVersionV2)
		}
		diff.DeclaredV1Classes[h] = &casm
		classes[h] = c
		hashes = append(hashes, h)
		if _, err := g.Next(&lib.BlockSpec{Version: ver, Diff: diff, Classes: classes}); err != nil {
			res.Fatalf("generator (compiled-class directed): %v", err)
			return
		}
	}
	n := openNode(g, dstNew, memory.New())
	task := chainTask{Chain: -2, DstNew: dstNew}
	for pos, valid := range g.Bundles {
		base := n.db.Copy()
		before := dbDigest(n.db)
		variants := []struct {
			name string
			do   func(c *core.CasmClass, cls *core.SierraClass)
		}{
			{"bytecode-shorter-than-segment-lengths", func(c *core.CasmClass, _ *core.SierraClass) { c.Bytecode = append([]felt.Felt{}, c.Bytecode[:2]...) }},
			{"segment-length-exceeds-bytecode", func(c *core.CasmClass, _ *core.SierraClass) { c.BytecodeSegmentLengths.Children[1].Length = 3 }},
			{"segment-length-wraps-uint64", func(c *core.CasmClass, _ *core.SierraClass) { c.BytecodeSegmentLengths.Children[1].Length = ^uint64(0) }},
			{"no-compiled-class", func(_ *core.CasmClass, cls *core.SierraClass) { cls.Compiled = nil }},
		}
		for _, v := range variants {
			c := valid.Clone()
			cls := c.Classes[hashes[pos]].(*core.SierraClass)
			v.do(cls.Compiled, cls)
			r := offer(n, c)
			class := errClass(r.err)
			hashed := valid.Block.ProtocolVersion < "0.14.1"
			res.Case(fmt.Sprintf("compiled-directed/%v/%d/%s", dstNew, pos, v.name), true)
			res.Hit("tamper-compiled-class-directed")
			res.Hit("compiled-directed-" + valid.Block.ProtocolVersion + "-" + class)
			rp := replay{Task: task, Seed: f.Seed, Tier: f.Tier, Position: pos, Case: "compiled-class:" + v.name,
				Detail: fmt.Sprintf("block %d (version %s) declares Sierra class %s with its definition; the definition's compiled class is changed: %s (bytecode %d felts, segment lengths 1+2)",
					pos, valid.Block.ProtocolVersion, hashes[pos].String(), v.name, 3)}
			if r.err != nil {
				rp.Error = trunc(r.err.Error(), 300)
			}
			switch {
			case r.panicked:
				rp.Note = trunc(r.stack, 1500)
				res.Violate(lib.Violation{Sig: casmPanicSig, What: fmt.Sprintf("%s (%s; %s backend): %v", casmPanicWhat, rp.Detail, backend, r.err), Replay: rp})
			case r.hung:
				res.Violate(lib.Violation{Sig: "store-hangs:compiled-class", What: rp.Detail, Replay: rp})
			case r.err == nil && hashed:
				res.Violate(lib.Violation{Sig: "block-with-malformed-compiled-class-stored", What: "a block below 0.14.1 whose declared class has a compiled class the V2 hash cannot be computed from was stored: " + rp.Detail + " (" + backend + " backend)", Replay: rp})
			case r.err == nil:
				res.Hit("compiled-directed-observed-accepted-from-0.14.1")
			}
			after := dbDigest(n.db)
			if r.err != nil && !r.hung && after != before {
				res.Violate(lib.Violation{Sig: "rejected-block-has-effect:" + class, What: fmt.Sprintf("a block rejected for its compiled class (%s; class %s, %s backend) changed the database: %s", rp.Detail, class, backend, dbDiff(base, n.db)), Replay: rp})
			}
			if r.err == nil || r.panicked || r.hung || after != before {
				n = openNode(g, dstNew, base.Copy())
			}
		}
		if r := offer(n, valid); r.err != nil {
			res.Violate(lib.Violation{Sig: "valid-block-rejected", What: fmt.Sprintf("compiled-class directed: valid block %d rejected by the %s backend: %v", pos, backend, r.err),
				Replay: replay{Task: task, Seed: f.Seed, Tier: f.Tier, Position: pos, Case: "valid"}})
			return
		}
	}
}
