//go:build verif

package main

// Phase 3 — real-network fixture blocks of every hash format that /repo ships
// (clients/feeder/testdata): the model's block-hash and transaction-hash terms, evaluated with the
// real primitives, must equal core.BlockHash / core.TransactionHash on the adapted block, and the
// declared hash where juno itself can verify it. Hash agreement only (these blocks do not form a chain).

import (
	"encoding/json"
	"fmt"
	"os"
	"path/filepath"
	"sort"
	"strings"

	"github.com/NethermindEth/juno/adapters/sn2core"
	"github.com/NethermindEth/juno/blockchain/networks"
	"github.com/NethermindEth/juno/core"
	"github.com/NethermindEth/juno/core/felt"
	"github.com/NethermindEth/juno/starknet"
	"verif/harness/lib"
)

func repoDir() string {
	if d := os.Getenv("VERIF_REPO"); d != "" {
		return d
	}
	return "/repo"
}

func runFixtures(f lib.Flags, res *lib.Result, drv *lib.Driver) {
	nets := map[string]*networks.Network{
		"mainnet": &networks.Mainnet, "goerli": &networks.Goerli, "goerli2": &networks.Goerli2,
		"integration": &networks.Integration, "sepolia": &networks.Sepolia, "sepolia-integration": &networks.SepoliaIntegration,
	}
	root := filepath.Join(repoDir(), "clients", "feeder", "testdata")
	var names []string
	for n := range nets {
		names = append(names, n)
	}
	sort.Strings(names)
	type fx struct {
		desc, line, impl, declared string
		verifiable                 bool
	}
	var cases []fx
	type vfix struct {
		desc string
		net  *networks.Network
		b    *lib.Bundle
		skip bool
		// a variant of the fixture in which exactly the sequencer address is changed: must SanityCheckNewHeight refuse it?
		variant    string
		mustReject bool
	}
	var verdictFixtures []vfix
	maxTx := f.Scale(60, 1000)
	for _, name := range names {
		net := nets[name]
		files, _ := filepath.Glob(filepath.Join(root, name, "block", "*.json"))
		sort.Strings(files)
		for _, file := range files {
			base := strings.TrimSuffix(filepath.Base(file), ".json")
			if base == "latest" || base == "pending" {
				continue
			}
			raw, err := os.ReadFile(file)
			if err != nil {
				continue
			}
			var sb starknet.Block
			if err := json.Unmarshal(raw, &sb); err != nil || sb.Hash == nil {
				res.Hit("fixture-unreadable")
				continue
			}
			b, err := sn2core.AdaptBlock(&sb, nil)
			if err != nil {
				res.Hit("fixture-unadaptable")
				continue
			}
			if len(b.Transactions) > maxTx {
				res.Hit("fixture-skipped-large")
				continue
			}
			var sd *core.StateDiff
			for _, dir := range []string{"state_update", "state_update_with_block"} {
				raw, err := os.ReadFile(filepath.Join(root, name, dir, base+".json"))
				if err != nil {
					continue
				}
				var ssu starknet.StateUpdate
				if dir == "state_update_with_block" {
					var both struct {
						StateUpdate *starknet.StateUpdate `json:"state_update"`
					}
					if json.Unmarshal(raw, &both) != nil || both.StateUpdate == nil {
						continue
					}
					ssu = *both.StateUpdate
				} else if json.Unmarshal(raw, &ssu) != nil {
					continue
				}
				su, err := sn2core.AdaptStateUpdate(&ssu)
				if err == nil {
					sd = su.StateDiff
					break
				}
			}
			format := formatOf(b.ProtocolVersion)
			if sd == nil {
				if format != "pre0132" {
					res.Hit("fixture-no-state-update")
					continue
				}
				e := core.EmptyStateDiff()
				sd = &e
			}
			if format == "pre0132" {
				format = "post07"
				if b.Number < net.BlockHashMetaInfo.First07Block {
					format = "pre07"
				}
			}
			res.Hit("fixture-" + format)
			// transaction hashes
			for _, tx := range b.Transactions {
				cases = append(cases, fx{desc: fmt.Sprintf("fixture %s/%s tx %s", name, base, txKindOf(tx)), line: txLine(net, tx), impl: realTxHash(tx, net)})
			}
			// block hash, without and with the fallback sequencer override
			overrides := []*felt.Felt{nil}
			if b.SequencerAddress == nil {
				overrides = []*felt.Felt{&felt.Zero, net.BlockHashMetaInfo.FallBackSequencerAddress}
			}
			ur := net.BlockHashMetaInfo.UnverifiableRange
			verifiable := !(len(ur) == 2 && b.Number >= ur[0] && b.Number <= ur[1])
			verdictFixtures = append(verdictFixtures, vfix{desc: name + "/" + base + " (" + format + ")", net: net, skip: !verifiable,
				b: &lib.Bundle{Block: b, SU: &core.StateUpdate{BlockHash: b.Hash, NewRoot: b.GlobalStateRoot, OldRoot: &felt.Zero, StateDiff: sd},
					Classes: map[felt.Felt]core.ClassDefinition{}}})
			// every transition of the sequencer address on the real-network blocks of the post-0.7 Pedersen
			// format (mainnet 833, 1059, … carry none: their hash commits the zero / the fallback address)
			if format == "post07" && verifiable {
				fb := net.BlockHashMetaInfo.FallBackSequencerAddress
				for _, v := range []struct {
					name string
					val  *felt.Felt
				}{{"arbitrary", lib.F(0x123456)}, {"zero", lib.F(0)}, {"fallback", fb}, {"nil", nil}} {
					if (v.val == nil) == (b.SequencerAddress == nil) && (v.val == nil || v.val.Equal(b.SequencerAddress)) {
						continue
					}
					nb := lib.DeepCopy(b).(*core.Block)
					if v.val == nil {
						nb.SequencerAddress = nil
					} else {
						nb.SequencerAddress = new(felt.Felt).Set(v.val)
					}
					must := true
					switch {
					case b.SequencerAddress == nil && v.name != "arbitrary":
						must = false // one of zero / fallback IS the address the hash commits
					case b.SequencerAddress != nil && v.val == nil && (b.SequencerAddress.IsZero() || (fb != nil && b.SequencerAddress.Equal(fb))):
						must = false
					}
					verdictFixtures = append(verdictFixtures, vfix{desc: name + "/" + base + " (" + format + ") sequencer->" + v.name, net: net, variant: v.name, mustReject: must,
						b: &lib.Bundle{Block: nb, SU: &core.StateUpdate{BlockHash: b.Hash, NewRoot: b.GlobalStateRoot, OldRoot: &felt.Zero, StateDiff: sd},
							Classes: map[felt.Felt]core.ClassDefinition{}}})
				}
			}
			for _, o := range overrides {
				impl, _ := realBlockHash(b, sd, net, o)
				cases = append(cases, fx{desc: fmt.Sprintf("fixture %s/%s block (%s)", name, base, format), line: bhLine(net, o, b, sd),
					impl: impl, declared: feltHex(b.Hash), verifiable: verifiable && len(overrides) == 1})
			}
		}
	}
	// verdict of SanityCheckNewHeight on the fixture as it is, on a node with its network's parameters
	// (mainnet First07Block, the unverifiable ranges of Goerli / Integration): model vs real
	for _, vf := range verdictFixtures {
		ac := &acceptChecker{drv: drv, net: vf.net, cache: map[string]string{}}
		bc, _ := lib.NewNode(vf.net, true)
		var realErr error
		_, panicked, _ := lib.Try(func() error {
			_, realErr = bc.SanityCheckNewHeight(lib.DeepCopy(vf.b.Block).(*core.Block), lib.DeepCopy(vf.b.SU).(*core.StateUpdate), nil)
			return nil
		})
		if panicked {
			res.Hit("fixture-verdict-panic")
			continue
		}
		model, err := ac.modelVerdict(vf.b, 0, nil)
		if err != nil {
			res.Fatalf("fixture verdict %s: %v", vf.desc, err)
			continue
		}
		parts := strings.SplitN(model, " | ", 2)
		failing := 0
		if len(parts) == 2 {
			for _, c := range strings.Split(parts[1], ",") {
				if c != "" && c != "number" && c != "parent" {
					failing++
				}
			}
		}
		res.Compared(1)
		res.Case("fixture-verdict:"+vf.desc, true)
		res.Hit("corr-fixture-verdict")
		if vf.skip {
			res.Hit("corr-fixture-verdict-unverifiable-range")
		}
		if (realErr == nil) != (failing == 0) {
			res.Mismatch(lib.Mismatch{Sig: "fixture-verdict", Input: vf.desc, Model: model, Impl: fmt.Sprint(realErr)})
		}
		if vf.variant != "" {
			res.Hit("fixture-sequencer-transition-" + vf.variant)
			if vf.mustReject && realErr == nil {
				res.Violate(lib.Violation{Sig: "tampered-block-accepted:fixture:sequencer-address",
					What:   "real-network block " + vf.desc + ": the header's SequencerAddress was replaced by a value the block hash does not commit and SanityCheckNewHeight still accepts the block (the fallback-sequencer loop of VerifyBlockHash must try the zero / fallback address only for a header WITHOUT address)",
					Replay: map[string]any{"case": "fixture-sequencer", "fixture": vf.desc, "variant": vf.variant}})
			}
		}
	}

	lines := make([]string, len(cases))
	for i := range cases {
		lines[i] = cases[i].line
	}
	outs, err := askAllDeadline(drv, lines)
	if err != nil {
		res.Fatalf("driver (fixtures): %v", err)
		return
	}
	for i, c := range cases {
		got := outs[i]
		if got != "err" && got != "bad-op" {
			v, err := evalTerm(got)
			if err != nil {
				got = "eval-error: " + err.Error()
			} else {
				got = feltHex(&v)
			}
		}
		res.Compared(1)
		res.Case("fixture:"+c.desc+c.line[:min(len(c.line), 80)], true)
		res.Hit("corr-fixture")
		if got != c.impl {
			res.Mismatch(lib.Mismatch{Sig: "fixture-hash", Input: c.desc, Model: got, Impl: c.impl})
		} else if c.verifiable && c.declared != "" && got != c.declared {
			// model and code agree with each other but not with the network's declared hash
			res.Mismatch(lib.Mismatch{Sig: "fixture-declared-hash", Input: c.desc, Model: got, Impl: "declared " + c.declared})
		}
	}
}

// runClassFixtures covers the glue VerifyClassHashes depends on for Sierra classes: the adapter
// computes ProgramHash / AbiHash from the definition and SierraClass.Hash() reads only those. Real
// class fixtures: the adapted class hashes to its file name (the class hash); changing any program
// element (first / middle / last), the ABI, an entry point or the version changes the hash, i.e.
// core.VerifyClassHashes rejects the class under its old key.
func runClassFixtures(f lib.Flags, res *lib.Result) {
	root := filepath.Join(repoDir(), "clients", "feeder", "testdata")
	files, _ := filepath.Glob(filepath.Join(root, "*", "class", "0x*.json"))
	sort.Strings(files)
	for _, file := range files {
		if st, err := os.Stat(file); err != nil || st.Size() > int64(f.Scale(3_000_000, 30_000_000)) {
			continue
		}
		raw, err := os.ReadFile(file)
		if err != nil {
			continue
		}
		var def starknet.ClassDefinition
		if err := json.Unmarshal(raw, &def); err != nil || def.Sierra == nil {
			res.Hit("class-fixture-not-sierra")
			continue
		}
		key, err := new(felt.Felt).SetString(strings.TrimSuffix(filepath.Base(file), ".json"))
		if err != nil {
			continue
		}
		verify := func(s *starknet.SierraClass) error {
			cls, err := sn2core.AdaptSierraClass(s, nil)
			if err != nil {
				return err
			}
			return core.VerifyClassHashes(map[felt.Felt]core.ClassDefinition{*key: cls})
		}
		res.Hit("class-fixture-sierra")
		res.Case("classfix/"+filepath.Base(file), true)
		if err := verify(def.Sierra); err != nil {
			// some fixtures are not byte-exact copies of the network's class (the ABI string is part
			// of the hash): take the hash juno computes as the key and go on
			res.Hit("class-fixture-hash-differs-from-file-name")
			cls, err := sn2core.AdaptSierraClass(def.Sierra, nil)
			if err != nil {
				continue
			}
			h, err := cls.Hash()
			if err != nil {
				continue
			}
			key = &h
		}
		type mut struct {
			name string
			do   func(s *starknet.SierraClass)
		}
		var muts []mut
		for _, i := range positions(len(def.Sierra.Program)) {
			muts = append(muts, mut{fmt.Sprintf("program[%s]", posName(i, len(def.Sierra.Program))), func(s *starknet.SierraClass) {
				s.Program = append([]felt.Felt{}, s.Program...)
				feltInc(&s.Program[i])
			}})
		}
		muts = append(muts,
			mut{"program-append", func(s *starknet.SierraClass) { s.Program = append(append([]felt.Felt{}, s.Program...), *lib.F(1)) }},
			mut{"abi", func(s *starknet.SierraClass) { s.Abi += " " }},
			mut{"version", func(s *starknet.SierraClass) { s.Version += "1" }})
		if n := len(def.Sierra.EntryPoints.External); n > 0 {
			muts = append(muts, mut{"external-selector", func(s *starknet.SierraClass) {
				s.EntryPoints.External = append([]starknet.SierraEntryPoint{}, s.EntryPoints.External...)
				sel := *s.EntryPoints.External[n-1].Selector
				feltInc(&sel)
				s.EntryPoints.External[n-1].Selector = &sel
			}}, mut{"external-index", func(s *starknet.SierraClass) {
				s.EntryPoints.External = append([]starknet.SierraEntryPoint{}, s.EntryPoints.External...)
				s.EntryPoints.External[0].Index++
			}})
		}
		for _, m := range muts {
			c := *def.Sierra
			m.do(&c)
			res.Case("classfix/"+filepath.Base(file)+"/"+m.name, true)
			res.Hit("tamper-class-fixture")
			if err := verify(&c); err == nil {
				res.Violate(lib.Violation{Sig: "tampered-class-definition-accepted:" + strings.SplitN(m.name, "[", 2)[0],
					What:   fmt.Sprintf("class fixture %s: definition changed (%s) and core.VerifyClassHashes still accepts it under the old class hash", filepath.Base(file), m.name),
					Replay: map[string]string{"fixture": file, "mutation": m.name}})
			}
		}
	}
}
