//go:build verif

package main

// Phase "wide": position-exhaustive tampering of blocks whose item counts sit around multiples of
// the worker count. Every loop over a block's items that juno runs (or could run) chunked or in
// parallel — transaction hash verification, the commitment workers of calculateCommitment
// (transactions, receipts, events), VerifyClassHashes, the per-contract state application — is
// exercised with n = 1 .. 3*GOMAXPROCS+1 items (quick: all n for small GOMAXPROCS, n around the
// multiples for 7 and 16) for GOMAXPROCS in {1, 2, 4, 7, 16}, and EVERY position is tampered once:
//
//	tx        a committed non-hash field of transaction i (the declared hash is kept)      -> tx-hash
//	receipt   the fee of receipt i                                                         -> block-hash
//	event     the data of the first event of receipt i                                     -> block-hash
//	class     the definition of the i-th declared Sierra class                             -> class-hash
//	          (round 6: also the definitions of classes i and i+1 exchanged)
//	storage   the value written to the i-th contract, block hash recomputed                -> state
//	nonce     the nonce of the i-th contract, block hash recomputed                        -> state
//
// Expected as everywhere: rejected, database untouched, the valid block accepted afterwards.
// runtime.GOMAXPROCS is process-wide, so this phase runs alone, before the parallel one.

import (
	"fmt"
	"math/big"
	"runtime"
	"strings"

	"github.com/NethermindEth/juno/core"
	"github.com/NethermindEth/juno/core/felt"
	"github.com/NethermindEth/juno/db/memory"
	"verif/harness/lib"
)

var wideProcs = []int{1, 2, 4, 7, 16}

type wideCase struct {
	Procs  int    `json:"gomaxprocs"`
	Family string `json:"family"` // tx | class | state
	Size   int    `json:"size"`
	Pos    int    `json:"pos"`
	Kind   string `json:"kind"` // tx | receipt | event | class | storage | nonce
	NewSt  bool   `json:"dst_new_state"`
}

func wideSizes(f lib.Flags, p int) []int {
	var out []int
	if f.Thorough() || p <= 4 {
		for n := 1; n <= 3*p+1; n++ {
			out = append(out, n)
		}
		return out
	}
	// quick tier, many workers: one item, one chunk exactly and its neighbours, and counts that leave
	// a remainder of 1 after two and three rounds
	return []int{1, p - 1, p, p + 1, 2*p + 1, 3*p + 1}
}

// sierraN is a well-formed Sierra class number i (all distinct).
func sierraN(i uint64) (felt.Felt, *core.SierraClass) {
	F := lib.F
	casm := &core.CasmClass{
		Bytecode:        []felt.Felt{*F(40 + i), *F(9), *F(9)},
		CompilerVersion: "2.1.0",
		Prime:           new(big.Int).SetUint64(1),
		External:        []core.CasmEntryPoint{},
		L1Handler:       []core.CasmEntryPoint{},
		Constructor:     []core.CasmEntryPoint{},
	}
	cls := &core.SierraClass{
		Abi:     fmt.Sprintf("[c02 wide %d]", i),
		AbiHash: F(5000 + i),
		EntryPoints: core.SierraEntryPointsByType{
			Constructor: []core.SierraEntryPoint{},
			External:    []core.SierraEntryPoint{{Index: 0, Selector: F(6000 + i)}},
			L1Handler:   []core.SierraEntryPoint{},
		},
		Program:         []felt.Felt{*F(4), *F(2), *F(i)},
		ProgramHash:     F(7000 + i),
		SemanticVersion: "0.1.0",
		Compiled:        casm,
	}
	h, err := cls.Hash()
	if err != nil {
		panic(err)
	}
	return h, cls
}

type wideRun struct {
	f      lib.Flags
	res    *lib.Result
	only   *wideCase
	g      *lib.ChainGen
	n      *node
	ac     *acceptChecker
	base   *memory.Database // snapshot of the node's database before the current block's offers
	before [32]byte
}

func (w *wideRun) snapshot() {
	w.base = w.n.db.Copy()
	w.before = dbDigest(w.n.db)
}

// offerWide offers one tampered bundle and judges it.
func (w *wideRun) offerWide(wc wideCase, c *lib.Bundle, detail string, pos int) {
	if w.only != nil && *w.only != wc {
		return
	}
	base, before := w.base, w.before
	h0, head0 := headOf(w.n)
	r := offer(w.n, c)
	class := errClass(r.err)
	w.res.Case(fmt.Sprintf("wide/%+v", wc), true)
	w.res.Hit("tamper-wide-" + wc.Kind)
	w.res.Hit(fmt.Sprintf("wide-gomaxprocs-%d", wc.Procs))
	rel := "inside-full-chunks"
	if wc.Procs > 1 && wc.Size > wc.Procs && wc.Pos >= wc.Size-wc.Size%wc.Procs {
		rel = "in-remainder-after-equal-chunks"
	} else if wc.Size <= wc.Procs {
		rel = "fewer-items-than-workers"
	}
	w.res.Hit("wide-position-" + rel)
	w.res.Hit("outcome-" + class)
	rp := replay{Seed: w.f.Seed, Tier: w.f.Tier, Position: pos, Case: "wide:" + wc.Kind, Detail: detail, Wide: &wc}
	if r.err != nil {
		rp.Error = trunc(r.err.Error(), 300)
	}
	switch {
	case r.hung:
		w.res.Violate(lib.Violation{Sig: "store-hangs:wide:" + wc.Kind, What: "offering the block does not return: " + detail, Replay: rp})
	case r.panicked:
		w.res.Hit("rejected-by-panic:wide:" + wc.Kind)
		rp.Note = trunc(r.stack, 1200)
		w.res.Violate(lib.Violation{Sig: "store-panics:wide:" + wc.Kind, What: fmt.Sprintf("SanityCheckNewHeight/Store panics: %s: %v", detail, r.err), Replay: rp})
	case r.err == nil && wc.Kind == "tx" && singletonRejected(w.g, c, wc.Pos):
		w.res.Violate(lib.Violation{Sig: "transaction-not-verified-at-its-position",
			What: fmt.Sprintf("GOMAXPROCS=%d, block of %d transactions, position %d (%s): %s — the tampered block was stored (new-state backend: %v)",
				wc.Procs, wc.Size, wc.Pos, rel, detail, wc.NewSt), Replay: rp})
	case r.err == nil:
		w.res.Violate(lib.Violation{Sig: "tampered-block-accepted:wide:" + wc.Kind,
			What: fmt.Sprintf("GOMAXPROCS=%d, %d items, position %d (%s): %s — the tampered block was stored (new-state backend: %v)",
				wc.Procs, wc.Size, wc.Pos, rel, detail, wc.NewSt), Replay: rp})
	}
	if r.err != nil && !r.hung {
		after := dbDigest(w.n.db)
		h1, head1 := headOf(w.n)
		if after != before || h1 != h0 || head1 != head0 {
			w.res.Violate(lib.Violation{Sig: "rejected-block-has-effect:" + class,
				What: fmt.Sprintf("wide: a rejected block (%s) changed the node: %s", detail, dbDiff(base, w.n.db)), Replay: rp})
		}
	}
	if w.ac != nil && (wc.Pos%5 == 0 || wc.Pos >= wc.Size-2) {
		var hh *felt.Felt
		var hn uint64
		if pos > 0 {
			hn, hh = uint64(pos-1), w.g.Bundles[pos-1].Block.Hash
		}
		w.ac.compare(w.res, tamperCase{Name: "wide:" + wc.Kind, Detail: detail, Bundle: c}, hn, hh, class)
	}
	if r.err == nil || r.panicked || r.hung {
		w.n = openNode(w.g, wc.NewSt, base.Copy())
	}
}

// singletonRejected: VerifyTransactions rejects transaction i of c when it is alone in the list.
func singletonRejected(g *lib.ChainGen, c *lib.Bundle, i int) bool {
	err, panicked, _ := lib.Try(func() error {
		return core.VerifyTransactions([]core.Transaction{c.Block.Transactions[i]}, g.Net, c.Block.ProtocolVersion)
	})
	return err != nil && !panicked
}

func (w *wideRun) storeValid(pos int) bool {
	if r := offer(w.n, w.g.Bundles[pos]); r.err != nil {
		w.res.Violate(lib.Violation{Sig: "valid-block-rejected", What: fmt.Sprintf("wide: valid block %d rejected: %v", pos, r.err),
			Replay: replay{Seed: w.f.Seed, Tier: w.f.Tier, Position: pos, Case: "valid"}})
		return false
	}
	w.res.Hit("valid-block-stored")
	return true
}

// txFieldSites returns, for every transaction index, the (site, mutation) pairs that change a
// committed field other than the declared hash and the version.
func txFieldSites(b *lib.Bundle) map[int][][2]int {
	out := map[int][][2]int{}
	for si, s := range enumerate(b) {
		m := idxRe.FindStringSubmatch(s.Path)
		if m == nil || m[1] != "Transactions" || s.Ctx.TxKind == "" {
			continue
		}
		if strings.HasSuffix(s.Norm, ".TransactionHash") || strings.HasSuffix(s.Norm, ".Version") ||
			strings.Contains(s.Norm, "ResourceBounds") && s.Kind == "map" {
			continue
		}
		var idx int
		fmt.Sscanf(m[2], "%d", &idx)
		for mi, mut := range s.Muts {
			if mut != "inc" && mut != "append" {
				continue
			}
			if s.Kind == "slice" && strings.HasSuffix(s.Norm, "TransactionSignature") {
				continue // the signature is bound by the commitment, not by the transaction hash
			}
			if unc, _ := uncommitted(s, mut, b, b); unc {
				continue
			}
			out[idx] = append(out[idx], [2]int{si, mi})
		}
	}
	return out
}

func (w *wideRun) runTxFamily(p int, newSt bool, rng *lib.RNG) {
	opt := lib.DefaultGenOptions()
	opt.NoClasses = true
	opt.MaxEvents = 2
	w.g = lib.NewChainGen(rng, false, opt)
	w.n = openNode(w.g, newSt, memory.New())
	sizes := wideSizes(w.f, p)
	for bi, n := range sizes {
		version := opt.Versions[bi*len(opt.Versions)/len(sizes)]
		spec := &lib.BlockSpec{Version: version}
		for len(spec.Txs) < n {
			tx := w.g.GenTx(version)
			if _, legacy := tx.(*core.DeployTransaction); legacy {
				continue // its hash is never verified (known finding): nothing to learn per position
			}
			rc := w.g.GenReceipt(tx)
			if len(rc.Events) == 0 {
				from := w.g.Addr(2)
				rc.Events = []*core.Event{{From: &from, Keys: []felt.Felt{lib.EventKey(0)}, Data: []felt.Felt{*lib.F(1)}}}
			}
			spec.Txs = append(spec.Txs, tx)
			spec.Rcs = append(spec.Rcs, rc)
		}
		b, err := w.g.Next(spec)
		if err != nil {
			w.res.Fatalf("wide generator: %v", err)
			return
		}
		sites := txFieldSites(b)
		all := enumerate(b)
		w.snapshot()
		for pos := 0; pos < n; pos++ {
			wc := wideCase{Procs: p, Family: "tx", Size: n, Pos: pos, NewSt: newSt}
			if cands := sites[pos]; len(cands) > 0 {
				pick := cands[(pos+n)%len(cands)]
				s := all[pick[0]]
				wc.Kind = "tx"
				w.offerWide(wc, tamper(b, pick[0], s.Muts[pick[1]]), s.Path+" "+s.Muts[pick[1]]+" (declared transaction hash kept)", bi)
			}
			{
				c := b.Clone()
				feltInc(c.Block.Receipts[pos].Fee)
				wc.Kind = "receipt"
				w.offerWide(wc, c, fmt.Sprintf("fee of receipt %d changed", pos), bi)
			}
			{
				c := b.Clone()
				ev := c.Block.Receipts[pos].Events[0]
				ev.Data = append(ev.Data, *lib.F(3))
				wc.Kind = "event"
				w.offerWide(wc, c, fmt.Sprintf("data of the first event of receipt %d extended", pos), bi)
			}
		}
		if !w.storeValid(bi) {
			return
		}
	}
}

func (w *wideRun) runClassFamily(p int, newSt bool, rng *lib.RNG) {
	opt := lib.DefaultGenOptions()
	opt.NoClasses = true
	w.g = lib.NewChainGen(rng, false, opt)
	w.n = openNode(w.g, newSt, memory.New())
	next := uint64(0)
	for bi, n := range wideSizes(w.f, p) {
		d := core.EmptyStateDiff()
		classes := map[felt.Felt]core.ClassDefinition{}
		for i := 0; i < n; i++ {
			h, cls := sierraN(next)
			next++
			casm := cls.Compiled.Hash(core.HashVersionV1)
			d.DeclaredV1Classes[h] = &casm
			classes[h] = cls
		}
		b, err := w.g.Next(&lib.BlockSpec{Version: "0.14.0", Diff: &d, Classes: classes, NoTxs: true})
		if err != nil {
			w.res.Fatalf("wide class generator: %v", err)
			return
		}
		w.snapshot()
		for pos, k := range sortedKeys(b.Classes) {
			c := b.Clone()
			cls := c.Classes[k].(*core.SierraClass)
			ph := *cls.ProgramHash
			feltInc(&ph)
			cls.ProgramHash = &ph
			w.offerWide(wideCase{Procs: p, Family: "class", Size: n, Pos: pos, Kind: "class", NewSt: newSt}, c,
				fmt.Sprintf("definition of declared class %d of %d changed (program hash)", pos, n), bi)
		}
		// round 6: two well-formed definitions EXCHANGED (keys, diff and block hash kept): every definition still hashes
		// to SOME key of the list, none to its own — a check "every announced hash is backed by a definition" passes
		if keys := sortedKeys(b.Classes); n >= 2 {
			for pos := range keys {
				c := b.Clone()
				k0, k1 := keys[pos], keys[(pos+1)%n]
				c.Classes[k0], c.Classes[k1] = c.Classes[k1], c.Classes[k0]
				w.offerWide(wideCase{Procs: p, Family: "class", Size: n, Pos: pos, Kind: "class-exchange", NewSt: newSt}, c,
					fmt.Sprintf("definitions of declared classes %d and %d of %d exchanged", pos, (pos+1)%n, n), bi)
			}
		}
		if !w.storeValid(bi) {
			return
		}
	}
}

func (w *wideRun) runStateFamily(p int, newSt bool, rng *lib.RNG) {
	opt := lib.DefaultGenOptions()
	opt.NoClasses = true
	w.g = lib.NewChainGen(rng, false, opt)
	w.n = openNode(w.g, newSt, memory.New())
	nextAddr := 10
	bi := 0
	for _, n := range wideSizes(w.f, p) {
		// block A deploys n fresh contracts, block B writes one slot and the nonce of each
		var addrs []felt.Felt
		da := core.EmptyStateDiff()
		cls := w.g.ClassHash(0)
		for i := 0; i < n; i++ {
			a := w.g.Addr(nextAddr)
			nextAddr++
			addrs = append(addrs, a)
			c := cls
			da.DeployedContracts[a] = &c
		}
		if _, err := w.g.Next(&lib.BlockSpec{Version: "0.14.0", Diff: &da, NoTxs: true}); err != nil {
			w.res.Fatalf("wide state generator: %v", err)
			return
		}
		if !w.storeValid(bi) {
			return
		}
		bi++
		db := core.EmptyStateDiff()
		for i, a := range addrs {
			db.StorageDiffs[a] = map[felt.Felt]*felt.Felt{*lib.F(1): lib.F(uint64(5 + i))}
			db.Nonces[a] = lib.F(1)
		}
		b, err := w.g.Next(&lib.BlockSpec{Version: "0.14.0", Diff: &db, NoTxs: true})
		if err != nil {
			w.res.Fatalf("wide state generator: %v", err)
			return
		}
		w.snapshot()
		for pos, a := range sortedKeys(b.SU.StateDiff.StorageDiffs) {
			{
				c := b.Clone()
				v := c.SU.StateDiff.StorageDiffs[a][*lib.F(1)]
				v.Add(v, lib.F(1000))
				if rehash(w.g, c) {
					w.offerWide(wideCase{Procs: p, Family: "state", Size: n, Pos: pos, Kind: "storage", NewSt: newSt}, c,
						fmt.Sprintf("storage value written to contract %d of %d changed, block hash recomputed", pos, n), bi)
				}
			}
			{
				c := b.Clone()
				feltInc(c.SU.StateDiff.Nonces[a])
				if rehash(w.g, c) {
					w.offerWide(wideCase{Procs: p, Family: "state", Size: n, Pos: pos, Kind: "nonce", NewSt: newSt}, c,
						fmt.Sprintf("nonce of contract %d of %d changed, block hash recomputed", pos, n), bi)
				}
			}
		}
		if !w.storeValid(bi) {
			return
		}
		bi++
	}
}

// runWide is the whole phase; `only` restricts it to one case (replay).
func runWide(f lib.Flags, res *lib.Result, only *wideCase) {
	old := runtime.GOMAXPROCS(0)
	defer runtime.GOMAXPROCS(old)
	for pi, p := range wideProcs {
		if only != nil && only.Procs != p {
			continue
		}
		runtime.GOMAXPROCS(p)
		for _, fam := range []string{"tx", "class", "state"} {
			if only != nil && only.Family != fam {
				continue
			}
			// both backends in the thorough tier; alternating in the quick tier
			backends := []bool{(pi+len(fam))%2 == 0}
			if f.Thorough() {
				backends = []bool{false, true}
			}
			if only != nil {
				backends = []bool{only.NewSt}
			}
			for _, newSt := range backends {
				w := &wideRun{f: f, res: res, only: only}
				rng := lib.NewRNG(f.Seed).Fork(uint64(31000 + 10*p + len(fam)))
				switch fam {
				case "tx":
					// the verdict correspondence needs the generator, which runTxFamily creates:
					// start the checker lazily
					w.runTxFamilyWithChecker(p, newSt, rng)
				case "class":
					w.runClassFamily(p, newSt, rng)
				case "state":
					w.runStateFamily(p, newSt, rng)
				}
			}
		}
	}
}

func (w *wideRun) runTxFamilyWithChecker(p int, newSt bool, rng *lib.RNG) {
	// the checker only needs the network of the generator; give it a throw-away generator's
	if w.only == nil {
		w.ac = newAcceptChecker(w.f, w.res, lib.NewChainGen(lib.NewRNG(1), false, lib.DefaultGenOptions()))
		defer w.ac.close()
	}
	w.runTxFamily(p, newSt, rng)
}
