//go:build verif

package main

// Phase "json": the glue in front of the hash checks — adapters/sn2core (feeder JSON -> core structs).
// Real-network fixture blocks of the 0.13.2 / 0.13.4 / 0.14.x formats that ship with their state
// update (/repo/clients/feeder/testdata) are tampered AT THE JSON LEVEL, one leaf at a time
// (every object key; first / middle / last element of arrays, every transaction when there are few),
// decoded with the starknet types, adapted with sn2core and offered to SanityCheckNewHeight — the
// very path sync takes. Expected: a decoding error, an adapter error or a verification error.
// A tampered field that passes everything is one no check binds: it must be listed in
// jsonUncommitted (the JSON counterpart of `uncommitted`), otherwise it is a violation — this is how a
// field that the adapter silently drops, defaults or truncates is noticed. Older formats (post07 /
// pre07 blocks) are run too, observation only (their hash commits far less).

import (
	"bytes"
	"encoding/json"
	"fmt"
	"os"
	"path/filepath"
	"regexp"
	"sort"
	"strings"

	"github.com/Masterminds/semver/v3"
	"github.com/NethermindEth/juno/adapters/sn2core"
	"github.com/NethermindEth/juno/blockchain/networks"
	"github.com/NethermindEth/juno/core"
	"github.com/NethermindEth/juno/core/felt"
	"github.com/NethermindEth/juno/starknet"
	"verif/harness/lib"
)

type jsonSite struct {
	path []any  // keys (string) and indices (int)
	norm string // stable path
	old  any
}

func decodeJSON(raw []byte) (any, error) {
	d := json.NewDecoder(bytes.NewReader(raw))
	d.UseNumber()
	var v any
	err := d.Decode(&v)
	return v, err
}

// jsonSites lists the leaves of v.
func jsonSites(v any, path []any, norm string, out *[]jsonSite) {
	switch x := v.(type) {
	case map[string]any:
		keys := make([]string, 0, len(x))
		for k := range x {
			keys = append(keys, k)
		}
		sort.Strings(keys)
		tag := ""
		if t, ok := x["type"].(string); ok {
			if ver, ok := x["version"].(string); ok {
				tag = "<" + t + " " + ver + ">"
			}
		}
		for _, k := range keys {
			nk := k
			// map-like objects keyed by addresses (storage_diffs, nonces, ...): the key is data
			if strings.HasPrefix(k, "0x") {
				nk = "{addr}"
			}
			jsonSites(x[k], append(append([]any{}, path...), k), norm+tag+"."+nk, out)
		}
	case []any:
		n := len(x)
		idxs := positions(n)
		if n <= 16 {
			idxs = idxs[:0]
			for i := 0; i < n; i++ {
				idxs = append(idxs, i)
			}
		}
		for _, i := range idxs {
			jsonSites(x[i], append(append([]any{}, path...), i), norm+"[]", out)
		}
	case nil:
	default:
		*out = append(*out, jsonSite{path: append([]any{}, path...), norm: norm, old: v})
	}
}

func mutateLeaf(v any) (any, bool) {
	switch x := v.(type) {
	case string:
		if strings.HasPrefix(x, "0x") && len(x) > 2 {
			last := x[len(x)-1]
			repl := byte('1')
			if last == '1' {
				repl = '2'
			}
			return x[:len(x)-1] + string(repl), true
		}
		return x + "1", true
	case json.Number:
		var n uint64
		if _, err := fmt.Sscan(x.String(), &n); err != nil {
			return nil, false
		}
		return json.Number(fmt.Sprint(n + 1)), true
	case bool:
		return !x, true
	}
	return nil, false
}

// setPath returns a deep copy of v with the leaf at path replaced.
func setPath(v any, path []any, leaf any) any {
	if len(path) == 0 {
		return leaf
	}
	switch x := v.(type) {
	case map[string]any:
		c := make(map[string]any, len(x))
		for k, vv := range x {
			c[k] = vv
		}
		k := path[0].(string)
		c[k] = setPath(x[k], path[1:], leaf)
		return c
	case []any:
		c := append([]any{}, x...)
		i := path[0].(int)
		c[i] = setPath(x[i], path[1:], leaf)
		return c
	}
	return v
}

var semver011 = semver.MustParse("0.11.0")

var jsonUncommittedRe = []struct {
	re  *regexp.Regexp
	why string
}{
	{regexp.MustCompile(`^block\.status$`), "the L1/L2 status is not block content"},
	{regexp.MustCompile(`^block\.(transaction_commitment|event_commitment|receipt_commitment|state_diff_commitment|state_diff_length)$`),
		"juno ignores the commitments the feeder reports and recomputes them"},
	{regexp.MustCompile(`^block\.transaction_receipts\[\]\.transaction_index$`), "the index is implied by the position"},
	{regexp.MustCompile(`^block\.transaction_receipts\[\]\.execution_resources\.(n_steps|n_memory_holes|builtin_instance_counter\..*|data_availability\..*|total_gas_consumed\.l2_gas)$`),
		"only total_gas_consumed.l1_gas / l1_data_gas of the execution resources are in the receipt hash"},
	{regexp.MustCompile(`^block\.transaction_receipts\[\]\.l1_to_l2_consumed_message\.`), "the consumed L1->L2 message is not in the receipt hash"},
	{regexp.MustCompile(`^block\.transactions\[\]<DEPLOY_ACCOUNT [^>]*>\.sender_address$`),
		"the feeder repeats a deploy-account's contract_address as sender_address; the adapter reads contract_address only"},
	{regexp.MustCompile(`^su\.old_root$`), "the old root is checked by Store against the node's state, not by SanityCheckNewHeight"},
}

func jsonUncommitted(norm, format string) (bool, string) {
	for _, e := range jsonUncommittedRe {
		if e.re.MatchString(norm) {
			return true, e.why
		}
	}
	if format == "v0132" && strings.HasPrefix(norm, "block.l2_gas_price.") {
		return true, "the 0.13.2 block hash does not include the L2 gas price"
	}
	return false, ""
}

func runJSONTamper(f lib.Flags, res *lib.Result) {
	nets := map[string]*networks.Network{
		"mainnet": &networks.Mainnet, "sepolia": &networks.Sepolia, "sepolia-integration": &networks.SepoliaIntegration,
	}
	root := filepath.Join(repoDir(), "clients", "feeder", "testdata")
	maxSize := int64(f.Scale(60_000, 700_000))
	for _, name := range []string{"mainnet", "sepolia", "sepolia-integration"} {
		net := nets[name]
		files, _ := filepath.Glob(filepath.Join(root, name, "block", "*.json"))
		sort.Strings(files)
		for _, file := range files {
			base := strings.TrimSuffix(filepath.Base(file), ".json")
			if st, err := os.Stat(file); err != nil || st.Size() > maxSize || base == "pending" || base == "latest" {
				continue
			}
			rawB, err := os.ReadFile(file)
			if err != nil {
				continue
			}
			rawSU, err := os.ReadFile(filepath.Join(root, name, "state_update", base+".json"))
			if err != nil {
				raw2, err2 := os.ReadFile(filepath.Join(root, name, "state_update_with_block", base+".json"))
				if err2 != nil {
					continue
				}
				var both struct {
					StateUpdate json.RawMessage `json:"state_update"`
				}
				if json.Unmarshal(raw2, &both) != nil || both.StateUpdate == nil {
					continue
				}
				rawSU = both.StateUpdate
			}
			jb, err1 := decodeJSON(rawB)
			jsu, err2 := decodeJSON(rawSU)
			if err1 != nil || err2 != nil {
				continue
			}
			bc, _ := lib.NewNode(net, true)
			// offerJSON decodes, adapts and sanity-checks a (block, state update) pair
			offerJSON := func(jb, jsu any) (stage string, err error) {
				bb, _ := json.Marshal(jb)
				sb, _ := json.Marshal(jsu)
				var blk starknet.Block
				var su starknet.StateUpdate
				if err := json.Unmarshal(bb, &blk); err != nil {
					return "decode", err
				}
				if err := json.Unmarshal(sb, &su); err != nil {
					return "decode", err
				}
				var stageOut string
				e, panicked, _ := lib.Try(func() error {
					cb, err := sn2core.AdaptBlock(&blk, nil)
					if err != nil {
						stageOut = "adapt"
						return err
					}
					csu, err := sn2core.AdaptStateUpdate(&su)
					if err != nil {
						stageOut = "adapt"
						return err
					}
					stageOut = "verify"
					_, err = bc.SanityCheckNewHeight(cb, csu, map[felt.Felt]core.ClassDefinition{})
					return err
				})
				if panicked {
					return "panic", e
				}
				return stageOut, e
			}
			stage, err := offerJSON(jb, jsu)
			var probe starknet.Block
			_ = json.Unmarshal(rawB, &probe)
			format := formatOf(probe.Version)
			if err != nil {
				if format == "v0132" || format == "v0134" {
					// a real block of the network, of a format juno verifies completely, is rejected
					res.Violate(lib.Violation{Sig: "real-network-block-rejected",
						What:   fmt.Sprintf("fixture %s/%s (%s), a block of the real network with its state update, is rejected at stage %s: %v", name, base, format, stage, err),
						Replay: map[string]any{"fixture": name + "/" + base, "stage": stage, "error": trunc(err.Error(), 300)}})
				}
				// (older fixtures: juno cannot verify some of them at all — nothing to tamper)
				res.Hit("json-fixture-not-verifiable:" + stage)
				continue
			}
			old := format == "pre0132"
			res.Hit("json-fixture-" + format)
			if v, perr := core.ParseBlockVersion(probe.Version); old && perr == nil && !v.LessThan(semver011) {
				// real blocks of the Pedersen format: version lowered below 0.11.0 + a calldata element changed
				if bm, ok := jb.(map[string]any); ok {
					if txs, ok := bm["transactions"].([]any); ok {
						for ti, t := range txs {
							tm, ok := t.(map[string]any)
							cd, ok2 := tm["calldata"].([]any)
							if !ok || !ok2 || len(cd) == 0 {
								continue
							}
							leaf, _ := mutateLeaf(cd[0])
							tb := setPath(jb, []any{"transactions", ti, "calldata", 0}, leaf)
							_, errSame := offerJSON(tb, jsu)
							tb = setPath(tb, []any{"starknet_version"}, "0.10.0")
							_, errDown := offerJSON(tb, jsu)
							res.Case(fmt.Sprintf("json-downgrade/%s/%s", name, base), true)
							res.Hit("tamper-json-downgrade")
							if errSame == nil {
								res.Violate(lib.Violation{Sig: "tampered-json-field-accepted:block.transactions[].calldata[]",
									What: fmt.Sprintf("fixture %s/%s: calldata of transaction %d changed and the block still verifies", name, base, ti), Replay: map[string]any{"fixture": name + "/" + base, "tx": ti}})
							} else if errDown == nil {
								res.Violate(lib.Violation{Sig: downgradeSig,
									What:   fmt.Sprintf("%s — real-network fixture %s/%s (%s): starknet_version set to \"0.10.0\" and calldata[0] of transaction %d changed; decodes, adapts and passes SanityCheckNewHeight", downgradeWhat, name, base, probe.Version, ti),
									Replay: map[string]any{"fixture": name + "/" + base, "tx": ti, "seed": f.Seed, "tier": f.Tier}})
							}
							break
						}
					}
				}
			}
			var sites []jsonSite
			jsonSites(jb, nil, "block", &sites)
			nBlockSites := len(sites)
			jsonSites(jsu, nil, "su", &sites)
			for si, s := range sites {
				leaf, ok := mutateLeaf(s.old)
				if !ok {
					continue
				}
				tb, tsu := jb, jsu
				if si < nBlockSites {
					tb = setPath(jb, s.path, leaf)
				} else {
					tsu = setPath(jsu, s.path, leaf)
				}
				stage, err := offerJSON(tb, tsu)
				res.Case(fmt.Sprintf("json/%s/%s/%v", name, base, s.path), true)
				res.Hit("tamper-json")
				switch {
				case err != nil:
					res.Hit("json-rejected-at-" + stage)
					if stage == "panic" {
						res.Hit("json-rejected-by-panic:" + s.norm)
						rp := map[string]any{"fixture": name + "/" + base, "path": s.path, "old": s.old, "new": leaf, "seed": f.Seed, "tier": f.Tier}
						if (s.norm == "block.starknet_version" || strings.HasSuffix(s.norm, ">.version")) && strings.Contains(err.Error(), "nil pointer dereference") {
							res.Violate(lib.Violation{Sig: panicSig, What: fmt.Sprintf("%s (fixture %s/%s: JSON field %v changed from %v to %v: %v)", panicWhat, name, base, s.path, s.old, leaf, err), Replay: rp})
						} else {
							res.Violate(lib.Violation{Sig: "store-panics:json:" + s.norm, What: fmt.Sprintf("fixture %s/%s: JSON field %v changed from %v to %v: SanityCheckNewHeight panics: %v", name, base, s.path, s.old, leaf, err), Replay: rp})
						}
					}
				case old:
					res.Hit("json-old-format-accepted:" + s.norm)
				default:
					if unc, why := jsonUncommitted(s.norm, format); unc {
						res.Hit("json-uncommitted-accepted")
						res.Hit("exception:" + why)
						continue
					}
					res.Violate(lib.Violation{Sig: "tampered-json-field-accepted:" + s.norm,
						What: fmt.Sprintf("fixture %s/%s (%s): JSON field %v changed from %v to %v; the block still decodes, adapts (sn2core) and passes SanityCheckNewHeight",
							name, base, format, s.path, s.old, leaf),
						Replay: map[string]any{"fixture": name + "/" + base, "path": s.path, "old": s.old, "new": leaf, "seed": f.Seed, "tier": f.Tier}})
				}
			}
		}
	}
}
