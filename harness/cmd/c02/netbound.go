//go:build verif

package main

// Phase "network boundaries" (round 4). Every tamper chain so far lives on Sepolia's parameters
// (First07Block = 0, no unverifiable range, sequencer always present), so `pre07Hash`, the
// unverifiable-range branch of VerifyBlockHash (`skipVerification`) and the fallback-sequencer loop
// were tied by real-network fixture hash lines only. Here the node runs on a network whose constants
// are small enough for a generated chain to straddle them:
//
//	First07Block = 2              blocks 0, 1 use pre07Hash, block 2 is the first post-0.7 block
//	UnverifiableRange = [4, 5]    blocks 3 | 4, 5 | 6 sit on both sides of both ends
//	FallBackSequencerAddress      = one of the two sequencer addresses the generator uses, so a block
//	                                offered WITHOUT sequencer address verifies through the fallback
//	                                loop iff the generator drew that address
//
// block versions: 0.10.3 (pre07, transactions unverifiable), 0.10.3, 0.10.3 (post07), 0.11.0, 0.12.3,
// 0.12.3 (in the range), 0.13.1, 0.13.2. At EVERY position the single-field / compound / re-hashed /
// misplaced tamperings are offered to both backends; what must be rejected depends on the format:
// the fields pre07Hash commits; inside the range only linkage, state roots and the receipt/transaction
// pairing; re-hashed and misplaced blocks everywhere (a re-hashed number±1 crosses First07Block and both
// ends of the range). Everything else is observed. For every offer the Lean model's verdict class is
// compared with the real node's (the tie of `dispatch … pre07`, `inUnverifiable`, `tryFallbacks … skip`).

import (
	"fmt"
	"regexp"
	"strings"
	"sync"

	"github.com/NethermindEth/juno/blockchain/networks"
	"github.com/NethermindEth/juno/core"
	"github.com/NethermindEth/juno/core/felt"
	"github.com/NethermindEth/juno/db/memory"
	"verif/harness/lib"
)

const (
	netFirst07 = 2
	netUnvLo   = 4
	netUnvHi   = 5
)

func customNet() *networks.Network {
	n := networks.Sepolia
	n.Name = "c02-boundaries"
	n.BlockHashMetaInfo = &networks.BlockHashMetaInfo{
		First07Block:             netFirst07,
		UnverifiableRange:        []uint64{netUnvLo, netUnvHi},
		FallBackSequencerAddress: lib.F(0x5e9),
	}
	return &n
}

var netVersions = []string{"0.10.3", "0.10.3", "0.10.3", "0.11.0", "0.12.3", "0.12.3", "0.13.1", "0.13.2"}

func buildNetChain(f lib.Flags, srcNew bool) (*lib.ChainGen, error) {
	opt := lib.DefaultGenOptions()
	opt.MaxTxs = 4
	opt.EmptyDiffs = 5
	opt.Versions = []string{"0.10.3", "0.11.0", "0.12.3", "0.13.1", "0.13.2"}
	g := lib.NewChainGen(lib.NewRNG(f.Seed).Fork(7300), srcNew, opt)
	g.Net = customNet()
	g.Src, g.SrcDB = lib.NewNode(g.Net, srcNew)
	for i, v := range netVersions {
		spec := &lib.BlockSpec{Version: v}
		// at least three transactions, one of them an invoke (its signature is what the pre-0.11.1
		// Pedersen commitment commits)
		for len(spec.Txs) < 3 {
			tx := g.GenTx(v)
			if len(spec.Txs) == 0 {
				if _, ok := tx.(*core.InvokeTransaction); !ok {
					continue
				}
			}
			spec.Txs = append(spec.Txs, tx)
			spec.Rcs = append(spec.Rcs, g.GenReceipt(tx))
		}
		// the generator draws the sequencer address (0x5e9 = this network's fallback, or 0x5ea): redraw until
		// the post-0.7 blocks 2 and 6 carry the fallback address and block 3 the other one, so that both
		// outcomes of the fallback loop occur in every run
		want := map[int]uint64{2: 0x5e9, 3: 0x5ea, 6: 0x5e9}
		for attempt := 0; ; attempt++ {
			b, err := g.Next(spec)
			if err != nil {
				return nil, fmt.Errorf("block %d: %w", i, err)
			}
			w, ok := want[i]
			if !ok || b.Block.SequencerAddress.Equal(lib.F(w)) || attempt > 40 {
				break
			}
			if err := g.Revert(); err != nil {
				return nil, fmt.Errorf("block %d: %w", i, err)
			}
		}
	}
	return g, nil
}

func netFormat(b *lib.Bundle) string {
	switch {
	case b.Block.Number >= netUnvLo && b.Block.Number <= netUnvHi:
		return "unverifiable"
	case formatOf(b.Block.ProtocolVersion) != "pre0132":
		return formatOf(b.Block.ProtocolVersion)
	case b.Block.Number < netFirst07:
		return "pre07"
	}
	return "post07"
}

var (
	netLinkageRe = regexp.MustCompile(`^\.Block\.(Hash|ParentHash|Number|GlobalStateRoot)$|^\.SU\.(BlockHash|NewRoot|OldRoot)$` +
		`|^\.Block\.Receipts\[\]\.TransactionHash$|^\.Block\.Transactions\[\]<[^>]*>\.TransactionHash$`)
	netPre07Re   = regexp.MustCompile(`^\.Block\.TransactionCount$`)
	netPost07Re  = regexp.MustCompile(`^\.Block\.(SequencerAddress|TransactionCount|EventCount|Timestamp)$`)
	netTxFieldRe = regexp.MustCompile(`^\.Block\.Transactions\[\]<`)
)

// netExpect: must the single-field tampering be rejected / accepted on this network position?
// ("" = observed only).
func netExpect(g *lib.ChainGen, pos int, tc tamperCase, s string, mut string) string {
	b := g.Bundles[pos]
	format := netFormat(b)
	if format == "v0132" {
		if tc.MustReject {
			return "reject"
		}
		return "accept"
	}
	if strings.HasPrefix(s, ".SU.StateDiff") {
		if !stateNeutral(g, pos, tc.Bundle) {
			return "reject"
		}
		return ""
	}
	if netLinkageRe.MatchString(s) {
		return "reject"
	}
	switch format {
	case "unverifiable":
		if s == ".Block.Timestamp" || s == ".Block.EventCount" || s == ".Block.TransactionCount" {
			return "accept" // by design: nothing the block hash commits is checked inside the range
		}
	case "pre07":
		if netPre07Re.MatchString(s) {
			return "reject"
		}
		if s == ".Block.Timestamp" || s == ".Block.EventCount" {
			return "accept" // pre07Hash hashes zeros in the reserved positions
		}
		if s == ".Block.SequencerAddress" && mut == "inc" {
			return "accept"
		}
	case "post07":
		if netPost07Re.MatchString(s) {
			return "reject"
		}
		// transaction fields are hash-verified from 0.11.0 on; the signature is not part of the transaction
		// hash, and the Pedersen transaction commitment commits it for invokes only before 0.11.1
		if netTxFieldRe.MatchString(s) && b.Block.ProtocolVersion >= "0.11.0" && tc.MustReject {
			if strings.Contains(s, ">.TransactionSignature") && b.Block.ProtocolVersion < "0.11.1" && !strings.Contains(s, "<Invoke") {
				return ""
			}
			return "reject"
		}
	}
	return ""
}

type netCase struct {
	tc     tamperCase
	expect string // "reject" | "accept" | ""
}

func netCases(f lib.Flags, g *lib.ChainGen, fg *lib.ChainGen, pos int) []netCase {
	b := g.Bundles[pos]
	format := netFormat(b)
	var out []netCase
	sites := enumerate(b)
	ci := 0
	for si, s := range sites {
		for _, m := range s.Muts {
			ci++
			header := !strings.HasPrefix(s.Norm, ".Block.Transactions") && !strings.HasPrefix(s.Norm, ".Block.Receipts[]") &&
				!strings.HasPrefix(s.Norm, ".Classes")
			if riskyCase("field:" + s.Norm + ":" + m) {
				continue // nil-producing tamperings: the risky pass of phase 2 covers them
			}
			if !f.Thorough() && !header && ci%3 != 0 {
				continue
			}
			c := tamper(b, si, m)
			unc, why := uncommitted(s, m, b, c)
			tc := tamperCase{Name: "field:" + s.Norm + ":" + m, Detail: s.Path + " " + m, Bundle: c, MustReject: !unc, Why: why}
			out = append(out, netCase{tc: tc, expect: netExpect(g, pos, tc, s.Norm, m)})
		}
	}
	for _, tc := range compoundCases(g, pos) {
		e := "reject"
		switch {
		case format == "unverifiable":
			e = "" // they rely on the block hash
			if tc.Name == "compound:root+su.newroot" || tc.Name == "compound:txhash+receipt.txhash" {
				e = "" // the first is stopped by the state root, the second by nothing inside the range: observed
			}
			if tc.Name == "compound:root+su.newroot" {
				e = "reject"
			}
		case strings.Contains(tc.Name, "event") && format != "v0132":
			e = "" // pre07 commits no events; post07 not their owner
		case tc.ObserveOnly:
			e = ""
		case tc.Name == "compound:txfield+recomputed-txhash" || tc.Name == "compound:tx-replaced-by-legacy-deploy":
			e = "reject" // the transaction commitment carries the hash (known finding for the deploy replacement)
		}
		out = append(out, netCase{tc: tc, expect: e})
	}
	for _, tc := range compensatingCases(g, pos) { // round 6: the expectation is computed per format by the family itself
		e := "reject"
		if !tc.MustReject {
			e = ""
		}
		out = append(out, netCase{tc: tc, expect: e})
	}
	for _, tc := range rehashCases(g, pos) {
		e := "reject"
		if !tc.MustReject {
			e = ""
		}
		out = append(out, netCase{tc: tc, expect: e})
	}
	for _, tc := range addedEntryCases(g, pos) {
		e := "reject"
		if !tc.MustReject {
			e = ""
		}
		out = append(out, netCase{tc: tc, expect: e})
	}
	// every transition of the sequencer address: to zero, to the network's fallback address, to another value
	for _, v := range []struct {
		name string
		val  *felt.Felt
	}{{"zero", lib.F(0)}, {"fallback", lib.F(0x5e9)}, {"other-generator-address", lib.F(0x5ea)}, {"arbitrary", lib.F(0x123456)}} {
		if b.Block.SequencerAddress.Equal(v.val) {
			continue
		}
		c := b.Clone()
		c.Block.SequencerAddress = new(felt.Felt).Set(v.val)
		e := "reject"
		if format == "pre07" || format == "unverifiable" {
			e = "accept"
		}
		out = append(out, netCase{tamperCase{Name: "sequencer:set-to-" + v.name, Detail: "SequencerAddress " + b.Block.SequencerAddress.String() + " replaced by " + v.val.String(),
			Bundle: c, MustReject: e == "reject"}, e})
	}
	if pos+1 < len(g.Bundles) {
		out = append(out, netCase{tamperCase{Name: "position:next-block", Detail: "the valid block one position ahead", Bundle: g.Bundles[pos+1].Clone(), MustReject: true}, "reject"})
	}
	if pos > 0 {
		out = append(out, netCase{tamperCase{Name: "position:head-again", Detail: "the current head block offered again", Bundle: g.Bundles[pos-1].Clone(), MustReject: true}, "reject"})
		if fg != nil {
			out = append(out, netCase{tamperCase{Name: "position:foreign-parent", Detail: "valid block of the same height and state from a chain with other hashes",
				Bundle: fg.Bundles[pos].Clone(), MustReject: true}, "reject"})
		}
	}
	// the block without sequencer address: verifies through the fallback loop iff its address is a fallback
	{
		c := b.Clone()
		c.Block.SequencerAddress = nil
		e := "reject"
		switch format {
		case "pre07", "unverifiable":
			e = "accept" // pre07Hash does not read the address; inside the range nothing is compared
		case "post07":
			if b.Block.SequencerAddress.Equal(g.Net.BlockHashMetaInfo.FallBackSequencerAddress) || b.Block.SequencerAddress.IsZero() {
				e = "accept"
			}
		}
		out = append(out, netCase{tamperCase{Name: "sequencer:nil-" + map[bool]string{true: "is-fallback", false: "is-not-fallback"}[b.Block.SequencerAddress.Equal(g.Net.BlockHashMetaInfo.FallBackSequencerAddress)],
			Detail: "SequencerAddress removed (nil); the header's address was " + b.Block.SequencerAddress.String(), Bundle: c, MustReject: e == "reject"}, e})
	}
	return out
}

func runNetBoundaries(f lib.Flags, res *lib.Result, only *replay) {
	var wg sync.WaitGroup
	for _, dstNew := range []bool{false, true} {
		if only != nil && only.Task.DstNew != dstNew {
			continue
		}
		wg.Add(1)
		go func(dstNew bool) {
			defer wg.Done()
			runNetBoundariesOn(f, res, only, dstNew)
		}(dstNew)
	}
	wg.Wait()
}

func runNetBoundariesOn(f lib.Flags, res *lib.Result, only *replay, dstNew bool) {
	{
		backend := "legacy"
		if dstNew {
			backend = "new"
		}
		g, err := buildNetChain(f, dstNew)
		if err != nil {
			res.Fatalf("generator (network boundaries): %v", err)
			return
		}
		// sister chain: same diffs, other transactions
		fg := lib.NewChainGen(lib.NewRNG(f.Seed).Fork(7301), dstNew, g.Opt)
		fg.Net = g.Net
		fg.Src, fg.SrcDB = lib.NewNode(g.Net, dstNew)
		for i := range g.Bundles {
			src := g.Bundles[i]
			if _, err := fg.Next(&lib.BlockSpec{Version: src.Block.ProtocolVersion, Diff: lib.DeepCopy(src.SU.StateDiff).(*core.StateDiff),
				Classes: lib.DeepCopy(src.Classes).(map[felt.Felt]core.ClassDefinition)}); err != nil {
				res.Fatalf("generator (network boundaries, sister chain): %v", err)
				fg = nil
				break
			}
		}
		n := openNode(g, dstNew, memory.New())
		var ac *acceptChecker
		if only == nil {
			ac = newAcceptChecker(f, res, g)
		}
		task := chainTask{Chain: 200, SrcNew: dstNew, DstNew: dstNew}
		for pos := range g.Bundles {
			valid := g.Bundles[pos]
			format := netFormat(valid)
			base := n.db.Copy()
			before := dbDigest(n.db)
			h0, head0 := headOf(n)
			var headHash *felt.Felt
			var headNumber uint64
			if pos > 0 {
				headNumber, headHash = uint64(pos-1), g.Bundles[pos-1].Block.Hash
			}
			for _, nc := range netCases(f, g, fg, pos) {
				tc := nc.tc
				if only != nil && (only.Position != pos || only.Case != tc.Name+"|"+tc.Detail) {
					continue
				}
				r := offer(n, tc.Bundle)
				class := errClass(r.err)
				if r.hung {
					class = "hang"
				}
				ac.compare(res, tc, headNumber, headHash, class)
				res.Case(fmt.Sprintf("net/%v/%d/%s|%s", dstNew, pos, tc.Name, tc.Detail), true)
				res.Hit("net-format-" + format)
				res.Hit("net-outcome-" + format + "-" + class)
				res.Hit("net-expect-" + map[string]string{"": "observe", "reject": "reject", "accept": "accept"}[nc.expect])
				rp := replay{Task: task, Seed: f.Seed, Tier: f.Tier, Position: pos, Case: tc.Name + "|" + tc.Detail,
					Detail: fmt.Sprintf("network First07Block=%d UnverifiableRange=[%d,%d] fallback sequencer 0x5e9; block %d (%s, version %s); %s",
						netFirst07, netUnvLo, netUnvHi, pos, format, valid.Block.ProtocolVersion, tc.Detail)}
				if r.err != nil {
					rp.Error = trunc(r.err.Error(), 300)
				}
				switch {
				case r.hung:
					res.Violate(lib.Violation{Sig: "store-hangs:" + tc.Name, What: "offering the block does not return: " + rp.Detail, Replay: rp})
				case r.panicked && strings.HasPrefix(tc.Name, "field:.Classes[]<Sierra>.Compiled") && malformedDeclaredCompiled(tc.Bundle):
					rp.Note = trunc(r.stack, 1200)
					res.Violate(lib.Violation{Sig: casmPanicSig, What: fmt.Sprintf("%s (%s, %s backend): %v", casmPanicWhat, rp.Detail, backend, r.err), Replay: rp})
				case r.panicked:
					res.Violate(lib.Violation{Sig: "store-panics:net:" + tc.Name, What: fmt.Sprintf("SanityCheckNewHeight/Store panics (%s, %s backend): %v", rp.Detail, backend, r.err), Replay: rp})
				case r.err == nil && nc.expect == "reject":
					if sig, what := skippedPosition(g, tc, valid); sig != "" {
						res.Violate(lib.Violation{Sig: sig, What: what + " (" + rp.Detail + ", " + backend + " backend)", Replay: rp})
					} else if sig, what := knownRootCause(tc, valid); sig != "" {
						res.Violate(lib.Violation{Sig: sig, What: what + " (" + rp.Detail + ", " + backend + " backend)", Replay: rp})
					} else {
						res.Violate(lib.Violation{Sig: "tampered-block-accepted:net-" + format + ":" + tc.Name,
							What:   fmt.Sprintf("a block that differs from valid block %d in a field its format commits (or in linkage / state) was stored (%s; %s backend)", pos, rp.Detail, backend),
							Replay: rp})
					}
				case r.err != nil && nc.expect == "accept":
					res.Mismatch(lib.Mismatch{Sig: "exception-is-committed:net-" + format + ":" + tc.Name, Input: rp.Detail,
						Model: "not committed by this format / inside the unverifiable range", Impl: "rejected: " + class})
				case r.err == nil:
					res.Hit("net-accepted-" + format + ":" + tc.Name)
				}
				after := dbDigest(n.db)
				h1, head1 := headOf(n)
				if r.err != nil && !r.hung && (after != before || h1 != h0 || head1 != head0) {
					res.Violate(lib.Violation{Sig: "rejected-block-has-effect:" + class,
						What:   fmt.Sprintf("a rejected block (%s; class %s, %s backend) changed the node: %s", rp.Detail, class, backend, dbDiff(base, n.db)),
						Replay: rp})
				}
				if r.err == nil || r.panicked || r.hung || after != before {
					n = openNode(g, dstNew, base.Copy())
				}
			}
			if pos == 6 && valid.Block.SequencerAddress != nil && valid.Block.SequencerAddress.Equal(g.Net.BlockHashMetaInfo.FallBackSequencerAddress) {
				// like the old mainnet blocks: the stored header carries NO sequencer address (the hash commits the fallback)
				valid = valid.Clone()
				valid.Block.SequencerAddress = nil
				res.Hit("net-valid-block-stored-without-sequencer-address")
			}
			r := offer(n, valid)
			if r.err != nil {
				res.Violate(lib.Violation{Sig: "valid-block-rejected", What: fmt.Sprintf("network boundaries: valid block %d (%s) rejected by the %s backend: %v", pos, format, backend, r.err),
					Replay: replay{Task: task, Seed: f.Seed, Tier: f.Tier, Position: pos, Case: "valid"}})
				break
			}
			res.Hit("valid-block-stored")
		}
		ac.close()
	}
}
