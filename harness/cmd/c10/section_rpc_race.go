//go:build verif

package main

import (
	"encoding/json"
	"fmt"
	"sync"
	"sync/atomic"

	"github.com/NethermindEth/juno/core/crypto"
	"github.com/NethermindEth/juno/core/felt"
	"github.com/NethermindEth/juno/core/trie"
	"verif/harness/lib"
)

// rpcRaceSection: starknet_getStorageProof("latest") while the next blocks are being stored.
// StorageProof reads HeadState() and Height()/BlockHeaderHashByNumber() in separate transactions (the
// TODO in rpc/v*/storage.go says so); the response must still be about ONE block: the roots of
// global_roots must give the state root of the block whose hash is in global_roots.block_hash.
func (c *ctx) rpcRaceSection(r *lib.RNG) {
	res := c.res
	blocks := c.f.Scale(40, 200)
	for _, newState := range []bool{false, true} {
		seed := r.Uint64()
		gr := lib.NewRNG(seed)
		opt := lib.DefaultGenOptions()
		g := lib.NewChainGen(gr, newState, opt)
		var bundles []*lib.Bundle
		for i := 0; i < blocks; i++ {
			b, err := g.Next(&lib.BlockSpec{Version: "0.14.0"})
			if err != nil {
				res.Fatalf("rpc-race: chain generator: %v", err)
				return
			}
			bundles = append(bundles, b)
		}
		byHash := map[felt.Felt]*lib.Bundle{}
		byRoot := map[felt.Felt]*lib.Bundle{}
		for _, b := range bundles {
			byHash[*b.Block.Hash] = b
			byRoot[*b.Block.GlobalStateRoot] = b
		}
		dst, _ := lib.NewNode(g.Net, newState)
		if err := lib.StoreOn(dst, bundles[0]); err != nil {
			res.Fatalf("rpc-race: store: %v", err)
			return
		}
		// the cause, without any concurrency: a head state opened at block p and READ AFTER block p+1
		// is stored (p: the first block whose successor changes the state root). "HeadState returns a
		// StateReader that provides a stable view to the latest state" (blockchain.go): the roots it
		// gives must still be those of block p.
		p := 0
		for p+2 < blocks && bundles[p].Block.GlobalStateRoot.Equal(bundles[p+1].Block.GlobalStateRoot) {
			p++
			if err := lib.StoreOn(dst, bundles[p]); err != nil {
				res.Fatalf("rpc-race: store: %v", err)
				return
			}
		}
		if view, closer, err := dst.HeadState(); err != nil {
			res.Fatalf("rpc-race: HeadState: %v", err)
			return
		} else {
			if err := lib.StoreOn(dst, bundles[p+1]); err != nil {
				res.Fatalf("rpc-race: store: %v", err)
				return
			}
			var cr, kr felt.Felt
			err, panicked, _ := lib.Try(func() error {
				ct, e := view.ContractTrie()
				if e != nil {
					return e
				}
				kt, e := view.ClassTrie()
				if e != nil {
					return e
				}
				if cr, e = ct.Hash(); e != nil {
					return e
				}
				kr, e = kt.Hash()
				return e
			})
			_ = closer()
			res.Case(fmt.Sprintf("rpc-race/stable-view/%v/%d", newState, seed), true)
			switch got := globalRoot(&cr, &kr, bundles[p].Block.ProtocolVersion); {
			case err != nil || panicked:
				res.Hit(fmt.Sprintf("rpc-race:head-state-opened-before-a-store:unreadable-after:new-state=%v", newState))
			case bundles[p].Block.GlobalStateRoot.Equal(bundles[p+1].Block.GlobalStateRoot):
				res.Fatalf("rpc-race: no two consecutive blocks of the generated chain differ in the state root: the stable-view probe says nothing")
			case got.Equal(bundles[p].Block.GlobalStateRoot):
				res.Hit(fmt.Sprintf("rpc-race:head-state-opened-before-a-store:still-the-old-block:new-state=%v", newState))
			default:
				shape := "roots-of-no-block"
				if got.Equal(bundles[p+1].Block.GlobalStateRoot) {
					shape = "roots-of-the-new-block"
				}
				res.Hit(fmt.Sprintf("rpc-race:head-state-opened-before-a-store:%s:new-state=%v", shape, newState))
				res.Violate(lib.Violation{Sig: fmt.Sprintf("head-state-view-changes-when-a-block-is-stored:new-state=%v", newState),
					What: fmt.Sprintf("a StateReader returned by HeadState() at block N gives, after block N+1 has been stored, the tries of another state (%s): "+
						"it is not the stable view its doc comment promises, so a storage proof built from it can belong to a later block than the one it is served for", shape),
					Replay: map[string]any{"section": "rpc-race", "new_state_backend": newState, "chain_seed": seed}})
			}
		}
		hs := newRPCHandlers(dst)
		var stop atomic.Bool
		var wg sync.WaitGroup
		var answered, mixed, torn atomic.Int64
		contracts := []felt.Felt{g.Addr(4), g.Addr(5)}
		reader := func(version string) {
			defer wg.Done()
			for !stop.Load() {
				raw, sets, rpcErr, err := callStorageProof(version, hs, blockRef{Kind: "latest"}, nil, contracts, nil)
				if err != nil {
					res.Violate(lib.Violation{Sig: "rpc-" + version + ":storage-proof-panics-while-a-block-is-stored", What: "StorageProof panics under a concurrent Store: " + err.Error()})
					return
				}
				if rpcErr != nil {
					continue
				}
				var resp jStorageProof
				if json.Unmarshal(raw, &resp) != nil {
					continue
				}
				answered.Add(1)
				bh := hexFelt(unhex(resp.GlobalRoots.BlockHash))
				blk, ok := byHash[bh]
				if !ok {
					res.Violate(lib.Violation{Sig: "rpc-" + version + ":block-hash-of-no-stored-block", What: "global_roots.block_hash is not the hash of a block of the chain"})
					continue
				}
				cr, kr := hexFelt(unhex(resp.GlobalRoots.ContractsTreeRoot)), hexFelt(unhex(resp.GlobalRoots.ClassesTreeRoot))
				// the proofs must at least belong to the roots they come with (nodes of ONE state)
				for i := range contracts {
					var verr error
					_, panicked, _ := lib.Try(func() error {
						_, verr = trie.VerifyProof(&cr, &contracts[i], sets.contracts, crypto.Pedersen)
						return nil
					})
					if panicked || verr != nil {
						torn.Add(1)
						res.Violate(lib.Violation{Sig: "rpc-" + version + ":contracts-proof-does-not-verify-against-its-own-contracts-root",
							What: fmt.Sprintf("under a concurrent Store the contracts_proof of the response does not verify against the response's own contracts_tree_root (%v): nodes of two states", verr),
							Replay: map[string]any{"section": "rpc-race", "rpc_version": version, "new_state_backend": newState, "chain_seed": seed,
								"named_block": blk.Block.Number, "response": json.RawMessage(raw)}})
						break
					}
				}
				if got := globalRoot(&cr, &kr, blk.Block.ProtocolVersion); !got.Equal(blk.Block.GlobalStateRoot) {
					// which block do the roots belong to? another block of the chain (the state of
					// one block served under the hash of another), or none (a torn read: the
					// "stable view" changed while the proofs were built)
					shape, other := "roots-of-no-block", "no block of the chain"
					if o, ok := byRoot[got]; ok {
						shape, other = "roots-and-block-hash-of-different-blocks", fmt.Sprintf("block %d", o.Block.Number)
					}
					mixed.Add(1)
					res.Hit(fmt.Sprintf("rpc-race:%s:new-state=%v", shape, newState))
					res.Violate(lib.Violation{Sig: "rpc-" + version + ":" + shape,
						What: fmt.Sprintf("under a concurrent Store the response names block %d (block_hash) but its roots give %s, the state root of %s, not that block's state root %s",
							blk.Block.Number, got.String(), other, blk.Block.GlobalStateRoot.String()),
						Replay: map[string]any{"section": "rpc-race", "rpc_version": version, "new_state_backend": newState, "chain_seed": seed,
							"named_block": blk.Block.Number, "response": json.RawMessage(raw)}})
				}
			}
		}
		for i := 0; i < 2; i++ {
			for _, v := range rpcVersions {
				wg.Add(1)
				go reader(v)
			}
		}
		for i := p + 2; i < blocks; i++ {
			if err := lib.StoreOn(dst, bundles[i]); err != nil {
				res.Fatalf("rpc-race: store block %d: %v", i, err)
				break
			}
		}
		stop.Store(true)
		wg.Wait()
		res.Case(fmt.Sprintf("rpc-race/%v/%d", newState, seed), true)
		if answered.Load() < 20 {
			res.Fatalf("rpc-race: only %d responses while %d blocks were stored (new-state=%v): the readers did not overlap the stores", answered.Load(), blocks, newState)
		}
		res.HitN(fmt.Sprintf("rpc-race:responses-during-stores:new-state=%v", newState), int(answered.Load()))
		res.HitN(fmt.Sprintf("rpc-race:responses-mixing-two-blocks:new-state=%v", newState), int(mixed.Load()))
		res.HitN(fmt.Sprintf("rpc-race:responses-with-a-proof-of-mixed-nodes:new-state=%v", newState), int(torn.Load()))
	}
}
