//go:build verif

package main

import (
	"encoding/json"
	"fmt"
	"sync"
	"sync/atomic"

	"github.com/NethermindEth/juno/core/felt"
	"verif/harness/lib"
)

// rpcRaceSection: starknet_getStorageProof("latest") while the next blocks are being stored.
// StorageProof reads HeadState() and Height()/BlockHeaderHashByNumber() in separate transactions (the
// TODO in rpc/v*/storage.go says so); the response must still be about ONE block: the roots of
// global_roots must give the state root of the block whose hash is in global_roots.block_hash.
func (c *ctx) rpcRaceSection(r *lib.RNG) {
	res := c.res
	blocks := c.f.Scale(40, 200)
	for _, newState := range []bool{false, true} {
		seed := r.Uint64()
		gr := lib.NewRNG(seed)
		opt := lib.DefaultGenOptions()
		g := lib.NewChainGen(gr, newState, opt)
		var bundles []*lib.Bundle
		for i := 0; i < blocks; i++ {
			b, err := g.Next(&lib.BlockSpec{Version: "0.14.0"})
			if err != nil {
				res.Fatalf("rpc-race: chain generator: %v", err)
				return
			}
			bundles = append(bundles, b)
		}
		byHash := map[felt.Felt]*lib.Bundle{}
		for _, b := range bundles {
			byHash[*b.Block.Hash] = b
		}
		dst, _ := lib.NewNode(g.Net, newState)
		if err := lib.StoreOn(dst, bundles[0]); err != nil {
			res.Fatalf("rpc-race: store: %v", err)
			return
		}
		hs := newRPCHandlers(dst)
		var stop atomic.Bool
		var wg sync.WaitGroup
		var answered, mixed atomic.Int64
		contracts := []felt.Felt{g.Addr(4), g.Addr(5)}
		reader := func(version string) {
			defer wg.Done()
			for !stop.Load() {
				raw, _, rpcErr, err := callStorageProof(version, hs, blockRef{Kind: "latest"}, nil, contracts, nil)
				if err != nil {
					res.Violate(lib.Violation{Sig: "rpc-" + version + ":storage-proof-panics-while-a-block-is-stored", What: "StorageProof panics under a concurrent Store: " + err.Error()})
					return
				}
				if rpcErr != nil {
					continue
				}
				var resp jStorageProof
				if json.Unmarshal(raw, &resp) != nil {
					continue
				}
				answered.Add(1)
				bh := hexFelt(unhex(resp.GlobalRoots.BlockHash))
				blk, ok := byHash[bh]
				if !ok {
					res.Violate(lib.Violation{Sig: "rpc-" + version + ":block-hash-of-no-stored-block", What: "global_roots.block_hash is not the hash of a block of the chain"})
					continue
				}
				cr, kr := hexFelt(unhex(resp.GlobalRoots.ContractsTreeRoot)), hexFelt(unhex(resp.GlobalRoots.ClassesTreeRoot))
				if got := globalRoot(&cr, &kr, blk.Block.ProtocolVersion); !got.Equal(blk.Block.GlobalStateRoot) {
					mixed.Add(1)
					res.Violate(lib.Violation{Sig: "rpc-" + version + ":roots-and-block-hash-of-different-blocks",
						What: fmt.Sprintf("under a concurrent Store the response names block %d (block_hash) but its roots give %s, not that block's state root %s: "+
							"the state and the height are read in separate transactions", blk.Block.Number, got.String(), blk.Block.GlobalStateRoot.String()),
						Replay: map[string]any{"section": "rpc-race", "rpc_version": version, "new_state_backend": newState, "chain_seed": seed,
							"named_block": blk.Block.Number, "response": json.RawMessage(raw)}})
				}
			}
		}
		for i := 0; i < 2; i++ {
			for _, v := range rpcVersions {
				wg.Add(1)
				go reader(v)
			}
		}
		for i := 1; i < blocks; i++ {
			if err := lib.StoreOn(dst, bundles[i]); err != nil {
				res.Fatalf("rpc-race: store block %d: %v", i, err)
				break
			}
		}
		stop.Store(true)
		wg.Wait()
		res.Case(fmt.Sprintf("rpc-race/%v/%d", newState, seed), true)
		res.HitN(fmt.Sprintf("rpc-race:responses-during-stores:new-state=%v", newState), int(answered.Load()))
		res.HitN(fmt.Sprintf("rpc-race:responses-mixing-two-blocks:new-state=%v", newState), int(mixed.Load()))
	}
}
