//go:build verif

package main

import (
	"strings"
	"time"

	"github.com/NethermindEth/juno/core/crypto"
	"github.com/NethermindEth/juno/core/felt"
	"github.com/NethermindEth/juno/core/trie"
	"github.com/NethermindEth/juno/core/trie2"
	"github.com/NethermindEth/juno/core/trie2/trienode"
	"verif/harness/lib"
)

// specialSection: inputs of the exported VerifyProof functions that the node-set representation of the
// model cannot express — a nil node set, set entries that are not edge/binary nodes, nil fields. No
// trie stands behind a verdict here; the property half that applies is "does not verify": an error
// is expected, a panic or a call that never returns is a finding.
func (c *ctx) specialSection() {
	res := c.res
	spec := &TrieSpec{Impl: "trie2", Hash: "ped", Height: 251, KVs: []KV{
		{K: strings.Repeat("0", 251), V: "2"}, {K: "01" + strings.Repeat("0", 249), V: "3"}, {K: "1" + strings.Repeat("0", 250), V: "5"}}}
	bt, err := buildTrie(spec)
	if err != nil {
		res.Fatalf("special: %v", err)
		return
	}
	root := bt.root
	key := bitsToFelt(spec.KVs[1].K)
	hf := crypto.Pedersen
	short := []time.Duration{10 * time.Second, 30 * time.Second}
	run := func(sig, what string, deadlines []time.Duration, call func() (felt.Felt, error)) {
		ans := realVerifyWith(deadlines, call)
		res.Case("special/"+sig, true)
		res.Hit("special:" + sig + ":" + strings.SplitN(ans, " ", 2)[0])
		switch {
		case ans == "panic" || ans == "hang":
			res.Violate(lib.Violation{Sig: sig + ":" + ans, What: what + ": VerifyProof " + ans + "s instead of returning an error",
				Replay: map[string]any{"section": "special", "case": sig, "trie": spec, "key_bits": spec.KVs[1].K}})
		case strings.HasPrefix(ans, "ok "):
			res.Violate(lib.Violation{Sig: sig + ":accepted", What: what + ": VerifyProof returns " + ans,
				Replay: map[string]any{"section": "special", "case": sig, "trie": spec, "key_bits": spec.KVs[1].K}})
		}
	}
	normal := []time.Duration{verifyDeadline, 2 * verifyDeadline}
	run("legacy:nil-proof-node-set", "trie.VerifyProof(root != 0, key, nil set)", normal,
		func() (felt.Felt, error) { return trie.VerifyProof(&root, &key, nil, hf) })
	run("trie2:nil-proof-node-set", "trie2.VerifyProof(root != 0, key, nil set)", normal,
		func() (felt.Felt, error) { return trie2.VerifyProof(&root, &key, nil, hf) })
	run("legacy:nil-field-in-proof-node", "trie.VerifyProof with a Binary node whose LeftHash is nil stored under the root", normal,
		func() (felt.Felt, error) {
			ps := trie.NewProofNodeSet()
			ps.Put(root, &trie.Binary{LeftHash: nil, RightHash: &root})
			return trie.VerifyProof(&root, &key, ps, hf)
		})
	run("trie2:top-level-value-node-in-set", "trie2.VerifyProof with a ValueNode stored under the root hash", normal,
		func() (felt.Felt, error) {
			ps := trie2.NewProofNodeSet()
			v := trienode.ValueNode(root)
			ps.Put(root, &v)
			return trie2.VerifyProof(&root, &key, ps, hf)
		})
	run("trie2:edge-node-with-nil-child-in-set", "trie2.VerifyProof with an EdgeNode whose Child is nil stored under the root hash", normal,
		func() (felt.Felt, error) {
			ps := trie2.NewProofNodeSet()
			ps.Put(root, toTrie2(Proof{{Kind: "E", Key: fhex(&root), Path: "0", C: Child{T: "n"}}}).List()[0])
			return trie2.VerifyProof(&root, &key, ps, hf)
		})
	// a HashNode holding the root hash stored under the root hash: the hash "matches", get() returns the
	// node itself, the walk never advances. One abandoned call per run.
	run("trie2:top-level-hash-node-in-set", "trie2.VerifyProof with a HashNode(root) stored under the root hash", short,
		func() (felt.Felt, error) {
			ps := trie2.NewProofNodeSet()
			h := trienode.HashNode(root)
			ps.Put(root, &h)
			return trie2.VerifyProof(&root, &key, ps, hf)
		})
}
