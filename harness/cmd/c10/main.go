//go:build verif

// Harness for C10: Merkle proofs of both trie implementations, the Lean model as the independent
// verifier, every single-node / single-field corruption, starknet_getStorageProof over RPC.
package main

import (
	"encoding/json"
	"fmt"
	"os"
	"runtime"
	"strings"
	"sync"
	"sync/atomic"
	"time"

	"github.com/NethermindEth/juno/core/felt"
	"verif/harness/lib"
)

// verifyDeadline bounds one call into the code under test. It is generous and a timeout is retried
// once with a longer bound, because on a saturated machine a goroutine can be starved for many
// seconds; only a call that exceeds both is reported as a hang.
const verifyDeadline = 90 * time.Second

// check is one request to the model plus what the real code answered and what must hold.
type check struct {
	line   string // request for the Lean driver
	impl   string // answer of the real verifier ("" = the real verifier cannot run: height != 251)
	truth  string // hex value of the key in the trie ("0" = absent); "" = no oracle
	honest bool   // the proof is what Prove returned, unaltered
	// independent: the request runs the strict (repaired-variant / legacy) model verifier, whose
	// soundness is proved: its answer on an honest proof must be the actual value
	independent bool
	sig         string // what this check is, stable (impl + corruption class)
	// norm canonicalises the model's answer before the comparison (legacy proof nodes carry plain
	// felts: the child type tags of the model's node rendering are dropped)
	norm func(string) string
	// fuelOK: the real call was not made because it is predicted not to return; the model must say so too
	fuelOK bool
	replay func() any
}

type batch struct {
	checks []check
}

type ctx struct {
	f   lib.Flags
	res *lib.Result
	// variant of the verifiers the harness is looking at (model Cfg):
	// "<trustCache><earlyValue><zeroRoot><walkCollapsed><checkKey>"
	cfg2 string // trie2.VerifyProof
	cfgL string // trie.VerifyProof (only zeroRoot matters)
	// trie2.VerifyRangeProof: "1" = first / keys of 2^251 or more are refused (the proposed repair), "0" = the
	// low 251 bits are verified instead (/repo as it is)
	rangeCk string
	// number of calls made although they are predicted not to return
	hangsRun int32
	// legacy range proofs: per kind of false claim [accepted, total]
	legacyMu    sync.Mutex
	legacyFalse map[string][2]int
	// drivers for synchronous questions (r2need)
	syncDrv chan *lib.Driver
	// model/code comparisons per family (floors at the end of the run)
	compared [len(families)]atomic.Int64
}

// families of model/code comparisons and the least number of each a complete run makes (quick tier,
// about half of what seed 1 gives): a section that silently produces nothing is a harness failure.
var families = [...]struct {
	name  string
	floor int64
}{
	{"verify", 45000}, {"prover", 4000}, {"range-model", 10000}, {"rpc", 1000}, {"weird", 2500},
}

func familyOf(ch *check) int {
	switch {
	case strings.HasPrefix(ch.line, "pv "), strings.HasPrefix(ch.line, "pr "), strings.HasPrefix(ch.line, "pm "):
		return 1
	case strings.HasPrefix(ch.line, "r2 "), strings.HasPrefix(ch.line, "r2f "):
		return 2
	case strings.HasPrefix(ch.sig, "rpc-"):
		return 3
	case strings.Contains(ch.sig, "weird"):
		return 4
	}
	return 0
}

func (c *ctx) modelLine(verifier, root, key string, p Proof, hash string) string {
	hf := hashFnOf(hash)
	if verifier == "legacy" {
		return "vL " + c.cfgL + " " + root + " " + dashIfEmpty(key) + p.toks(hf)
	}
	op := "v2 "
	if probeValueWalks {
		op = "v2w "
	}
	return op + c.cfg2 + " " + root + " " + dashIfEmpty(key) + p.toks(hf)
}

type verifyReplay struct {
	Section  string    `json:"section"`
	Check    string    `json:"check"`
	Verifier string    `json:"verifier"`
	Hash     string    `json:"hash"`
	Root     string    `json:"root"`
	Key      string    `json:"key_bits"`
	KeyFelt  string    `json:"key"`
	Proof    Proof     `json:"proof"`
	Truth    string    `json:"value_in_trie"`
	Tamper   string    `json:"tamper"`
	Node     int       `json:"tampered_node"`
	Honest   bool      `json:"honest"`
	KeyPlus  bool      `json:"key_plus_2_251,omitempty"`
	Trie     *TrieSpec `json:"trie,omitempty"`
	// shared-set section: the keys proven, in this order, into the ONE set `Proof` (on top of `PreSet`)
	Proven []string `json:"keys_proven_into_one_set,omitempty"`
	PreSet Proof    `json:"set_content_before,omitempty"`
}

// judge evaluates the answers for one check.
func (c *ctx) judge(ch *check, model string) {
	res := c.res
	if ch.norm != nil {
		model = ch.norm(model)
	}
	if ch.impl != "" {
		res.Compared(1)
		c.compared[familyOf(ch)].Add(1)
		if !sameAnswer(model, ch.impl) {
			res.Mismatch(lib.Mismatch{Sig: ch.sig, Input: ch.replay(), Model: model, Impl: ch.impl})
		}
	}
	if strings.HasPrefix(model, "bad-op") {
		res.Fatalf("the driver answers bad-op to a %s request: %.200s", ch.sig, ch.line)
	}
	if ch.fuelOK && model != "err:fuel" {
		res.Mismatch(lib.Mismatch{Sig: "predicted-hang-but-model-returns:" + ch.sig, Input: ch.replay(), Model: model, Impl: "not run"})
	}
	if model == "err:fuel" && ch.impl != "hang" && !ch.fuelOK {
		// the model's iteration bound stands for "does not return": only legitimate next to a real hang
		res.Mismatch(lib.Mismatch{Sig: "model-out-of-fuel:" + ch.sig, Input: ch.replay(), Model: model, Impl: ch.impl})
	}
	if !ch.honest && (ch.impl == "panic" || ch.impl == "hang") {
		res.Violate(lib.Violation{Sig: ch.sig + ":" + ch.impl,
			What: fmt.Sprintf("%s: VerifyProof %ss on this node set / key", ch.sig, ch.impl), Replay: ch.replay()})
	}
	if ch.truth == "" {
		return
	}
	want := "ok " + ch.truth
	if ch.honest {
		// the proof the node produced must verify to the actual value, with the real verifier
		// and with the independent one
		if ch.impl != "" && ch.impl != want {
			res.Violate(lib.Violation{Sig: ch.sig + ":rejected-by-own-verifier",
				What:   fmt.Sprintf("%s: VerifyProof on the proof returned by Prove gives %q, the trie holds %s", ch.sig, ch.impl, ch.truth),
				Replay: ch.replay()})
		}
		if ch.independent && model != want {
			res.Violate(lib.Violation{Sig: ch.sig + ":rejected-by-independent-verifier",
				What:   fmt.Sprintf("%s: the independent verifier gives %q on the proof returned by Prove, the trie holds %s", ch.sig, model, ch.truth),
				Replay: ch.replay()})
		}
		return
	}
	// altered proof / key / root: it may fail, it may still establish the true value, it must
	// never establish anything else
	switch {
	case strings.HasPrefix(ch.impl, "ok ") && ch.impl != want:
		res.Violate(lib.Violation{Sig: ch.sig + ":accepted",
			What:   fmt.Sprintf("%s: altered proof verifies to %q, the trie holds %s for that key", ch.sig, ch.impl, ch.truth),
			Replay: ch.replay()})
	}
}

func (c *ctx) runBatches(in <-chan batch, wg *sync.WaitGroup) {
	defer wg.Done()
	var drv *lib.Driver
	var err error
	for try := 0; try < 3 && drv == nil; try++ {
		if drv, err = lib.StartDriver(c.f.Driver); err != nil {
			drv = nil
		}
	}
	lost := 0
	discard := func(why string) {
		// keep the producers from blocking, but never silently: every batch that is not judged is counted
		for b := range in {
			lost += len(b.checks)
		}
		c.res.Fatalf("%s; %d queued checks of this worker were not judged", why, lost)
	}
	if drv == nil {
		discard(fmt.Sprintf("the Lean driver does not start: %v", err))
		return
	}
	defer drv.Close()
	for b := range in {
		lines := make([]string, len(b.checks))
		for i := range b.checks {
			lines[i] = b.checks[i].line
		}
		outs, err := drv.AskAll(lines)
		if err != nil || len(outs) != len(lines) {
			lost = len(b.checks) - len(outs)
			for i := range outs {
				c.judge(&b.checks[i], outs[i])
			}
			discard(fmt.Sprintf("the Lean driver died or answered short (%d of %d answers): %v", len(outs), len(lines), err))
			return
		}
		for i := range b.checks {
			c.judge(&b.checks[i], outs[i])
		}
	}
}

func main() {
	f := lib.ParseFlags()
	res := lib.NewResult("a case = (trie implementation, hash, height, key/value set, queried key, honest proof or one " +
		"corruption of it); non-trivial = distinct case on a non-empty trie")
	c := &ctx{f: f, res: res, legacyFalse: map[string][2]int{}}
	if f.Driver == "" {
		res.Fatalf("no --driver given")
		lib.Finish(f, res)
	}
	c.cfg2, c.cfgL = probeCfg(res)
	res.SetExtra("verifier_variant", map[string]any{
		"trie2_trusts_cached_hash": c.cfg2[0] == '1', "trie2_value_node_ends_walk_early": c.cfg2[1] == '1',
		"trie2_zero_root_means_absent": c.cfg2[2] == '1', "legacy_zero_root_means_absent": c.cfgL[2] == '1',
		"trie2_walks_the_collapsed_copy": c.cfg2[3] == '1', "trie2_refuses_keys_above_2_251": c.cfg2[4] == '1',
		"legacy_refuses_keys_above_2_251": c.cfgL[4] == '1',
		"trie2_follows_a_value_child_like_a_hash_child": probeValueWalks})

	// The repaired verifiers (commits aab3e5b, dbf9f09, 616d4a4) are THE model now: `Cfg.strict`. The
	// probes still select the variant for the driver (so that a regressed tree is compared with the
	// model of what it does and every section reports the failing inputs), and a variant other than
	// the repaired one is itself a violation — unlisted, so the check fails.
	if c.cfg2 != "00111" || c.cfgL != "00101" {
		res.Violate(lib.Violation{Sig: "verifier-variant-is-not-the-repaired-one:trie2=" + c.cfg2 + ":legacy=" + c.cfgL,
			What: fmt.Sprintf("the probes of VerifyProof find variant trie2=%s legacy=%s (digits: trusts cached hash, value node ends the walk early, "+
				"zero root = empty trie, walk on the collapsed copy, key < 2^251 checked); the repaired code is 00111 / 00101: a fix has been undone", c.cfg2, c.cfgL),
			Replay: map[string]any{"section": "probe", "trie2": c.cfg2, "legacy": c.cfgL}})
	}
	c.rangeCk = c.probeRangeKeyCheck()
	if f.Replay != "" {
		c.replay(f.Replay)
		lib.Finish(f, res)
	}

	// watchdog: a harness that does not finish is reported, never silently green
	go func() {
		time.Sleep(time.Duration(f.Scale(1500, 7200)) * time.Second)
		res.Fatalf("watchdog: the harness did not finish within its own time limit")
		lib.Finish(f, res)
	}()
	c.syncDrv = make(chan *lib.Driver, 16)
	for i := 0; i < 16; i++ {
		d, err := lib.StartDriver(f.Driver)
		if err != nil {
			res.Fatalf("the Lean driver does not start: %v", err)
			d = nil
		}
		c.syncDrv <- d
	}
	r := lib.NewRNG(f.Seed)
	workers := runtime.NumCPU()
	if workers > 16 {
		workers = 16
	}
	ch := make(chan batch, workers*2)
	var wg sync.WaitGroup
	for i := 0; i < workers; i++ {
		wg.Add(1)
		go c.runBatches(ch, &wg)
	}
	var sections sync.WaitGroup
	sections.Add(8)
	t0 := time.Now()
	timing := map[string]float64{}
	var tmu sync.Mutex
	timed := func(name string, f func()) {
		defer sections.Done()
		f()
		tmu.Lock()
		timing[name] = time.Since(t0).Seconds()
		tmu.Unlock()
	}
	go timed("trie_section_done_s", func() { c.trieSection(r.Fork(1), ch) })
	go timed("rpc_section_done_s", func() { c.rpcSection(r.Fork(2), ch) })
	go timed("range_section_done_s", func() { c.rangeSection(r.Fork(3), ch) })
	go timed("range_small_section_done_s", func() { c.rangeSmallSection(r.Fork(5), ch, c.probeRangeCfg()) })
	go timed("rpc_race_section_done_s", func() { c.rpcRaceSection(r.Fork(7)) })
	go timed("special_section_done_s", func() { c.specialSection() })
	go timed("shared_section_done_s", func() { c.sharedSection(r.Fork(8), ch) })
	go timed("weird_section_done_s", func() { c.weirdSection(r.Fork(4), ch) })
	sections.Wait()
	close(ch)
	wg.Wait()
	c.legacyFractionCheck()
	bySection := map[string]int64{}
	for i, fam := range families {
		n := c.compared[i].Load()
		bySection[fam.name] = n
		if n < fam.floor {
			res.Fatalf("only %d model/code comparisons of family %q (a complete run makes at least %d): a section produced nothing", n, fam.name, fam.floor)
		}
	}
	res.SetExtra("compared_by_family", bySection)
	timing["all_answers_judged_s"] = time.Since(t0).Seconds()
	res.SetExtra("timing", timing)
	lib.Finish(f, res)
}

func (c *ctx) replay(path string) {
	b, err := os.ReadFile(path)
	if err != nil {
		c.res.Fatalf("replay: %v", err)
		return
	}
	var wrap struct {
		Replay json.RawMessage `json:"replay"`
	}
	raw := b
	if json.Unmarshal(b, &wrap) == nil && len(wrap.Replay) > 0 {
		raw = wrap.Replay
	}
	// what kind of replay is it: a range claim, an RPC request (the whole chain is re-run), or one
	// proof verification
	var probe struct {
		Section string `json:"section"`
		Kind    string `json:"kind"`
		First   string `json:"first_bits"`
		Request *struct {
			Chain rpcChain `json:"chain"`
		} `json:"request"`
	}
	_ = json.Unmarshal(raw, &probe)
	switch {
	case probe.Section == "rpc" && probe.Request != nil:
		ch := make(chan batch, 64)
		var wg sync.WaitGroup
		wg.Add(1)
		go c.runBatches(ch, &wg)
		c.res.Note("replay: re-running the RPC chain %+v", probe.Request.Chain)
		c.runRPCChain(probe.Request.Chain, ch)
		close(ch)
		wg.Wait()
		return
	case probe.First != "" && probe.Kind != "":
		var cl RangeClaim
		if err := json.Unmarshal(raw, &cl); err != nil {
			c.res.Fatalf("replay: %v", err)
			return
		}
		var pending batch
		c.evalRange(&cl, &pending, c.probeRangeCfg(), "replay")
		ch := make(chan batch, 1)
		var wg sync.WaitGroup
		wg.Add(1)
		go c.runBatches(ch, &wg)
		if len(pending.checks) > 0 {
			ch <- pending
		}
		close(ch)
		wg.Wait()
		return
	}
	var vr verifyReplay
	if err := json.Unmarshal(raw, &vr); err != nil {
		c.res.Fatalf("replay: %v", err)
		return
	}
	if vr.Section == "shared-set" && vr.Trie != nil && len(vr.Proven) > 0 {
		// the keys are proven again, into one set, by the tree under test
		bt, err := buildTrie(vr.Trie)
		if err != nil {
			c.res.Fatalf("replay: %v", err)
			return
		}
		p, err := bt.proveMany(vr.PreSet.clone(), vr.Proven)
		if err != nil {
			c.res.Fatalf("replay: Prove: %v", err)
			return
		}
		vr.Proof, vr.Root = p, fhex(&bt.root)
	}
	drv, err := lib.StartDriver(c.f.Driver)
	if err != nil {
		c.res.Fatalf("driver: %v", err)
		return
	}
	defer drv.Close()
	root := hexFelt(vr.Root)
	chk := check{
		line:   c.modelLine(vr.Verifier, vr.Root, map[bool]string{true: "+", false: ""}[vr.KeyPlus]+vr.Key, vr.Proof, vr.Hash),
		truth:  vr.Truth,
		honest: vr.Honest, independent: vr.Honest && vr.Verifier == "legacy",
		sig:    vr.Check,
		replay: func() any { return vr },
	}
	if len(vr.Key) == 251 {
		kf := bitsToFelt(vr.Key)
		if vr.KeyPlus {
			kf.Add(&kf, &twoPow251)
		}
		chk.impl = realVerifyFelt(vr.Verifier, hashFnOf(vr.Hash), &root, &kf, vr.Proof, []time.Duration{verifyDeadline, 2 * verifyDeadline})
	}
	model, err := drv.Ask(chk.line)
	if err != nil {
		c.res.Fatalf("driver: %v", err)
		return
	}
	c.res.Note("replay: real=%q model=%q truth=%s", chk.impl, model, vr.Truth)
	c.res.Case("replay", true)
	c.judge(&chk, model)
}

// probeCfg finds out which variant of the verifiers the tree under test contains, on a fixed
// three-leaf trie: (1) does a node whose content was changed but whose cached hash flag was kept
// pass the hash check, (2) does a child of Go type ValueNode above the leaf level end the walk.
func probeCfg(res *lib.Result) (cfg2, cfgL string) {
	spec := &TrieSpec{Impl: "trie2", Hash: "ped", Height: 251, KVs: []KV{
		{K: strings.Repeat("0", 251), V: "2"}, {K: strings.Repeat("0", 250) + "1", V: "3"},
		{K: "1" + strings.Repeat("0", 250), V: "5"}}}
	bt, err := buildTrie(spec)
	if err != nil {
		res.Fatalf("probe: %v", err)
		return "11000", "00000"
	}
	key := spec.KVs[0].K
	p, err := bt.prove(key)
	if err != nil || len(p) < 3 {
		res.Fatalf("probe: prove: %v (%d nodes)", err, len(p))
		return "11000", "00000"
	}
	hf := hashFnOf("ped")
	// (1) change the value in the last node, keep its cache
	q := p.clone()
	last := len(q) - 1
	n := q[last]
	if n.Cache == "" {
		h := n.nodeHash(hf)
		n.Cache = fhex(&h)
	}
	if n.Kind == "B" {
		n.L = Child{T: n.L.T, F: "3e7"}
	} else {
		n.C = Child{T: n.C.T, F: "3e7"}
	}
	q[last] = n
	trust := realVerify("trie2", hf, &bt.root, key, q) == "ok 3e7"
	// (2) retag the on-path child of the root node as a value node, no caches
	q = p.clone()
	for i := range q {
		q[i].Cache = ""
	}
	n = q[0]
	var inner string
	if n.Kind == "B" {
		n.L = Child{T: "v", F: n.L.F}
		inner = n.L.F
	} else {
		n.C = Child{T: "v", F: n.C.F}
		inner = n.C.F
	}
	q[0] = n
	ans2 := realVerify("trie2", hf, &bt.root, key, q)
	early := ans2 == "ok "+inner
	// the variant that follows a value child like a hash child (proposed repair) returns the key's value here
	probeValueWalks = ans2 == "ok 2"
	b := func(x bool) string {
		if x {
			return "1"
		}
		return "0"
	}
	// (3) zero root, empty node set
	z2 := realVerify("trie2", hf, &felt.Zero, key, nil) == "ok 0"
	zL := realVerify("legacy", hf, &felt.Zero, key, nil) == "ok 0"
	// (4) a hash child given as the embedded node it stands for (no cached hash): is the walk done on the
	// collapsed copy that was hashed, or on the node as given (then the root is re-entered too deep)
	collapsed := true
	spec4 := &TrieSpec{Impl: "trie2", Hash: "ped", Height: 251, KVs: []KV{
		{K: strings.Repeat("0", 251), V: "2"}, {K: "01" + strings.Repeat("0", 249), V: "3"},
		{K: "1" + strings.Repeat("0", 250), V: "5"}}}
	if bt4, err := buildTrie(spec4); err != nil {
		res.Fatalf("probe: %v", err)
	} else if p4, err := bt4.prove(spec4.KVs[1].K); err != nil || len(p4) < 2 || p4[0].Kind != "B" {
		res.Fatalf("probe: prove: %v (%d nodes)", err, len(p4))
	} else {
		q := p4.clone()
		for i := range q {
			q[i].Cache = ""
		}
		emb := q[1]
		root := q[0]
		if root.L.F != emb.Key {
			res.Fatalf("probe: the second proof node is not the root's left child")
		}
		root.L = Child{T: "p", F: emb.Key, Emb: &emb}
		q[0] = root
		ans := realVerifyFelt("trie2", hf, &bt4.root, ptrFelt(bitsToFelt(spec4.KVs[1].K)), q, []time.Duration{20 * time.Second, 60 * time.Second})
		collapsed = ans == "ok 3"
	}
	// (5) the felt key + 2^251 with the honest proof of the key
	k5 := bitsToFelt(key)
	k5.Add(&k5, &twoPow251)
	normal := []time.Duration{verifyDeadline, 2 * verifyDeadline}
	ck2 := !strings.HasPrefix(realVerifyFelt("trie2", hf, &bt.root, &k5, p, normal), "ok ")
	ckL := true
	specL := *spec
	specL.Impl = "legacy"
	if btL, err := buildTrie(&specL); err != nil {
		res.Fatalf("probe: %v", err)
	} else if pL, err := btL.prove(key); err != nil {
		res.Fatalf("probe: %v", err)
	} else {
		ckL = !strings.HasPrefix(realVerifyFelt("legacy", hf, &btL.root, &k5, pL, normal), "ok ")
	}
	return b(trust) + b(early) + b(z2) + b(collapsed) + b(ck2), "00" + b(zL) + "0" + b(ckL)
}

func ptrFelt(f felt.Felt) *felt.Felt { return &f }

// probeValueWalks: trie2.VerifyProof follows a child of Go type ValueNode like a hash child while key bits are
// left (set by probeCfg); the model of that variant is the driver's `v2w` (`verify2W`)
var probeValueWalks bool

var _ = felt.Zero
