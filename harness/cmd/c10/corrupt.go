//go:build verif

package main

import (
	"fmt"
	"math/big"
	"strings"

	"github.com/NethermindEth/juno/core/crypto"
	"github.com/NethermindEth/juno/core/felt"
	"verif/harness/lib"
)

// Tamper is one single-node / single-field corruption of a proof (or of the key / the root).
type Tamper struct {
	Kind  string `json:"kind"` // stable name of the corruption class
	Node  int    `json:"node"` // index of the node touched, -1 = none
	Proof Proof  `json:"-"`
	Key   string `json:"-"`
	Root  string `json:"-"` // hex
	// NoOracle: the root was replaced by the root of the forged chain; only model-vs-code is compared
	NoOracle bool `json:"-"`
	// KeyPlus: the key offered to the real verifier is the felt key + 2^251 (same 251 low bits)
	KeyPlus bool `json:"key_plus_2_251"`
}

func bumpHex(h string) string {
	n, _ := new(big.Int).SetString(h, 16)
	n.Add(n, big.NewInt(1))
	n.Mod(n, feltP)
	return n.Text(16)
}

func bumpChild(c Child) Child {
	if c.tag() == 'n' {
		return Child{T: "h", F: "1"}
	}
	return Child{T: c.T, F: bumpHex(c.F)}
}

func retag(c Child, t string) Child {
	f := c.F
	if f == "" {
		f = "0"
	}
	return Child{T: t, F: f}
}

// children returns pointers to the child fields of node n.
func children(n *PNode) []*Child {
	if n.Kind == "B" {
		return []*Child{&n.L, &n.R}
	}
	return []*Child{&n.C}
}

var childName = map[string][]string{"B": {"left", "right"}, "E": {"child"}}

// tampers enumerates the corruptions of proof p for (root, key). trie2 = the node type carries
// child tags and a cached hash.
func tampers(r *lib.RNG, trie2 bool, hf crypto.HashFn, p Proof, key string, root *felt.Felt, exhaustivePaths bool) []Tamper {
	rootHex := fhex(root)
	var out []Tamper
	emit := func(kind string, node int, q Proof) {
		out = append(out, Tamper{Kind: kind, Node: node, Proof: q, Key: key, Root: rootHex})
	}
	// with: copy of p with node i replaced by f(node); the cache of the touched node is dropped
	// unless keepCache.
	with := func(i int, keepCache bool, f func(n *PNode)) Proof {
		q := p.clone()
		n := q[i]
		f(&n)
		if !keepCache {
			n.Cache = ""
		}
		q[i] = n
		return q
	}
	for i := range p {
		kind := p[i].Kind
		for ci, cname := range childName[kind] {
			// change a child felt
			emit("flip-"+cname, i, with(i, false, func(n *PNode) { c := children(n)[ci]; *c = bumpChild(*c) }))
			if trie2 && p[i].Cache != "" {
				emit("flip-"+cname+"-cache-kept", i, with(i, true, func(n *PNode) { c := children(n)[ci]; *c = bumpChild(*c) }))
			}
			// rekey: the changed node sits under its own new hash
			q := with(i, false, func(n *PNode) { c := children(n)[ci]; *c = bumpChild(*c) })
			h := q[i].nodeHash(hf)
			q[i].Key = fhex(&h)
			emit("flip-"+cname+"-rekeyed", i, q)
			if trie2 {
				cur := children(&p[i])[ci].tag()
				for _, t := range []string{"h", "v", "n"} {
					if t[0] == cur || (t == "n" && kind == "E") {
						continue
					}
					name := fmt.Sprintf("retag-%s-%c2%s", cname, cur, t)
					emit(name, i, with(i, false, func(n *PNode) { c := children(n)[ci]; *c = retag(*c, t) }))
					if p[i].Cache != "" {
						emit(name+"-cache-kept", i, with(i, true, func(n *PNode) { c := children(n)[ci]; *c = retag(*c, t) }))
					}
				}
			}
		}
		if kind == "E" {
			path := p[i].Path
			var positions []int
			if exhaustivePaths || len(path) <= 4 {
				for j := range path {
					positions = append(positions, j)
				}
			} else {
				positions = []int{0, len(path) - 1, r.Intn(len(path))}
			}
			for _, j := range positions {
				emit("path-flip-bit", i, with(i, false, func(n *PNode) { n.Path = flipBit(path, j) }))
			}
			if len(path) > 0 && trie2 && p[i].Cache != "" {
				j := r.Intn(len(path))
				emit("path-flip-bit-cache-kept", i, with(i, true, func(n *PNode) { n.Path = flipBit(path, j) }))
			}
			if len(path) < 255 {
				emit("path-extend-0", i, with(i, false, func(n *PNode) { n.Path = path + "0" }))
				emit("path-extend-1", i, with(i, false, func(n *PNode) { n.Path = path + "1" }))
				emit("path-prepend-0", i, with(i, false, func(n *PNode) { n.Path = "0" + path }))
				if trie2 && p[i].Cache != "" {
					emit("path-extend-0-cache-kept", i, with(i, true, func(n *PNode) { n.Path = path + "0" }))
				}
			}
			if len(path) > 0 {
				emit("path-truncate-last", i, with(i, false, func(n *PNode) { n.Path = path[:len(path)-1] }))
				emit("path-truncate-first", i, with(i, false, func(n *PNode) { n.Path = path[1:] }))
				if trie2 && p[i].Cache != "" {
					emit("path-truncate-last-cache-kept", i, with(i, true, func(n *PNode) { n.Path = path[:len(path)-1] }))
				}
			}
			// an edge becomes a binary node
			emit("kind-edge2bin", i, with(i, false, func(n *PNode) { n.Kind = "B"; n.L, n.R = n.C, n.C; n.Path = "" }))
		} else {
			emit("swap-children", i, with(i, false, func(n *PNode) { n.L, n.R = n.R, n.L }))
			if trie2 && p[i].Cache != "" {
				emit("swap-children-cache-kept", i, with(i, true, func(n *PNode) { n.L, n.R = n.R, n.L }))
			}
			emit("kind-bin2edge", i, with(i, false, func(n *PNode) { n.Kind = "E"; n.C = n.L; n.Path = "0" }))
		}
		if trie2 {
			emit("cache-wrong", i, with(i, true, func(n *PNode) { n.Cache = bumpHex(n.Key) }))
		}
		// drop a node
		q := append(p[:i:i].clone(), p[i+1:]...)
		emit("drop-node", i, q)
		// exchange the contents of two nodes (keys stay)
		if i+1 < len(p) {
			q := p.clone()
			q[i], q[i+1] = q[i+1], q[i]
			q[i].Key, q[i+1].Key = p[i].Key, p[i+1].Key
			emit("swap-nodes", i, q)
			if trie2 && p[i].Cache != "" && p[i+1].Cache != "" {
				q := q.clone()
				q[i].Cache, q[i+1].Cache = p[i].Cache, p[i+1].Cache
				emit("swap-nodes-cache-kept", i, q)
			}
		}
	}
	if trie2 {
		// a hash child replaced by the node it stands for, EMBEDDED in its parent (Go callers can build
		// such sets; hashes are unchanged), with and without a cached hash flag on the embedded node
		idx := map[string]int{}
		for i := range p {
			idx[p[i].Key] = i
		}
		for i := range p {
			for ci, cname := range childName[p[i].Kind] {
				c := *children(&p[i])[ci]
				j, ok := idx[c.F]
				if c.tag() != 'h' || !ok || j == i {
					continue
				}
				emb := p[j]
				emb.Cache = ""
				embp := &emb
				emit("embed-"+cname+"-plain", i, with(i, false, func(n *PNode) { *children(n)[ci] = Child{T: "p", F: c.F, Emb: embp} }))
				emit("embed-"+cname+"-cached", i, with(i, false, func(n *PNode) { *children(n)[ci] = Child{T: "e", F: c.F, Emb: embp} }))
			}
		}
	}
	// one key twice in the node list: OrderedSet.Put keeps the LAST node
	if len(p) > 0 {
		i := r.Intn(len(p))
		bad := p[i]
		bad.Cache = ""
		cc := children(&bad)[0]
		*cc = bumpChild(*cc)
		emit("duplicate-key-altered-copy-last", i, append(p.clone(), bad))
		emit("duplicate-key-altered-copy-first", i, append(Proof{bad}, p...))
	}
	if trie2 {
		q := p.clone()
		for i := range q {
			q[i].Cache = ""
		}
		out = append(out, Tamper{Kind: "honest-cache-stripped", Node: -1, Proof: q, Key: key, Root: rootHex})
		q = p.clone()
		for i := range q {
			h := q[i].nodeHash(hf)
			q[i].Cache = fhex(&h)
		}
		out = append(out, Tamper{Kind: "honest-cache-filled", Node: -1, Proof: q, Key: key, Root: rootHex})
	}
	// the key is altered: the same proof is offered for another key
	height := len(key)
	seen := map[int]bool{}
	nKeys := 6
	if exhaustivePaths {
		nKeys = height
	}
	for t := 0; t < nKeys && t < height; t++ {
		d := pickDepth(r, height)
		if exhaustivePaths {
			d = t
		}
		if seen[d] {
			continue
		}
		seen[d] = true
		out = append(out, Tamper{Kind: "key-flip-bit", Node: -1, Proof: p, Key: flipBit(key, d), Root: rootHex})
	}
	// the felt key + 2^251: the same 251 low bits, another felt (only for keys < 2^196, so that the sum is a felt)
	if strings.HasPrefix(key, strings.Repeat("0", 56)) {
		out = append(out, Tamper{Kind: "key-plus-2^251", Node: -1, Proof: p, Key: key, Root: rootHex, KeyPlus: true})
	}
	// the root is altered
	out = append(out, Tamper{Kind: "root-changed", Node: -1, Proof: p, Key: key, Root: bumpHex(rootHex)})
	// a forged but hash-consistent chain: change the last felt on the path and rehash upwards
	if forged, newRoot, ok := forgeChain(hf, p, key, root); ok {
		out = append(out, Tamper{Kind: "forged-chain-old-root", Node: -1, Proof: forged, Key: key, Root: rootHex})
		out = append(out, Tamper{Kind: "forged-chain-new-root", Node: -1, Proof: forged, Key: key, Root: newRoot, NoOracle: true})
	}
	return out
}

// forgeChain follows the proof from the root along key (independently of the verifiers: plain
// lookups by set key), replaces the felt reached at the end by another one and recomputes every
// node hash on the way up, re-keying the nodes. Result: a self-consistent proof of another trie.
func forgeChain(hf crypto.HashFn, p Proof, key string, root *felt.Felt) (Proof, string, bool) {
	idx := map[string]int{}
	for i := range p {
		idx[p[i].Key] = i
	}
	type step struct{ node, child int }
	var walk []step
	cur, pos := fhex(root), 0
	for pos < len(key) {
		i, ok := idx[cur]
		if !ok {
			return nil, "", false
		}
		n := &p[i]
		if n.Kind == "B" {
			ci := int(key[pos] - '0')
			walk = append(walk, step{i, ci})
			cur = children(n)[ci].F
			pos++
		} else {
			if pos+len(n.Path) > len(key) || key[pos:pos+len(n.Path)] != n.Path || len(n.Path) == 0 {
				return nil, "", false
			}
			walk = append(walk, step{i, 0})
			cur = n.C.F
			pos += len(n.Path)
		}
		if len(walk) > 300 {
			return nil, "", false
		}
	}
	if len(walk) == 0 {
		return nil, "", false
	}
	q := p.clone()
	newFelt := bumpHex(cur)
	for w := len(walk) - 1; w >= 0; w-- {
		n := q[walk[w].node]
		c := children(&n)[walk[w].child]
		*c = Child{T: c.T, F: newFelt}
		if c.tag() == 'n' {
			c.T = "h"
		}
		h := n.nodeHash(hf)
		newFelt = fhex(&h)
		n.Key = newFelt
		if n.Cache != "" {
			n.Cache = newFelt
		}
		q[walk[w].node] = n
	}
	return q, newFelt, true
}
