//go:build verif

package main

import (
	"fmt"
	"runtime"
	"strings"
	"sync"

	"verif/harness/lib"
)

// rangeSmallSection: range claims EXHAUSTIVELY over small key spaces embedded in the 251-bit trie
// (VerifyRangeProof fixes the height): keys = prefix ++ the 2^h suffixes of h bits. For every key
// set S and every `first` of the space (plus keys left and right of the whole space):
//   - the empty-range claim (first, nil) with the honest proof — true iff S has no key >= first; this
//     is where `first` leaves the trie inside an internal edge in either direction, at a binary node,
//     at a leaf edge, left of / right of / inside the root edge;
//   - for every last in S, last >= first: the true claim S ∩ [first, last] with GetRangeProof(first, last)
//     (single- and multi-element; acceptance and the `more` flag against the key set), and every false
//     claim obtained by dropping one element, changing one value, adding one absent key of the interval.
//
// heights 1..3: every key set (quick and thorough); height 4: ~25 random sets (quick) / every 256th set (thorough).
func (c *ctx) rangeSmallSection(r *lib.RNG, out chan<- batch, rcfg string) {
	type job struct {
		id     int
		h      int
		prefix string // 251-h bits
		mask   int
		equal  bool // all values equal (identical sibling subtrees)
	}
	var jobs []job
	prefixes := func(h int) []string {
		n := 251 - h
		return []string{
			strings.Repeat("0", n),                                      // root edge = zeros
			"1" + strings.Repeat("0", n-1),                              // root edge with a 1 bit at the top
			strings.Repeat("0", n-1) + "1",                              // a 1 bit just above the space
			strings.Repeat("0", 100) + "1" + strings.Repeat("0", n-101), // a 1 bit in the second word
		}
	}
	id := 0
	for h := 1; h <= 4; h++ {
		ps := prefixes(h)
		for mask := 1; mask < 1<<(1<<h); mask++ {
			if h == 4 {
				if c.f.Thorough() {
					if mask%256 != 3 {
						continue
					}
				} else if r.Intn(2500) != 0 {
					continue
				}
			}
			id++
			jobs = append(jobs, job{id: id, h: h, prefix: ps[mask%len(ps)], mask: mask, equal: mask%8 == 5})
			if h <= 2 { // all prefixes for the tiny spaces
				for _, p := range ps {
					id++
					jobs = append(jobs, job{id: id, h: h, prefix: p, mask: mask, equal: false})
				}
			}
		}
	}
	run := func(j job) {
		res := c.res
		rr := r.Fork(uint64(j.id))
		suffix := func(v int) string { return fmt.Sprintf("%0*b", j.h, v) }
		spec := TrieSpec{Impl: "trie2", Hash: "ped", Height: 251}
		for v := 0; v < 1<<j.h; v++ {
			if j.mask>>v&1 == 1 {
				val := fmt.Sprintf("%x", 0x100+v)
				if j.equal {
					val = "7"
				}
				spec.KVs = append(spec.KVs, KV{K: j.prefix + suffix(v), V: val})
			}
		}
		bt, err := buildTrie(&spec)
		if err != nil {
			res.Fatalf("range-small: build: %v", err)
			return
		}
		rootHex := fhex(&bt.root)
		kvs := spec.KVs // sorted by construction
		var pending batch
		eval := func(cl *RangeClaim) { c.evalRange(cl, &pending, rcfg, fmt.Sprintf("s%d", j.id)) }
		rp := func(l, rk string) Proof {
			p, err := bt.rangeProof(l, rk)
			if err != nil {
				res.Fatalf("range-small: GetRangeProof: %v", err)
			}
			return p
		}
		// the candidate first keys: the whole space, plus one key left and one right of the space
		var firsts []string
		for v := 0; v < 1<<j.h; v++ {
			firsts = append(firsts, j.prefix+suffix(v))
		}
		if strings.Contains(j.prefix, "1") {
			firsts = append(firsts, strings.Repeat("0", 251))
		}
		if strings.Contains(j.prefix, "0") {
			firsts = append(firsts, strings.Repeat("1", 251))
			firsts = append(firsts, flipBit(j.prefix, strings.Index(j.prefix, "0"))+suffix(0))
		}
		for _, first := range firsts {
			// --- empty range
			kind := "honest-empty-range"
			for _, kv := range kvs {
				if kv.K >= first {
					kind = "empty-range-claimed-left-of-entries"
				}
			}
			p := rp(first, first)
			shape := divergenceShape(p, rootHex, first)
			res.Hit("range-small:empty:" + shape)
			if kind != "honest-empty-range" {
				// the cause of a wrong acceptance depends on where `first` leaves the trie
				kind = "empty-range-claimed-left-of-entries:first-" + shape
			}
			eval(&RangeClaim{Impl: "trie2", Kind: kind, Trie: kvs, Root: rootHex, First: first, Proof: p})
			// --- ranges first..last
			for hi := range kvs {
				if kvs[hi].K < first {
					continue
				}
				lo := hi
				for lo > 0 && kvs[lo-1].K >= first {
					lo--
				}
				proof := rp(first, kvs[hi].K)
				mk := func(kind string) *RangeClaim {
					cl := &RangeClaim{Impl: "trie2", Kind: kind, Trie: kvs, Root: rootHex, First: first, Proof: proof}
					for i := lo; i <= hi; i++ {
						cl.Keys = append(cl.Keys, kvs[i].K)
						cl.Values = append(cl.Values, kvs[i].V)
					}
					return cl
				}
				kind := "honest-range"
				switch {
				case lo == hi && first == kvs[lo].K:
					kind = "honest-single-element"
				case first != kvs[lo].K:
					kind = "honest-range-absent-first"
				}
				eval(mk(kind))
				tamp := func(kind string, f func(cl *RangeClaim)) {
					cl := mk(kind)
					f(cl)
					if len(cl.Keys) == 0 {
						return
					}
					if ok, _ := claimTruth(cl); ok && kind != "genuine-element-left-of-first-added" {
						return
					}
					eval(cl)
				}
				vc := lo + rr.Intn(hi-lo+1)
				for i := lo; i <= hi; i++ {
					at := i - lo
					if i == vc {
						tamp("value-changed", func(cl *RangeClaim) { cl.Values[at] = bumpHex(cl.Values[at]) })
					}
					if i == hi {
						continue // dropping the last element changes the interval: another (true) claim
					}
					dk := "inner-element-dropped"
					if i == lo && first == kvs[lo].K {
						dk = "first-element-dropped"
						if spec.truth(flipBit(first, 250)) != "0" {
							dk = "first-element-dropped-leaf-under-binary-node"
						}
					}
					tamp(dk, func(cl *RangeClaim) {
						cl.Keys = append(cl.Keys[:at:at], cl.Keys[at+1:]...)
						cl.Values = append(cl.Values[:at:at], cl.Values[at+1:]...)
					})
				}
				// one absent key of the space inside [first, last] added
				var absent []string
				for v := 0; v < 1<<j.h; v++ {
					k := j.prefix + suffix(v)
					if k >= first && k <= kvs[hi].K && spec.truth(k) == "0" {
						absent = append(absent, k)
					}
				}
				if len(absent) > 0 {
					k := lib.Pick(rr, absent)
					tamp("element-inserted", func(cl *RangeClaim) {
						at := 0
						for at < len(cl.Keys) && cl.Keys[at] < k {
							at++
						}
						cl.Keys = append(cl.Keys[:at:at], append([]string{k}, cl.Keys[at:]...)...)
						cl.Values = append(cl.Values[:at:at], append([]string{"5"}, cl.Values[at:]...)...)
					})
				}
				// an element left of first added (outside the interval)
				if lo > 0 {
					tamp("genuine-element-left-of-first-added", func(cl *RangeClaim) {
						cl.Keys = append([]string{kvs[lo-1].K}, cl.Keys...)
						cl.Values = append([]string{kvs[lo-1].V}, cl.Values...)
					})
				}
			}
		}
		// --- keys offered as felts of 2^251 or more, exhaustively over the set: every key as the single
		// element (first with and without the offset), every pair k_j < k_i as the range [k_i, k_j + 2^251]
		// (felts increasing, paths decreasing), and every range lo..hi with its last key offset
		for i := range kvs {
			if !plusOK(kvs[len(kvs)-1].K) {
				break // key + 2^251 would not be a felt
			}
			k := kvs[i].K
			single := rp(k, k)
			eval(&RangeClaim{Impl: "trie2", Kind: "single-element-key-plus-2^251", Trie: kvs, Root: rootHex, First: k, FirstPlus: true,
				Keys: []string{k}, KeyPlus: []bool{true}, Values: []string{kvs[i].V}, Proof: single})
			eval(&RangeClaim{Impl: "trie2", Kind: "single-element-key-plus-2^251-first-plain", Trie: kvs, Root: rootHex, First: k,
				Keys: []string{k}, KeyPlus: []bool{true}, Values: []string{kvs[i].V}, Proof: single})
			for jj := 0; jj < i; jj++ {
				proof := rp(kvs[jj].K, k)
				eval(&RangeClaim{Impl: "trie2", Kind: "keys-wrap-2^251", Trie: kvs, Root: rootHex, First: k,
					Keys: []string{k, kvs[jj].K}, KeyPlus: []bool{false, true}, Values: []string{kvs[i].V, kvs[jj].V}, Proof: proof})
				cl := &RangeClaim{Impl: "trie2", Kind: "last-key-plus-2^251", Trie: kvs, Root: rootHex, First: kvs[jj].K, Proof: proof}
				for x := jj; x <= i; x++ {
					cl.Keys = append(cl.Keys, kvs[x].K)
					cl.Values = append(cl.Values, kvs[x].V)
					cl.KeyPlus = append(cl.KeyPlus, x == i)
				}
				eval(cl)
			}
		}
		if len(pending.checks) > 0 {
			out <- pending
		}
	}
	workers := runtime.NumCPU()
	if workers > 16 {
		workers = 16
	}
	jc := make(chan job)
	var wg sync.WaitGroup
	for w := 0; w < workers; w++ {
		wg.Add(1)
		go func() {
			defer wg.Done()
			for j := range jc {
				run(j)
			}
		}()
	}
	for _, j := range jobs {
		jc <- j
	}
	close(jc)
	wg.Wait()
}

// divergenceShape says where the honest proof of `first` ends: at the leaf (present), at a nil-free
// binary walk to a leaf edge that mismatches, or inside an internal edge, and on which side of the key
// the edge lies.
func divergenceShape(p Proof, rootHex, key string) string {
	idx := map[string]int{}
	for i := range p {
		idx[p[i].Key] = i
	}
	cur, pos := rootHex, 0
	for pos < len(key) {
		i, ok := idx[cur]
		if !ok {
			if pos == 0 {
				return "empty-trie"
			}
			return "unresolved"
		}
		n := &p[i]
		if n.Kind == "B" {
			cur = children(n)[int(key[pos]-'0')].F
			pos++
			continue
		}
		end := pos + len(n.Path)
		if end <= len(key) && key[pos:end] == n.Path {
			cur, pos = n.C.F, end
			continue
		}
		where := "internal-edge"
		if end == len(key) {
			where = "leaf-edge"
		}
		if pos == 0 {
			where = "root-" + where
		}
		if n.Path > key[pos:min(end, len(key))] {
			return "diverges-in-" + where + "-edge-greater"
		}
		return "diverges-in-" + where + "-edge-smaller"
	}
	return "present"
}
