//go:build verif

package main

import (
	"encoding/json"
	"fmt"
	"github.com/NethermindEth/juno/blockchain"
	"math/big"
	"sort"
	"strings"
	"sync"

	"github.com/NethermindEth/juno/core"
	"github.com/NethermindEth/juno/core/crypto"
	"github.com/NethermindEth/juno/core/felt"
	"github.com/NethermindEth/juno/core/trie"
	"github.com/NethermindEth/juno/jsonrpc"
	rpcv10 "github.com/NethermindEth/juno/rpc/v10"
	rpcv8 "github.com/NethermindEth/juno/rpc/v8"
	rpcv9 "github.com/NethermindEth/juno/rpc/v9"
	"github.com/NethermindEth/juno/utils/log"
	"verif/harness/lib"
)

// ---- the response as an RPC client sees it (decoded from the JSON, not from juno's Go types) ----

type jNode struct {
	NodeHash string `json:"node_hash"`
	Node     struct {
		Left   *string `json:"left"`
		Right  *string `json:"right"`
		Path   *string `json:"path"`
		Length *int    `json:"length"`
		Child  *string `json:"child"`
	} `json:"node"`
}

type jLeaf struct {
	Nonce       string  `json:"nonce"`
	ClassHash   string  `json:"class_hash"`
	StorageRoot *string `json:"storage_root"`
}

type jStorageProof struct {
	ClassesProof   []jNode `json:"classes_proof"`
	ContractsProof struct {
		Nodes      []jNode  `json:"nodes"`
		LeavesData []*jLeaf `json:"contract_leaves_data"`
	} `json:"contracts_proof"`
	ContractsStorageProofs [][]jNode `json:"contracts_storage_proofs"`
	GlobalRoots            struct {
		ContractsTreeRoot string `json:"contracts_tree_root"`
		ClassesTreeRoot   string `json:"classes_tree_root"`
		BlockHash         string `json:"block_hash"`
	} `json:"global_roots"`
}

func unhex(s string) string {
	s = strings.TrimPrefix(s, "0x")
	n, ok := new(big.Int).SetString(s, 16)
	if !ok {
		return "bad:" + s
	}
	return n.Text(16)
}

// nodesToProof converts wire nodes to the neutral proof representation (felts only).
func nodesToProof(ns []jNode) (Proof, error) {
	out := make(Proof, 0, len(ns))
	for _, n := range ns {
		switch {
		case n.Node.Left != nil && n.Node.Right != nil:
			out = append(out, PNode{Kind: "B", Key: unhex(n.NodeHash), L: Child{T: "h", F: unhex(*n.Node.Left)}, R: Child{T: "h", F: unhex(*n.Node.Right)}})
		case n.Node.Path != nil && n.Node.Length != nil && n.Node.Child != nil:
			pv, ok := new(big.Int).SetString(strings.TrimPrefix(*n.Node.Path, "0x"), 16)
			if !ok || *n.Node.Length < 0 || *n.Node.Length > 251 || pv.BitLen() > *n.Node.Length {
				return nil, fmt.Errorf("edge node with path %s length %d", *n.Node.Path, *n.Node.Length)
			}
			bits := ""
			if *n.Node.Length > 0 {
				bits = fmt.Sprintf("%0*s", *n.Node.Length, pv.Text(2))
			}
			out = append(out, PNode{Kind: "E", Key: unhex(n.NodeHash), C: Child{T: "h", F: unhex(*n.Node.Child)}, Path: bits})
		default:
			return nil, fmt.Errorf("node %s is neither binary nor edge", n.NodeHash)
		}
	}
	// a client reads the array as a mapping node_hash -> node
	seen := map[string]bool{}
	for _, n := range out {
		if seen[n.Key] {
			return nil, fmt.Errorf("node hash %s twice in one mapping", n.Key)
		}
		seen[n.Key] = true
	}
	return out, nil
}

// ---- what the abstract state says ------------------------------------------------------------------

var (
	leafVersionFelt  = felt.NewFromBytes[felt.Felt]([]byte(`CONTRACT_CLASS_LEAF_V0`))
	stateVersionFelt = felt.NewFromBytes[felt.Felt]([]byte(`STARKNET_STATE_V0`))
)

func absStorageRoot(c *lib.AbsContract) felt.Felt {
	if c == nil {
		return felt.Zero
	}
	kvs := make([]KV, 0, len(c.Storage))
	for k, v := range c.Storage {
		kvs = append(kvs, KV{K: bitsOf(&k, 251), V: fhex(&v)})
	}
	return refRoot(crypto.Pedersen, kvs)
}

// absContractLeaf: H(H(H(class, storage_root), nonce), 0); 0 when the address has no state.
func absContractLeaf(st *lib.AbsState, a felt.Felt) felt.Felt {
	c := st.Contracts[a]
	if c == nil || (!st.Deployed[a] && len(c.Storage) == 0 && c.Nonce.IsZero() && c.Class.IsZero()) {
		return felt.Zero
	}
	root := absStorageRoot(c)
	h := crypto.Pedersen(&c.Class, &root)
	h = crypto.Pedersen(&h, &c.Nonce)
	return crypto.Pedersen(&h, &felt.Zero)
}

func absClassLeaf(st *lib.AbsState, c felt.Felt) felt.Felt {
	casm, ok := st.Casm[c]
	if !ok {
		return felt.Zero
	}
	return crypto.Poseidon(leafVersionFelt, &casm)
}

// globalRoot: the state commitment a client recomputes from global_roots.
func globalRoot(contracts, classes *felt.Felt, version string) felt.Felt {
	if contracts.IsZero() && classes.IsZero() {
		return felt.Zero
	}
	ver, _ := core.ParseBlockVersion(version)
	if classes.IsZero() && ver.LessThan(core.Ver0_14_0) {
		return *contracts
	}
	return crypto.PoseidonElems(stateVersionFelt, contracts, classes)
}

func sortedFelts[V any](m map[felt.Felt]V) []felt.Felt {
	out := make([]felt.Felt, 0, len(m))
	for k := range m {
		out = append(out, k)
	}
	sort.Slice(out, func(i, j int) bool { return out[i].Cmp(&out[j]) < 0 })
	return out
}

type rpcRequest struct {
	Version   string               `json:"rpc_version"`
	NewState  bool                 `json:"new_state_backend"`
	Block     uint64               `json:"head_block"`
	Protocol  string               `json:"protocol_version"`
	Classes   []string             `json:"class_hashes"`
	Contracts []string             `json:"contract_addresses"`
	Storage   []rpcStorageKeysJSON `json:"contracts_storage_keys"`
	BlockID   blockRef             `json:"block_id"`
	Chain     rpcChain             `json:"chain"`
}

type rpcStorageKeysJSON struct {
	Contract string   `json:"contract_address"`
	Keys     []string `json:"storage_keys"`
}

func feltsHex(fs []felt.Felt) []string {
	out := make([]string, len(fs))
	for i := range fs {
		out[i] = "0x" + fhex(&fs[i])
	}
	return out
}

// blockRef is the block_id of a request.
type blockRef struct {
	Kind   string `json:"kind"` // latest | number | hash | pre_confirmed | l1_accepted
	Number uint64 `json:"number,omitempty"`
	Hash   string `json:"hash,omitempty"`
}

// asSets: the node mappings of the typed result converted with the RPC types' own AsProofNode
// (the conversion clients of the Go API use to feed trie.VerifyProof).
type asSets struct {
	classes, contracts *trie.ProofNodeSet
	storage            []*trie.ProofNodeSet
}

// rpcHandlers: the three copies of the handler (rpc/v8, v9, v10) over one node.
type rpcHandlers struct {
	h8  *rpcv8.Handler
	h9  *rpcv9.Handler
	h10 *rpcv10.Handler
}

func newRPCHandlers(dst *blockchain.Blockchain) *rpcHandlers {
	return &rpcHandlers{
		h8:  rpcv8.New(dst, nil, nil, log.NewNopZapLogger()),
		h9:  rpcv9.New(dst, nil, nil, log.NewNopZapLogger()),
		h10: rpcv10.New(dst, nil, nil, log.NewNopZapLogger()),
	}
}

var rpcVersions = []string{"v8", "v9", "v10"}

// callStorageProof invokes the real handler and returns the JSON a client would receive.
func callStorageProof(version string, hs *rpcHandlers, ref blockRef, classes, contracts []felt.Felt,
	storage []rpcStorageKeysJSON,
) ([]byte, *asSets, *jsonrpc.Error, error) {
	var res any
	var rpcErr *jsonrpc.Error
	sets := &asSets{classes: trie.NewProofNodeSet(), contracts: trie.NewProofNodeSet()}
	err, _, _ := lib.Try(func() error {
		if version == "v8" {
			var id rpcv8.BlockID // v8 has no constructor for `latest`
			if e := id.UnmarshalJSON([]byte(`"latest"`)); e != nil {
				return e
			}
			switch ref.Kind {
			case "number":
				id = rpcv8.BlockIDFromNumber(ref.Number)
			case "hash":
				hh := hexFelt(ref.Hash)
				id = rpcv8.BlockIDFromHash(&hh)
			case "pre_confirmed", "l1_accepted": // v8 has `pending` only
				id = rpcv8.BlockIDPending()
			}
			sk := make([]rpcv8.StorageKeys, len(storage))
			for i, s := range storage {
				if s.Contract != "" {
					c := hexFelt(strings.TrimPrefix(s.Contract, "0x"))
					sk[i] = rpcv8.StorageKeys{Contract: &c}
				}
				for _, k := range s.Keys {
					sk[i].Keys = append(sk[i].Keys, hexFelt(strings.TrimPrefix(k, "0x")))
				}
			}
			r8, e := hs.h8.StorageProof(&id, classes, contracts, sk)
			res, rpcErr = r8, e
			if e == nil && r8 != nil {
				for _, n := range r8.ClassesProof {
					sets.classes.Put(*n.Hash, n.Node.AsProofNode())
				}
				for _, n := range r8.ContractsProof.Nodes {
					sets.contracts.Put(*n.Hash, n.Node.AsProofNode())
				}
				for _, m := range r8.ContractsStorageProofs {
					ps := trie.NewProofNodeSet()
					for _, n := range m {
						ps.Put(*n.Hash, n.Node.AsProofNode())
					}
					sets.storage = append(sets.storage, ps)
				}
			}
		} else if version == "v9" {
			id := rpcv9.BlockIDLatest()
			switch ref.Kind {
			case "number":
				id = rpcv9.BlockIDFromNumber(ref.Number)
			case "hash":
				hh := hexFelt(ref.Hash)
				id = rpcv9.BlockIDFromHash(&hh)
			case "pre_confirmed":
				id = rpcv9.BlockIDPreConfirmed()
			case "l1_accepted":
				id = rpcv9.BlockIDL1Accepted()
			}
			sk := make([]rpcv9.StorageKeys, len(storage))
			for i, s := range storage {
				if s.Contract != "" {
					c := hexFelt(strings.TrimPrefix(s.Contract, "0x"))
					sk[i] = rpcv9.StorageKeys{Contract: &c}
				}
				for _, k := range s.Keys {
					sk[i].Keys = append(sk[i].Keys, hexFelt(strings.TrimPrefix(k, "0x")))
				}
			}
			r9, e := hs.h9.StorageProof(&id, classes, contracts, sk)
			res, rpcErr = r9, e
			if e == nil && r9 != nil {
				for _, n := range r9.ClassesProof {
					sets.classes.Put(*n.Hash, n.Node.AsProofNode())
				}
				for _, n := range r9.ContractsProof.Nodes {
					sets.contracts.Put(*n.Hash, n.Node.AsProofNode())
				}
				for _, m := range r9.ContractsStorageProofs {
					ps := trie.NewProofNodeSet()
					for _, n := range m {
						ps.Put(*n.Hash, n.Node.AsProofNode())
					}
					sets.storage = append(sets.storage, ps)
				}
			}
		} else {
			id := rpcv10.BlockIDLatest()
			switch ref.Kind {
			case "number":
				id = rpcv10.BlockIDFromNumber(ref.Number)
			case "hash":
				hh := hexFelt(ref.Hash)
				id = rpcv10.BlockIDFromHash(&hh)
			case "pre_confirmed":
				id = rpcv10.BlockIDPreConfirmed()
			case "l1_accepted":
				id = rpcv10.BlockIDL1Accepted()
			}
			sk := make([]rpcv10.StorageKeys, len(storage))
			for i, s := range storage {
				if s.Contract != "" {
					c := hexFelt(strings.TrimPrefix(s.Contract, "0x"))
					sk[i] = rpcv10.StorageKeys{Contract: &c}
				}
				for _, k := range s.Keys {
					sk[i].Keys = append(sk[i].Keys, hexFelt(strings.TrimPrefix(k, "0x")))
				}
			}
			r10, e := hs.h10.StorageProof(&id, classes, contracts, sk)
			res, rpcErr = r10, e
			if e == nil && r10 != nil {
				for _, n := range r10.ClassesProof {
					sets.classes.Put(*n.Hash, n.Node.AsProofNode())
				}
				for _, n := range r10.ContractsProof.Nodes {
					sets.contracts.Put(*n.Hash, n.Node.AsProofNode())
				}
				for _, m := range r10.ContractsStorageProofs {
					ps := trie.NewProofNodeSet()
					for _, n := range m {
						ps.Put(*n.Hash, n.Node.AsProofNode())
					}
					sets.storage = append(sets.storage, ps)
				}
			}
		}
		return nil
	})
	if err != nil {
		return nil, nil, nil, err
	}
	if rpcErr != nil {
		return nil, nil, rpcErr, nil
	}
	b, err := json.Marshal(res)
	return b, sets, nil, err
}

// rpcChain identifies one generated chain and destination node (enough to rebuild it for a replay).
type rpcChain struct {
	Seed      uint64 `json:"chain_seed"`
	NoClasses bool   `json:"no_classes"`
	SrcNew    bool   `json:"source_new_state_backend"`
	DstNew    bool   `json:"new_state_backend"`
	Blocks    int    `json:"blocks"`
	// one more block at the end deploys contracts (same class, no storage: equal leaves) and writes the slots of
	// one contract so that the contracts trie and that storage trie hold IDENTICAL subtrees under different
	// edge paths; the requests then prove keys under different copies into one mapping
	Twins bool `json:"twin_subtrees,omitempty"`
}

func (c *ctx) rpcSection(r *lib.RNG, out chan<- batch) {
	chains := c.f.Scale(2, 8)
	blocks := c.f.Scale(12, 40)
	var wg sync.WaitGroup
	for ci := 0; ci < chains; ci++ {
		for _, newState := range []bool{false, true} {
			// even chains never declare classes: the classes trie stays empty across the 0.14.0
			// switch of the state commitment formula
			ch := rpcChain{Seed: r.Uint64(), NoClasses: ci%2 == 0, SrcNew: ci%2 == 1, DstNew: newState, Blocks: blocks, Twins: true}
			wg.Add(1)
			go func() {
				defer wg.Done()
				c.runRPCChain(ch, out)
			}()
		}
	}
	wg.Wait()
}

// runRPCChain generates the chain, stores it on the destination node and queries the head.
func (c *ctx) runRPCChain(ch rpcChain, out chan<- batch) {
	res := c.res
	gr := lib.NewRNG(ch.Seed)
	opt := lib.DefaultGenOptions()
	opt.NoClasses = ch.NoClasses
	g := lib.NewChainGen(gr, ch.SrcNew, opt)
	dst, _ := lib.NewNode(g.Net, ch.DstNew)
	hs := newRPCHandlers(dst)
	blocks := ch.Blocks
	for bi := 0; bi < blocks; bi++ {
		// the first third of the chain predates 0.14.0
		spec := &lib.BlockSpec{}
		switch {
		case bi < blocks/3:
			spec.Version = lib.Pick(gr, []string{"0.13.2", "0.13.4"})
			if bi > 0 && g.Head().Block.ProtocolVersion == "0.13.4" {
				spec.Version = "0.13.4"
			}
		case bi < 2*blocks/3:
			spec.Version = "0.14.0"
		default:
			spec.Version = "0.14.1"
		}
		b, err := g.Next(spec)
		if err != nil {
			res.Fatalf("rpc: chain generator: %v", err)
			return
		}
		if err := lib.StoreOn(dst, b); err != nil {
			res.Fatalf("rpc: store block %d: %v", bi, err)
			return
		}
		if bi != 0 && bi != blocks-1 && bi != blocks/3 && !gr.Chance(1, 2) {
			continue
		}
		for _, version := range rpcVersions {
			for q := 0; q < 2; q++ {
				c.rpcQuery(gr, g, version, ch, hs, out)
			}
		}
	}
	if ch.Twins {
		c.rpcTwinBlock(gr, g, ch, dst, hs, out)
	}
	c.rpcEnumerateStorageKeys(gr, g, ch, hs, out)
}

// forcedRPC: a request given by the caller instead of the random one of rpcQuery (always for `latest`).
type forcedRPC struct {
	classes, contracts []felt.Felt
	storage            []rpcStorageKeysJSON
}

// rpcTwinBlock stores one more block whose state diff puts identical subtrees into the contracts trie (contracts
// of one class without storage at prefix_i ++ suffix_j: equal leaves) and into the storage trie of one contract
// (slots prefix_i ++ suffix_j holding a value that depends on j only), then asks every handler for EVERY ordered
// pair (and some triples) of those addresses / slots in one request: the proofs of the keys of one mapping go
// into one node set, and every key must verify against its root.
func (c *ctx) rpcTwinBlock(gr *lib.RNG, g *lib.ChainGen, ch rpcChain, dst *blockchain.Blockchain, hs *rpcHandlers, out chan<- batch) {
	res := c.res
	st := g.HeadState()
	d := &core.StateDiff{
		StorageDiffs:      map[felt.Felt]map[felt.Felt]*felt.Felt{},
		Nonces:            map[felt.Felt]*felt.Felt{},
		DeployedContracts: map[felt.Felt]*felt.Felt{},
		DeclaredV0Classes: []*felt.Felt{},
		DeclaredV1Classes: map[felt.Felt]*felt.Felt{},
		ReplacedClasses:   map[felt.Felt]*felt.Felt{},
		MigratedClasses:   map[felt.SierraClassHash]felt.CasmClassHash{},
	}
	layout := func() (keys [][]felt.Felt, absent []felt.Felt) {
		pl, sl := 2+gr.Intn(2), 1+gr.Intn(2)
		lead := lib.Pick(gr, []int{0, 1, 3, 62, 64, 125, 190, 240, 251 - pl - sl})
		leadBits, tail := randBits(gr, lead), randBits(gr, 251-lead-pl-sl)
		prefixes := allBits(pl)
		lib.Shuffle(gr, prefixes)
		prefixes = prefixes[:3]
		pattern := allBits(sl)
		lib.Shuffle(gr, pattern)
		if len(pattern) > 2 {
			pattern = pattern[:3]
		}
		for _, p := range prefixes {
			var row []felt.Felt
			for _, sfx := range pattern {
				row = append(row, bitsToFelt(leadBits+p+sfx+tail))
			}
			keys = append(keys, row)
		}
		if tl := 251 - lead - pl - sl; tl > 0 {
			absent = append(absent, bitsToFelt(leadBits+prefixes[1]+pattern[0]+flipBit(tail, gr.Intn(tl))))
		}
		absent = append(absent, bitsToFelt(leadBits+flipBit(prefixes[0], pl-1)+pattern[0]+tail))
		return keys, absent
	}
	class := g.ClassHash(0)
	addrs, absentAddrs := layout()
	for _, row := range addrs {
		for _, a := range row {
			if st.Deployed[a] || st.Contracts[a] != nil {
				res.Hit("rpc:twins:skipped-address-in-use")
				return
			}
			cl := class
			d.DeployedContracts[a] = &cl
		}
	}
	owner := bitsToFelt(randBits(gr, 251))
	if st.Deployed[owner] || st.Contracts[owner] != nil || d.DeployedContracts[owner] != nil {
		res.Hit("rpc:twins:skipped-address-in-use")
		return
	}
	ocl := g.ClassHash(1)
	d.DeployedContracts[owner] = &ocl
	slots, absentSlots := layout()
	d.StorageDiffs[owner] = map[felt.Felt]*felt.Felt{}
	for _, row := range slots {
		for j, k := range row {
			d.StorageDiffs[owner][k] = lib.F(uint64(7 + j))
		}
	}
	b, err := g.Next(&lib.BlockSpec{Version: g.Head().Block.ProtocolVersion, Diff: d})
	if err != nil {
		res.Fatalf("rpc: twin block: chain generator: %v", err)
		return
	}
	if err := lib.StoreOn(dst, b); err != nil {
		res.Fatalf("rpc: twin block: store: %v", err)
		return
	}
	flat := func(rows [][]felt.Felt, extra []felt.Felt) []felt.Felt {
		var o []felt.Felt
		for j := range rows[0] { // the same relative key under every copy first
			for _, row := range rows {
				o = append(o, row[j])
			}
		}
		o = append(o, extra...)
		if len(o) > 7 {
			o = append(o[:6:6], extra...)
		}
		return o
	}
	apool, spool := flat(addrs, absentAddrs), flat(slots, absentSlots)
	n := 0
	ask := func(as, ss []felt.Felt) {
		version := rpcVersions[n%len(rpcVersions)]
		n++
		f := &forcedRPC{contracts: as}
		if len(ss) > 0 {
			f.storage = []rpcStorageKeysJSON{{Contract: "0x" + fhex(&owner), Keys: feltsHex(ss)}}
		}
		c.rpcQuery(gr, g, version, ch, hs, out, f)
		res.Hit("rpc:twins:request-with-keys-under-identical-subtrees")
	}
	for i := range apool {
		for j := range apool {
			if i == j {
				continue
			}
			var ss []felt.Felt
			if i < len(spool) && j < len(spool) {
				ss = []felt.Felt{spool[i], spool[j]}
			}
			ask([]felt.Felt{apool[i], apool[j]}, ss)
		}
	}
	for i := 0; i < 12; i++ {
		a, b2, d2 := gr.Intn(len(apool)), gr.Intn(len(apool)), gr.Intn(len(apool))
		x, y, z := gr.Intn(len(spool)), gr.Intn(len(spool)), gr.Intn(len(spool))
		ask([]felt.Felt{apool[a], apool[b2], apool[d2], owner}, []felt.Felt{spool[x], spool[y], spool[z]})
	}
}

// rpcEnumerateStorageKeys: EVERY sequence of at most four contracts_storage_keys entries over three contracts
// (merging, order of first appearance, repeated keys), at the head of the finished chain, the three handler
// copies in turn; the whole response is compared with the model (which is proved to verify).
func (c *ctx) rpcEnumerateStorageKeys(r *lib.RNG, g *lib.ChainGen, chain rpcChain, hs *rpcHandlers, out chan<- batch) {
	res := c.res
	st := g.HeadState()
	head := g.Head()
	var pool []felt.Felt
	for _, a := range sortedFelts(st.Contracts) {
		if len(st.Contracts[a].Storage) > 0 && len(pool) < 2 {
			pool = append(pool, a)
		}
	}
	pool = append(pool, hexFelt(bitsToBig(randBits(r, 251)).Text(16))) // an address without state
	if len(pool) < 3 {
		res.Hit("rpc:storage-keys-enumeration:skipped-fewer-than-two-contracts-with-storage")
		return
	}
	slotsOf := func(a felt.Felt) []felt.Felt {
		var ks []felt.Felt
		if ac := st.Contracts[a]; ac != nil {
			for _, k := range sortedFelts(ac.Storage) {
				if len(ks) < 2 {
					ks = append(ks, k)
				}
			}
		}
		return append(ks, *lib.F(uint64(1 + r.Intn(3))))
	}
	var mb batch
	n := 0
	var rec func(seq []int)
	rec = func(seq []int) {
		if len(seq) > 0 {
			version := rpcVersions[n%len(rpcVersions)]
			n++
			var storage []rpcStorageKeysJSON
			for _, ci := range seq {
				a := pool[ci]
				sl := slotsOf(a)
				var keys []felt.Felt
				for j := 0; j < 1+r.Intn(3); j++ {
					keys = append(keys, lib.Pick(r, sl))
				}
				storage = append(storage, rpcStorageKeysJSON{Contract: "0x" + fhex(&a), Keys: feltsHex(keys)})
			}
			// requested contracts: sometimes the same ones, in another order, with a repetition
			var contracts []felt.Felt
			if n%2 == 0 {
				for i := len(seq) - 1; i >= 0; i-- {
					contracts = append(contracts, pool[seq[i]])
				}
			}
			raw, sets, rpcErr, err := callStorageProof(version, hs, blockRef{Kind: "latest"}, nil, contracts, storage)
			req := rpcRequest{Version: version, NewState: chain.DstNew, Block: head.Block.Number, Protocol: head.Block.ProtocolVersion,
				Contracts: feltsHex(contracts), Storage: storage, Chain: chain, BlockID: blockRef{Kind: "latest"}}
			if err != nil || rpcErr != nil {
				res.Violate(lib.Violation{Sig: "rpc-" + version + ":request-fails", What: fmt.Sprintf("starknet_getStorageProof fails: %v %v", err, rpcErr), Replay: req})
				return
			}
			var resp jStorageProof
			if err := json.Unmarshal(raw, &resp); err != nil {
				res.Violate(lib.Violation{Sig: "rpc-" + version + ":response-not-decodable", What: err.Error(), Replay: req})
				return
			}
			mask := leafMask(st, contracts)
			canon, cerr := canonResponse(&resp, mask)
			if cerr != nil {
				res.Violate(lib.Violation{Sig: "rpc-" + version + ":storage-proof-malformed", What: cerr.Error(), Replay: req})
				return
			}
			// oracle, independent of the model: one mapping per distinct contract in the order of first
			// appearance, and the mapping of a contract with storage starts from that contract's storage root
			var distinct []felt.Felt
			seen := map[felt.Felt]bool{}
			for _, ci := range seq {
				if !seen[pool[ci]] {
					seen[pool[ci]] = true
					distinct = append(distinct, pool[ci])
				}
			}
			if len(resp.ContractsStorageProofs) != len(distinct) {
				res.Violate(lib.Violation{Sig: "rpc-" + version + ":storage-proofs-count",
					What:   fmt.Sprintf("%d contracts_storage_proofs for %d distinct contracts", len(resp.ContractsStorageProofs), len(distinct)),
					Replay: req})
			} else {
				for i, a := range distinct {
					root := absStorageRoot(st.Contracts[a])
					p, perr := nodesToProof(resp.ContractsStorageProofs[i])
					if perr == nil && !root.IsZero() && !mappingHasRoot(p, &root) {
						res.Violate(lib.Violation{Sig: "rpc-" + version + ":storage-proofs-not-in-request-order",
							What:   "contracts_storage_proofs[i] is not the proof for the i-th distinct contract of contracts_storage_keys",
							Replay: req})
						break
					}
					if perr != nil {
						continue
					}
					// every key requested for this contract, in whichever entry, verifies against the contract's
					// storage root in ITS mapping (independent verifier)
					done := map[felt.Felt]bool{}
					for si, ci := range seq {
						if pool[ci] != a {
							continue
						}
						for _, kh := range storage[si].Keys {
							key := hexFelt(strings.TrimPrefix(kh, "0x"))
							if done[key] {
								continue
							}
							done[key] = true
							want := felt.Zero
							if ac := st.Contracts[a]; ac != nil {
								want = ac.Storage[key]
							}
							var as *trie.ProofNodeSet
							if i < len(sets.storage) {
								as = sets.storage[i]
							}
							c.rpcVerifyKey(&mb, "rpc-"+version, "storage-proof", "ped", &root, &key, p, &want, as)
						}
					}
				}
			}
			blk := "latest - " + fmt.Sprint(head.Block.Number) + " -"
			line := rpcModelRequest(!chain.DstNew, blk, st, nil, contracts, storage)
			mb.checks = append(mb.checks, check{line: line, impl: canon, sig: "rpc-" + version + ":response-model:storage-keys-enumeration",
				norm: func(m string) string { return maskLeaves(m, mask) },
				replay: func() any {
					return map[string]any{"section": "rpc", "request": req, "what": "response against the model of StorageProof"}
				}})
			res.Case(fmt.Sprintf("rpc-enum/%s/%v/%d/%v", version, chain.DstNew, chain.Seed, seq), true)
			res.Hit("rpc:storage-keys-enumeration")
		}
		if len(seq) == 4 {
			return
		}
		for ci := 0; ci < 3; ci++ {
			rec(append(append([]int{}, seq...), ci))
		}
	}
	rec(nil)
	if len(mb.checks) > 0 {
		out <- mb
	}
}

func (c *ctx) rpcQuery(r *lib.RNG, g *lib.ChainGen, version string, chain rpcChain,
	hs *rpcHandlers, out chan<- batch, forced ...*forcedRPC,
) {
	newState, seed := chain.DstNew, chain.Seed
	res := c.res
	st := g.HeadState()
	head := g.Head()
	tag := "rpc-" + version
	// --- the request
	var classes, contracts []felt.Felt
	declared := sortedFelts(st.Classes)
	for i := 0; i < 3 && len(declared) > 0; i++ {
		classes = append(classes, lib.Pick(r, declared))
	}
	sierra := sortedFelts(st.Casm)
	for i := 0; i < 2 && len(sierra) > 0; i++ {
		classes = append(classes, lib.Pick(r, sierra))
	}
	classes = append(classes, hexFelt(randFeltHex(r)), *lib.F(uint64(r.Intn(5)))) // undeclared
	known := sortedFelts(st.Contracts)
	for i := 0; i < 4 && len(known) > 0; i++ {
		contracts = append(contracts, lib.Pick(r, known))
	}
	contracts = append(contracts, g.Addr(r.Intn(g.NAddrs())), hexFelt(bitsToBig(randBits(r, 251)).Text(16)))
	lib.Shuffle(r, contracts)
	var storage []rpcStorageKeysJSON
	nStorage := 2 + r.Intn(3)
	for i := 0; i < nStorage; i++ {
		var a felt.Felt
		switch {
		case len(known) > 0 && !r.Chance(1, 6):
			a = lib.Pick(r, known)
		default:
			a = g.Addr(r.Intn(g.NAddrs()))
		}
		var keys []felt.Felt
		if ac := st.Contracts[a]; ac != nil {
			slots := sortedFelts(ac.Storage)
			for j := 0; j < 3 && len(slots) > 0; j++ {
				keys = append(keys, lib.Pick(r, slots))
			}
			if len(slots) > 0 && r.Bool() { // an absent neighbour of a present slot
				b := bitsOf(&slots[0], 251)
				keys = append(keys, bitsToFelt(flipBit(b, pickDepth(r, 251))))
			}
		}
		keys = append(keys, g.Slot(r.Intn(g.Opt.NSlots)), hexFelt(bitsToBig(randBits(r, 251)).Text(16)))
		storage = append(storage, rpcStorageKeysJSON{Contract: "0x" + fhex(&a), Keys: feltsHex(keys)})
	}
	if len(forced) > 0 {
		classes, contracts, storage = forced[0].classes, forced[0].contracts, forced[0].storage
	}
	req := rpcRequest{Version: version, NewState: newState, Block: head.Block.Number, Protocol: head.Block.ProtocolVersion,
		Classes: feltsHex(classes), Contracts: feltsHex(contracts), Storage: storage, Chain: chain}
	res.Case(fmt.Sprintf("rpc/%s/%v/%d/%d/%v/%v", version, newState, seed, head.Block.Number, req.Contracts, len(forced)), true)
	res.Hit(fmt.Sprintf("rpc:%s:backend-new=%v", version, newState))
	res.Hit("rpc:protocol-" + head.Block.ProtocolVersion)

	// --- the block id: the head by tag / number / hash must be served; every other block must be refused
	// (the proofs are always those of the head state: served for another block they could not verify
	// against that block's root)
	ref := blockRef{Kind: "latest"}
	if head.Block.Number > 0 && len(forced) == 0 {
		switch r.Intn(12) {
		case 0, 1:
			ref = blockRef{Kind: "number", Number: head.Block.Number}
		case 2, 3:
			ref = blockRef{Kind: "hash", Hash: fhex(head.Block.Hash)}
		case 4:
			ref = blockRef{Kind: "number", Number: head.Block.Number - 1}
		case 5:
			ref = blockRef{Kind: "hash", Hash: fhex(g.Bundles[r.Intn(int(head.Block.Number))].Block.Hash)}
		case 6:
			ref = blockRef{Kind: "number", Number: head.Block.Number + 1 + uint64(r.Intn(3))}
		case 7:
			ref = lib.Pick(r, []blockRef{{Kind: "pre_confirmed"}, {Kind: "l1_accepted"}, {Kind: "hash", Hash: randFeltHex(r)}})
		}
	}
	req.BlockID = ref
	isHead := ref.Kind == "latest" || (ref.Kind == "number" && ref.Number == head.Block.Number) ||
		(ref.Kind == "hash" && ref.Hash == fhex(head.Block.Hash))
	res.Hit("rpc:block-id:" + ref.Kind + fmt.Sprintf(":head=%v", isHead))
	// the request for the Lean model of the handler (`isBlockSupported` + `storageProof`)
	blkTok := func() string {
		kind, arg, resolved := ref.Kind, "-", "-"
		switch ref.Kind {
		case "number":
			arg = fmt.Sprint(ref.Number)
		case "hash":
			arg = ref.Hash
			for _, bd := range g.Bundles {
				if fhex(bd.Block.Hash) == ref.Hash {
					resolved = fmt.Sprint(bd.Block.Number)
				}
			}
		case "l1_accepted":
			if version == "v8" { // rpc/v8 has `pending` only: the harness sends that
				kind = "pre_confirmed"
			}
		}
		return kind + " " + arg + " " + fmt.Sprint(head.Block.Number) + " " + resolved
	}()
	// leaf data of an address that has state but was never deployed (system contracts 0x1 / 0x2): whether
	// ContractClassHash finds it depends on the state backend, not on this handler
	mask := leafMask(st, contracts)
	modelCheck := func(storageReq []rpcStorageKeysJSON, impl string, what string) check {
		line := rpcModelRequest(!newState, blkTok, st, classes, contracts, storageReq)
		rq := req
		rq.Storage = storageReq
		return check{line: line, impl: impl, sig: tag + ":response-model:" + what,
			norm: func(m string) string { return maskLeaves(m, mask) },
			replay: func() any {
				return map[string]any{"section": "rpc", "request": rq, "what": "response against the model of StorageProof"}
			}}
	}
	var mb batch
	defer func() {
		if len(mb.checks) > 0 {
			out <- mb
		}
	}()
	// malformed storage key lists must be refused, not answered
	if len(forced) == 0 && r.Chance(1, 10) {
		bad := append([]rpcStorageKeysJSON{}, storage...)
		if r.Bool() {
			bad = append(bad, rpcStorageKeysJSON{Contract: "", Keys: []string{"0x1"}})
		} else {
			bad = append(bad, rpcStorageKeysJSON{Contract: "0x1", Keys: nil})
		}
		rawBad, _, e1, e2 := callStorageProof(version, hs, ref, classes, contracts, bad)
		if e1 == nil && e2 == nil && rawBad != nil {
			res.Violate(lib.Violation{Sig: tag + ":malformed-storage-keys-answered", What: "a contracts_storage_keys entry without contract_address / without storage_keys is answered with a proof instead of InvalidParams", Replay: req})
		}
		if e2 == nil {
			implBad := rpcErrClass(e1)
			if e1 == nil {
				implBad = "answered"
			}
			mb.checks = append(mb.checks, modelCheck(bad, implBad, "malformed-storage-keys"))
		}
		res.Hit("rpc:malformed-storage-keys")
	}
	raw, sets, rpcErr, err := callStorageProof(version, hs, ref, classes, contracts, storage)
	if err == nil && rpcErr != nil {
		mb.checks = append(mb.checks, modelCheck(storage, rpcErrClass(rpcErr), "refused"))
	}
	if !isHead {
		if err == nil && rpcErr == nil {
			res.Violate(lib.Violation{Sig: tag + ":proof-served-for-a-block-that-is-not-the-head",
				What:   fmt.Sprintf("block_id %+v is not the head (%d) and a proof (of the head state) is returned for it", ref, head.Block.Number),
				Replay: req})
		} else if err != nil {
			res.Violate(lib.Violation{Sig: tag + ":request-fails", What: fmt.Sprintf("starknet_getStorageProof panics: %v", err), Replay: req})
		}
		return
	}
	if err != nil || rpcErr != nil {
		res.Violate(lib.Violation{Sig: tag + ":request-fails", What: fmt.Sprintf("starknet_getStorageProof fails: %v %v", err, rpcErr), Replay: req})
		return
	}
	var resp jStorageProof
	if err := json.Unmarshal(raw, &resp); err != nil {
		res.Violate(lib.Violation{Sig: tag + ":response-not-decodable", What: err.Error(), Replay: req})
		return
	}
	replay := func(what string, extra any) any {
		return map[string]any{"section": "rpc", "request": req, "what": what, "detail": extra, "response": json.RawMessage(raw)}
	}
	// --- the whole response against the model: roots, every node of every mapping in order, leaf data
	if canon, cerr := canonResponse(&resp, mask); cerr == nil {
		mb.checks = append(mb.checks, modelCheck(storage, canon, "served"))
		res.Hit("rpc:response-model:served")
	}
	// --- global roots
	contractsRoot, classesRoot := hexFelt(unhex(resp.GlobalRoots.ContractsTreeRoot)), hexFelt(unhex(resp.GlobalRoots.ClassesTreeRoot))
	if got := globalRoot(&contractsRoot, &classesRoot, head.Block.ProtocolVersion); !got.Equal(head.Block.GlobalStateRoot) {
		res.Violate(lib.Violation{Sig: tag + ":global-roots-do-not-give-the-block-state-root",
			What:   fmt.Sprintf("commitment(contracts_tree_root, classes_tree_root) = %s, block %d has state root %s", got.String(), head.Block.Number, head.Block.GlobalStateRoot.String()),
			Replay: replay("global roots", nil)})
	}
	if bh := hexFelt(unhex(resp.GlobalRoots.BlockHash)); !bh.Equal(head.Block.Hash) {
		res.Violate(lib.Violation{Sig: tag + ":block-hash-is-not-the-head", What: "global_roots.block_hash is not the hash of the block served", Replay: replay("block hash", nil)})
	}
	if classesRoot.IsZero() {
		res.Hit("rpc:classes-trie-empty")
	}
	var b batch
	// verify one key in one node mapping with the independent verifier (and juno's legacy verifier
	// as correspondence, since rpc.Node.AsProofNode targets it)
	verify := func(kind, hash string, root *felt.Felt, key *felt.Felt, p Proof, want *felt.Felt, extra any) {
		c.rpcVerifyKey(&b, tag, kind, hash, root, key, p, want, extra)
	}
	// --- classes
	if p, err := nodesToProof(resp.ClassesProof); err != nil {
		res.Violate(lib.Violation{Sig: tag + ":classes-proof-malformed", What: err.Error(), Replay: replay("classes_proof", nil)})
	} else {
		for i := range classes {
			want := absClassLeaf(st, classes[i])
			verify("class-proof", "pos", &classesRoot, &classes[i], p, &want, sets.classes)
		}
	}
	// --- contracts
	uniq := func(fs []felt.Felt) []felt.Felt {
		seen := map[felt.Felt]bool{}
		var o []felt.Felt
		for _, f := range fs {
			if !seen[f] {
				seen[f] = true
				o = append(o, f)
			}
		}
		return o
	}
	ucontracts := uniq(contracts)
	leafRoot := map[felt.Felt]felt.Felt{} // storage roots a client learns from contract_leaves_data
	if p, err := nodesToProof(resp.ContractsProof.Nodes); err != nil {
		res.Violate(lib.Violation{Sig: tag + ":contracts-proof-malformed", What: err.Error(), Replay: replay("contracts_proof", nil)})
	} else {
		if len(resp.ContractsProof.LeavesData) != len(ucontracts) {
			res.Violate(lib.Violation{Sig: tag + ":contract-leaves-data-count",
				What:   fmt.Sprintf("%d contract_leaves_data entries for %d distinct requested contracts", len(resp.ContractsProof.LeavesData), len(ucontracts)),
				Replay: replay("contract_leaves_data", nil)})
		}
		for i := range ucontracts {
			a := ucontracts[i]
			want := absContractLeaf(st, a)
			verify("contract-proof", "ped", &contractsRoot, &a, p, &want, sets.contracts)
			if i >= len(resp.ContractsProof.LeavesData) {
				continue
			}
			ld := resp.ContractsProof.LeavesData[i]
			ac := st.Contracts[a]
			if ld == nil {
				if st.Deployed[a] {
					res.Violate(lib.Violation{Sig: tag + ":contract-leaf-data-missing", What: "no contract_leaves_data for a deployed contract " + a.String(),
						Replay: replay("contract_leaves_data", a.String())})
				}
				res.Hit("rpc:leaf-data:null")
				continue
			}
			res.Hit("rpc:leaf-data:present")
			// the leaf a client rebuilds from the leaf data must be the proved leaf
			cls, nonce := hexFelt(unhex(ld.ClassHash)), hexFelt(unhex(ld.Nonce))
			sroot := absStorageRoot(ac)
			if ld.StorageRoot != nil {
				got := hexFelt(unhex(*ld.StorageRoot))
				if !got.Equal(&sroot) {
					res.Violate(lib.Violation{Sig: tag + ":contract-leaf-storage-root-wrong",
						What:   fmt.Sprintf("contract %s: storage_root %s, the state has %s", a.String(), got.String(), sroot.String()),
						Replay: replay("contract_leaves_data", a.String())})
				}
				leafRoot[a] = got
			}
			h := crypto.Pedersen(&cls, &sroot)
			h = crypto.Pedersen(&h, &nonce)
			h = crypto.Pedersen(&h, &felt.Zero)
			if !h.Equal(&want) || ac == nil || !cls.Equal(&ac.Class) || !nonce.Equal(&ac.Nonce) {
				res.Violate(lib.Violation{Sig: tag + ":contract-leaf-data-wrong",
					What:   fmt.Sprintf("contract %s: leaf data (class %s, nonce %s) does not give the proved leaf", a.String(), cls.String(), nonce.String()),
					Replay: replay("contract_leaves_data", a.String())})
			}
		}
	}
	// --- storage: one mapping per distinct contract, in request order
	type sreq struct {
		a    felt.Felt
		keys []felt.Felt
	}
	var sreqs []sreq
	idx := map[felt.Felt]int{}
	for _, s := range storage {
		a := hexFelt(strings.TrimPrefix(s.Contract, "0x"))
		i, ok := idx[a]
		if !ok {
			i = len(sreqs)
			idx[a] = i
			sreqs = append(sreqs, sreq{a: a})
		}
		for _, k := range s.Keys {
			sreqs[i].keys = append(sreqs[i].keys, hexFelt(strings.TrimPrefix(k, "0x")))
		}
	}
	if len(sreqs) < len(storage) {
		res.Hit("rpc:storage:same-contract-twice-in-request")
	}
	if len(resp.ContractsStorageProofs) != len(sreqs) {
		res.Violate(lib.Violation{Sig: tag + ":storage-proofs-count",
			What:   fmt.Sprintf("%d contracts_storage_proofs for %d distinct contracts", len(resp.ContractsStorageProofs), len(sreqs)),
			Replay: replay("contracts_storage_proofs", nil)})
		out <- b
		return
	}
	proofs := make([]Proof, len(resp.ContractsStorageProofs))
	for i := range resp.ContractsStorageProofs {
		p, err := nodesToProof(resp.ContractsStorageProofs[i])
		if err != nil {
			res.Violate(lib.Violation{Sig: tag + ":storage-proof-malformed", What: err.Error(), Replay: replay("contracts_storage_proofs", i)})
			out <- b
			return
		}
		proofs[i] = p
	}
	// which mapping belongs to which contract: the one whose nodes verify from the contract's
	// storage root (plain walk by node_hash, no verifier involved)
	inOrder := true
	assign := make([]int, len(sreqs))
	for i := range sreqs {
		assign[i] = i
		root := absStorageRoot(st.Contracts[sreqs[i].a])
		if root.IsZero() || mappingHasRoot(proofs[i], &root) {
			continue
		}
		inOrder = false
		for j := range proofs {
			if mappingHasRoot(proofs[j], &root) {
				assign[i] = j
			}
		}
	}
	if !inOrder {
		res.Violate(lib.Violation{Sig: tag + ":storage-proofs-not-in-request-order",
			What: "contracts_storage_proofs[i] is not the proof for the i-th distinct contract of contracts_storage_keys " +
				"(processStorageKeys iterates a Go map: the order changes from call to call)",
			Replay: replay("contracts_storage_proofs order", assign)})
		res.Hit("rpc:storage:out-of-order")
	} else {
		res.Hit("rpc:storage:in-order")
	}
	for i := range sreqs {
		ac := st.Contracts[sreqs[i].a]
		root := absStorageRoot(ac)
		if lr, ok := leafRoot[sreqs[i].a]; ok {
			root = lr // what a client would use
		}
		if root.IsZero() {
			res.Hit("rpc:storage:empty-storage-trie")
		}
		for k := range sreqs[i].keys {
			key := sreqs[i].keys[k]
			want := felt.Zero
			if ac != nil {
				want = ac.Storage[key]
			}
			var as *trie.ProofNodeSet
			if assign[i] < len(sets.storage) {
				as = sets.storage[assign[i]]
			}
			verify("storage-proof", "ped", &root, &key, proofs[assign[i]], &want, as)
		}
	}
	out <- b
}

// mappingHasRoot: the mapping contains a node stored under the given hash.
func mappingHasRoot(p Proof, root *felt.Felt) bool {
	h := fhex(root)
	for i := range p {
		if p[i].Key == h {
			return true
		}
	}
	return false
}

// ---- the response against the Lean model of Handler.StorageProof (`storageProof` in ModelR5.lean) ----------

// rpcModelRequest renders the head state (as far as the request touches it) and the request for the driver's
// `rpc` op. legacy = the state backend hands out *trie.Trie (deprecated state), else *trie2.Trie.
func rpcModelRequest(legacy bool, blk string, st *lib.AbsState, classes, contracts []felt.Felt, storage []rpcStorageKeysJSON) string {
	// blk = "<kind> <number|hash|-> <chain height> <number the hash resolves to|->"
	var sb strings.Builder
	sb.WriteString("rpc ")
	if legacy {
		sb.WriteString("1")
	} else {
		sb.WriteString("0")
	}
	sb.WriteString(" 251 " + blk)
	kvTok := func(kv KV) string { return " " + kv.K + "=" + kv.V }
	// classes trie (Poseidon): sierra class hash -> H(CONTRACT_CLASS_LEAF_V0, compiled class hash)
	var ckvs []KV
	for _, ch := range sortedFelts(st.Casm) {
		leaf := absClassLeaf(st, ch)
		ckvs = append(ckvs, KV{K: bitsOf(&ch, 251), V: fhex(&leaf)})
	}
	sb.WriteString(" | C")
	for _, kv := range ckvs {
		sb.WriteString(kvTok(kv))
	}
	_, fq := refRootFacts(crypto.Poseidon, ckvs, true)
	// contracts trie (Pedersen): address -> contract leaf
	var tkvs []KV
	for _, a := range sortedFelts(st.Contracts) {
		leaf := absContractLeaf(st, a)
		if !leaf.IsZero() {
			tkvs = append(tkvs, KV{K: bitsOf(&a, 251), V: fhex(&leaf)})
		}
	}
	sb.WriteString(" | T")
	for _, kv := range tkvs {
		sb.WriteString(kvTok(kv))
	}
	_, fp := refRootFacts(crypto.Pedersen, tkvs, true)
	// the contracts the request touches: info and storage tries
	touched := map[felt.Felt]bool{}
	var order []felt.Felt
	touch := func(a felt.Felt) {
		if !touched[a] {
			touched[a] = true
			order = append(order, a)
		}
	}
	for _, a := range contracts {
		touch(a)
	}
	for _, sk := range storage {
		if sk.Contract != "" {
			touch(hexFelt(strings.TrimPrefix(sk.Contract, "0x")))
		}
	}
	sb.WriteString(" | I")
	for _, a := range order {
		if ac := st.Contracts[a]; ac != nil {
			sb.WriteString(" " + fhex(&a) + ":" + fhex(&ac.Class) + ":" + fhex(&ac.Nonce))
		}
	}
	for _, a := range order {
		ac := st.Contracts[a]
		if ac == nil || len(ac.Storage) == 0 {
			continue
		}
		var skvs []KV
		for _, k := range sortedFelts(ac.Storage) {
			v := ac.Storage[k]
			skvs = append(skvs, KV{K: bitsOf(&k, 251), V: fhex(&v)})
		}
		sb.WriteString(" | S " + fhex(&a))
		for _, kv := range skvs {
			sb.WriteString(kvTok(kv))
		}
		_, f := refRootFacts(crypto.Pedersen, skvs, true)
		fp = append(fp, f...)
	}
	sb.WriteString(" | Q")
	for i := range classes {
		sb.WriteString(" " + fhex(&classes[i]))
	}
	sb.WriteString(" | A")
	for i := range contracts {
		sb.WriteString(" " + fhex(&contracts[i]))
	}
	for _, sk := range storage {
		sb.WriteString(" | K ")
		if sk.Contract == "" {
			sb.WriteString("-")
		} else {
			sb.WriteString(unhex(sk.Contract))
		}
		for _, k := range sk.Keys {
			sb.WriteString(" " + unhex(k))
		}
	}
	sb.WriteString(" | FP")
	for _, f := range fp {
		sb.WriteString(" " + f)
	}
	sb.WriteString(" | FQ")
	for _, f := range fq {
		sb.WriteString(" " + f)
	}
	return sb.String()
}

// canonWNodes renders a node mapping the way the driver's `rpc` answer does.
func canonWNodes(p Proof) string {
	var sb strings.Builder
	for i := range p {
		n := &p[i]
		if n.Kind == "B" {
			sb.WriteString(" B:" + n.Key + ":" + n.L.F + ":" + n.R.F)
		} else {
			sb.WriteString(" E:" + n.Key + ":" + dashIfEmpty(n.Path) + ":" + n.C.F)
		}
	}
	return sb.String()
}

// canonResponse renders a decoded response in the format of the driver's `rpc` answer; leaf entries at the
// positions in `mask` are not specified (an address with state that was never deployed) and rendered `?`.
func canonResponse(resp *jStorageProof, mask map[int]bool) (string, error) {
	var sb strings.Builder
	sb.WriteString("ok roots " + unhex(resp.GlobalRoots.ContractsTreeRoot) + " " + unhex(resp.GlobalRoots.ClassesTreeRoot))
	cp, err := nodesToProof(resp.ClassesProof)
	if err != nil {
		return "", err
	}
	sb.WriteString(" cp" + canonWNodes(cp))
	np, err := nodesToProof(resp.ContractsProof.Nodes)
	if err != nil {
		return "", err
	}
	sb.WriteString(" np" + canonWNodes(np))
	sb.WriteString(" ld")
	for i, ld := range resp.ContractsProof.LeavesData {
		switch {
		case mask[i]:
			sb.WriteString(" ?")
		case ld == nil:
			sb.WriteString(" n")
		default:
			sr := "-"
			if ld.StorageRoot != nil {
				sr = unhex(*ld.StorageRoot)
			}
			sb.WriteString(" " + unhex(ld.ClassHash) + ":" + unhex(ld.Nonce) + ":" + sr)
		}
	}
	for _, m := range resp.ContractsStorageProofs {
		sp, err := nodesToProof(m)
		if err != nil {
			return "", err
		}
		sb.WriteString(" sp" + canonWNodes(sp))
	}
	return sb.String(), nil
}

// leafMask: the positions (in the de-duplicated list) of requested contracts whose leaf data is not specified.
func leafMask(st *lib.AbsState, contracts []felt.Felt) map[int]bool {
	mask := map[int]bool{}
	seen := map[felt.Felt]bool{}
	i := 0
	for _, a := range contracts {
		if seen[a] {
			continue
		}
		seen[a] = true
		if st.Contracts[a] != nil && !st.Deployed[a] {
			mask[i] = true
		}
		i++
	}
	return mask
}

// maskLeaves replaces the leaf entries at the masked positions of a model answer by `?`.
func maskLeaves(ans string, mask map[int]bool) string {
	if len(mask) == 0 || !strings.HasPrefix(ans, "ok ") {
		return ans
	}
	w := strings.Fields(ans)
	in, idx := false, 0
	for i, t := range w {
		switch {
		case t == "ld":
			in, idx = true, 0
		case t == "sp" || t == "cp" || t == "np":
			in = false
		case in:
			if mask[idx] {
				w[i] = "?"
			}
			idx++
		}
	}
	return strings.Join(w, " ")
}

// rpcVerifyKey: one requested key against one node mapping of a response — the independent (Lean, strict)
// verifiers, juno's legacy verifier as correspondence, and the mapping converted by the RPC types' own
// AsProofNode through the real trie.VerifyProof.
func (c *ctx) rpcVerifyKey(b *batch, tag, kind, hash string, root *felt.Felt, key *felt.Felt, p Proof, want *felt.Felt, extra any) {
	res := c.res
	kb := bitsOf(key, 251)
	sig := tag + ":" + kind
	rootHex := fhex(root)
	mk := func() any {
		return verifyReplay{Section: "rpc", Check: sig, Verifier: "legacy", Hash: hash, Root: rootHex, Key: kb, KeyFelt: "0x" + fhex(key),
			Proof: p, Truth: fhex(want), Tamper: "none", Node: -1, Honest: true}
	}
	hf := hashFnOf(hash)
	b.checks = append(b.checks,
		check{line: "vL 00111 " + rootHex + " " + kb + p.toks(hf), truth: fhex(want), honest: true, independent: true, sig: sig, replay: mk},
		check{line: "v2 00111 " + rootHex + " " + kb + p.toks(hf), truth: fhex(want), honest: true, independent: true, sig: sig, replay: mk},
	)
	// correspondence with the real legacy verifier; its rejection of the empty trie is the known
	// finding reported by the trie section, not repeated here
	impl := realVerify("legacy", hf, root, kb, p)
	b.checks = append(b.checks, check{line: c.modelLine("legacy", rootHex, kb, p, hash), impl: impl, sig: sig, replay: mk})
	// the same mapping converted by the RPC node types' own AsProofNode, through the real verifier
	if as, ok := extra.(*trie.ProofNodeSet); ok && as != nil {
		var got felt.Felt
		var verr error
		perr, panicked, _ := lib.Try(func() error { got, verr = trie.VerifyProof(root, key, as, hf); return nil })
		if panicked || verr != nil || !got.Equal(want) {
			res.Violate(lib.Violation{Sig: sig + ":as-proof-node-conversion-does-not-verify",
				What:   fmt.Sprintf("nodes converted with AsProofNode: trie.VerifyProof gives %s / %v / %v, expected %s", got.String(), verr, perr, want.String()),
				Replay: mk()})
		}
		res.Hit("rpc:as-proof-node:" + kind)
	}
	if want.IsZero() {
		res.Hit("rpc:" + kind + ":absent")
	} else {
		res.Hit("rpc:" + kind + ":present")
	}
}

// rpcErrClass: the error of a refused request in the model's terms.
func rpcErrClass(e *jsonrpc.Error) string {
	if e == nil {
		return "ok"
	}
	switch e.Code {
	case 24:
		return "err:block:notfound"
	case 42:
		return "err:block:notsupported"
	case 70, 71:
		return "err:block:preconfirmed"
	case jsonrpc.InvalidParams:
		switch fmt.Sprint(e.Data) {
		case "missing field: contract_address":
			return "err:missing-contract"
		case "missing field: storage_keys":
			return "err:missing-keys"
		}
	}
	return fmt.Sprintf("err:other:%d:%v", e.Code, e.Data)
}
