//go:build verif

package main

import (
	"fmt"
	"math/big"
	"sort"
	"strings"

	"github.com/NethermindEth/juno/core/felt"
	"github.com/NethermindEth/juno/core/trie"
	"github.com/NethermindEth/juno/core/trie2"
	"verif/harness/lib"
)

// RangeClaim is what a range proof asserts about the trie with the given root: the entries with
// First <= key <= last(Keys) are exactly Keys/Values (Keys empty: there is no entry >= First;
// NoProof: Keys/Values are all entries of the trie).
type RangeClaim struct {
	Impl    string   `json:"impl"`
	Kind    string   `json:"kind"`
	Trie    []KV     `json:"trie"`
	Root    string   `json:"root"`
	First   string   `json:"first_bits"`
	Keys    []string `json:"keys_bits"`
	Values  []string `json:"values"`
	NoProof bool     `json:"no_proof"`
	Proof   Proof    `json:"proof"`
}

func feltPtrs(bits []string, isBits bool) []*felt.Felt {
	out := make([]*felt.Felt, len(bits))
	for i, b := range bits {
		var f felt.Felt
		if isBits {
			f = bitsToFelt(b)
		} else {
			f = hexFelt(b)
		}
		out[i] = &f
	}
	return out
}

// realVerifyRange runs VerifyRangeProof of the implementation; class "ok" | "err" | "panic" | "hang".
func realVerifyRange(c *RangeClaim) (more bool, class, msg string) {
	root := hexFelt(c.Root)
	first := bitsToFelt(c.First)
	keys, values := feltPtrs(c.Keys, true), feltPtrs(c.Values, false)
	var err error
	var panicked bool
	finished := lib.WithDeadline(verifyDeadline, func() {
		var perr error
		perr, panicked, _ = lib.Try(func() error {
			if c.Impl == "legacy" {
				var ps *trie.ProofNodeSet
				if !c.NoProof {
					ps = toLegacy(c.Proof)
				}
				more, err = trie.VerifyRangeProof(&root, &first, keys, values, ps)
			} else {
				var ps *trie2.ProofNodeSet
				if !c.NoProof {
					ps = toTrie2(c.Proof)
				}
				more, err = trie2.VerifyRangeProof(&root, &first, keys, values, ps)
			}
			return nil
		})
		if panicked {
			msg = perr.Error()
		}
	})
	switch {
	case !finished:
		return false, "hang", ""
	case panicked:
		return false, "panic", msg
	case err != nil:
		return false, "err", err.Error()
	}
	return more, "ok", ""
}

// claimTruth decides the claim against the key/value set: is it true, and are there entries
// beyond the last key.
func claimTruth(c *RangeClaim) (isTrue, more bool) {
	sorted := append([]KV(nil), c.Trie...)
	sort.Slice(sorted, func(i, j int) bool { return sorted[i].K < sorted[j].K })
	if len(c.Keys) != len(c.Values) {
		return false, false
	}
	for _, v := range c.Values {
		if v == "0" {
			return false, false
		}
	}
	var want []KV
	switch {
	case c.NoProof:
		want = sorted
	case len(c.Keys) == 0:
		for _, kv := range sorted {
			if kv.K >= c.First {
				return false, false
			}
		}
		return true, false
	default:
		last := c.Keys[len(c.Keys)-1]
		for _, kv := range sorted {
			if kv.K >= c.First && kv.K <= last {
				want = append(want, kv)
			}
			if kv.K > last {
				more = true
			}
		}
	}
	if len(want) != len(c.Keys) {
		return false, false
	}
	for i := range want {
		if want[i].K != c.Keys[i] || want[i].V != c.Values[i] {
			return false, false
		}
	}
	return true, more
}

func bitsAdd(bits string, d int64) (string, bool) {
	n := bitsToBig(bits)
	n.Add(n, big.NewInt(d))
	if n.Sign() < 0 || n.BitLen() > len(bits) {
		return "", false
	}
	return fmt.Sprintf("%0*s", len(bits), n.Text(2)), true
}

func (c *ctx) rangeSection(r *lib.RNG) {
	res := c.res
	nTries := c.f.Scale(60, 600)
	for ti := 0; ti < nTries; ti++ {
		rr := r.Fork(uint64(ti))
		impl := []string{"legacy", "trie2"}[ti%2]
		n := 1 + rr.Intn(12)
		spec := TrieSpec{Impl: impl, Hash: "ped", Height: 251}
		for _, k := range genKeys(rr, 251, n) {
			spec.KVs = append(spec.KVs, KV{K: k, V: genValue(rr)})
		}
		sort.Slice(spec.KVs, func(i, j int) bool { return spec.KVs[i].K < spec.KVs[j].K })
		bt, err := buildTrie(&spec)
		if err != nil {
			res.Note("range: build: %v", err)
			continue
		}
		rootHex := fhex(&bt.root)
		kvs := spec.KVs
		mkClaim := func(kind, first string, lo, hi int, proof Proof) *RangeClaim {
			cl := &RangeClaim{Impl: impl, Kind: kind, Trie: kvs, Root: rootHex, First: first, Proof: proof}
			for i := lo; i <= hi; i++ {
				cl.Keys = append(cl.Keys, kvs[i].K)
				cl.Values = append(cl.Values, kvs[i].V)
			}
			return cl
		}
		eval := func(cl *RangeClaim) {
			isTrue, moreTruth := claimTruth(cl)
			more, class, msg := realVerifyRange(cl)
			res.Case(fmt.Sprintf("range/%d/%s/%s/%v", ti, cl.Kind, cl.First, cl.Keys), true)
			res.Hit("range:" + impl + ":" + cl.Kind + ":" + class)
			honest := strings.HasPrefix(cl.Kind, "honest")
			switch {
			case class == "panic" || class == "hang":
				// one signature per panic site, whatever the claim was (honest or altered)
				site := "other"
				if strings.Contains(msg, "invalid node") {
					site = "unsetInternal-invalid-node"
				}
				if class == "hang" {
					site = "hang"
				}
				res.Hit("range:" + impl + ":panic-on-" + cl.Kind)
				res.Violate(lib.Violation{Sig: impl + ":range:panic:" + site,
					What: fmt.Sprintf("%s.VerifyRangeProof %ss (claim: %s): %s", impl, class, cl.Kind, msg), Replay: cl})
			case honest && class != "ok":
				res.Violate(lib.Violation{Sig: impl + ":range:" + cl.Kind + ":rejected",
					What: fmt.Sprintf("%s.VerifyRangeProof rejects the range proof returned by GetRangeProof for a true claim (%s): %s", impl, cl.Kind, msg), Replay: cl})
			case class == "ok" && !isTrue:
				res.Violate(lib.Violation{Sig: impl + ":range:" + cl.Kind + ":false-claim-accepted",
					What: fmt.Sprintf("%s.VerifyRangeProof accepts a range claim the trie does not satisfy (%s)", impl, cl.Kind), Replay: cl})
			case class == "ok" && more != moreTruth:
				res.Violate(lib.Violation{Sig: impl + ":range:" + cl.Kind + ":has-more-wrong",
					What: fmt.Sprintf("%s.VerifyRangeProof reports more=%v, the trie has more=%v (%s)", impl, more, moreTruth, cl.Kind), Replay: cl})
			}
		}
		rp := func(l, rk string) Proof {
			p, err := bt.rangeProof(l, rk)
			if err != nil {
				res.Note("range: GetRangeProof: %v", err)
			}
			return p
		}
		// 1. the whole trie, no proof
		all := mkClaim("honest-all-no-proof", kvs[0].K, 0, len(kvs)-1, nil)
		all.NoProof = true
		eval(all)
		// 2. ranges lo..hi
		for t := 0; t < 4; t++ {
			lo := rr.Intn(len(kvs))
			hi := lo + rr.Intn(len(kvs)-lo)
			first := kvs[lo].K
			kind := "honest-range"
			if rr.Chance(1, 3) { // a first key that is not in the trie but selects the same entries
				if f, ok := bitsAdd(first, -1); ok && (lo == 0 || f > kvs[lo-1].K) {
					first, kind = f, "honest-range-absent-first"
				}
			}
			if lo == hi && first == kvs[lo].K {
				kind = "honest-single-element"
			}
			proof := rp(first, kvs[hi].K)
			hc := mkClaim(kind, first, lo, hi, proof)
			eval(hc)
			// false claims with the honest proof
			tamp := func(kind string, f func(cl *RangeClaim)) {
				cl := mkClaim(kind, first, lo, hi, proof)
				f(cl)
				if ok, _ := claimTruth(cl); ok {
					return // the alteration produced another true claim
				}
				eval(cl)
			}
			vi := lo + rr.Intn(hi-lo+1)
			tamp("value-changed", func(cl *RangeClaim) { cl.Values[vi-lo] = bumpHex(cl.Values[vi-lo]) })
			if hi-lo >= 2 {
				di := 1 + rr.Intn(hi-lo-1)
				tamp("inner-element-dropped", func(cl *RangeClaim) {
					cl.Keys = append(cl.Keys[:di:di], cl.Keys[di+1:]...)
					cl.Values = append(cl.Values[:di:di], cl.Values[di+1:]...)
				})
			}
			if hi > lo {
				// the first key is in the trie and is left out of the keys; a separate class when its
				// leaf hangs directly under a binary node (its sibling key is in the trie too)
				fk := "first-element-dropped"
				if first == kvs[lo].K && spec.truth(flipBit(first, 250)) != "0" {
					fk = "first-element-dropped-leaf-under-binary-node"
				}
				tamp(fk, func(cl *RangeClaim) { cl.Keys, cl.Values = cl.Keys[1:], cl.Values[1:] })
				tamp("last-element-dropped-proof-kept", func(cl *RangeClaim) {
					cl.Keys, cl.Values = cl.Keys[:len(cl.Keys)-1], cl.Values[:len(cl.Values)-1]
				})
			}
			tamp("key-changed", func(cl *RangeClaim) {
				if k, ok := bitsAdd(cl.Keys[vi-lo], 1); ok && (vi == len(kvs)-1 || k < kvs[vi+1].K) {
					cl.Keys[vi-lo] = k
				}
			})
			tamp("element-inserted", func(cl *RangeClaim) {
				if k, ok := bitsAdd(cl.Keys[vi-lo], 1); ok && (vi == len(kvs)-1 || k < kvs[vi+1].K) {
					at := vi - lo + 1
					cl.Keys = append(cl.Keys[:at:at], append([]string{k}, cl.Keys[at:]...)...)
					cl.Values = append(cl.Values[:at:at], append([]string{"5"}, cl.Values[at:]...)...)
				}
			})
			if hi < len(kvs)-1 {
				tamp("element-appended-beyond-proof", func(cl *RangeClaim) {
					if k, ok := bitsAdd(kvs[hi].K, 1); ok && k < kvs[hi+1].K {
						cl.Keys = append(cl.Keys, k)
						cl.Values = append(cl.Values, "5")
					}
				})
			}
		}
		// 3. empty range right of everything (true), and an empty-range claim left of existing entries (false)
		if last := kvs[len(kvs)-1].K; last != strings.Repeat("1", 251) {
			first, _ := bitsAdd(last, 1)
			eval(&RangeClaim{Impl: impl, Kind: "honest-empty-range", Trie: kvs, Root: rootHex, First: first, Proof: rp(first, first)})
		}
		if f, ok := bitsAdd(kvs[rr.Intn(len(kvs))].K, -1); ok && spec.truth(f) == "0" {
			eval(&RangeClaim{Impl: impl, Kind: "empty-range-claimed-left-of-entries", Trie: kvs, Root: rootHex, First: f, Proof: rp(f, f)})
		}
		// 4. forged node sets: nothing in them is tied to the root
		{
			key := randBits(rr, 251)
			if rr.Bool() {
				key = kvs[rr.Intn(len(kvs))].K
			}
			forgedV := "3e7"
			if spec.truth(key) != forgedV {
				cl := &RangeClaim{Impl: impl, Kind: "single-element-forged-node-under-root-hash", Trie: kvs, Root: rootHex, First: key,
					Keys: []string{key}, Values: []string{forgedV},
					Proof: Proof{{Kind: "E", Key: rootHex, Path: key, C: Child{T: "v", F: forgedV}}}}
				eval(cl)
			}
			// "nothing at or right of first": a single leaf edge left of first, stored under the root hash
			if first := kvs[0].K; first != strings.Repeat("0", 251) {
				cl := &RangeClaim{Impl: impl, Kind: "empty-range-forged-node-under-root-hash", Trie: kvs, Root: rootHex, First: first,
					Proof: Proof{{Kind: "E", Key: rootHex, Path: strings.Repeat("0", 251), C: Child{T: "v", F: "1"}}}}
				eval(cl)
			}
		}
	}
}
