//go:build verif

package main

import (
	"fmt"
	"math/big"
	"sort"
	"strings"
	"sync"
	"time"

	"github.com/NethermindEth/juno/core/felt"
	"github.com/NethermindEth/juno/core/trie"
	"github.com/NethermindEth/juno/core/trie2"
	"verif/harness/lib"
)

// RangeClaim is what a range proof asserts about the trie with the given root: the entries with
// First <= key <= last(Keys) are exactly Keys/Values (Keys empty: there is no entry >= First;
// NoProof: Keys/Values are all entries of the trie).
type RangeClaim struct {
	Impl    string   `json:"impl"`
	Kind    string   `json:"kind"`
	Trie    []KV     `json:"trie"`
	Root    string   `json:"root"`
	First   string   `json:"first_bits"`
	Keys    []string `json:"keys_bits"`
	Values  []string `json:"values"`
	NoProof bool     `json:"no_proof"`
	Proof   Proof    `json:"proof"`
	// keys offered as the felt 2^251 + <bits> (no trie holds such a key; SetFelt(251, ·) / FeltToPath keep
	// the low 251 bits)
	FirstPlus bool   `json:"first_plus_2_251,omitempty"`
	KeyPlus   []bool `json:"keys_plus_2_251,omitempty"`
}

func (c *RangeClaim) anyPlus() bool {
	for _, p := range c.KeyPlus {
		if p {
			return true
		}
	}
	return false
}

func (c *RangeClaim) keyPlus(i int) bool { return i < len(c.KeyPlus) && c.KeyPlus[i] }

// keyTok renders a key for the driver: `<bits>` or `+<bits>`
func plusTok(bits string, plus bool) string {
	if plus {
		return "+" + bits
	}
	return bits
}

func feltPtrs(bits []string, isBits bool) []*felt.Felt {
	out := make([]*felt.Felt, len(bits))
	for i, b := range bits {
		var f felt.Felt
		if isBits {
			f = bitsToFelt(b)
		} else {
			f = hexFelt(b)
		}
		out[i] = &f
	}
	return out
}

// realVerifyRange runs VerifyRangeProof of the implementation; class "ok" | "err" | "panic" | "hang".
func realVerifyRange(c *RangeClaim) (more bool, class, msg string) {
	root := hexFelt(c.Root)
	first := bitsToFelt(c.First)
	if c.FirstPlus {
		first.Add(&first, &twoPow251)
	}
	type outcome struct {
		more     bool
		err      error
		panicked bool
		msg      string
	}
	call := func() outcome {
		var o outcome
		keys, values := feltPtrs(c.Keys, true), feltPtrs(c.Values, false)
		for i := range keys {
			if c.keyPlus(i) {
				keys[i].Add(keys[i], &twoPow251)
			}
		}
		perr, panicked, _ := lib.Try(func() error {
			if c.Impl == "legacy" {
				var ps *trie.ProofNodeSet
				if !c.NoProof {
					ps = toLegacy(c.Proof)
				}
				o.more, o.err = trie.VerifyRangeProof(&root, &first, keys, values, ps)
			} else {
				var ps *trie2.ProofNodeSet
				if !c.NoProof {
					ps = toTrie2(c.Proof)
				}
				o.more, o.err = trie2.VerifyRangeProof(&root, &first, keys, values, ps)
			}
			return nil
		})
		if panicked {
			o.panicked, o.msg = true, perr.Error()
		}
		return o
	}
	for _, d := range []time.Duration{verifyDeadline, 2 * verifyDeadline} {
		ch := make(chan outcome, 1)
		if lib.WithDeadline(d, func() { ch <- call() }) {
			o := <-ch
			switch {
			case o.panicked:
				return false, "panic", o.msg
			case o.err != nil:
				return false, "err", o.err.Error()
			}
			return o.more, "ok", ""
		}
	}
	return false, "hang", ""
}

// claimTruth decides the claim against the key/value set: is it true, and are there entries
// beyond the last key.
func claimTruth(c *RangeClaim) (isTrue, more bool) {
	sorted := append([]KV(nil), c.Trie...)
	sort.Slice(sorted, func(i, j int) bool { return sorted[i].K < sorted[j].K })
	if len(c.Keys) != len(c.Values) {
		return false, false
	}
	// a listed key of 2^251 or more is in no trie; a first key of 2^251 or more bounds an interval that is
	// empty (true for the empty list: no entry is at or right of it) and below no listed key
	if c.anyPlus() || (c.FirstPlus && len(c.Keys) > 0) {
		return false, false
	}
	if c.FirstPlus {
		return true, false
	}
	for _, v := range c.Values {
		if v == "0" {
			return false, false
		}
	}
	switch {
	case c.NoProof:
		if len(sorted) != len(c.Keys) {
			return false, false
		}
		for i := range sorted {
			if sorted[i].K != c.Keys[i] || sorted[i].V != c.Values[i] {
				return false, false
			}
		}
		return true, false
	case len(c.Keys) == 0:
		for _, kv := range sorted {
			if kv.K >= c.First {
				return false, false
			}
		}
		return true, false
	default:
		last := c.Keys[len(c.Keys)-1]
		// every listed entry is an entry of the trie (entries left of first are not forbidden,
		// they just have to be genuine), strictly increasing
		inTrie := map[string]string{}
		for _, kv := range sorted {
			inTrie[kv.K] = kv.V
		}
		// keys non-decreasing; of a repeated key the LAST value is what the list says
		listed := map[string]bool{}
		for i, k := range c.Keys {
			if i > 0 && c.Keys[i-1] > k {
				return false, false
			}
			if (i+1 == len(c.Keys) || c.Keys[i+1] != k) && inTrie[k] != c.Values[i] {
				return false, false
			}
			listed[k] = true
		}
		// and nothing between first and last is left out
		for _, kv := range sorted {
			if kv.K >= c.First && kv.K <= last && !listed[kv.K] {
				return false, false
			}
			if kv.K > last {
				more = true
			}
		}
		return true, more
	}
}

func bitsAdd(bits string, d int64) (string, bool) {
	n := bitsToBig(bits)
	n.Add(n, big.NewInt(d))
	if n.Sign() < 0 || n.BitLen() > len(bits) {
		return "", false
	}
	return fmt.Sprintf("%0*s", len(bits), n.Text(2)), true
}

func (c *ctx) rangeSection(r *lib.RNG, out chan<- batch) {
	res := c.res
	rcfg := c.probeRangeCfg()
	res.SetExtra("trie2_range_verifier_variant", map[string]any{"retrieve_checks_node_hash": rcfg[0] == '1',
		"value_node_ends_walk_early": rcfg[1] == '1', "hash_child_at_consumed_key_is_the_leaf": rcfg[2] == '1',
		"zero_root_is_the_empty_trie": rcfg[3] == '1', "boundary_leaf_under_binary_node_is_unset": rcfg[4] == '1'})
	if rcfg != "10111" {
		res.Violate(lib.Violation{Sig: "range-verifier-variant-is-not-the-repaired-one:trie2=" + rcfg,
			What: "the probes of trie2.VerifyRangeProof find variant " + rcfg + " (digits: node hashes checked, value node ends the walk early, hash child at a consumed key is the leaf, " +
				"zero root = empty trie, boundary leaf under a binary node unset); the repaired code (997852f) is 10111: a fix has been undone",
			Replay: map[string]any{"section": "probe", "trie2_range": rcfg}})
	}
	// the empty trie: root 0, GetRangeProof returns the empty node set; "no entry at or right of first" is true
	for _, impl := range []string{"legacy", "trie2"} {
		spec := TrieSpec{Impl: impl, Hash: "ped", Height: 251}
		if bt, err := buildTrie(&spec); err == nil {
			first := randBits(r, 251)
			if p, err := bt.rangeProof(first, first); err == nil {
				var pending batch
				c.evalRange(&RangeClaim{Impl: impl, Kind: "honest-empty-range-of-empty-trie", Trie: nil, Root: fhex(&bt.root), First: first, Proof: append(Proof{}, p...)},
					&pending, rcfg, "empty-"+impl)
				if len(pending.checks) > 0 {
					out <- pending
				}
			}
		}
	}
	nTries := c.f.Scale(60, 600)
	var wg sync.WaitGroup
	sem := make(chan struct{}, 16)
	defer wg.Wait()
	for ti := 0; ti < nTries; ti++ {
		ti := ti
		rr := r.Fork(uint64(ti))
		wg.Add(1)
		sem <- struct{}{}
		go func() {
			defer func() { <-sem; wg.Done() }()
			c.rangeTrie(ti, rr, rcfg, out)
		}()
	}
}

// rangeTrie: the range claims on one random trie.
func (c *ctx) rangeTrie(ti int, rr *lib.RNG, rcfg string, out chan<- batch) {
	res := c.res
	{
		impl := []string{"legacy", "trie2"}[ti%2]
		n := 1 + rr.Intn(12)
		spec := TrieSpec{Impl: impl, Hash: "ped", Height: 251}
		keys := genKeys(rr, 251, n)
		if ti%3 == 2 {
			// keys below 2^195: key + 2^251 is then still a felt (the field prime is 2^251 + 17*2^192 + 1)
			keys = genKeys(rr, 195, n)
			for i := range keys {
				keys[i] = strings.Repeat("0", 56) + keys[i]
			}
		}
		for _, k := range keys {
			spec.KVs = append(spec.KVs, KV{K: k, V: genValue(rr)})
		}
		sort.Slice(spec.KVs, func(i, j int) bool { return spec.KVs[i].K < spec.KVs[j].K })
		bt, err := buildTrie(&spec)
		if err != nil {
			res.Fatalf("range: build: %v", err)
			return
		}
		rootHex := fhex(&bt.root)
		kvs := spec.KVs
		var pending batch
		eval := func(cl *RangeClaim) { c.evalRange(cl, &pending, rcfg, fmt.Sprint(ti)) }
		mkClaim := func(kind, first string, lo, hi int, proof Proof) *RangeClaim {
			cl := &RangeClaim{Impl: impl, Kind: kind, Trie: kvs, Root: rootHex, First: first, Proof: proof}
			for i := lo; i <= hi; i++ {
				cl.Keys = append(cl.Keys, kvs[i].K)
				cl.Values = append(cl.Values, kvs[i].V)
			}
			return cl
		}
		_, trieFacts := refRootFacts(hashFnOf("ped"), kvs, true)
		rp := func(l, rk string) Proof {
			p, err := bt.rangeProof(l, rk)
			if err != nil {
				res.Fatalf("range: GetRangeProof: %v", err)
			}
			// GetRangeProof against the model (`rangeProve`): the same nodes in the same order
			var sb strings.Builder
			sb.WriteString("pr " + map[bool]string{true: "1", false: "0"}[impl == "legacy"] + " 251 " + l + " " + rk)
			for _, kv := range kvs {
				sb.WriteString(" " + kv.K + "=" + kv.V)
			}
			sb.WriteString(" |")
			for _, f := range trieFacts {
				sb.WriteString(" " + f)
			}
			var norm func(string) string
			if impl == "legacy" {
				norm = func(m string) string { return strings.ReplaceAll(m, ":v", ":h") }
			}
			pc := p.clone()
			pending.checks = append(pending.checks, check{norm: norm, line: sb.String(), impl: "root " + rootHex + pc.canon(false),
				sig: impl + ":get-range-proof", replay: func() any {
					return map[string]any{"section": "range", "impl": impl, "trie": kvs, "left": l, "right": rk, "proof": pc}
				}})
			res.Hit("range-proof-correspondence:" + impl)
			return p
		}
		// 1. the whole trie, no proof
		all := mkClaim("honest-all-no-proof", kvs[0].K, 0, len(kvs)-1, nil)
		all.NoProof = true
		eval(all)
		if len(kvs) >= 2 {
			bad := mkClaim("no-proof-element-dropped", kvs[0].K, 0, len(kvs)-1, nil)
			bad.NoProof = true
			di := rr.Intn(len(kvs))
			bad.Keys = append(bad.Keys[:di:di], bad.Keys[di+1:]...)
			bad.Values = append(bad.Values[:di:di], bad.Values[di+1:]...)
			eval(bad)
		}
		{
			bad := mkClaim("no-proof-value-changed", kvs[0].K, 0, len(kvs)-1, nil)
			bad.NoProof = true
			vi := rr.Intn(len(kvs))
			bad.Values[vi] = bumpHex(bad.Values[vi])
			eval(bad)
		}
		// 2. ranges lo..hi
		for t := 0; t < 4; t++ {
			lo := rr.Intn(len(kvs))
			hi := lo + rr.Intn(len(kvs)-lo)
			first := kvs[lo].K
			kind := "honest-range"
			if rr.Chance(1, 3) { // a first key that is not in the trie but selects the same entries
				if f, ok := bitsAdd(first, -1); ok && (lo == 0 || f > kvs[lo-1].K) {
					first, kind = f, "honest-range-absent-first"
				}
			}
			if lo == hi && first == kvs[lo].K {
				kind = "honest-single-element"
			}
			proof := rp(first, kvs[hi].K)
			hc := mkClaim(kind, first, lo, hi, proof)
			eval(hc)
			// false claims with the honest proof
			tamp := func(kind string, f func(cl *RangeClaim)) {
				cl := mkClaim(kind, first, lo, hi, proof)
				f(cl)
				if ok, _ := claimTruth(cl); ok {
					return // the alteration produced another true claim
				}
				eval(cl)
			}
			// TRUE claims with an altered node set: the list is right, so acceptance is no violation;
			// the verifier must not panic, `more` must stay right, and the model must give the same
			// verdict (proofToPath / resolvePT on bad nodes in the two-path case). trie2 only: the
			// legacy verifier's `more` flag is wrong on honest sets already (known finding)
			if impl == "trie2" && len(proof) > 1 && !(lo == hi && first == kvs[lo].K) {
				ni := rr.Intn(len(proof))
				dropped := append(proof[:ni:ni].clone(), proof[ni+1:]...)
				eval(mkClaim("true-claim-proof-node-dropped", first, lo, hi, dropped))
				alt := proof.clone()
				switch n := &alt[ni]; {
				case n.Kind == "E":
					n.C.F = bumpHex(n.C.F)
				case rr.Bool():
					n.L.F = bumpHex(n.L.F)
				default:
					n.R.F = bumpHex(n.R.F)
				}
				eval(mkClaim("true-claim-proof-node-child-altered", first, lo, hi, alt))
				if alt2 := proof.clone(); alt2[ni].Kind == "E" && len(alt2[ni].Path) > 0 {
					pb := []byte(alt2[ni].Path)
					pb[len(pb)-1] ^= 1
					alt2[ni].Path = string(pb)
					eval(mkClaim("true-claim-proof-node-path-altered", first, lo, hi, alt2))
				}
			}
			// the cases of verifyProofData's preamble
			if hi > lo {
				tamp("keys-unsorted", func(cl *RangeClaim) {
					cl.Keys[0], cl.Keys[1] = cl.Keys[1], cl.Keys[0]
					cl.Values[0], cl.Values[1] = cl.Values[1], cl.Values[0]
				})
				tamp("first-not-below-last", func(cl *RangeClaim) { cl.First = cl.Keys[len(cl.Keys)-1] })
			}
			tamp("zero-value", func(cl *RangeClaim) { cl.Values[rr.Intn(len(cl.Values))] = "0" })
			{
				// a key listed twice: with the same value (a true claim) and with a wrong value first (the last one counts)
				di := rr.Intn(hi - lo + 1)
				for _, firstVal := range []string{"", "5"} {
					cl := mkClaim("duplicate-key", first, lo, hi, proof)
					v := cl.Values[di]
					if firstVal != "" {
						v = firstVal
					}
					cl.Keys = append(cl.Keys[:di:di], append([]string{cl.Keys[di]}, cl.Keys[di:]...)...)
					cl.Values = append(cl.Values[:di:di], append([]string{v}, cl.Values[di:]...)...)
					eval(cl)
				}
			}
			vi := lo + rr.Intn(hi-lo+1)
			tamp("value-changed", func(cl *RangeClaim) { cl.Values[vi-lo] = bumpHex(cl.Values[vi-lo]) })
			if hi-lo >= 2 {
				di := 1 + rr.Intn(hi-lo-1)
				tamp("inner-element-dropped", func(cl *RangeClaim) {
					cl.Keys = append(cl.Keys[:di:di], cl.Keys[di+1:]...)
					cl.Values = append(cl.Values[:di:di], cl.Values[di+1:]...)
				})
			}
			if hi > lo {
				// the first key is in the trie and is left out of the keys; a separate class when its
				// leaf hangs directly under a binary node (its sibling key is in the trie too)
				fk := "first-element-dropped"
				if first == kvs[lo].K && spec.truth(flipBit(first, 250)) != "0" {
					fk = "first-element-dropped-leaf-under-binary-node"
				}
				tamp(fk, func(cl *RangeClaim) { cl.Keys, cl.Values = cl.Keys[1:], cl.Values[1:] })
				tamp("last-element-dropped-proof-kept", func(cl *RangeClaim) {
					cl.Keys, cl.Values = cl.Keys[:len(cl.Keys)-1], cl.Values[:len(cl.Values)-1]
				})
			}
			tamp("key-changed", func(cl *RangeClaim) {
				if k, ok := bitsAdd(cl.Keys[vi-lo], 1); ok && (vi == len(kvs)-1 || k < kvs[vi+1].K) {
					cl.Keys[vi-lo] = k
				}
			})
			tamp("element-inserted", func(cl *RangeClaim) {
				if k, ok := bitsAdd(cl.Keys[vi-lo], 1); ok && (vi == len(kvs)-1 || k < kvs[vi+1].K) {
					at := vi - lo + 1
					cl.Keys = append(cl.Keys[:at:at], append([]string{k}, cl.Keys[at:]...)...)
					cl.Values = append(cl.Values[:at:at], append([]string{"5"}, cl.Values[at:]...)...)
				}
			})
			if hi < len(kvs)-1 {
				tamp("element-appended-beyond-proof", func(cl *RangeClaim) {
					if k, ok := bitsAdd(kvs[hi].K, 1); ok && k < kvs[hi+1].K {
						cl.Keys = append(cl.Keys, k)
						cl.Values = append(cl.Values, "5")
					}
				})
			}
		}
		// 3. empty range right of everything (true), and an empty-range claim left of existing entries (false)
		if last := kvs[len(kvs)-1].K; last != strings.Repeat("1", 251) {
			first, _ := bitsAdd(last, 1)
			eval(&RangeClaim{Impl: impl, Kind: "honest-empty-range", Trie: kvs, Root: rootHex, First: first, Proof: rp(first, first)})
		}
		if f, ok := bitsAdd(kvs[rr.Intn(len(kvs))].K, -1); ok && spec.truth(f) == "0" {
			pf := rp(f, f)
			eval(&RangeClaim{Impl: impl, Kind: "empty-range-claimed-left-of-entries:first-" + divergenceShape(pf, rootHex, f), Trie: kvs, Root: rootHex, First: f, Proof: pf})
		}
		// 3a. keys offered as felts of 2^251 or more (the low 251 bits are those of genuine keys): no trie holds
		// such a key, so every claim that lists one is false; a first key of 2^251 or more with an empty list is
		// true (nothing is at or right of it)
		if plusOK(kvs[len(kvs)-1].K) { // then every key of the trie is small enough
			i := rr.Intn(len(kvs))
			k := kvs[i].K
			single := rp(k, k)
			eval(&RangeClaim{Impl: impl, Kind: "single-element-key-plus-2^251", Trie: kvs, Root: rootHex, First: k, FirstPlus: true,
				Keys: []string{k}, KeyPlus: []bool{true}, Values: []string{kvs[i].V}, Proof: single})
			eval(&RangeClaim{Impl: impl, Kind: "single-element-key-plus-2^251-first-plain", Trie: kvs, Root: rootHex, First: k,
				Keys: []string{k}, KeyPlus: []bool{true}, Values: []string{kvs[i].V}, Proof: single})
			if first, ok := bitsAdd(kvs[len(kvs)-1].K, 1); ok && plusOK(first) {
				eval(&RangeClaim{Impl: impl, Kind: "empty-range-first-plus-2^251", Trie: kvs, Root: rootHex, First: first, FirstPlus: true, Proof: rp(first, first)})
			}
			if len(kvs) >= 2 {
				lo := rr.Intn(len(kvs) - 1)
				hi := lo + 1 + rr.Intn(len(kvs)-lo-1)
				cl := mkClaim("last-key-plus-2^251", kvs[lo].K, lo, hi, rp(kvs[lo].K, kvs[hi].K))
				cl.KeyPlus = make([]bool, len(cl.Keys))
				cl.KeyPlus[len(cl.Keys)-1] = true
				eval(cl)
				all := mkClaim("no-proof-key-plus-2^251", kvs[0].K, 0, len(kvs)-1, nil)
				all.NoProof = true
				all.KeyPlus = make([]bool, len(all.Keys))
				all.KeyPlus[len(all.Keys)-1] = true
				eval(all)
				// [k_j, k_i + 2^251] with k_i < k_j: the felts increase, the paths decrease. Pairs of neighbours
				// that are alone below their fork point first (there nothing else is unset and re-inserting
				// the two gives the root back), then an arbitrary pair
				var pairs [][2]int
				for j := 1; j < len(kvs); j++ {
					d := commonPrefixLen(kvs[j-1].K, kvs[j].K)
					alone := (j < 2 || commonPrefixLen(kvs[j-2].K, kvs[j].K) < d) && (j+1 >= len(kvs) || commonPrefixLen(kvs[j-1].K, kvs[j+1].K) < d)
					if alone {
						pairs = append(pairs, [2]int{j - 1, j})
					}
				}
				if len(pairs) > 0 {
					pr := lib.Pick(rr, pairs)
					eval(&RangeClaim{Impl: impl, Kind: "keys-wrap-2^251", Trie: kvs, Root: rootHex, First: kvs[pr[1]].K,
						Keys: []string{kvs[pr[1]].K, kvs[pr[0]].K}, KeyPlus: []bool{false, true}, Values: []string{kvs[pr[1]].V, kvs[pr[0]].V},
						Proof: rp(kvs[pr[0]].K, kvs[pr[1]].K)})
				}
				a := rr.Intn(len(kvs) - 1)
				b := a + 1 + rr.Intn(len(kvs)-a-1)
				eval(&RangeClaim{Impl: impl, Kind: "keys-wrap-2^251", Trie: kvs, Root: rootHex, First: kvs[b].K,
					Keys: []string{kvs[b].K, kvs[a].K}, KeyPlus: []bool{false, true}, Values: []string{kvs[b].V, kvs[a].V},
					Proof: rp(kvs[a].K, kvs[b].K)})
			}
		}
		// 3b. single-element claim "key holds <hash of an inner node>": the honest proof of a present key
		// with the on-path child of the root node re-typed as a value node (all hashes stay right)
		{
			key := kvs[rr.Intn(len(kvs))].K
			if p := rp(key, key); len(p) >= 2 {
				q := p.clone()
				for i := range q {
					q[i].Cache = ""
				}
				n := q[0]
				var inner string
				switch {
				case n.Kind == "E" && len(n.Path) < 251:
					n.C, inner = Child{T: "v", F: n.C.F}, n.C.F
				case n.Kind == "B":
					if key[0] == '1' {
						n.R, inner = Child{T: "v", F: n.R.F}, n.R.F
					} else {
						n.L, inner = Child{T: "v", F: n.L.F}, n.L.F
					}
				}
				if inner != "" && n.Key == rootHex {
					q[0] = n
					eval(&RangeClaim{Impl: impl, Kind: "single-element-inner-hash-as-value-child-retyped", Trie: kvs, Root: rootHex, First: key,
						Keys: []string{key}, Values: []string{inner}, Proof: q})
				}
			}
		}
		// 4. forged node sets: nothing in them is tied to the root
		{
			key := randBits(rr, 251)
			if rr.Bool() {
				key = kvs[rr.Intn(len(kvs))].K
			}
			forgedV := "3e7"
			if spec.truth(key) != forgedV {
				cl := &RangeClaim{Impl: impl, Kind: "single-element-forged-node-under-root-hash", Trie: kvs, Root: rootHex, First: key,
					Keys: []string{key}, Values: []string{forgedV},
					Proof: Proof{{Kind: "E", Key: rootHex, Path: key, C: Child{T: "v", F: forgedV}}}}
				eval(cl)
			}
			// "nothing at or right of first": a single leaf edge left of first, stored under the root hash
			if first := kvs[0].K; first != strings.Repeat("0", 251) {
				cl := &RangeClaim{Impl: impl, Kind: "empty-range-forged-node-under-root-hash", Trie: kvs, Root: rootHex, First: first,
					Proof: Proof{{Kind: "E", Key: rootHex, Path: strings.Repeat("0", 251), C: Child{T: "v", F: "1"}}}}
				eval(cl)
			}
		}
		// 5. trie2: the leaf value is itself the hash of a node that is in the set, and the leaf is
		// offered as a hash child: the walk must stop at the consumed key
		if impl == "trie2" {
			if cl := leafIsNodeHashClaim(rr); cl != nil {
				eval(cl)
			}
		}
		if len(pending.checks) > 0 {
			out <- pending
		}
	}
}

// evalRange runs one range claim on the real code, judges it against the key/value set and, for
// the two cases the Lean model covers, queues the correspondence check.
func (c *ctx) evalRange(cl *RangeClaim, pending *batch, rcfg, id string) {
	res := c.res
	impl := cl.Impl

	isTrue, moreTruth := claimTruth(cl)
	more, class, msg := realVerifyRange(cl)
	res.Case("range/"+id+"/"+cl.Kind+"/"+cl.First+"/"+strings.Join(cl.Keys, ","), true)
	res.Hit("range:" + impl + ":" + cl.Kind + ":" + class)
	implAns := class
	if class == "ok" {
		implAns = "ok 0"
		if more {
			implAns = "ok 1"
		}
	}
	plus := cl.FirstPlus || cl.anyPlus()
	// the whole exported function in the model (`verifyRange`): the preamble, the choice of the case and the
	// conversion of the keys are the model's, not the harness'
	r2f := func(withFacts bool) string {
		var sb strings.Builder
		sb.WriteString("r2f " + rcfg + " " + c.rangeCk + " " + cl.Root + " " + plusTok(cl.First, cl.FirstPlus))
		if cl.NoProof {
			sb.WriteString(" noproof")
		} else {
			sb.WriteString(" proof")
		}
		for i := range cl.Keys {
			sb.WriteString(" " + plusTok(cl.Keys[i], cl.keyPlus(i)) + "=" + cl.Values[i])
		}
		sb.WriteString(" |")
		if !cl.NoProof {
			sb.WriteString(cl.Proof.toks(hashFnOf("ped")))
		}
		sb.WriteString(" |")
		if withFacts {
			_, facts := refRootFacts(hashFnOf("ped"), cl.Trie, true)
			for _, f := range facts {
				sb.WriteString(" " + f)
			}
		}
		return sb.String()
	}
	wellFormed := len(cl.Keys) == len(cl.Values)
	singleShape := !cl.NoProof && len(cl.Keys) == 1 && cl.First == cl.Keys[0] && cl.FirstPlus == cl.keyPlus(0)
	multiShape := !cl.NoProof && len(cl.Keys) >= 1 && !singleShape
	// /repo as it is (no key range check): in the general case a key of 2^251 or more gives the code two
	// paths that are not increasing — outside the domain of the model's `fill` (the code panics or rebuilds
	// with left > right); there the oracle alone decides
	outsideModel := multiShape && plus && c.rangeCk == "0" && cl.Kind != "last-key-plus-2^251"
	if impl == "trie2" && wellFormed && !multiShape {
		// the empty range, the single element, the no-proof case
		cc := cl
		fam := "trie2:range-model:"
		if cl.NoProof {
			fam = "trie2:range-model:all:"
		}
		pending.checks = append(pending.checks, check{line: r2f(cl.NoProof), impl: implAns, sig: fam + cl.Kind, replay: func() any { return cc }})
		res.Hit("range-model:" + strings.TrimPrefix(fam, "trie2:range-model:") + cl.Kind)
	}
	if impl == "trie2" && wellFormed && multiShape && !outsideModel {
		// the dispatch and the preamble of the general case: every claim with a key of 2^251 or more, every
		// claim about the preamble, and the honest claims of the random section
		switch {
		case plus, cl.Kind == "keys-unsorted", cl.Kind == "first-not-below-last", cl.Kind == "zero-value", cl.Kind == "duplicate-key",
			honestKind(cl.Kind) && !strings.HasPrefix(id, "s"):
			cc := cl
			pending.checks = append(pending.checks, check{line: r2f(true), impl: implAns, sig: "trie2:range-model:whole:" + cl.Kind, replay: func() any { return cc }})
			res.Hit("range-model:whole:" + cl.Kind)
		}
	}
	if impl == "trie2" && wellFormed && multiShape && !plus {
		// the general case (two edge paths) against the Lean model; the as-is code misbehaves on node
		// sets with a shared node object (known finding), the model has no aliasing: skipped there
		if rcfg[0] == '0' && proofSharesNode(cl.Proof) {
			res.Hit("range-model:multi-skipped-shared-node")
		} else if !c.f.Thorough() && !strings.HasPrefix(cl.Kind, "honest") && strings.HasPrefix(id, "s") && fnv32(cl.Kind+cl.First+strings.Join(cl.Keys, ","))%4 != 0 {
			// quick tier: every honest claim of the exhaustive section goes to the model, one in four altered ones
			res.Hit("range-model:multi-not-sampled")
		} else {
			var sb strings.Builder
			sb.WriteString("r2 " + rcfg + " multi " + cl.Root + " " + cl.First)
			for i := range cl.Keys {
				sb.WriteString(" " + cl.Keys[i] + "=" + cl.Values[i])
			}
			sb.WriteString(" |" + cl.Proof.toks(hashFnOf("ped")) + " |")
			_, facts := refRootFacts(hashFnOf("ped"), cl.Trie, true)
			for _, f := range facts {
				sb.WriteString(" " + f)
			}
			// the hash evaluations of the REBUILT trie (which is not the true trie when the claim is
			// altered): asked from the model round by round and evaluated with the real hash, so that
			// the model's verdict comes from `fill`, not from a missing table entry
			if honestKind(cl.Kind) || fnv32(sb.String())%uint32(c.f.Scale(4, 2)) == 0 {
				if extra, ok := c.neededFacts(sb.String()); ok {
					sb.WriteString(extra)
				}
				res.Hit("range-model:multi-with-hashes-of-the-rebuilt-trie")
			}
			cc := cl
			pending.checks = append(pending.checks, check{line: sb.String(), impl: implAns, sig: "trie2:range-model:multi:" + cl.Kind, replay: func() any { return cc }})
			res.Hit("range-model:multi:" + cl.Kind)
		}
	}
	if impl == "legacy" && !isTrue && (class == "ok" || class == "err") {
		c.legacyMu.Lock()
		st := c.legacyFalse[cl.Kind]
		st[1]++
		if class == "ok" {
			st[0]++
		}
		c.legacyFalse[cl.Kind] = st
		c.legacyMu.Unlock()
	}
	honest := strings.HasPrefix(cl.Kind, "honest")
	// attribution to the cause: when two places of the trie hold identical subtrees the node set has
	// ONE node object for both; trie2 links that object under both parents and then mutates it
	// (unsetInternal), which shows as a panic, a rejected honest proof or an accepted gap
	sigKind := cl.Kind
	if impl == "trie2" && proofSharesNode(cl.Proof) && !strings.HasSuffix(cl.Kind, "value-equals-node-hash") {
		sigKind = "identical-subtrees-share-one-node-object"
	}
	switch {
	case class == "panic" || class == "hang":
		// one signature per panic site, whatever the claim was (honest or altered)
		site := "other"
		if strings.Contains(msg, "invalid node") {
			site = "unsetInternal-invalid-node"
		}
		if class == "hang" {
			site = "hang"
		}
		res.Hit("range:" + impl + ":panic-on-" + cl.Kind)
		if sigKind != cl.Kind {
			site = sigKind
		}
		if plus {
			site = "key-plus-2^251"
		}
		res.Violate(lib.Violation{Sig: impl + ":range:panic:" + site,
			What: fmt.Sprintf("%s.VerifyRangeProof %ss (claim: %s): %s", impl, class, cl.Kind, msg), Replay: cl})
	case honest && class != "ok":
		res.Violate(lib.Violation{Sig: impl + ":range:" + sigKind + ":rejected",
			What: fmt.Sprintf("%s.VerifyRangeProof rejects the range proof returned by GetRangeProof for a true claim (%s): %s", impl, cl.Kind, msg), Replay: cl})
	case class == "ok" && !isTrue:
		res.Violate(lib.Violation{Sig: impl + ":range:" + sigKind + ":false-claim-accepted",
			What: fmt.Sprintf("%s.VerifyRangeProof accepts a range claim the trie does not satisfy (%s)", impl, cl.Kind), Replay: cl})
	case class == "ok" && more != moreTruth:
		res.Violate(lib.Violation{Sig: impl + ":range:" + sigKind + ":has-more-wrong",
			What: fmt.Sprintf("%s.VerifyRangeProof reports more=%v, the trie has more=%v (%s)", impl, more, moreTruth, cl.Kind), Replay: cl})
	}
}

// plusOK: key + 2^251 is still a felt (the field prime is 2^251 + 17*2^192 + 1): keys below 2^195
func plusOK(bits string) bool { return strings.HasPrefix(bits, strings.Repeat("0", 56)) }

func commonPrefixLen(a, b string) int {
	n := 0
	for n < len(a) && n < len(b) && a[n] == b[n] {
		n++
	}
	return n
}

func honestKind(k string) bool { return strings.HasPrefix(k, "honest") }

func fnv32(s string) uint32 {
	h := uint32(2166136261)
	for i := 0; i < len(s); i++ {
		h = (h ^ uint32(s[i])) * 16777619
	}
	return h
}

// neededFacts asks the model which hash evaluations the rebuilt trie of a `r2 … multi` request still
// lacks, evaluates them with the real Pedersen hash and repeats until nothing is missing.
func (c *ctx) neededFacts(r2line string) (string, bool) {
	drv := <-c.syncDrv
	defer func() { c.syncDrv <- drv }()
	if drv == nil {
		return "", false
	}
	need := "r2need" + strings.TrimPrefix(r2line, "r2")
	var extra strings.Builder
	hf := hashFnOf("ped")
	for round := 0; round < 600; round++ {
		ans, err := drv.Ask(need + extra.String())
		if err != nil {
			c.res.Fatalf("range: the driver died in r2need: %v", err)
			return extra.String(), false
		}
		if ans == "none" {
			c.res.HitN("range-model:r2need-rounds", round)
			return extra.String(), true
		}
		if !strings.HasPrefix(ans, "need ") {
			c.res.Fatalf("range: r2need answers %.100q", ans)
			return extra.String(), false
		}
		for _, tok := range strings.Fields(ans)[1:] {
			ab := strings.Split(tok, ":")
			if len(ab) != 2 || len(ab[0]) > 64 || len(ab[1]) > 64 {
				continue // an argument outside the field (the model's "no value"): nothing to evaluate
			}
			an, ok1 := new(big.Int).SetString(ab[0], 16)
			bn, ok2 := new(big.Int).SetString(ab[1], 16)
			if !ok1 || !ok2 || an.Cmp(feltP) >= 0 || bn.Cmp(feltP) >= 0 {
				continue
			}
			a, b := hexFelt(ab[0]), hexFelt(ab[1])
			h := hf(&a, &b)
			extra.WriteString(" " + fhex(&a) + ":" + fhex(&b) + ":" + fhex(&h))
		}
	}
	c.res.Fatalf("range: r2need does not converge")
	return extra.String(), false
}

// proofSharesNode: some node of the set is referenced from two places (identical subtrees).
func proofSharesNode(p Proof) bool {
	keys := map[string]bool{}
	for i := range p {
		keys[p[i].Key] = true
	}
	refs := map[string]int{}
	for i := range p {
		for _, ch := range children(&p[i]) {
			if ch.tag() == 'h' && keys[ch.F] {
				refs[ch.F]++
				if refs[ch.F] > 1 {
					return true
				}
			}
		}
	}
	return false
}

// The legacy trie's VerifyRangeProof accepts a FRACTION of some kinds of false claims (known findings, by
// kind). A known signature must not absorb a regression that accepts many more: per kind the accepted
// fraction observed on the unchanged tree is bounded (with slack); above the bound it is another signature.
var legacyAcceptedBound = map[string]float64{
	"value-changed": 0.08, "key-changed": 0.15, "element-inserted": 0.12, "element-appended-beyond-proof": 0.25,
	"zero-value": 0.0, "keys-unsorted": 0.0, "no-proof-element-dropped": 0.0, "no-proof-value-changed": 0.0,
}

func (c *ctx) legacyFractionCheck() {
	c.legacyMu.Lock()
	defer c.legacyMu.Unlock()
	for kind, st := range c.legacyFalse {
		bound, ok := legacyAcceptedBound[kind]
		c.res.SetExtra("legacy_range_false_claims_accepted:"+kind, fmt.Sprintf("%d of %d", st[0], st[1]))
		if !ok || st[1] < 30 {
			continue
		}
		if frac := float64(st[0]) / float64(st[1]); frac > bound {
			c.res.Violate(lib.Violation{Sig: "legacy:range:" + kind + ":accepted-fraction-above-known-bound",
				What:   fmt.Sprintf("legacy VerifyRangeProof accepts %d of %d false claims of kind %s (known: at most %.0f%%)", st[0], st[1], kind, bound*100),
				Replay: map[string]any{"kind": kind, "accepted": st[0], "total": st[1]}})
		}
	}
}

// leafIsNodeHashClaim builds a trie2 trie in which one key holds x = hash of the node
// N = Edge(path "1", Value(7)), takes the honest proof of that key, re-types the leaf child as a hash
// node, adds N under x and claims the key holds 7.
func leafIsNodeHashClaim(rr *lib.RNG) *RangeClaim {
	hf := hashFnOf("ped")
	n := PNode{Kind: "E", Path: "1", C: Child{T: "v", F: "7"}}
	x := n.nodeHash(hf)
	n.Key = fhex(&x)
	spec := TrieSpec{Impl: "trie2", Hash: "ped", Height: 251}
	for _, k := range genKeys(rr, 251, 2+rr.Intn(5)) {
		spec.KVs = append(spec.KVs, KV{K: k, V: genValue(rr)})
	}
	sort.Slice(spec.KVs, func(i, j int) bool { return spec.KVs[i].K < spec.KVs[j].K })
	victim := rr.Intn(len(spec.KVs))
	spec.KVs[victim].V = n.Key
	bt, err := buildTrie(&spec)
	if err != nil {
		return nil
	}
	key := spec.KVs[victim].K
	p, err := bt.rangeProof(key, key)
	if err != nil || len(p) == 0 {
		return nil
	}
	q := p.clone()
	for i := range q {
		q[i].Cache = ""
	}
	// the node whose child is the leaf: the one holding a value child with the leaf's felt
	found := false
	for i := range q {
		for _, ch := range children(&q[i]) {
			if ch.tag() == 'v' && ch.F == n.Key {
				ch.T = "h"
				found = true
			}
		}
	}
	if !found {
		return nil
	}
	q = append(q, n)
	return &RangeClaim{Impl: "trie2", Kind: "single-element-leaf-value-is-a-node-hash", Trie: spec.KVs, Root: fhex(&bt.root), First: key,
		Keys: []string{key}, Values: []string{"7"}, Proof: q}
}

// probeRangeKeyCheck: does trie2.VerifyRangeProof refuse a key of 2^251 or more ("1"), or does it verify the
// low 251 bits instead ("0": the honest single-element proof of k is accepted for the felt k + 2^251)
func (c *ctx) probeRangeKeyCheck() string {
	spec := TrieSpec{Impl: "trie2", Hash: "ped", Height: 251, KVs: []KV{
		{K: strings.Repeat("0", 251), V: "2"}, {K: strings.Repeat("0", 250) + "1", V: "3"}, {K: "1" + strings.Repeat("0", 250), V: "5"}}}
	bt, err := buildTrie(&spec)
	if err != nil {
		c.res.Fatalf("range probe: %v", err)
		return "0"
	}
	key := spec.KVs[1].K
	p, err := bt.rangeProof(key, key)
	if err != nil {
		c.res.Fatalf("range probe: %v", err)
		return "0"
	}
	_, class, _ := realVerifyRange(&RangeClaim{Impl: "trie2", Root: fhex(&bt.root), First: key, FirstPlus: true,
		Keys: []string{key}, KeyPlus: []bool{true}, Values: []string{"3"}, Proof: p})
	ck := "1"
	if class == "ok" {
		ck = "0"
	}
	c.res.SetExtra("trie2_range_refuses_keys_above_2_251", ck == "1")
	return ck
}

// probeRangeCfg finds out which variant of trie2.VerifyRangeProof's path resolution the tree under test
// contains (model RCfg): "<checkHash><earlyValue><leafHash>".
func (c *ctx) probeRangeCfg() string {
	rr := lib.NewRNG(12345)
	b := func(x bool) string {
		if x {
			return "1"
		}
		return "0"
	}
	spec := TrieSpec{Impl: "trie2", Hash: "ped", Height: 251, KVs: []KV{
		{K: strings.Repeat("0", 251), V: "2"}, {K: strings.Repeat("0", 250) + "1", V: "3"}, {K: "1" + strings.Repeat("0", 250), V: "5"}}}
	bt, err := buildTrie(&spec)
	if err != nil {
		c.res.Fatalf("range probe: %v", err)
		return "01000"
	}
	rootHex := fhex(&bt.root)
	key := spec.KVs[0].K
	accepted := func(cl *RangeClaim) bool { _, class, _ := realVerifyRange(cl); return class == "ok" }
	// (1) a node that does not hash to the root stored under the root hash
	forged := accepted(&RangeClaim{Impl: "trie2", Root: rootHex, First: key, Keys: []string{key}, Values: []string{"3e7"},
		Proof: Proof{{Kind: "E", Key: rootHex, Path: key, C: Child{T: "v", F: "3e7"}}}})
	// (2) the on-path child of the root node re-typed as a value node, its hash claimed as the value
	early := false
	if p, err := bt.rangeProof(key, key); err == nil && len(p) >= 2 && p[0].Kind == "B" {
		q := p.clone()
		for i := range q {
			q[i].Cache = ""
		}
		inner := q[0].L.F
		q[0].L = Child{T: "v", F: inner}
		early = accepted(&RangeClaim{Impl: "trie2", Root: rootHex, First: key, Keys: []string{key}, Values: []string{inner}, Proof: q})
	}
	// (3) leaf value = hash of a node in the set, leaf offered as a hash child
	leafWalk := false
	for i := 0; i < 5 && !leafWalk; i++ {
		if cl := leafIsNodeHashClaim(rr); cl != nil {
			leafWalk = accepted(cl)
			if !leafWalk {
				break
			}
		}
	}
	// (4) the empty trie: root 0, empty node set, "nothing at or right of first"
	zero := accepted(&RangeClaim{Impl: "trie2", Root: "0", First: key, Proof: Proof{}})
	// (5) first = the left one of two sibling leaves, left out of the keys
	gap := accepted(&RangeClaim{Impl: "trie2", Root: rootHex, First: spec.KVs[0].K, Keys: []string{spec.KVs[1].K}, Values: []string{spec.KVs[1].V},
		Proof: func() Proof { p, _ := bt.rangeProof(spec.KVs[0].K, spec.KVs[1].K); return p }()})
	return b(!forged) + b(early) + b(!leafWalk) + b(zero) + b(!gap)
}
