//go:build verif

package main

import (
	"fmt"
	"math/big"
	"sort"
	"strings"

	"github.com/NethermindEth/juno/core/crypto"
	"github.com/NethermindEth/juno/core/felt"
	"github.com/NethermindEth/juno/core/trie"
	"github.com/NethermindEth/juno/core/trie2"
	"github.com/NethermindEth/juno/core/trie2/triedb/rawdb"
	"github.com/NethermindEth/juno/core/trie2/trienode"
	"github.com/NethermindEth/juno/core/trie2/trieutils"
	"github.com/NethermindEth/juno/db/memory"
	"verif/harness/lib"
)

// KV is one entry of a trie: key as a bit string of the trie height, value as hex.
type KV struct {
	K string `json:"k"`
	V string `json:"v"`
}

// TrieSpec describes a trie to build with the real code.
type TrieSpec struct {
	Impl   string `json:"impl"` // legacy | trie2 | trie2db (committed to rawdb and reopened)
	Hash   string `json:"hash"` // ped | pos
	Height int    `json:"height"`
	KVs    []KV   `json:"kvs"`
	// History != 0: the trie is not built by inserting KVs once but through a history that ends in the
	// same key/value set: other values first, extra keys inserted and deleted again, a commit / rehash in
	// the middle (trie2db: commit, reopen, and for even seeds the second half stays uncommitted on top)
	History uint64 `json:"history,omitempty"`
}

// history returns the two phases of writes (value "0" = delete) that end in s.KVs.
func (s *TrieSpec) history() (phase1, phase2 []KV) {
	if s.History == 0 {
		return nil, s.KVs
	}
	r := lib.NewRNG(s.History)
	// a third of the final entries is written in the first phase with another value (overwritten later), a
	// third with its final value and NOT touched again (so that part of the trie keeps the hashes cached by
	// the commit / rehash in the middle while keys next to it are deleted and inserted), a third only in the
	// second phase
	settled := map[string]bool{}
	var settledKeys []string
	for _, kv := range s.KVs {
		switch r.Intn(4) {
		case 0:
			phase1 = append(phase1, KV{K: kv.K, V: genValue(r)}) // overwritten later
		case 1, 2:
			phase1 = append(phase1, kv)
			settled[kv.K] = true
			settledKeys = append(settledKeys, kv.K)
		}
	}
	var extras []string
	for i := 0; i < 1+r.Intn(4); i++ {
		k := randBits(r, s.Height)
		switch {
		case len(settledKeys) > 0 && r.Chance(1, 2): // next to a key that stays as it is
			k = divergingKey(r, lib.Pick(r, settledKeys), pickDepth(r, s.Height))
		case len(s.KVs) > 0 && r.Bool():
			k = divergingKey(r, lib.Pick(r, s.KVs).K, pickDepth(r, s.Height))
		}
		if s.truth(k) == "0" {
			extras = append(extras, k)
			phase1 = append(phase1, KV{K: k, V: genValue(r)})
		}
	}
	lib.Shuffle(r, phase1)
	for _, k := range extras {
		phase2 = append(phase2, KV{K: k, V: "0"})
	}
	for _, kv := range s.KVs {
		if !settled[kv.K] {
			phase2 = append(phase2, kv)
		}
	}
	lib.Shuffle(r, phase2)
	// a deleted extra that is re-deleted, a final value written twice
	if len(phase2) > 0 {
		phase2 = append(phase2, phase2[r.Intn(len(phase2))])
	}
	return phase1, phase2
}

func (s *TrieSpec) verifier() string {
	if s.Impl == "legacy" {
		return "legacy"
	}
	return "trie2"
}

func (s *TrieSpec) truth(keyBits string) string {
	for _, kv := range s.KVs {
		if kv.K == keyBits {
			return kv.V
		}
	}
	return "0"
}

// builtTrie is a real trie ready to prove.
type builtTrie struct {
	root  felt.Felt
	prove func(keyBits string) (Proof, error)
	// rangeProof returns the proof node set of GetRangeProof(left, right)
	rangeProof func(leftBits, rightBits string) (Proof, error)
	// proveMany calls Prove for every key, in order, on ONE node set that already holds `pre`
	proveMany func(pre Proof, keys []string) (Proof, error)
}

func buildTrie(s *TrieSpec) (bt *builtTrie, err error) {
	hf := hashFnOf(s.Hash)
	switch s.Impl {
	case "legacy":
		txn := memory.New().NewIndexedBatch()
		var t *trie.Trie
		if s.Hash == "pos" {
			t, err = trie.NewTriePoseidon(txn, []byte{0x7}, uint8(s.Height))
		} else {
			t, err = trie.NewTriePedersen(txn, []byte{0x7}, uint8(s.Height))
		}
		if err != nil {
			return nil, err
		}
		phase1, phase2 := s.history()
		for pi, phase := range [][]KV{phase1, phase2} {
			for _, kv := range phase {
				k, v := bitsToFelt(kv.K), hexFelt(kv.V)
				if _, err := t.Put(&k, &v); err != nil {
					return nil, err
				}
			}
			if pi == 0 && len(phase1) > 0 {
				if err := t.Commit(); err != nil {
					return nil, err
				}
			}
		}
		if err := t.Commit(); err != nil {
			return nil, err
		}
		root, err := t.Hash()
		if err != nil {
			return nil, err
		}
		return &builtTrie{
			root: root,
			prove: func(keyBits string) (Proof, error) {
				k := bitsToFelt(keyBits)
				ps := trie.NewProofNodeSet()
				if err := t.Prove(&k, ps); err != nil {
					return nil, err
				}
				return fromLegacy(ps), nil
			},
			rangeProof: func(l, r string) (Proof, error) {
				lk, rk := bitsToFelt(l), bitsToFelt(r)
				ps := trie.NewProofNodeSet()
				if err := t.GetRangeProof(&lk, &rk, ps); err != nil {
					return nil, err
				}
				return fromLegacy(ps), nil
			},
			proveMany: func(pre Proof, keys []string) (Proof, error) {
				ps := toLegacy(pre)
				for _, kb := range keys {
					k := bitsToFelt(kb)
					if err := t.Prove(&k, ps); err != nil {
						return nil, err
					}
				}
				return fromLegacy(ps), nil
			},
		}, nil
	case "trie2", "trie2db":
		var t *trie2.Trie
		if s.Impl == "trie2" {
			t = trie2.NewEmpty(uint8(s.Height), hf)
			phase1, phase2 := s.history()
			for pi, phase := range [][]KV{phase1, phase2} {
				for _, kv := range phase {
					k, v := bitsToFelt(kv.K), hexFelt(kv.V)
					if err := t.Update(&k, &v); err != nil {
						return nil, err
					}
				}
				if pi == 0 && len(phase1) > 0 {
					if _, err := t.Hash(); err != nil { // caches hashes that the second half invalidates
						return nil, err
					}
				}
			}
		} else {
			disk := memory.New()
			tdb := rawdb.New(disk)
			one := felt.StateRootHash(felt.FromUint64[felt.Felt](1))
			id := trieutils.NewContractTrieID(one)
			t0, err := trie2.New(id, uint8(s.Height), hf, tdb)
			if err != nil {
				return nil, err
			}
			commit := func(tt *trie2.Trie) (*trie2.Trie, error) {
				root, nodes := tt.Commit()
				if nodes != nil {
					batch := disk.NewBatch()
					r := felt.StateRootHash(root)
					if err := tdb.Update(&r, &r, 0, nil, trienode.NewMergeNodeSet(nodes), batch); err != nil {
						return nil, err
					}
					if err := batch.Write(); err != nil {
						return nil, err
					}
				}
				return trie2.New(id, uint8(s.Height), hf, tdb)
			}
			phase1, phase2 := s.history()
			t = t0
			for pi, phase := range [][]KV{phase1, phase2} {
				for _, kv := range phase {
					k, v := bitsToFelt(kv.K), hexFelt(kv.V)
					if err := t.Update(&k, &v); err != nil {
						return nil, err
					}
				}
				// commit + reopen after the first half; after the second half too, except for even history
				// seeds, where the second half stays as uncommitted updates on top of the db-backed trie
				if (pi == 0 && len(phase1) > 0) || (pi == 1 && (s.History == 0 || s.History%2 == 1)) {
					if t, err = commit(t); err != nil {
						return nil, err
					}
				}
			}
		}
		root, err := t.Hash()
		if err != nil {
			return nil, err
		}
		return &builtTrie{
			root: root,
			prove: func(keyBits string) (Proof, error) {
				k := bitsToFelt(keyBits)
				ps := trie2.NewProofNodeSet()
				if err := t.Prove(&k, ps); err != nil {
					return nil, err
				}
				return fromTrie2(ps), nil
			},
			rangeProof: func(l, r string) (Proof, error) {
				lk, rk := bitsToFelt(l), bitsToFelt(r)
				ps := trie2.NewProofNodeSet()
				if err := t.GetRangeProof(&lk, &rk, ps); err != nil {
					return nil, err
				}
				return fromTrie2(ps), nil
			},
			proveMany: func(pre Proof, keys []string) (Proof, error) {
				ps := toTrie2(pre)
				for _, kb := range keys {
					k := bitsToFelt(kb)
					if err := t.Prove(&k, ps); err != nil {
						return nil, err
					}
				}
				return fromTrie2(ps), nil
			},
		}, nil
	}
	return nil, fmt.Errorf("unknown impl %q", s.Impl)
}

// ---- reference root: the Starknet definition by recursion over the key set, with the real hash
// primitive (independent of both trie implementations) ---------------------------------------------

type refNode struct {
	hash felt.Felt // hash of the subtree as seen from the parent
}

// refRoot computes the root of the trie holding kvs (keys = bit strings of equal length, distinct,
// values nonzero), 0 for the empty set.
func refRoot(hf crypto.HashFn, kvs []KV) felt.Felt {
	root, _ := refRootFacts(hf, kvs, false)
	return root
}

// refRootFacts also returns every evaluation H(a,b)=h made on the way, as "a:b:h" tokens (the hash
// table the Lean driver needs to rebuild the same tree with real hashes).
func refRootFacts(hf crypto.HashFn, kvs []KV, record bool) (felt.Felt, []string) {
	if len(kvs) == 0 {
		return felt.Zero, nil
	}
	sorted := append([]KV(nil), kvs...)
	sort.Slice(sorted, func(i, j int) bool { return sorted[i].K < sorted[j].K })
	var facts []string
	h := hf
	if record {
		h = func(a, b *felt.Felt) felt.Felt {
			r := hf(a, b)
			facts = append(facts, fhex(a)+":"+fhex(b)+":"+fhex(&r))
			return r
		}
	}
	return refSub(h, sorted, 0), facts
}

func refSub(hf crypto.HashFn, kvs []KV, depth int) felt.Felt {
	height := len(kvs[0].K)
	if depth == height {
		return hexFelt(kvs[0].V)
	}
	// longest common prefix from depth
	first, last := kvs[0].K, kvs[len(kvs)-1].K
	l := depth
	for l < height && first[l] == last[l] {
		l++
	}
	if l > depth {
		child := refSub(hf, kvs, l)
		n := PNode{Kind: "E", C: mkChild('h', &child), Path: first[depth:l]}
		return n.nodeHash(hf)
	}
	split := sort.Search(len(kvs), func(i int) bool { return kvs[i].K[depth] == '1' })
	lh := refSub(hf, kvs[:split], depth+1)
	rh := refSub(hf, kvs[split:], depth+1)
	return hf(&lh, &rh)
}

// ---- generators --------------------------------------------------------------------------------

var feltP, _ = new(big.Int).SetString("800000000000011000000000000000000000000000000000000000000000001", 16)

func randFeltHex(r *lib.RNG) string {
	n := new(big.Int).SetBytes(r.Bytes(32))
	n.Mod(n, feltP)
	if n.Sign() == 0 {
		n.SetInt64(1)
	}
	return n.Text(16)
}

func genValue(r *lib.RNG) string {
	switch r.Intn(6) {
	case 0:
		return fmt.Sprintf("%x", 1+r.Intn(3))
	case 1:
		return new(big.Int).Sub(feltP, big.NewInt(int64(1+r.Intn(2)))).Text(16)
	default:
		return randFeltHex(r)
	}
}

func randBits(r *lib.RNG, n int) string {
	var sb strings.Builder
	for sb.Len() < n {
		w := r.Uint64()
		for i := 0; i < 64 && sb.Len() < n; i++ {
			sb.WriteByte('0' + byte(w&1))
			w >>= 1
		}
	}
	return sb.String()
}

func flipBit(bits string, i int) string {
	b := []byte(bits)
	b[i] ^= 1
	return string(b)
}

var interestingDepths = []int{0, 1, 2, 3, 62, 63, 64, 65, 123, 124, 125, 126, 127, 128, 186, 187, 188, 191, 192, 193, 247, 248, 249, 250}

func pickDepth(r *lib.RNG, height int) int {
	if height <= 16 || r.Chance(1, 4) {
		return r.Intn(height)
	}
	switch r.Intn(6) {
	case 0: // sibling leaves / divergence at the last bit
		return height - 1
	case 1: // the bottom byte
		return height - 1 - r.Intn(8)
	}
	for {
		d := lib.Pick(r, interestingDepths)
		if d < height {
			return d
		}
	}
}

// genKeys returns a set of distinct keys of the given height, shaped to produce every node
// arrangement: sibling leaves, long shared prefixes, splits at word boundaries, extremes.
func genKeys(r *lib.RNG, height, n int) []string {
	set := map[string]bool{}
	var keys []string
	add := func(k string) {
		if len(k) == height && !set[k] && len(keys) < n {
			set[k] = true
			keys = append(keys, k)
		}
	}
	limit := 1 << 30
	if height < 30 {
		limit = 1 << height
	}
	if n > limit {
		n = limit
	}
	guard := 0
	for len(keys) < n && guard < 10000 {
		guard++
		switch {
		case len(keys) == 0 || r.Chance(1, 4):
			switch r.Intn(5) {
			case 0:
				add(strings.Repeat("0", height))
			case 1:
				add(strings.Repeat("1", height))
			case 2: // small integer
				v := r.Intn(16)
				if height < 4 {
					v = r.Intn(1 << height)
				}
				add(fmt.Sprintf("%0*b", height, v))
			default:
				add(randBits(r, height))
			}
		default: // relative of an existing key: same prefix up to depth d, then differs
			base := lib.Pick(r, keys)
			d := pickDepth(r, height)
			k := flipBit(base, d)
			switch r.Intn(3) {
			case 0: // keep the tail
			case 1: // random tail
				k = k[:d+1] + randBits(r, height-d-1)
			default: // zero tail
				k = k[:d+1] + strings.Repeat("0", height-d-1)
			}
			add(k)
		}
	}
	return keys
}

// absentKeys: keys not in the trie that leave the path of a present key at every requested depth.
func divergingKey(r *lib.RNG, present string, d int) string {
	k := flipBit(present, d)
	if r.Bool() {
		k = k[:d+1] + randBits(r, len(k)-d-1)
	}
	return k
}
