//go:build verif

package main

import (
	"fmt"
	"runtime"
	"sort"
	"strings"
	"sync"

	"verif/harness/lib"
)

// Round 6 — SEVERAL KEYS PROVEN INTO ONE NODE SET, over tries that contain IDENTICAL SUBTREES reached through
// different edge paths.
//
// `Trie.Prove(key, set)` of both tries adds to the set it is handed; the RPC handlers prove every requested
// key of a mapping into one set and GetRangeProof both boundaries. A prover must not conclude anything from
// what the set already holds: a node whose binary part (legacy: the storage node's value) or whose hash is
// in the set can still need its own edge node — two identical subtrees (same relative keys, same values)
// under different prefixes have the same binary node and different edge nodes above it.
//
// Tries: keys = lead ++ prefix_i ++ suffix_j ++ tail with the same suffix pattern and the same values under
// every prefix (2..4 prefixes diverging at a chosen depth, the twin reached through edges of different or
// equal paths, or through no edge at all), optionally nested (the pattern is itself made of twins), one value
// changed in one copy (near twins: only the sub-subtrees coincide), the twins at the top / at word
// boundaries / at the very bottom of a 251-bit trie, small heights with the whole key space.
// For every trie and implementation: EVERY ordered pair and a sample of ordered triples of a pool of keys
// (present under each prefix, absent inside a twin, absent in the edge above a twin, unrelated) are proven
// into ONE set — empty, or already holding the proof of a key of ANOTHER trie that contains the same subtree —
// and then every key of the tuple must verify against the root to its value: with the real verifier (height
// 251), with the independent Lean verifiers, and the set must be node for node the model's `proveInto`.

type twinTrie struct {
	height int
	kvs    []KV
	cousin []KV // another trie holding the same subtree under other paths
	pool   []string
	shape  []string
	// copyOf: key -> index of the twin it lies under (-1: elsewhere)
	copyOf map[string]int
	// family: "" = twins; "value-equals-node-hash" = two sibling leaves hold the hashes of the two children of an
	// inner binary node, so the bottom node (value children) and the inner node (hash children) have ONE hash
	family string
}

// genValueIsHash: the owner of a storage trie chooses its values. Two sibling leaves Q0 -> a, Q1 -> b with
// a, b = the hashes of the two subtrees under an inner binary node at P: Binary(a, b) occurs twice, once with
// value children (bottom) and once with hash children (at P), under one hash. Proven into one set, the later
// Put replaces the earlier node.
func genValueIsHash(r *lib.RNG, hash string) *twinTrie {
	hf := hashFnOf(hash)
	tt := &twinTrie{height: 251, copyOf: map[string]int{}, family: "value-equals-node-hash"}
	d := lib.Pick(r, []int{1, 2, 3, 63, 64, 65, 128, 192, 240, 248, 249})
	p := randBits(r, d)
	var lkv, rkv []KV
	for i := 0; i < 1+r.Intn(2); i++ {
		lkv = append(lkv, KV{K: p + "0" + randBits(r, 250-d), V: genValue(r)})
	}
	for i := 0; i < 1+r.Intn(2); i++ {
		rkv = append(rkv, KV{K: p + "1" + randBits(r, 250-d), V: genValue(r)})
	}
	sort.Slice(lkv, func(i, j int) bool { return lkv[i].K < lkv[j].K })
	sort.Slice(rkv, func(i, j int) bool { return rkv[i].K < rkv[j].K })
	if (len(lkv) == 2 && lkv[0].K == lkv[1].K) || (len(rkv) == 2 && rkv[0].K == rkv[1].K) {
		lkv, rkv = lkv[:1], rkv[:1]
	}
	a, b := refSub(hf, lkv, d+1), refSub(hf, rkv, d+1)
	q := flipBit(p, 0)[:1] + randBits(r, 249)
	tt.kvs = append(append(append(tt.kvs, lkv...), rkv...), KV{K: q + "0", V: fhex(&a)}, KV{K: q + "1", V: fhex(&b)})
	tt.cousin = []KV{{K: q + "0", V: fhex(&a)}, {K: flipBit(q, 5) + "1", V: fhex(&b)}}
	tt.pool = []string{lkv[0].K, q + "0", rkv[0].K, q + "1", flipBit(lkv[0].K, 250)}
	tt.shape = []string{"value-equals-inner-node-hash"}
	return tt
}

func allBits(n int) []string {
	out := make([]string, 0, 1<<n)
	for v := 0; v < 1<<n; v++ {
		if n == 0 {
			out = append(out, "")
		} else {
			out = append(out, fmt.Sprintf("%0*b", n, v))
		}
	}
	return out
}

// twinPattern: the relative keys of the repeated subtree (length sl), possibly made of twins itself.
func twinPattern(r *lib.RNG, sl int, nested *bool) []string {
	if sl == 0 {
		return []string{""}
	}
	if sl >= 2 && r.Chance(1, 3) {
		ql := 1 + r.Intn(sl-1)
		qs := allBits(ql)
		lib.Shuffle(r, qs)
		inner := twinPattern(r, sl-ql, nested)
		var out []string
		for _, q := range qs[:2] {
			for _, s := range inner {
				out = append(out, q+s)
			}
		}
		*nested = true
		return out
	}
	all := allBits(sl)
	lib.Shuffle(r, all)
	n := 1 + r.Intn(len(all))
	if n < 2 && r.Chance(3, 4) {
		n = 2
	}
	return all[:n]
}

func genTwin(r *lib.RNG, height int) *twinTrie {
	tt := &twinTrie{height: height, copyOf: map[string]int{}}
	pl := 1 + r.Intn(4)
	sl := 1 + r.Intn(3)
	for pl+sl > height {
		if pl > 1 {
			pl--
		} else {
			sl--
		}
	}
	room := height - pl - sl
	lead := r.Intn(room + 1)
	if height == 251 {
		lead = lib.Pick(r, []int{0, 0, 1, 2, 3, 60, 61, 62, 63, 64, 120, 125, 126, 186, 190, 191, 240, room, room, room - 1, room - 2})
		if lead > room {
			lead = room
		}
	}
	tailLen := room - lead
	bitsOrZeros := func(n int) string {
		switch r.Intn(3) {
		case 0:
			return strings.Repeat("0", n)
		case 1:
			return strings.Repeat("1", n)
		}
		return randBits(r, n)
	}
	leadBits, tail := bitsOrZeros(lead), bitsOrZeros(tailLen)
	prefixes := allBits(pl)
	lib.Shuffle(r, prefixes)
	np := 2 + r.Intn(3)
	if np > len(prefixes) {
		np = len(prefixes)
	}
	prefixes = prefixes[:np]
	sort.Strings(prefixes)
	nested := false
	pattern := twinPattern(r, sl, &nested)
	sort.Strings(pattern)
	vals := map[string]string{}
	same := r.Chance(1, 5)
	v0 := genValue(r)
	for _, s := range pattern {
		vals[s] = genValue(r)
		if same {
			vals[s] = v0
		}
	}
	seen := map[string]bool{}
	for pi, p := range prefixes {
		for _, s := range pattern {
			k := leadBits + p + s + tail
			tt.kvs = append(tt.kvs, KV{K: k, V: vals[s]})
			tt.copyOf[k] = pi
			seen[k] = true
		}
	}
	tt.shape = append(tt.shape, fmt.Sprintf("twins=%d", np))
	switch {
	case tailLen == 0:
		tt.shape = append(tt.shape, "twins-at-the-bottom")
	case lead == 0:
		tt.shape = append(tt.shape, "twins-at-the-top")
	default:
		tt.shape = append(tt.shape, "twins-in-the-middle")
	}
	if nested {
		tt.shape = append(tt.shape, "nested-twins")
	}
	if pl == 1 {
		tt.shape = append(tt.shape, "twins-are-siblings-no-edge-above")
	}
	if len(pattern) == 1 {
		tt.shape = append(tt.shape, "twin-is-a-single-leaf")
	}
	if r.Chance(1, 4) && len(pattern) > 1 {
		// near twins: one value differs in one copy, the rest of the copies coincides
		i := r.Intn(len(tt.kvs))
		for nv := genValue(r); ; nv = genValue(r) {
			if nv != tt.kvs[i].V && nv != "0" {
				tt.kvs[i].V = nv
				break
			}
		}
		tt.shape = append(tt.shape, "one-value-differs-in-one-copy")
	}
	if r.Bool() {
		for i := 0; i < 1+r.Intn(2); i++ {
			k := randBits(r, height)
			if !seen[k] {
				seen[k] = true
				tt.kvs = append(tt.kvs, KV{K: k, V: genValue(r)})
				tt.copyOf[k] = -1
			}
		}
		tt.shape = append(tt.shape, "unrelated-keys-too")
	}
	// the cousin: the same subtree under the complement of the first prefix and under the last prefix
	comp := strings.Map(func(c rune) rune { return '0' + '1' - c }, prefixes[0])
	for _, p := range []string{comp, prefixes[len(prefixes)-1]} {
		for _, s := range pattern {
			k := leadBits + p + s + tail
			dup := false
			for _, kv := range tt.cousin {
				dup = dup || kv.K == k
			}
			if !dup {
				tt.cousin = append(tt.cousin, KV{K: k, V: vals[s]})
			}
		}
	}
	// the pool of keys to prove
	add := func(k string) {
		for _, q := range tt.pool {
			if q == k {
				return
			}
		}
		if len(k) == height && len(tt.pool) < 9 {
			tt.pool = append(tt.pool, k)
		}
	}
	if height <= 4 {
		tt.pool = allBits(height)
	} else {
		s0 := pattern[0]
		s1 := lib.Pick(r, pattern)
		for _, p := range prefixes { // the same relative key under every twin
			add(leadBits + p + s0 + tail)
		}
		add(leadBits + prefixes[len(prefixes)-1] + s1 + tail)
		add(leadBits + prefixes[0] + s1 + tail)
		for _, s := range allBits(sl) { // absent inside a twin
			if _, ok := vals[s]; !ok {
				add(leadBits + prefixes[0] + s + tail)
				add(leadBits + prefixes[len(prefixes)-1] + s + tail)
				break
			}
		}
		if tailLen > 0 { // leaves the trie inside the leaf edge of a twin
			add(leadBits + prefixes[len(prefixes)-1] + s0 + flipBit(tail, r.Intn(tailLen)))
		}
		// leaves the trie in the edge above a twin
		add(leadBits + flipBit(prefixes[0], pl-1) + s0 + tail)
		add(randBits(r, height))
		for _, kv := range tt.kvs {
			if tt.copyOf[kv.K] == -1 {
				add(kv.K)
			}
		}
	}
	return tt
}

type sharedJob struct {
	rcfg string
	id   int
	impl string
	hash string
	tt   *twinTrie
	rng  *lib.RNG
}

func (c *ctx) runSharedJob(j *sharedJob, out chan<- batch) {
	res := c.res
	tt := j.tt
	r := j.rng
	spec := &TrieSpec{Impl: j.impl, Hash: j.hash, Height: tt.height, KVs: tt.kvs}
	hf := hashFnOf(j.hash)
	bt, err := buildTrie(spec)
	if err != nil {
		res.Violate(lib.Violation{Sig: "build-trie-fails:" + j.impl, What: "building the trie fails: " + err.Error(), Replay: spec})
		return
	}
	if want := refRoot(hf, spec.KVs); !want.Equal(&bt.root) {
		res.Mismatch(lib.Mismatch{Sig: "root-differs-from-reference:" + j.impl, Input: spec, Model: fhex(&want), Impl: fhex(&bt.root)})
	}
	rootHex := fhex(&bt.root)
	verifier := spec.verifier()
	realOK := tt.height == 251
	for _, s := range tt.shape {
		res.Hit("shared-set:shape:" + s)
	}
	// what the set may hold before: the proof of a key of the cousin trie (same subtree, other paths)
	var pre Proof
	cspec := &TrieSpec{Impl: j.impl, Hash: j.hash, Height: tt.height, KVs: tt.cousin}
	if cbt, err := buildTrie(cspec); err != nil {
		res.Fatalf("shared-set: cousin trie: %v", err)
	} else if pre, err = cbt.prove(tt.cousin[0].K); err != nil {
		res.Fatalf("shared-set: cousin proof: %v", err)
	}
	for i := range pre {
		pre[i].Cache = ""
	}
	_, facts := refRootFacts(hf, spec.KVs, true)
	var tailSB strings.Builder
	for _, kv := range spec.KVs {
		tailSB.WriteString(" " + kv.K + "=" + kv.V)
	}
	tailSB.WriteString(" |")
	for _, f := range facts {
		tailSB.WriteString(" " + f)
	}
	tailSB.WriteString(" |")
	pmTail := tailSB.String()
	legacyFlag := "0"
	var norm func(string) string
	if j.impl == "legacy" {
		legacyFlag = "1"
		norm = func(m string) string { return strings.ReplaceAll(m, ":v", ":h") }
	}

	// the tuples: every ordered pair, a sample of ordered triples
	var tuples [][]string
	n := len(tt.pool)
	for a := 0; a < n; a++ {
		for b := 0; b < n; b++ {
			if a != b {
				tuples = append(tuples, []string{tt.pool[a], tt.pool[b]})
			}
		}
	}
	if len(tuples) > 90 { // small heights with the whole key space: a sample of the pairs
		lib.Shuffle(r, tuples)
		tuples = tuples[:90]
	}
	for i := 0; i < c.f.Scale(24, 200) && n >= 3; i++ {
		a, b, d := r.Intn(n), r.Intn(n), r.Intn(n)
		if a == b || b == d || a == d {
			continue
		}
		tuples = append(tuples, []string{tt.pool[a], tt.pool[b], tt.pool[d]})
	}
	var b batch
	for ti, tuple := range tuples {
		var before Proof
		if ti%5 == 4 {
			before = pre
			res.Hit("shared-set:set-holds-nodes-of-another-trie-before")
		}
		var p Proof
		err, _, _ := lib.Try(func() error {
			var e error
			p, e = bt.proveMany(before.clone(), tuple)
			return e
		})
		if err != nil {
			res.Violate(lib.Violation{Sig: "prove-fails:" + j.impl, What: "Prove into a shared set returns an error / panics: " + err.Error(),
				Replay: map[string]any{"trie": spec, "keys_proven_into_one_set": tuple, "set_content_before": before}})
			continue
		}
		tupleCopy := append([]string(nil), tuple...)
		mk := func(sig, k string) func() any {
			kf := bitsToFelt(k)
			return func() any {
				return verifyReplay{Section: "shared-set", Check: sig, Verifier: verifier, Hash: j.hash, Root: rootHex, Key: k, KeyFelt: "0x" + fhex(&kf),
					Proof: p, Truth: spec.truth(k), Tamper: "none", Node: -1, Honest: true, Trie: spec, Proven: tupleCopy, PreSet: before}
			}
		}
		// the set, node for node, against the model's proveInto
		b.checks = append(b.checks, check{norm: norm,
			line: "pm " + legacyFlag + " " + fmt.Sprint(tt.height) + " " + strings.Join(tuple, ",") + pmTail + before.toks(hf),
			impl: "root " + rootHex + p.canon(false), sig: j.impl + ":prove-into-shared-set", replay: mk(j.impl+":prove-into-shared-set", tuple[0])})
		res.Hit("shared-set:prove-correspondence:" + j.impl)
		copies := map[int]bool{}
		for _, k := range tuple {
			if ci, ok := tt.copyOf[k]; ok && ci >= 0 {
				copies[ci] = true
			}
		}
		if len(copies) >= 2 {
			res.Hit("shared-set:keys-under-different-twins-in-one-set:" + j.impl)
		}
		res.Hit(fmt.Sprintf("shared-set:tuple-of-%d:%s", len(tuple), j.impl))
		for _, key := range tuple {
			truth := spec.truth(key)
			sig := verifier + ":honest-shared-set"
			if tt.family != "" {
				sig += ":" + tt.family
			}
			hc := check{line: c.modelLine(verifier, rootHex, key, p, j.hash), truth: truth, honest: true, sig: sig, replay: mk(sig, key)}
			if realOK {
				hc.impl = realVerify(verifier, hf, &bt.root, key, p)
			}
			b.checks = append(b.checks, hc)
			if verifier == "trie2" && tt.family == "" {
				// (with a value that is a node hash the Go TYPE of a child decides for this verifier, which is
				// juno's own: the felts-only verifier below is the independent one there)
				b.checks = append(b.checks, check{line: "v2 00111 " + rootHex + " " + key + p.toks(hf), truth: truth, honest: true, independent: true,
					sig: sig, replay: mk(sig, key)})
			}
			b.checks = append(b.checks, check{line: "vL 00111 " + rootHex + " " + key + p.toks(hf), truth: truth, honest: true, independent: true,
				sig: sig, replay: mk(sig, key)})
			res.Case(fmt.Sprintf("shared/%d/%s/%d/%s", j.id, j.impl, ti, key), true)
			if truth != "0" {
				res.Hit("shared-set:key:present")
			} else {
				res.Hit("shared-set:key:absent")
			}
		}
		if len(b.checks) > 400 {
			out <- b
			b = batch{}
		}
	}
	// the same tries as range claims: GetRangeProof proves the two boundaries into one set
	if tt.family != "" && j.hash == "ped" && j.impl != "trie2db" {
		kvs := append([]KV(nil), tt.kvs...)
		sort.Slice(kvs, func(a, b int) bool { return kvs[a].K < kvs[b].K })
		for lo := 0; lo < len(kvs); lo++ {
			for hi := lo + 1; hi < len(kvs); hi++ {
				p, err := bt.rangeProof(kvs[lo].K, kvs[hi].K)
				if err != nil {
					res.Fatalf("shared-set: GetRangeProof: %v", err)
					continue
				}
				kind := "honest-range-" + tt.family
				if j.impl == "legacy" { // the legacy verifier's known `more` defect keeps its signature
					kind = "honest-range"
				}
				cl := &RangeClaim{Impl: j.impl, Kind: kind, Trie: kvs, Root: rootHex, First: kvs[lo].K, Proof: p}
				for i := lo; i <= hi; i++ {
					cl.Keys = append(cl.Keys, kvs[i].K)
					cl.Values = append(cl.Values, kvs[i].V)
				}
				c.evalRange(cl, &b, j.rcfg, fmt.Sprintf("shared%d", j.id))
				res.Hit("shared-set:range-claim:" + j.impl)
			}
		}
	}
	if len(b.checks) > 0 {
		out <- b
	}
}

func (c *ctx) sharedSection(r *lib.RNG, out chan<- batch) {
	var jobs []*sharedJob
	rcfg := c.probeRangeCfg()
	id := 0
	add := func(tt *twinTrie, hash string) {
		for _, impl := range trieImpls {
			id++
			jobs = append(jobs, &sharedJob{rcfg: rcfg, id: id, impl: impl, hash: hash, tt: tt, rng: r.Fork(uint64(id))})
		}
	}
	for i := 0; i < c.f.Scale(10, 120); i++ {
		hash := "ped"
		if i%5 == 4 {
			hash = "pos"
		}
		add(genTwin(r, 251), hash)
	}
	for i := 0; i < c.f.Scale(8, 80); i++ {
		add(genTwin(r, 3+i%6), "ped")
	}
	for i := 0; i < c.f.Scale(4, 40); i++ {
		hash := "ped"
		if i%4 == 3 {
			hash = "pos"
		}
		add(genValueIsHash(r, hash), hash)
	}
	workers := runtime.NumCPU()
	if workers > 16 {
		workers = 16
	}
	jc := make(chan *sharedJob)
	var wg sync.WaitGroup
	for w := 0; w < workers; w++ {
		wg.Add(1)
		go func() {
			defer wg.Done()
			for j := range jc {
				c.runSharedJob(j, out)
			}
		}()
	}
	for _, j := range jobs {
		jc <- j
	}
	close(jc)
	wg.Wait()
}
