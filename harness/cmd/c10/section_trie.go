//go:build verif

package main

import (
	"fmt"
	"math/big"
	"runtime"
	"strings"
	"sync"
	"sync/atomic"
	"time"

	"github.com/NethermindEth/juno/core/felt"

	"verif/harness/lib"
)

type trieJob struct {
	id      int
	spec    TrieSpec
	rng     *lib.RNG
	queries int  // number of absent keys to query in addition to the present ones
	tamper  bool // enumerate corruptions (height 251 only: the real verifiers fix the key length)
	allKeys bool // query every key of the key space (small heights)
	deep    bool // every path bit / every key bit in the corruption enumeration
}

func depthBucket(d, height int) string {
	switch {
	case d == 0:
		return "root"
	case d == height-1:
		return "last-bit"
	case d < 8:
		return "top"
	case d >= height-8:
		return "bottom"
	default:
		return "middle"
	}
}

// firstDivergence: depth at which key leaves the key set (length of the longest common prefix with
// any present key); height if the key is present.
func firstDivergence(spec *TrieSpec, key string) int {
	best := 0
	for _, kv := range spec.KVs {
		l := 0
		for l < len(key) && kv.K[l] == key[l] {
			l++
		}
		if l > best {
			best = l
		}
	}
	return best
}

func (c *ctx) runTrieJob(j *trieJob, out chan<- batch) {
	res := c.res
	spec := &j.spec
	r := j.rng
	hf := hashFnOf(spec.Hash)
	var bt *builtTrie
	err, panicked, _ := lib.Try(func() error {
		var e error
		bt, e = buildTrie(spec)
		return e
	})
	if err != nil {
		res.Violate(lib.Violation{Sig: "build-trie-fails:" + spec.Impl, What: fmt.Sprintf("building the trie fails (panic=%v): %v", panicked, err), Replay: spec})
		return
	}
	if spec.History != 0 {
		res.Hit("trie-built-through-a-history:" + spec.Impl)
	}
	if want := refRoot(hf, spec.KVs); !want.Equal(&bt.root) {
		res.Mismatch(lib.Mismatch{Sig: "root-differs-from-reference:" + spec.Impl, Input: spec, Model: fhex(&want), Impl: fhex(&bt.root)})
		// no return: the proofs of this trie are still produced and verified against the root the trie
		// reports, so that the property oracle decides (a proof that does not verify against the trie's own
		// root is a violation with a replay, not only a broken correspondence)
	}
	rootHex := fhex(&bt.root)
	// the key/value set and the hash table for the driver's `pv` (prover correspondence)
	var pvTail string
	if len(spec.KVs) <= 40 {
		_, facts := refRootFacts(hf, spec.KVs, true)
		var sb strings.Builder
		for _, kv := range spec.KVs {
			sb.WriteString(" " + kv.K + "=" + kv.V)
		}
		sb.WriteString(" |")
		for _, f := range facts {
			sb.WriteString(" " + f)
		}
		pvTail = sb.String()
	}
	verifier := spec.verifier()
	realOK := spec.Height == 251

	// the keys to query
	var keys []string
	if j.allKeys {
		for v := 0; v < 1<<spec.Height; v++ {
			keys = append(keys, fmt.Sprintf("%0*b", spec.Height, v))
		}
	} else {
		present := append([]KV(nil), spec.KVs...)
		lib.Shuffle(r, present)
		for i, kv := range present {
			if i >= 6 {
				break
			}
			keys = append(keys, kv.K)
		}
		for q := 0; q < j.queries; q++ {
			if len(spec.KVs) == 0 || r.Chance(1, 8) {
				keys = append(keys, randBits(r, spec.Height))
				continue
			}
			base := lib.Pick(r, spec.KVs).K
			keys = append(keys, divergingKey(r, base, pickDepth(r, spec.Height)))
		}
	}

	var b batch
	add := func(ch check) { b.checks = append(b.checks, ch) }
	for _, key := range keys {
		var p Proof
		err, _, _ := lib.Try(func() error {
			var e error
			p, e = bt.prove(key)
			return e
		})
		if err != nil {
			res.Violate(lib.Violation{Sig: "prove-fails:" + spec.Impl, What: "Prove returns an error / panics: " + err.Error(),
				Replay: map[string]any{"trie": spec, "key_bits": key}})
			continue
		}
		truth := spec.truth(key)
		div := firstDivergence(spec, key)
		mk := func(sig, tamper string, node int, root, k string, q Proof, honest bool) func() any {
			kf := bitsToFelt(k)
			return func() any {
				return verifyReplay{Section: "trie", Check: sig, Verifier: verifier, Hash: spec.Hash, Root: root, Key: k, KeyFelt: "0x" + fhex(&kf),
					Proof: q, Truth: spec.truth(k), Tamper: tamper, Node: node, Honest: honest, Trie: spec}
			}
		}
		// --- honest proof
		sig := verifier + ":honest"
		if len(spec.KVs) == 0 {
			sig = verifier + ":honest-empty-trie"
		}
		hc := check{line: c.modelLine(verifier, rootHex, key, p, spec.Hash), truth: truth, honest: true, sig: sig,
			replay: mk(sig, "none", -1, rootHex, key, p, true)}
		if realOK {
			hc.impl = realVerify(verifier, hf, &bt.root, key, p)
		}
		add(hc)
		if verifier == "trie2" {
			// the strict model verifier as the independent one, and the legacy-style verifier
			// (felts only) on the same node set
			add(check{line: "v2 00111 " + rootHex + " " + key + p.toks(hf), truth: truth, honest: true, independent: true,
				sig: sig, replay: mk(sig, "none", -1, rootHex, key, p, true)})
		}
		add(check{line: "vL 00111 " + rootHex + " " + key + p.toks(hf), truth: truth, honest: true, independent: true,
			sig: sig, replay: mk(sig, "none", -1, rootHex, key, p, true)})
		if pvTail != "" {
			// the model's prover on the rebuilt tree must return the same nodes in the same order
			legacyFlag, cachedFlag := "0", "0"
			if spec.Impl == "legacy" {
				legacyFlag = "1"
			}
			if spec.Impl == "trie2" {
				cachedFlag = "1"
			}
			var norm func(string) string
			if spec.Impl == "legacy" {
				norm = func(m string) string { return strings.ReplaceAll(m, ":v", ":h") }
			}
			add(check{norm: norm, line: "pv " + legacyFlag + " " + cachedFlag + " " + fmt.Sprint(spec.Height) + " " + key + pvTail,
				impl: "root " + rootHex + " get " + truth + p.canon(spec.Impl == "trie2"),
				sig:  spec.Impl + ":prove", replay: mk(spec.Impl+":prove", "none", -1, rootHex, key, p, true)})
			res.Hit("prove-correspondence:" + spec.Impl)
		}
		nontrivial := len(spec.KVs) > 0
		res.Case(fmt.Sprintf("%d/%s/honest", j.id, key), nontrivial)
		switch {
		case len(spec.KVs) == 0:
			res.Hit("honest:" + spec.Impl + ":empty-trie")
		case truth != "0":
			res.Hit("honest:" + spec.Impl + ":present")
		default:
			res.Hit("honest:" + spec.Impl + ":absent-diverges-at-" + depthBucket(div, spec.Height))
		}
		if spec.Height == 251 && len(spec.KVs) > 0 {
			// the real verifiers run only here: say which path shapes they saw
			switch {
			case truth != "0" && len(p) > 0 && p[len(p)-1].Kind == "B":
				res.Hit("h251:" + verifier + ":present-under-binary-leaf-parent-bit" + key[250:])
			case truth != "0":
				res.Hit("h251:" + verifier + ":present-under-edge")
			default:
				res.Hit("h251:" + verifier + ":absent-diverges-at-" + depthBucket(div, 251))
			}
		}
		res.Hit(fmt.Sprintf("proof-nodes:%s", sizeBucket(len(p))))
		if len(p) > 0 {
			lastN := p[len(p)-1]
			switch {
			case truth != "0" && lastN.Kind == "B":
				res.Hit("shape:present-under-binary-leaf-parent")
			case truth != "0":
				res.Hit("shape:present-under-edge")
			case lastN.Kind == "E":
				res.Hit("shape:absent-ends-at-edge")
			default:
				res.Hit("shape:absent-ends-at-binary")
			}
			if p[0].Kind == "B" {
				res.Hit("shape:root-binary")
			} else {
				res.Hit("shape:root-edge")
			}
		}
		res.Sample(6, map[string]any{"impl": spec.Impl, "height": spec.Height, "keys_in_trie": len(spec.KVs), "key": key,
			"value": truth, "proof_nodes": len(p), "real_verifier": hc.impl})
		if !j.tamper || !realOK {
			continue
		}
		// --- every corruption
		for _, t := range tampers(r, verifier == "trie2", hf, p, key, &bt.root, j.deep) {
			root := hexFelt(t.Root)
			tsig := verifier + ":" + tamperClass(t.Kind)
			thonest := strings.HasPrefix(t.Kind, "honest-")
			if thonest && len(spec.KVs) == 0 {
				tsig = verifier + ":honest-empty-trie"
			}
			tc := check{line: c.modelLine(verifier, t.Root, t.Key, t.Proof, spec.Hash), sig: tsig,
				replay: mk(tsig, t.Kind, t.Node, t.Root, t.Key, t.Proof, thonest)}
			switch {
			case t.KeyPlus:
				tc.line = c.modelLine(verifier, t.Root, "+"+t.Key, t.Proof, spec.Hash)
				orig := tc.replay
				tc.replay = func() any { v := orig().(verifyReplay); v.KeyPlus = true; return v }
				kf := bitsToFelt(t.Key)
				kf.Add(&kf, &twoPow251)
				tc.impl = realVerifyFelt(verifier, hf, &root, &kf, t.Proof, []time.Duration{verifyDeadline, 2 * verifyDeadline})
			case strings.HasSuffix(t.Kind, "-plain") && strings.HasPrefix(t.Kind, "embed-") && c.cfg2[3] == '0' &&
				embeddedWalkLoops(t.Proof, t.Root, t.Key):
				// the verifier of this tree does not return on this input: run it once per run (the call
				// is abandoned after the deadline and keeps a core busy), otherwise only count
				if atomic.AddInt32(&c.hangsRun, 1) <= 1 {
					kf := bitsToFelt(t.Key)
					tc.impl = realVerifyFelt(verifier, hf, &root, &kf, t.Proof, []time.Duration{10 * time.Second, 30 * time.Second})
				} else {
					tc.fuelOK = true
					res.Hit("tamper:trie2:embed-plain:predicted-hang-not-run")
				}
			default:
				tc.impl = realVerify(verifier, hf, &root, t.Key, t.Proof)
			}
			switch {
			case t.NoOracle:
			case t.KeyPlus:
				tc.truth = "0" // key + 2^251 is not a key of any trie of height 251
			case strings.HasPrefix(t.Kind, "honest-"):
				tc.truth, tc.honest = truth, true
			case t.Kind == "root-changed":
				tc.truth = "nothing" // any accepted value is wrong
			default:
				tc.truth = spec.truth(t.Key)
			}
			add(tc)
			res.Case(fmt.Sprintf("%d/%s/%s/%d", j.id, t.Key, t.Kind, t.Node), nontrivial)
			res.Hit("tamper:" + verifier + ":" + t.Kind)
			if strings.HasPrefix(tc.impl, "ok ") {
				res.Hit("tamper-outcome:" + verifier + ":verifies")
			} else {
				res.Hit("tamper-outcome:" + verifier + ":" + tc.impl)
			}
		}
	}
	out <- b
}

// tamperClass maps a corruption kind to the class used in violation signatures: all corruptions
// that leave the stale cached hash flag on the altered trie2 node are one class (one cause), all
// re-typings of a hash child as a value node another; everything else is its own class.
func tamperClass(kind string) string {
	switch {
	case strings.HasSuffix(kind, "-cache-kept"):
		return "altered-node-with-stale-cached-hash"
	case strings.HasPrefix(kind, "retag-") && strings.HasSuffix(kind, "-h2v"):
		return "hash-child-retyped-as-value"
	case strings.HasPrefix(kind, "embed-") && strings.HasSuffix(kind, "-plain"):
		return "embedded-child-without-cached-hash"
	case strings.HasPrefix(kind, "embed-") && strings.HasSuffix(kind, "-cached"):
		return "embedded-child-with-cached-hash"
	}
	return kind
}

var twoPow251 = func() felt.Felt {
	var f felt.Felt
	f.SetBigInt(new(big.Int).Lsh(big.NewInt(1), 251))
	return f
}()

// embeddedWalkLoops predicts, for a node set with embedded children WITHOUT cached hash and a verifier
// that walks the node as given, whether the walk returns at all (it re-enters the same node with the
// key shortened; once the key is empty a binary node always goes left). Used only to avoid calling a
// function that does not return.
func embeddedWalkLoops(p Proof, rootHex, key string) bool {
	idx := map[string]int{}
	for i := range p {
		idx[p[i].Key] = i
	}
	cur := rootHex
	for steps := 0; steps < 2000; steps++ {
		i, ok := idx[cur]
		if !ok {
			return false
		}
		n := &p[i]
		var c Child
		if n.Kind == "B" {
			c = n.L
			if len(key) > 0 && key[0] == '1' {
				c = n.R
			}
			if len(key) > 0 {
				key = key[1:]
			}
		} else {
			m := min(len(n.Path), len(key))
			if n.Path[:m] != key[:m] {
				return false
			}
			c = n.C
			key = key[m:]
		}
		switch c.tag() {
		case 'p':
		case 'e':
			cur = c.F
		case 'h':
			if len(key) == 0 {
				return false
			}
			cur = c.F
		default:
			return false
		}
	}
	return true
}

func sizeBucket(n int) string {
	switch {
	case n == 0:
		return "0"
	case n <= 2:
		return "1-2"
	case n <= 8:
		return "3-8"
	case n <= 32:
		return "9-32"
	default:
		return ">32"
	}
}

var trieImpls = []string{"legacy", "trie2", "trie2db"}

func (c *ctx) trieSection(r *lib.RNG, out chan<- batch) {
	var jobs []*trieJob
	id := 0
	newJob := func(spec TrieSpec) *trieJob {
		id++
		j := &trieJob{id: id, spec: spec, rng: r.Fork(uint64(id))}
		jobs = append(jobs, j)
		return j
	}
	kvsOf := func(rr *lib.RNG, keys []string) []KV {
		kvs := make([]KV, len(keys))
		var prev string
		for i, k := range keys {
			v := genValue(rr)
			if i > 0 && rr.Chance(1, 10) {
				v = prev // equal values: identical sibling hashes
			}
			kvs[i] = KV{K: k, V: v}
			prev = v
		}
		return kvs
	}
	// 1. empty tries
	for _, impl := range trieImpls {
		for _, h := range []int{1, 8, 251} {
			j := newJob(TrieSpec{Impl: impl, Hash: "ped", Height: h})
			j.queries, j.tamper = 3, true
		}
	}
	// 2. small heights: every key set (heights 1..3 quick, ..4 thorough) / random key sets, every key queried
	exhaustiveUpTo := c.f.Scale(3, 4)
	for h := 1; h <= 8; h++ {
		if h <= exhaustiveUpTo {
			for mask := 1; mask < 1<<(1<<h); mask++ {
				var keys []string
				for v := 0; v < 1<<h; v++ {
					if mask>>v&1 == 1 {
						keys = append(keys, fmt.Sprintf("%0*b", h, v))
					}
				}
				impl := trieImpls[mask%3]
				if h <= 2 {
					for _, impl := range trieImpls {
						newJob(TrieSpec{Impl: impl, Hash: "ped", Height: h, KVs: kvsOf(r, keys)}).allKeys = true
					}
					continue
				}
				if h == 4 && mask%16 != 0 { // 65535 sets: every 16th
					continue
				}
				newJob(TrieSpec{Impl: impl, Hash: "ped", Height: h, KVs: kvsOf(r, keys)}).allKeys = true
			}
			continue
		}
		for i := 0; i < c.f.Scale(12, 120); i++ {
			n := 1 + r.Intn(8)
			if r.Chance(1, 6) {
				n = 1 << h // full
				if n > 64 {
					n = 64
				}
			}
			hash := "ped"
			if r.Chance(1, 5) {
				hash = "pos"
			}
			sp := TrieSpec{Impl: trieImpls[i%3], Hash: hash, Height: h, KVs: kvsOf(r, genKeys(r, h, n))}
			if i%2 == 1 {
				sp.History = 1 + r.Uint64()%1000000
			}
			newJob(sp).allKeys = true
		}
	}
	// 3. height 251: shared-prefix families, extremes; honest + every corruption, real verifiers
	n251 := c.f.Scale(72, 1500)
	for i := 0; i < n251; i++ {
		var n int
		switch r.Intn(6) {
		case 0:
			n = 1
		case 1:
			n = 2
		case 2:
			n = 3
		default:
			n = 2 + r.Intn(14)
		}
		if c.f.Thorough() && r.Chance(1, 20) {
			n = 50 + r.Intn(200)
		}
		hash := "ped"
		if r.Chance(1, 5) {
			hash = "pos"
		}
		sp := TrieSpec{Impl: trieImpls[i%3], Hash: hash, Height: 251, KVs: kvsOf(r, genKeys(r, 251, n))}
		if i%2 == 1 {
			sp.History = 1 + r.Uint64()%1000000
		}
		j := newJob(sp)
		j.queries = c.f.Scale(6, 14)
		j.tamper = true
		j.deep = i%10 == 0
	}

	workers := runtime.NumCPU()
	if workers > 16 {
		workers = 16
	}
	jc := make(chan *trieJob)
	var wg sync.WaitGroup
	for w := 0; w < workers; w++ {
		wg.Add(1)
		go func() {
			defer wg.Done()
			for j := range jc {
				c.runTrieJob(j, out)
			}
		}()
	}
	for _, j := range jobs {
		jc <- j
	}
	close(jc)
	wg.Wait()
}
