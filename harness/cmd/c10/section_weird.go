//go:build verif

package main

import (
	"fmt"
	"strings"

	"verif/harness/lib"
)

// weirdSection: hash-consistent node chains that no well-formed trie produces — edge paths of any
// length (0, longer than the key, sums beyond 255: the uint8 position arithmetic), edges under
// edges, leaves above or below depth 251, value / nil typed children anywhere, cached hash flags
// that are right, stale or absent. No trie stands behind them, so there is no property oracle; the
// point is that the model transcribes the verifiers as they are, outside the honest domain too.
func (c *ctx) weirdSection(r *lib.RNG, out chan<- batch) {
	res := c.res
	n := c.f.Scale(1000, 40000)
	hf := hashFnOf("ped")
	pathLens := []int{0, 1, 1, 2, 3, 5, 64, 100, 125, 200, 249, 250, 251, 252, 255}
	var b batch
	flush := func() {
		if len(b.checks) > 0 {
			out <- b
			b = batch{}
		}
	}
	for i := 0; i < n; i++ {
		rr := r.Fork(uint64(i))
		depth := 1 + rr.Intn(6)
		cur := Child{T: lib.Pick(rr, []string{"v", "h"}), F: genValue(rr)}
		var nodes Proof
		along := ""
		for j := 0; j < depth; j++ {
			var nd PNode
			if rr.Bool() {
				nd = PNode{Kind: "E", Path: randBits(rr, lib.Pick(rr, pathLens)), C: cur}
				along = nd.Path + along
			} else {
				side := rr.Intn(2)
				sib := Child{T: lib.Pick(rr, []string{"h", "h", "v", "n"}), F: genValue(rr)}
				if sib.T == "n" {
					sib.F = "0"
				}
				nd = PNode{Kind: "B", L: cur, R: sib}
				if side == 1 {
					nd.L, nd.R = sib, cur
				}
				along = fmt.Sprint(side) + along
			}
			h := nd.nodeHash(hf)
			nd.Key = fhex(&h)
			switch rr.Intn(4) {
			case 0:
				nd.Cache = nd.Key
			case 1:
				nd.Cache = bumpHex(nd.Key)
			}
			nodes = append(nodes, nd)
			cur = Child{T: lib.Pick(rr, []string{"h", "h", "h", "v"}), F: nd.Key}
		}
		root := hexFelt(nodes[len(nodes)-1].Key)
		rootHex := fhex(&root)
		// keys: along the chain (padded / cut to 251 bits), one bit off, random
		key := along
		if len(key) < 251 {
			key += randBits(rr, 251-len(key))
		}
		key = key[:251]
		keys := []string{key, flipBit(key, rr.Intn(251)), randBits(rr, 251)}
		if len(along) < 251 {
			keys = append(keys, along+strings.Repeat("0", 251-len(along)))
		}
		legacyNodes := nodes.clone()
		for k := range legacyNodes {
			nd := &legacyNodes[k]
			nd.Cache = ""
			for _, ch := range children(nd) {
				if ch.tag() != 'n' {
					ch.T = "h"
				}
			}
		}
		for _, k := range keys {
			for _, v := range []string{"legacy", "trie2"} {
				p := nodes
				if v == "legacy" {
					p = legacyNodes
					// a nil child is not representable in a legacy node: skip such chains
					skip := false
					for q := range p {
						for _, ch := range children(&p[q]) {
							if ch.tag() == 'n' {
								skip = true
							}
						}
					}
					if skip {
						continue
					}
				}
				kk, pp := k, p
				impl := realVerify(v, hf, &root, kk, pp)
				b.checks = append(b.checks, check{line: c.modelLine(v, rootHex, kk, pp, "ped"), impl: impl, sig: v + ":weird-chain",
					replay: func() any {
						return verifyReplay{Section: "weird", Check: v + ":weird-chain", Verifier: v, Hash: "ped", Root: rootHex, Key: kk, Proof: pp, Tamper: "weird-chain", Node: -1}
					}})
				res.Case(fmt.Sprintf("weird/%d/%s/%s", i, v, kk), true)
				if strings.HasPrefix(impl, "ok ") {
					res.Hit("weird:" + v + ":verifies")
				} else {
					res.Hit("weird:" + v + ":" + impl)
				}
			}
		}
		if len(b.checks) > 400 {
			flush()
		}
	}
	flush()
}
