//go:build verif

package main

import (
	"fmt"
	"math/big"
	"strings"
	"time"

	"github.com/NethermindEth/juno/core/crypto"
	"github.com/NethermindEth/juno/core/felt"
	"github.com/NethermindEth/juno/core/trie"
	"github.com/NethermindEth/juno/core/trie2"
	"github.com/NethermindEth/juno/core/trie2/trienode"
	"github.com/NethermindEth/juno/core/trie2/trieutils"
	"verif/harness/lib"
)

// ---- neutral representation of a proof node set (what goes to the Lean driver, what is tampered
// with, what is converted back into the real node types of either trie) -----------------------

// Child of a proof node. Tag: 'h' hash node, 'v' value node, 'n' nil, 'e' embedded node with a cached
// hash flag (F = the flag), 'p' embedded node without one (F = the hash hasher.hash computes for it);
// trie2 only — legacy nodes carry plain felts = 'h'. Emb is the embedded node itself.
type Child struct {
	T   string `json:"tag"`
	F   string `json:"felt"` // hex, no prefix
	Emb *PNode `json:"embedded,omitempty"`
}

func mkChild(tag byte, f *felt.Felt) Child { return Child{T: string(tag), F: fhex(f)} }

func (c Child) felt() felt.Felt {
	if c.tag() == 'n' {
		return felt.Zero
	}
	return hexFelt(c.F)
}

func (c Child) tag() byte {
	if c.T != "" {
		return c.T[0]
	}
	return 'h'
}

func (c Child) tok() string {
	if c.tag() == 'n' {
		return "n"
	}
	return string(c.tag()) + c.F
}

type PNode struct {
	Kind  string `json:"kind"` // "B" | "E"
	Key   string `json:"set_key"`
	L     Child  `json:"left"`
	R     Child  `json:"right"`
	C     Child  `json:"child"`
	Path  string `json:"path"`  // bits, "" = empty
	Cache string `json:"cache"` // "" = none
}

type Proof []PNode

func (p Proof) clone() Proof { return append(Proof(nil), p...) }

func fhex(f *felt.Felt) string { return f.BigInt(new(big.Int)).Text(16) }

func hexFelt(s string) felt.Felt {
	n, ok := new(big.Int).SetString(s, 16)
	if !ok {
		panic("bad hex " + s)
	}
	var f felt.Felt
	f.SetBigInt(n)
	return f
}

func bitsOf(f *felt.Felt, height int) string {
	n := f.BigInt(new(big.Int))
	var sb strings.Builder
	for i := height - 1; i >= 0; i-- {
		if n.Bit(i) == 1 {
			sb.WriteByte('1')
		} else {
			sb.WriteByte('0')
		}
	}
	return sb.String()
}

func bitsToBig(bits string) *big.Int {
	n := new(big.Int)
	if bits != "" {
		n.SetString(bits, 2)
	}
	return n
}

func bitsToFelt(bits string) felt.Felt {
	var f felt.Felt
	f.SetBigInt(bitsToBig(bits))
	return f
}

func dashIfEmpty(s string) string {
	if s == "" {
		return "-"
	}
	return s
}

func hashFnOf(name string) crypto.HashFn {
	if name == "pos" {
		return crypto.Poseidon
	}
	return crypto.Pedersen
}

// h2 is the real two-argument hash of the node's content, evaluated here with the primitive
// (NOT through juno's node types): H(left,right) / H(child, pathFelt).
func (n *PNode) h2(hf crypto.HashFn) felt.Felt {
	if n.Kind == "B" {
		l, r := n.L.felt(), n.R.felt()
		return hf(&l, &r)
	}
	c, p := n.C.felt(), bitsToFelt(n.Path)
	return hf(&c, &p)
}

// nodeHash: the node hash per the Starknet spec, computed independently of juno's node code.
func (n *PNode) nodeHash(hf crypto.HashFn) felt.Felt {
	h := n.h2(hf)
	if n.Kind == "E" {
		l := felt.FromUint64[felt.Felt](uint64(len(n.Path)))
		h.Add(&h, &l)
	}
	return h
}

func (n *PNode) tok(hf crypto.HashFn) string {
	h := n.h2(hf)
	if n.Kind == "B" {
		return "B:" + n.Key + ":" + n.L.tok() + ":" + n.R.tok() + ":" + dashIfEmpty(n.Cache) + ":" + fhex(&h)
	}
	return "E:" + n.Key + ":" + dashIfEmpty(n.Path) + ":" + n.C.tok() + ":" + dashIfEmpty(n.Cache) + ":" + fhex(&h)
}

// canon renders the node list the way the driver's `pv` answer does (no hash facts).
func (p Proof) canon(withCache bool) string {
	var sb strings.Builder
	for i := range p {
		n := &p[i]
		cache := "-"
		if withCache {
			cache = dashIfEmpty(n.Cache)
		}
		if n.Kind == "B" {
			sb.WriteString(" B:" + n.Key + ":" + n.L.tok() + ":" + n.R.tok() + ":" + cache)
		} else {
			sb.WriteString(" E:" + n.Key + ":" + dashIfEmpty(n.Path) + ":" + n.C.tok() + ":" + cache)
		}
	}
	return sb.String()
}

func (p Proof) toks(hf crypto.HashFn) string {
	var sb strings.Builder
	for i := range p {
		sb.WriteByte(' ')
		sb.WriteString(p[i].tok(hf))
	}
	return sb.String()
}

// ---- legacy core/trie ------------------------------------------------------------------------

func legacyBits(b *trie.BitArray) string {
	var sb strings.Builder
	for i := uint8(0); i < b.Len(); i++ {
		if b.IsBitSet(i) {
			sb.WriteByte('1')
		} else {
			sb.WriteByte('0')
		}
	}
	return sb.String()
}

func fromLegacy(ps *trie.ProofNodeSet) Proof {
	keys, list := ps.Keys(), ps.List()
	out := make(Proof, 0, len(list))
	for i, n := range list {
		switch n := n.(type) {
		case *trie.Binary:
			out = append(out, PNode{Kind: "B", Key: fhex(&keys[i]), L: mkChild('h', n.LeftHash), R: mkChild('h', n.RightHash)})
		case *trie.Edge:
			out = append(out, PNode{Kind: "E", Key: fhex(&keys[i]), C: mkChild('h', n.Child), Path: legacyBits(n.Path)})
		default:
			panic(fmt.Sprintf("legacy proof node %T", n))
		}
	}
	return out
}

func toLegacy(p Proof) *trie.ProofNodeSet {
	ps := trie.NewProofNodeSet()
	for i := range p {
		n := &p[i]
		k := hexFelt(n.Key)
		if n.Kind == "B" {
			l, r := n.L.felt(), n.R.felt()
			ps.Put(k, &trie.Binary{LeftHash: &l, RightHash: &r})
		} else {
			c := n.C.felt()
			pb := bitsToBig(n.Path).FillBytes(make([]byte, 32))
			ps.Put(k, &trie.Edge{Child: &c, Path: new(trie.BitArray).SetBytes(uint8(len(n.Path)), pb)})
		}
	}
	return ps
}

// ---- core/trie2 --------------------------------------------------------------------------------

func t2Bits(b *trieutils.Path) string {
	var sb strings.Builder
	for i := uint8(0); i < b.Len(); i++ {
		if b.IsBitSet(i) {
			sb.WriteByte('1')
		} else {
			sb.WriteByte('0')
		}
	}
	return sb.String()
}

func t2Child(n trienode.Node) Child {
	switch c := n.(type) {
	case nil:
		return Child{T: "n"}
	case *trienode.HashNode:
		if c == nil {
			return Child{T: "n"}
		}
		f := felt.Felt(*c)
		return mkChild('h', &f)
	case *trienode.ValueNode:
		if c == nil {
			return Child{T: "n"}
		}
		f := felt.Felt(*c)
		return mkChild('v', &f)
	default:
		panic(fmt.Sprintf("trie2 proof node has an embedded child %T", n))
	}
}

func t2Cache(n trienode.Node) string {
	if h, _ := n.Cache(); h != nil {
		f := felt.Felt(*h)
		return fhex(&f)
	}
	return ""
}

func fromTrie2(ps *trie2.ProofNodeSet) Proof {
	keys, list := ps.Keys(), ps.List()
	out := make(Proof, 0, len(list))
	for i, n := range list {
		switch n := n.(type) {
		case *trienode.BinaryNode:
			out = append(out, PNode{Kind: "B", Key: fhex(&keys[i]), L: t2Child(n.Children[0]), R: t2Child(n.Children[1]), Cache: t2Cache(n)})
		case *trienode.EdgeNode:
			out = append(out, PNode{Kind: "E", Key: fhex(&keys[i]), C: t2Child(n.Child), Path: t2Bits(n.Path), Cache: t2Cache(n)})
		default:
			panic(fmt.Sprintf("trie2 proof node %T", n))
		}
	}
	return out
}

func toT2Child(c Child) trienode.Node {
	switch c.tag() {
	case 'e', 'p':
		// an embedded *BinaryNode / *EdgeNode; 'e': nodeFlag.Hash set to F, 'p': no cached hash
		n := c.Emb
		var cache *trienode.HashNode
		if c.tag() == 'e' {
			h := trienode.HashNode(hexFelt(c.F))
			cache = &h
		}
		if n.Kind == "B" {
			b := &trienode.BinaryNode{Children: [2]trienode.Node{toT2Child(n.L), toT2Child(n.R)}, Flags: trienode.NewNodeFlag()}
			b.Flags.Hash = cache
			return b
		}
		pb := bitsToBig(n.Path).FillBytes(make([]byte, 32))
		e := &trienode.EdgeNode{Child: toT2Child(n.C), Path: new(trieutils.Path).SetBytes(uint8(len(n.Path)), pb), Flags: trienode.NewNodeFlag()}
		e.Flags.Hash = cache
		return e
	case 'n':
		return nil
	case 'v':
		v := trienode.ValueNode(c.felt())
		return &v
	default:
		h := trienode.HashNode(c.felt())
		return &h
	}
}

func toTrie2(p Proof) *trie2.ProofNodeSet {
	ps := trie2.NewProofNodeSet()
	for i := range p {
		n := &p[i]
		k := hexFelt(n.Key)
		var cache *trienode.HashNode
		if n.Cache != "" {
			h := trienode.HashNode(hexFelt(n.Cache))
			cache = &h
		}
		if n.Kind == "B" {
			b := &trienode.BinaryNode{Children: [2]trienode.Node{toT2Child(n.L), toT2Child(n.R)}}
			b.Flags.Hash = cache
			ps.Put(k, b)
		} else {
			pb := bitsToBig(n.Path).FillBytes(make([]byte, 32))
			e := &trienode.EdgeNode{Child: toT2Child(n.C), Path: new(trieutils.Path).SetBytes(uint8(len(n.Path)), pb)}
			e.Flags.Hash = cache
			ps.Put(k, e)
		}
	}
	return ps
}

// ---- running the real verifiers ----------------------------------------------------------------

func classify(v *felt.Felt, err error, panicked bool) string {
	switch {
	case panicked:
		return "panic"
	case err == nil:
		return "ok " + fhex(v)
	case strings.Contains(err.Error(), "proof node not found"):
		return "err:notfound"
	case strings.Contains(err.Error(), "hash mismatch"):
		return "err:mismatch"
	case strings.Contains(err.Error(), "key length less than"):
		return "err:keylen"
	case strings.Contains(err.Error(), "exceeds the trie height"):
		return "err:badkey"
	case strings.Contains(err.Error(), "value node before the key is consumed"):
		return "err:earlyvalue"
	default:
		return "err:other"
	}
}

// realVerify runs trie.VerifyProof / trie2.VerifyProof (both fix the key length to 251 bits).
func realVerify(impl string, hf crypto.HashFn, root *felt.Felt, keyBits string, p Proof) string {
	key := bitsToFelt(keyBits)
	return realVerifyFelt(impl, hf, root, &key, p, []time.Duration{verifyDeadline, 2 * verifyDeadline})
}

// realVerifyFelt: the key as a felt (may exceed 251 bits), explicit deadlines (a call that exceeds
// all of them is a "hang"; its goroutine is abandoned).
func realVerifyFelt(impl string, hf crypto.HashFn, root, key *felt.Felt, p Proof, deadlines []time.Duration) string {
	return realVerifyWith(deadlines, func() (felt.Felt, error) {
		if impl == "legacy" {
			return trie.VerifyProof(root, key, toLegacy(p), hf)
		}
		return trie2.VerifyProof(root, key, toTrie2(p), hf)
	})
}

func realVerifyWith(deadlines []time.Duration, call func() (felt.Felt, error)) string {
	for _, d := range deadlines {
		var v felt.Felt
		var err error
		var panicked bool
		done := lib.WithDeadline(d, func() {
			_, panicked, _ = lib.Try(func() error {
				v, err = call()
				return nil
			})
		})
		if done {
			if panicked {
				return "panic"
			}
			return classify(&v, err, false)
		}
	}
	return "hang"
}

// sameAnswer compares a model answer with an implementation answer: results exactly; error
// classes exactly except that the class of the repaired early-value rejection is not pinned.
func sameAnswer(model, impl string) bool {
	if model == impl {
		return true
	}
	// the model's iteration bound is its rendering of a call that never returns
	return model == "err:fuel" && impl == "hang"
}
