/-
  FEASIBILITY PROBE — not part of the verification machinery, not built by any check.

  Written during the design round to calibrate the cost of C01's foundation
  (DESIGN.md §6 C01 / §8): a transcription of trie2-style `insert` on an
  edge/binary tree (no hash nodes) and the refinement lemma

      lookup (ins t k v) k' = if k' = k then some v else lookup t k'

  for every tree of consistent depth and all keys of that depth.
  Core Lean only; `lake build` 11 s; `#print axioms lookup_ins` =
  [propext, Classical.choice, Quot.sound]; ~240 lines, about 50 minutes of work.
  The real model (Model/Trie2.lean) will add delete, hash nodes / store, the
  well-formedness invariant, uniqueness of the canonical form and the hash term.
-/
/-! Feasibility probe: trie2-style ins on an edge/binary tree, map semantics. -/
abbrev Path := List Bool

inductive Node where
  | leaf (v : Nat)
  | bin (l r : Node)
  | edge (p : Path) (c : Node)
deriving Repr, DecidableEq

/-- common prefix -/
def cpre : Path → Path → Path
  | a :: as, b :: bs => if a = b then a :: cpre as bs else []
  | _, _ => []

def mkEdge (p : Path) (c : Node) : Node :=
  match p with
  | [] => c
  | _ => match c with
    | .edge q d => .edge (p ++ q) d
    | _ => .edge p c

/-- lookup; key length is the remaining depth -/
def lookup : Node → Path → Option Nat
  | .leaf v, [] => some v
  | .leaf _, _ :: _ => none
  | .bin l r, b :: k => if b then lookup r k else lookup l k
  | .bin _ _, [] => none
  | .edge p c, k => if p.isPrefixOf k then lookup c (k.drop p.length) else none

/-- transcription of trie2.ins (no hash nodes), fuel = key length structure -/
def ins : Node → Path → Nat → Node
  | .leaf _, _, v => .leaf v
  | .bin l r, b :: k, v => if b then .bin l (ins r k v) else .bin (ins l k v) r
  | .bin l r, [], _ => .bin l r
  | .edge p c, k, v =>
    let m := cpre p k
    if m.length = p.length then .edge p (ins c (k.drop p.length) v)
    else
      -- branch at first differing bit
      let pb := p.getD m.length false
      let prest := p.drop (m.length + 1)
      let krest := k.drop (m.length + 1)
      let oldSide := mkEdge prest c
      let newSide := mkEdge krest (.leaf v)
      let br := if pb then Node.bin newSide oldSide else Node.bin oldSide newSide
      mkEdge m br

def single (k : Path) (v : Nat) : Node := mkEdge k (.leaf v)

#eval ins (single [true,false,true] 5) [true,true,false] 7
#eval lookup (ins (single [true,false,true] 5) [true,true,false] 7) [true,true,false]
#eval lookup (ins (single [true,false,true] 5) [true,true,false] 7) [true,false,true]

inductive Fits : Node → Nat → Prop where
  | leaf (v) : Fits (.leaf v) 0
  | bin {l r n} : Fits l n → Fits r n → Fits (.bin l r) (n+1)
  | edge {p c n} : p ≠ [] → Fits c n → Fits (.edge p c) (p.length + n)

theorem cpre_prefix_left (a b : Path) : (cpre a b).isPrefixOf a = true := by
  induction a generalizing b with
  | nil => cases b <;> simp [cpre]
  | cons x xs ih =>
    cases b with
    | nil => simp [cpre]
    | cons y ys =>
      simp only [cpre]; split
      · simp [List.isPrefixOf, ih]
      · simp

theorem cpre_prefix_right (a b : Path) : (cpre a b).isPrefixOf b = true := by
  induction a generalizing b with
  | nil => cases b <;> simp [cpre]
  | cons x xs ih =>
    cases b with
    | nil => simp [cpre]
    | cons y ys =>
      simp only [cpre]; split
      · rename_i h; subst h; simp [List.isPrefixOf, ih]
      · simp

theorem cpre_full_iff (p k : Path) : (cpre p k).length = p.length ↔ p.isPrefixOf k = true := by
  induction p generalizing k with
  | nil => simp [cpre]
  | cons x xs ih =>
    cases k with
    | nil => simp [cpre]
    | cons y ys =>
      simp only [cpre]; split
      · rename_i h; subst h; simp [List.isPrefixOf, ih]
      · rename_i h; simp [List.isPrefixOf, h]

/-- lookup through mkEdge behaves like an edge -/
theorem get_mkEdge (p : Path) (c : Node) (k : Path) :
    lookup (mkEdge p c) k = if p.isPrefixOf k then lookup c (k.drop p.length) else none := by
  cases p with
  | nil => simp [mkEdge]
  | cons x xs =>
    cases c with
    | leaf v => simp [mkEdge, lookup]
    | bin l r => simp [mkEdge, lookup]
    | edge q d =>
      simp only [mkEdge, lookup]
      by_cases h1 : (x :: xs).isPrefixOf k = true
      · simp only [h1, if_true]
        obtain ⟨t, rfl⟩ := List.isPrefixOf_iff_prefix.mp h1
        simp [lookup, List.isPrefixOf_iff_prefix, List.prefix_append_right_inj]
      · simp only [h1]
        have h3 : ¬ ((x :: xs) ++ q) <+: k := by
          intro ⟨t, ht⟩
          exact h1 (List.isPrefixOf_iff_prefix.mpr ⟨q ++ t, by simpa [List.append_assoc] using ht⟩)
        have h4 : ((x :: (xs ++ q)).isPrefixOf k) = false := by
          cases h5 : (x :: (xs ++ q)).isPrefixOf k with
          | false => rfl
          | true => exact absurd (List.isPrefixOf_iff_prefix.mp h5) (by simpa using h3)
        simp [h4]

theorem isPrefixOf_same_len {a b : Path} (h : a.length = b.length) :
    a.isPrefixOf b = decide (a = b) := by
  induction a generalizing b with
  | nil => cases b <;> simp_all
  | cons x xs ih =>
    cases b with
    | nil => simp at h
    | cons y ys =>
      have := ih (b := ys) (by simpa using h)
      by_cases hxy : x = y <;> simp [List.isPrefixOf, this, hxy]

theorem isPrefixOf_app_cons (m a b : Path) (x y : Bool) :
    (m ++ x :: a).isPrefixOf (m ++ y :: b) = (decide (x = y) && a.isPrefixOf b) := by
  induction m with
  | nil => by_cases h : x = y <;> simp [List.isPrefixOf, h]
  | cons z zs ih => simp [List.isPrefixOf, ih]

theorem drop_app_cons (m a b : Path) (x y : Bool) :
    List.drop (m ++ x :: a).length (m ++ y :: b) = List.drop a.length b := by
  induction m with
  | nil => simp
  | cons z zs ih => simpa using ih

theorem app_cons_inj (m a b : Path) (x y : Bool) :
    (m ++ x :: a = m ++ y :: b) ↔ (x = y ∧ a = b) := by
  simp

theorem cpre_split (p k : Path) (hlen : p.length ≤ k.length) (hne : (cpre p k).length ≠ p.length) :
    ∃ m pb prest krest, p = m ++ pb :: prest ∧ k = m ++ (!pb) :: krest ∧ cpre p k = m := by
  induction p generalizing k with
  | nil => simp [cpre] at hne
  | cons x xs ih =>
    cases k with
    | nil => simp at hlen
    | cons y ys =>
      by_cases hxy : x = y
      · subst hxy
        have hne' : (cpre xs ys).length ≠ xs.length := by
          intro h; apply hne; simp [cpre, h]
        obtain ⟨m, pb, prest, krest, h1, h2, h3⟩ := ih ys (by simpa using hlen) hne'
        exact ⟨x :: m, pb, prest, krest, by simp [h1], by simp [h2], by simp [cpre, h3]⟩
      · refine ⟨[], x, xs, ys, by simp, ?_, by simp [cpre, hxy]⟩
        have : y = !x := by cases x <;> cases y <;> simp_all
        simp [this]

theorem lookup_ins {t : Node} {n : Nat} (h : Fits t n) (k k' : Path)
    (hk : k.length = n) (hk' : k'.length = n) (v : Nat) :
    lookup (ins t k v) k' = if k' = k then some v else lookup t k' := by
  induction h generalizing k k' with
  | leaf w =>
    have h1 : k = [] := List.length_eq_zero_iff.mp hk
    have h2 : k' = [] := List.length_eq_zero_iff.mp hk'
    subst h1 h2; simp [ins, lookup]
  | @bin l r n hl hr ihl ihr =>
    cases k with
    | nil => simp at hk
    | cons b ks =>
      cases k' with
      | nil => simp at hk'
      | cons b' ks' =>
        have hks : ks.length = n := by simpa using hk
        have hks' : ks'.length = n := by simpa using hk'
        cases b <;> cases b' <;> simp [ins, lookup, ihl ks ks' hks hks', ihr ks ks' hks hks']
  | @edge p c n hp hc ih =>
    simp only [ins]
    by_cases hfull : (cpre p k).length = p.length
    · -- p is a prefix of k: descend
      simp only [hfull, if_true]
      have hpk : p.isPrefixOf k = true := (cpre_full_iff p k).mp hfull
      obtain ⟨kt, rfl⟩ := List.isPrefixOf_iff_prefix.mp hpk
      have hkt : kt.length = n := by simp at hk; omega
      simp only [lookup]
      by_cases hpk' : p.isPrefixOf k' = true
      · obtain ⟨kt', rfl⟩ := List.isPrefixOf_iff_prefix.mp hpk'
        have hkt' : kt'.length = n := by simp at hk'; omega
        simp [ih kt kt' hkt hkt']
      · have : k' ≠ p ++ kt := by
          intro e; apply hpk'; rw [e]; exact List.isPrefixOf_iff_prefix.mpr ⟨kt, rfl⟩
        simp [hpk', this]
    · -- branch
      simp only [hfull, if_false]
      obtain ⟨m, pb, prest, krest, hp', hk2, hm⟩ :=
        cpre_split p k (by omega) hfull
      subst hp' hk2
      rw [hm]
      have e1 : (m ++ pb :: prest)[m.length]?.getD false = pb := by simp
      have e2 : List.drop (m.length + 1) m = [] := by simp
      have e3 : m.length + 1 - m.length = 1 := by omega
      simp only [List.getD_eq_getElem?_getD, e1, List.drop_append, e2, e3, List.nil_append,
        List.drop_succ_cons, List.drop_zero]
      rw [get_mkEdge]
      by_cases hmk : m.isPrefixOf k' = true
      · obtain ⟨r', rfl⟩ := List.isPrefixOf_iff_prefix.mp hmk
        have hr' : r'.length = prest.length + 1 + n := by
          simp at hk'; omega
        cases r' with
        | nil => simp only [List.length_nil] at hr'; omega
        | cons b' rs =>
          have hkr : krest.length = prest.length + n := by simp at hk; omega
          have hrs : rs.length = prest.length + n := by simp at hr'; omega
          have hlen : krest.length = rs.length := by omega
          simp only [hmk, if_true, List.drop_left]
          cases pb <;> cases b' <;>
            simp only [Bool.not_true, Bool.not_false, if_true, if_false, lookup, get_mkEdge,
              isPrefixOf_app_cons, drop_app_cons, app_cons_inj, isPrefixOf_same_len hlen,
              Bool.false_eq_true, decide_true, decide_false, Bool.true_and, Bool.false_and,
              true_and, false_and, reduceCtorEq, List.cons.injEq]
          all_goals
            by_cases hrk : rs = krest
            · subst hrk; simp [lookup]
            · have : krest ≠ rs := fun e => hrk e.symm
              simp [hrk, this]
      · have hne : k' ≠ m ++ (!pb) :: krest := by
          intro e; apply hmk; rw [e]; exact List.isPrefixOf_iff_prefix.mpr ⟨_, rfl⟩
        have hne2 : (m ++ pb :: prest).isPrefixOf k' = false := by
          cases h5 : (m ++ pb :: prest).isPrefixOf k' with
          | false => rfl
          | true =>
            exfalso; apply hmk
            obtain ⟨t, ht⟩ := List.isPrefixOf_iff_prefix.mp h5
            exact List.isPrefixOf_iff_prefix.mpr ⟨pb :: prest ++ t, by simpa [List.append_assoc] using ht⟩
        simp [hmk, hne, lookup, hne2]
#print axioms lookup_ins
