import JunoModel.C12.ProofsNetwork
import JunoModel.C12.ProofsNonVacuity
/-! C12 — non-vacuity of the composed system: a reachable network state with a commit. -/
namespace Juno.C12
open Juno.C12.Abs

/-- the shipped shape: mock validators, the driver drops gossiped messages of the pseudo-sender 9 -/
def N4 : NetEnv := { E := E4, envOf := fun _ => env4, h0 := fun _ => 0, excl := fun a => a = 9 }

theorem N4_ok : NetOK N4 := ⟨E4_wf, fun _ => env4_ok, fun _ h => Or.inr h⟩

/-- a run of the composed system in which validator 0's machine commits value 8 at height 0 -/
theorem N4_run_commits : ∃ net, NetReach N4 net ∧ Action.commit ⟨0, 0, 0, -1, 8⟩ ∈ (net.node 0).out := by
  have nb0 : ¬ N4.E.byz 0 := by show ¬ (0 = 3 ∨ 0 = 9); decide
  have nb1 : ¬ N4.E.byz 1 := by show ¬ (1 = 3 ∨ 1 = 9); decide
  have r1 := NetReach.step (NetReach.init (N := N4)) (NetStep.start _ 0 nb0 rfl)
  have r2 := NetReach.step r1 (NetStep.start _ 1 nb1 rfl)
  have r3 := NetReach.step r2 (NetStep.event _ 1 (.proposal ⟨0, 0, 0, -1, 8⟩) nb1 rfl trivial
    (fun c hc => by cases hc; exact ⟨Or.inr (by decide), by show ¬ ((_ : Nat) = 9); decide⟩))
  have r4 := NetReach.step r3 (NetStep.event _ 0 (.prevote ⟨0, 0, 1, some 8⟩) nb0 rfl trivial
    (fun c hc => by cases hc; exact ⟨Or.inr (by decide), by show ¬ ((_ : Nat) = 9); decide⟩))
  have r5 := NetReach.step r4 (NetStep.event _ 0 (.prevote ⟨0, 0, 3, some 8⟩) nb0 rfl trivial
    (fun c hc => by cases hc; exact ⟨Or.inl (Or.inl rfl), by show ¬ ((_ : Nat) = 9); decide⟩))
  have r6 := NetReach.step r5 (NetStep.event _ 1 (.prevote ⟨0, 0, 0, some 8⟩) nb1 rfl trivial
    (fun c hc => by cases hc; exact ⟨Or.inr (by decide), by show ¬ ((_ : Nat) = 9); decide⟩))
  have r7 := NetReach.step r6 (NetStep.event _ 1 (.prevote ⟨0, 0, 3, some 8⟩) nb1 rfl trivial
    (fun c hc => by cases hc; exact ⟨Or.inl (Or.inl rfl), by show ¬ ((_ : Nat) = 9); decide⟩))
  have r8 := NetReach.step r7 (NetStep.event _ 0 (.precommit ⟨0, 0, 3, some 8⟩) nb0 rfl trivial
    (fun c hc => by rcases hc with hc | hc <;> cases hc; exact ⟨Or.inl (Or.inl rfl), by show ¬ ((_ : Nat) = 9); decide⟩; exact ⟨trivial, trivial⟩))
  have r9 := NetReach.step r8 (NetStep.event _ 0 (.precommit ⟨0, 0, 1, some 8⟩) nb0 rfl trivial
    (fun c hc => by rcases hc with hc | hc <;> cases hc; exact ⟨Or.inr (by decide), by show ¬ ((_ : Nat) = 9); decide⟩; exact ⟨trivial, trivial⟩))
  exact ⟨_, r9, by decide⟩

/-- … and a run in which TWO correct validators (0 and 1) commit at height 0, so the hypotheses of
`network_agreement` are jointly reachable with `p ≠ p'`; the simulation relation holds there for a
machine with a non-empty vote counter that has locked and moved to the next height. -/
theorem N4_run_two_commit : ∃ net, NetReach N4 net ∧
    Action.commit ⟨0, 0, 0, -1, 8⟩ ∈ (net.node 0).out ∧ Action.commit ⟨0, 0, 0, -1, 8⟩ ∈ (net.node 1).out ∧
    (net.node 0).m.state.height = 1 ∧ ∃ s, Sim N4.E (N4.envOf 0) s (net.node 0).m := by
  have nb0 : ¬ N4.E.byz 0 := by show ¬ (0 = 3 ∨ 0 = 9); decide
  have nb1 : ¬ N4.E.byz 1 := by show ¬ (1 = 3 ∨ 1 = 9); decide
  have r1 := NetReach.step (NetReach.init (N := N4)) (NetStep.start _ 0 nb0 rfl)
  have r2 := NetReach.step r1 (NetStep.start _ 1 nb1 rfl)
  have r3 := NetReach.step r2 (NetStep.event _ 1 (.proposal ⟨0, 0, 0, -1, 8⟩) nb1 rfl trivial
    (fun c hc => by cases hc; exact ⟨Or.inr (by decide), by show ¬ ((_ : Nat) = 9); decide⟩))
  have r4 := NetReach.step r3 (NetStep.event _ 0 (.prevote ⟨0, 0, 1, some 8⟩) nb0 rfl trivial
    (fun c hc => by cases hc; exact ⟨Or.inr (by decide), by show ¬ ((_ : Nat) = 9); decide⟩))
  have r5 := NetReach.step r4 (NetStep.event _ 0 (.prevote ⟨0, 0, 3, some 8⟩) nb0 rfl trivial
    (fun c hc => by cases hc; exact ⟨Or.inl (Or.inl rfl), by show ¬ ((_ : Nat) = 9); decide⟩))
  have r6 := NetReach.step r5 (NetStep.event _ 1 (.prevote ⟨0, 0, 0, some 8⟩) nb1 rfl trivial
    (fun c hc => by cases hc; exact ⟨Or.inr (by decide), by show ¬ ((_ : Nat) = 9); decide⟩))
  have r7 := NetReach.step r6 (NetStep.event _ 1 (.prevote ⟨0, 0, 3, some 8⟩) nb1 rfl trivial
    (fun c hc => by cases hc; exact ⟨Or.inl (Or.inl rfl), by show ¬ ((_ : Nat) = 9); decide⟩))
  have r8 := NetReach.step r7 (NetStep.event _ 0 (.precommit ⟨0, 0, 3, some 8⟩) nb0 rfl trivial
    (fun c hc => by rcases hc with hc | hc <;> cases hc; exact ⟨Or.inl (Or.inl rfl), by show ¬ ((_ : Nat) = 9); decide⟩; exact ⟨trivial, trivial⟩))
  have r9 := NetReach.step r8 (NetStep.event _ 0 (.precommit ⟨0, 0, 1, some 8⟩) nb0 rfl trivial
    (fun c hc => by rcases hc with hc | hc <;> cases hc; exact ⟨Or.inr (by decide), by show ¬ ((_ : Nat) = 9); decide⟩; exact ⟨trivial, trivial⟩))
  have r10 := NetReach.step r9 (NetStep.event _ 1 (.precommit ⟨0, 0, 3, some 8⟩) nb1 rfl trivial
    (fun c hc => by rcases hc with hc | hc <;> cases hc; exact ⟨Or.inl (Or.inl rfl), by show ¬ ((_ : Nat) = 9); decide⟩; exact ⟨trivial, trivial⟩))
  have r11 := NetReach.step r10 (NetStep.event _ 1 (.precommit ⟨0, 0, 0, some 8⟩) nb1 rfl trivial
    (fun c hc => by rcases hc with hc | hc <;> cases hc; exact ⟨Or.inr (by decide), by show ¬ ((_ : Nat) = 9); decide⟩; exact ⟨trivial, trivial⟩))
  obtain ⟨s, hi⟩ := net_reach_inv N4 N4_ok _ r11
  exact ⟨_, r11, by decide, by decide, by decide, s, (hi.node 0 nb0).1⟩

end Juno.C12
