import JunoModel.C12.ModelNetwork
import JunoModel.C12.ProofsRefine
/-!
C12 — the composed system: the driver loop keeps the discipline, the network of executable machines
is simulated by the abstract system, hence agreement and one-vote-per-round for the machines.
-/
namespace Juno.C12
open Juno.C12.Abs

variable {A : VCChange → Prop}

/-! ## the driver's loop guarantees the discipline -/

theorem hasCommit_false_iff (acts : List Action) : hasCommit acts = false ↔ ∀ p, Action.commit p ∉ acts := by
  unfold hasCommit
  rw [List.any_eq_false]
  constructor
  · intro h p hp
    have := h _ hp
    simp [Action.isCommit] at this
  · intro h a ha
    cases a <;> simp [Action.isCommit]
    exact h _ ha

/-- a micro-step that is not a commit leaves a started height started -/
theorem micro_keeps_started (env : Env) (m m' : Machine) (a : List Action) (hm : XMicro env A m a m')
    (hnc : ∀ p, Action.commit p ∉ a) (hs : m.isHeightStarted = true) : m'.isHeightStarted = true := by
  have hcore : ∀ (c : Core), m'.core = c → c.started = true → m'.isHeightStarted = true := by
    intro c h1 h2; rw [← h1] at h2; exact h2
  have hst : m.core.started = true := hs
  cases hm with
  | silent _ _ hc _ _ _ => exact hcore _ hc hst
  | recv _ c _ hc _ _ => exact hcore _ hc hst
  | propose _ q hc _ _ _ _ _ => exact hcore _ hc hst
  | start _ r _ _ _ _ hc => exact hcore _ hc rfl
  | newRound _ r _ _ _ hc => exact hcore _ hc hst
  | prevote _ id _ _ _ _ hc => exact hcore _ hc hst
  | precommitNil _ _ _ _ hc => exact hcore _ hc hst
  | precommitValue _ v _ _ _ _ _ hc => exact hcore _ hc hst
  | commit _ q _ _ _ _ _ _ _ _ => exact (hnc q (List.mem_singleton.mpr rfl)).elim

theorem chain_keeps_started (env : Env) (m m' : Machine) (acts : List Action) (hc : XChain env A m acts m')
    (hnc : ∀ p, Action.commit p ∉ acts) (hs : m.isHeightStarted = true) : m'.isHeightStarted = true := by
  induction hc with
  | nil => exact hs
  | cons hm _ _ ih =>
    exact ih (fun p hp => hnc p (List.mem_append_right _ hp))
      (micro_keeps_started env _ _ _ hm (fun p hp => hnc p (List.mem_append_left _ hp)) hs)

/-- `ProcessStart(0)` leaves the height started unless it already commits it. -/
theorem processStart_started (env : Env) (m : Machine) (r : Round) (hi : MInv env m)
    (hnc : ∀ p, Action.commit p ∉ (m.processStart env r).2) : (m.processStart env r).1.isHeightStarted = true := by
  unfold Machine.processStart at hnc ⊢
  by_cases hs : m.isHeightStarted = true
  · simp only [hs, if_true]
  · simp only [hs, if_false] at hnc ⊢
    have hi0 : MInv env { m with isHeightStarted := true } := ⟨hi.vc, hi.cur⟩
    have ht := startRound_tail (A := AnyMsg) env { m with isHeightStarted := true } r hi0
    have hst : (Machine.startRound env { m with isHeightStarted := true } r).1.isHeightStarted = true := by
      rw [startRound_started]
    obtain ⟨out, h1, h2, _⟩ := processLoop_chain (A := AnyMsg) env _
      [(Machine.startRound env { m with isHeightStarted := true } r).2] none hst ht.2
    rw [h1] at hnc
    exact chain_keeps_started env _ _ out h2
      (fun p hp => hnc p (List.mem_cons_of_mem _ (List.mem_append_right _ hp))) hst

/-- Invariant of a node of the composed system: when the driver is inside the inner loop
(`needStart = false`) the height is started. So every call the loop makes obeys `InputOK`. -/
def DNodeOK (env : Env) (d : DNode) : Prop :=
  MInv env d.m ∧ (d.needStart = false → d.m.isHeightStarted = true) ∧
  ∀ q, Action.commit q ∈ d.out → env.valid q.value = true ∧ q.sender = env.proposer q.height q.round

theorem chain_commits_ok (env : Env) (m m' : Machine) (acts : List Action) (hc : XChain env A m acts m')
    (q : Proposal) (hq : Action.commit q ∈ acts) :
    env.valid q.value = true ∧ q.sender = env.proposer q.height q.round := by
  obtain ⟨_, mic, _, m1, m2, _, hm, _, hin, _, _⟩ := chain_split (A := A) env m m' acts hc _ hq
  have := micro_commit (A := A) env m1 m2 mic hm q hin
  exact ⟨this.2.1, this.2.2.2.2.1⟩

theorem feed_out_ok (env : Env) (d : DNode) (i : Input) (hd : DNodeOK env d)
    (hc : XChain env A d.m (d.m.step env i).2 (d.m.step env i).1) :
    ∀ q, Action.commit q ∈ (d.feed env i).out → env.valid q.value = true ∧ q.sender = env.proposer q.height q.round := by
  intro q hq
  simp only [DNode.feed] at hq
  rcases List.mem_append.mp hq with h | h
  · exact hd.2.2 q h
  · exact chain_commits_ok env _ _ _ hc q h

theorem feed_start_ok (env : Env) (d : DNode) (hd : DNodeOK env d) : DNodeOK env (d.feed env (.start 0)) := by
  have hc := step_chain (A := AnyMsg) env d.m (.start 0) (fun c h => h.elim) (Int.le_refl 0) hd.1
  refine ⟨hc.2, ?_, feed_out_ok env d _ hd hc.1⟩
  intro hn
  have hnc := (hasCommit_false_iff _).mp hn
  exact processStart_started env d.m 0 hd.1 hnc

theorem event_inputOK (d : DNode) (i : Input) (hev : IsEvent i) (hs : d.m.isHeightStarted = true) :
    InputOK d.m i := by
  cases i with
  | start r => exact hev.elim
  | wal e => exact hev.elim
  | timeout s h r => exact hs
  | proposal p => trivial
  | prevote v => trivial
  | precommit v => trivial
  | sync p vs => exact hev.elim

theorem feed_event_ok (env : Env) (d : DNode) (i : Input) (hd : DNodeOK env d) (hn : d.needStart = false)
    (hev : IsEvent i) : DNodeOK env (d.feed env i) := by
  have hs := hd.2.1 hn
  have hc := step_chain (A := AnyMsg) env d.m i (fun _ _ => trivial) (event_inputOK d i hev hs) hd.1
  refine ⟨hc.2, ?_, feed_out_ok env d _ hd hc.1⟩
  intro hn'
  exact chain_keeps_started env _ _ _ hc.1 ((hasCommit_false_iff _).mp hn') hs

/-! ## the network of machines is simulated by the abstract system -/

/-- all validators' executable environments agree with the abstract one -/
def NetOK (N : NetEnv) : Prop :=
  N.E.WF ∧ (∀ p, EnvOK N.E (N.envOf p) N.excl) ∧ ∀ a, N.excl a → N.E.byz a

/-- the history contains no message that the sender's machine did not broadcast -/
structure HistComplete (net : Net) (H : Hist) : Prop where
  proposal : ∀ a h r v, H.proposal a h r v →
    ∃ q, Action.bcastProposal q ∈ (net.node a).out ∧ q.height = h ∧ q.round = r ∧ q.value = v ∧ q.sender = a
  prevote : ∀ a h r id, H.prevote a h r id → Action.bcastPrevote ⟨h, r, a, id⟩ ∈ (net.node a).out
  precommit : ∀ a h r id, H.precommit a h r id → Action.bcastPrecommit ⟨h, r, a, id⟩ ∈ (net.node a).out

structure NetInv (N : NetEnv) (net : Net) (s : Sys) : Prop where
  reach : Reach N.E N.h0 s
  complete : HistComplete net s.hist
  node : ∀ p, ¬ N.E.byz p →
    Sim N.E (N.envOf p) s (net.node p).m ∧ (net.node p).m.nodeAddr = p ∧
    Recorded (net.node p).out p s.hist ∧ DNodeOK (N.envOf p) (net.node p)

theorem deliverable_auth (N : NetEnv) (net : Net) (s : Sys) (hinv : NetInv N net s) (c : VCChange)
    (hd : Deliverable N.E net c) : AuthC N.E s.hist c := by
  cases c with
  | vote v t =>
    cases t with
    | prevote =>
      rcases hd with hb | hm
      · exact Or.inl hb
      · by_cases hb : N.E.byz v.sender
        · exact Or.inl hb
        · exact Or.inr ((hinv.node v.sender hb).2.2.1 _ hm)
    | precommit =>
      rcases hd with hb | hm
      · exact Or.inl hb
      · by_cases hb : N.E.byz v.sender
        · exact Or.inl hb
        · exact Or.inr ((hinv.node v.sender hb).2.2.1 _ hm)
  | proposal q =>
    rcases hd with hb | hm
    · exact Or.inl hb
    · by_cases hb : N.E.byz q.sender
      · exact Or.inl hb
      · exact Or.inr ((hinv.node q.sender hb).2.2.1 _ hm)
  | futureQ _ _ _ => trivial

/-- one call of the driver into validator `p`'s machine, simulated -/
theorem net_feed (N : NetEnv) (ok : NetOK N) (net : Net) (s : Sys) (hinv : NetInv N net s) (p : Addr)
    (hb : ¬ N.E.byz p) (i : Input) (hok : InputOK (net.node p).m i)
    (hdel : ∀ c, RecvOf i c → Deliverable N.E net c ∧ Passes N.excl c)
    (hdn : DNodeOK (N.envOf p) ((net.node p).feed (N.envOf p) i)) :
    ∃ s', NetInv N (net.set p ((net.node p).feed (N.envOf p) i)) s' := by
  obtain ⟨hsim, hn, hrec, _⟩ := hinv.node p hb
  have hb' : ¬ N.E.byz (net.node p).m.nodeAddr := by rw [hn]; exact hb
  obtain ⟨s', hsteps, hsim', hn', hoth, hle, hrec', hfrom⟩ :=
    step_sim N.E (N.envOf p) (ok.2.1 p) ok.1 s (net.node p).m i hb' (fun hx => hb' (ok.2.2 _ hx)) hsim hok
      (fun c hc => ⟨deliverable_auth N net s hinv c (hdel c hc).1, by
        have := (hdel c hc).2
        cases c <;> first | exact this | trivial⟩)
  rw [hn] at hfrom
  have hout : ∀ a x, x ∈ (net.node a).out →
      x ∈ ((net.set p ((net.node p).feed (N.envOf p) i)).node a).out := by
    intro a x hx
    by_cases e : a = p
    · rw [e] at hx ⊢; simp only [Net.set, if_true, DNode.feed]; exact List.mem_append_left _ hx
    · simp only [Net.set, e, if_false]; exact hx
  have hnew : ∀ x, x ∈ ((net.node p).m.step (N.envOf p) i).2 →
      x ∈ ((net.set p ((net.node p).feed (N.envOf p) i)).node p).out := by
    intro x hx
    simp only [Net.set, if_true, DNode.feed]; exact List.mem_append_right _ hx
  refine ⟨s', Reach_steps N.E N.h0 s s' hinv.reach hsteps, ?_, ?_⟩
  · refine ⟨?_, ?_, ?_⟩
    · intro a h r v hx
      rcases hfrom.proposal a h r v hx with hx | ⟨e, q, hq, r1, r2, r3, r4⟩
      · obtain ⟨q, hq, r1, r2, r3, r4⟩ := hinv.complete.proposal a h r v hx
        exact ⟨q, hout a _ hq, r1, r2, r3, r4⟩
      · rw [e]; exact ⟨q, hnew _ hq, r1, r2, r3, r4⟩
    · intro a h r id hx
      rcases hfrom.prevote a h r id hx with hx | ⟨e, hq⟩
      · exact hout a _ (hinv.complete.prevote a h r id hx)
      · rw [e]; exact hnew _ hq
    · intro a h r id hx
      rcases hfrom.precommit a h r id hx with hx | ⟨e, hq⟩
      · exact hout a _ (hinv.complete.precommit a h r id hx)
      · rw [e]; exact hnew _ hq
  intro q hq
  by_cases e : q = p
  · rw [e]
    simp only [Net.set, if_true]
    refine ⟨hsim', ?_, ?_, hdn⟩
    · show ((net.node p).m.step (N.envOf p) i).1.nodeAddr = p
      rw [hn', hn]
    · rw [hn] at hrec'
      exact Recorded_append (Recorded_mono hle hrec) hrec'
  · simp only [Net.set, e, if_false]
    obtain ⟨hsq, hnq, hrq, hdq⟩ := hinv.node q hq
    refine ⟨Sim_stable N.E (N.envOf q) s s' _ hsq hle ?_, hnq, Recorded_mono hle hrq, hdq⟩
    rw [hnq]; exact hoth q (by rw [hn]; exact e)

theorem net_step_inv (N : NetEnv) (ok : NetOK N) (a b : Net) (s : Sys) (hinv : NetInv N a s)
    (hstep : NetStep N a b) : ∃ s', NetInv N b s' := by
  cases hstep with
  | start p hb hn =>
    have hd := (hinv.node p hb).2.2.2
    exact net_feed N ok a s hinv p hb (.start 0) (Int.le_refl 0) (fun c h => h.elim)
      (feed_start_ok (N.envOf p) _ hd)
  | event p i hb hn hev hdel =>
    have hd := (hinv.node p hb).2.2.2
    exact net_feed N ok a s hinv p hb i (event_inputOK _ i hev (hd.2.1 hn)) hdel
      (feed_event_ok (N.envOf p) _ i hd hn hev)

theorem net_init_inv (N : NetEnv) : NetInv N (Net.init N) (Sys.init N.h0) := by
  refine ⟨Reach.init, ⟨fun _ _ _ _ hx => hx.elim, fun _ _ _ _ hx => hx.elim, fun _ _ _ _ hx => hx.elim⟩, fun p _ => ⟨Sim_init N.E (N.envOf p) N.h0 p, rfl, ?_, new_MInv _ _ _, ?_⟩⟩
  · intro a ha; simp [Net.init] at ha
  · refine ⟨fun h => ?_, fun q hq => ?_⟩
    · simp [Net.init] at h
    · simp [Net.init] at hq

theorem net_reach_inv (N : NetEnv) (ok : NetOK N) (net : Net) (hr : NetReach N net) : ∃ s, NetInv N net s := by
  induction hr with
  | init => exact ⟨_, net_init_inv N⟩
  | step _ hs ih =>
    obtain ⟨s, hi⟩ := ih
    exact net_step_inv N ok _ _ s hi hs


/-! ## consequences for the machines' outputs -/

theorem net_agreement (N : NetEnv) (ok : NetOK N) (net : Net) (hr : NetReach N net)
    (p p' : Addr) (hp : ¬ N.E.byz p) (hp' : ¬ N.E.byz p') (q q' : Proposal)
    (hq : Action.commit q ∈ (net.node p).out) (hq' : Action.commit q' ∈ (net.node p').out)
    (hh : q.height = q'.height) : q.value = q'.value := by
  obtain ⟨s, hi⟩ := net_reach_inv N ok net hr
  have d1 : s.hist.decision p q.height q.round q.value := (hi.node p hp).2.2.1 _ hq
  have d2 : s.hist.decision p' q'.height q'.round q'.value := (hi.node p' hp').2.2.1 _ hq'
  rw [← hh] at d2
  exact agreement_of_inv N.E ok.1 s (inv_reach N.E N.h0 s hi.reach) p p' hp hp' q.height _ _ _ _ d1 d2

theorem net_one_vote (N : NetEnv) (ok : NetOK N) (net : Net) (hr : NetReach N net)
    (p : Addr) (hp : ¬ N.E.byz p) (v v' : Vote) (hh : v.height = v'.height) (hrd : v.round = v'.round) :
    (Action.bcastPrevote v ∈ (net.node p).out → Action.bcastPrevote v' ∈ (net.node p).out → v.id = v'.id) ∧
    (Action.bcastPrecommit v ∈ (net.node p).out → Action.bcastPrecommit v' ∈ (net.node p).out → v.id = v'.id) := by
  obtain ⟨s, hi⟩ := net_reach_inv N ok net hr
  have hinv := inv_reach N.E N.h0 s hi.reach p hp
  have hrec := (hi.node p hp).2.2.1
  constructor
  · intro h1 h2
    have a1 : s.hist.prevote p v.height v.round v.id := hrec _ h1
    have a2 : s.hist.prevote p v'.height v'.round v'.id := hrec _ h2
    rw [← hh, ← hrd] at a2
    exact hinv.pv_unique _ _ _ _ a1 a2
  · intro h1 h2
    have a1 : s.hist.precommit p v.height v.round v.id := hrec _ h1
    have a2 : s.hist.precommit p v'.height v'.round v'.id := hrec _ h2
    rw [← hh, ← hrd] at a2
    exact hinv.pc_unique _ _ _ _ a1 a2

/-- every value a machine commits is valid for the application, comes from a proposal whose sender
is the proposer of its (height, round), and that proposer — unless Byzantine — really broadcast a
proposal with this value for this height and round -/
theorem net_validity (N : NetEnv) (ok : NetOK N) (net : Net) (hr : NetReach N net)
    (p : Addr) (hp : ¬ N.E.byz p) (q : Proposal) (hq : Action.commit q ∈ (net.node p).out) :
    N.E.valid q.value = true ∧ q.sender = N.E.proposer q.height q.round ∧
    (N.E.byz q.sender ∨ ∃ q', Action.bcastProposal q' ∈ (net.node q.sender).out ∧
      q'.height = q.height ∧ q'.round = q.round ∧ q'.value = q.value ∧ q'.sender = q.sender) := by
  obtain ⟨s, hi⟩ := net_reach_inv N ok net hr
  have h1 := (hi.node p hp).2.2.2.2.2 q hq
  rw [(ok.2.1 p).valid, (ok.2.1 p).proposer]
  refine ⟨h1.1, h1.2, ?_⟩
  have d : s.hist.decision p q.height q.round q.value := (hi.node p hp).2.2.1 _ hq
  obtain ⟨_, _, hprop⟩ := (inv_reach N.E N.h0 s hi.reach p hp).decided _ _ _ d
  have hs : q.sender = N.E.proposer q.height q.round := by rw [(ok.2.1 p).proposer]; exact h1.2
  rw [← hs] at hprop
  rcases hprop with hb | hh
  · exact Or.inl hb
  · exact Or.inr (hi.complete.proposal _ _ _ _ hh)

/-- `2f+1` prevotes for `v` in round `r` of height `h`, counted over what the machines of the
correct validators really broadcast (Byzantine validators count as having voted). -/
def NetPolka (N : NetEnv) (net : Net) (h : Height) (r : Round) (v : Val) : Prop :=
  qN (N.E.N h) ≤ N.E.wsum h (fun a => N.E.byz a ∨ Action.bcastPrevote ⟨h, r, a, some v⟩ ∈ (net.node a).out)

/-- **Lock rule for the composed system.** If the machine of a correct validator broadcast a
precommit for `v` in round `r` and a prevote for another value `v'` in a later round `r'` of the
same height, then validators holding a quorum of the voting power (Byzantine ones, or correct ones
whose machines really broadcast it) prevoted `v'` in some round `vr` with `r ≤ vr < r'` — the unlock
condition of line 28. -/
theorem net_lock_respected (N : NetEnv) (ok : NetOK N) (net : Net) (hr : NetReach N net)
    (p : Addr) (hp : ¬ N.E.byz p) (h : Height) (r r' : Round) (v v' : Val)
    (hpc : Action.bcastPrecommit ⟨h, r, p, some v⟩ ∈ (net.node p).out)
    (hpv : Action.bcastPrevote ⟨h, r', p, some v'⟩ ∈ (net.node p).out)
    (hlt : r < r') (hne : v ≠ v') : ∃ vr, r ≤ vr ∧ vr < r' ∧ NetPolka N net h vr v' := by
  obtain ⟨s, hi⟩ := net_reach_inv N ok net hr
  have hrec := (hi.node p hp).2.2.1
  have a1 : s.hist.precommit p h r (some v) := hrec _ hpc
  have a2 : s.hist.prevote p h r' (some v') := hrec _ hpv
  obtain ⟨vr, h1, h2, h3⟩ := (inv_reach N.E N.h0 s hi.reach p hp).unlock h r r' v v' a2 a1 hlt hne
  refine ⟨vr, h1, h2, Nat.le_trans h3 (wsum_mono N.E h _ _ ?_)⟩
  intro a _ hx
  rcases hx with hb | hv
  · exact Or.inl hb
  · exact Or.inr (hi.complete.prevote _ _ _ _ hv)

theorem net_discipline (N : NetEnv) (ok : NetOK N) (net : Net) (hr : NetReach N net)
    (p : Addr) (hp : ¬ N.E.byz p) (hn : (net.node p).needStart = false) :
    (net.node p).m.isHeightStarted = true := by
  obtain ⟨s, hi⟩ := net_reach_inv N ok net hr
  exact (hi.node p hp).2.2.2.2.1 hn

end Juno.C12
