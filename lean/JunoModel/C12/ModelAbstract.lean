import JunoModel.C12.Model
/-!
C12 — `Abstract`: the Tendermint algorithm (arXiv 1807.04938, Algorithm 1) as guarded transitions
of correct processes over a monotone global message history, with weighted validators and a
Byzantine set.

* Every address runs the algorithm unless it is Byzantine (`E.byz`). Byzantine validators have no
  transitions at all: every quorum predicate counts a Byzantine validator as if it had sent every
  possible message (`byz a ∨ sent a …`), which covers every Byzantine behaviour, including
  conflicting messages to different peers.
* Guards are evaluated against the global history `hist` (everything ever sent). A correct process
  can only have received messages that were sent, and every guard is monotone in the set of
  messages, so any concrete run with arbitrary delays, reordering, loss and duplication is a run
  of this system (`Refine` connects `Exec` to it).
* Timeouts and round skips are not constrained: a process may vote nil whenever the code's step
  allows it, and may move to any higher round at any time. Safety must not depend on timing.
* Heights: a process works through heights one after the other as the code does (commit = next
  height, not started). Voting power, thresholds and the proposer may depend on the height.
Not executable (classical decidability of the history predicates); used by the proofs only.
-/
namespace Juno.C12.Abs
open Juno.C12

structure AEnv where
  vals : List Addr
  power : Height → Addr → Nat
  byz : Addr → Prop
  proposer : Height → Round → Addr
  valid : Val → Bool

/-- Sum of `pw a` over the members `a` of `l` (with multiplicity) that satisfy `P`. -/
noncomputable def wsumL (l : List Addr) (pw : Addr → Nat) (P : Addr → Prop) : Nat :=
  (l.map (fun a => @ite Nat (P a) (Classical.propDecidable (P a)) (pw a) 0)).sum

/-- Voting power (at height `h`) of the validators satisfying `P`. -/
noncomputable def AEnv.wsum (E : AEnv) (h : Height) (P : Addr → Prop) : Nat :=
  wsumL E.vals (E.power h) P

/-- Total voting power `N` at height `h`. -/
noncomputable def AEnv.N (E : AEnv) (h : Height) : Nat := E.wsum h (fun _ => True)

/-- The environment assumptions of the property: positive total power, Byzantine power at most
`f = floor((N-1)/3)` (i.e. less than one third) at every height. -/
structure AEnv.WF (E : AEnv) : Prop where
  pos : ∀ h, 0 < E.N h
  byzBound : ∀ h, E.wsum h E.byz ≤ fN (E.N h)

/-- Everything ever sent by correct processes, and their decisions. -/
structure Hist where
  proposal : Addr → Height → Round → Val → Prop
  prevote : Addr → Height → Round → Option Val → Prop
  precommit : Addr → Height → Round → Option Val → Prop
  decision : Addr → Height → Round → Val → Prop

structure LState where
  height : Height
  started : Bool
  round : Round
  step : Step
  lockedValue : Option Val
  lockedRound : Round

structure Sys where
  hist : Hist
  loc : Addr → LState

/-- `2f+1` prevotes for `id(v)` in round `r` of height `h` (code: `HasQuorumForVote(r, Prevote, id)`
with threshold `q N`). -/
def Polka (E : AEnv) (H : Hist) (h : Height) (r : Round) (v : Val) : Prop :=
  qN (E.N h) ≤ E.wsum h (fun a => E.byz a ∨ H.prevote a h r (some v))

/-- `2f+1` precommits for `id(v)` in round `r` of height `h`. -/
def PCQuorum (E : AEnv) (H : Hist) (h : Height) (r : Round) (v : Val) : Prop :=
  qN (E.N h) ≤ E.wsum h (fun a => E.byz a ∨ H.precommit a h r (some v))

def initL (h0 : Height) : LState := ⟨h0, false, 0, .propose, none, -1⟩

def Sys.init (h0 : Addr → Height) : Sys :=
  { hist := ⟨fun _ _ _ _ => False, fun _ _ _ _ => False, fun _ _ _ _ => False, fun _ _ _ _ => False⟩,
    loc := fun a => initL (h0 a) }

def setLoc (s : Sys) (p : Addr) (l : LState) : Addr → LState := fun a => if a = p then l else s.loc a

/-- The guard under which a correct process may prevote `id` (lines 22–33 and `OnTimeoutPropose`):
nil always; a value `v` only if the process is not locked, or is locked on `v`, or has seen a
polka for `v` in a round `vr` with `lockedRound ≤ vr < round` (the unlock condition of line 28). -/
def PrevoteGuard (E : AEnv) (H : Hist) (l : LState) : Option Val → Prop
  | none => True
  | some v => l.lockedRound = -1 ∨ l.lockedValue = some v ∨
      ∃ vr : Round, l.lockedRound ≤ vr ∧ vr < l.round ∧ Polka E H l.height vr v

def addProposal (H : Hist) (p : Addr) (h : Height) (r : Round) (v : Val) : Hist :=
  { H with proposal := fun a h' r' w => H.proposal a h' r' w ∨ (a = p ∧ h' = h ∧ r' = r ∧ w = v) }

def addPrevote (H : Hist) (p : Addr) (h : Height) (r : Round) (id : Option Val) : Hist :=
  { H with prevote := fun a h' r' w => H.prevote a h' r' w ∨ (a = p ∧ h' = h ∧ r' = r ∧ w = id) }

def addPrecommit (H : Hist) (p : Addr) (h : Height) (r : Round) (id : Option Val) : Hist :=
  { H with precommit := fun a h' r' w => H.precommit a h' r' w ∨ (a = p ∧ h' = h ∧ r' = r ∧ w = id) }

def addDecision (H : Hist) (p : Addr) (h : Height) (r : Round) (v : Val) : Hist :=
  { H with decision := fun a h' r' w => H.decision a h' r' w ∨ (a = p ∧ h' = h ∧ r' = r ∧ w = v) }

/-- Transitions of a correct process `p` (`l` is its local state `s.loc p`). -/
inductive Step (E : AEnv) : Sys → Sys → Prop
  /-- `ProcessStart(r)` for a height that is not started. -/
  | start (s : Sys) (p : Addr) (l : LState) (r : Round) :
      ¬ E.byz p → s.loc p = l → l.started = false → 0 ≤ r →
      Step E s ⟨s.hist, setLoc s p { l with started := true, round := r, step := .propose }⟩
  /-- `StartRound(r')` for a higher round (timeout precommit, or f+1 messages of a later round). -/
  | newRound (s : Sys) (p : Addr) (l : LState) (r' : Round) :
      ¬ E.byz p → s.loc p = l → l.started = true → l.round < r' →
      Step E s ⟨s.hist, setLoc s p { l with round := r', step := .propose }⟩
  /-- broadcast of a proposal (no guard: safety does not depend on what is proposed). -/
  | propose (s : Sys) (p : Addr) (l : LState) (v : Val) :
      ¬ E.byz p → s.loc p = l →
      Step E s ⟨addProposal s.hist p l.height l.round v, s.loc⟩
  /-- lines 22–33, `OnTimeoutPropose`: broadcast PREVOTE, step ← prevote. -/
  | prevote (s : Sys) (p : Addr) (l : LState) (id : Option Val) :
      ¬ E.byz p → s.loc p = l → l.started = true → l.step = .propose →
      PrevoteGuard E s.hist l id →
      Step E s ⟨addPrevote s.hist p l.height l.round id, setLoc s p { l with step := .prevote }⟩
  /-- lines 44–46, `OnTimeoutPrevote`: broadcast PRECOMMIT nil, step ← precommit. -/
  | precommitNil (s : Sys) (p : Addr) (l : LState) :
      ¬ E.byz p → s.loc p = l → l.started = true → l.step = .prevote →
      Step E s ⟨addPrecommit s.hist p l.height l.round none, setLoc s p { l with step := .precommit }⟩
  /-- lines 36–41 while step = prevote: lock, broadcast PRECOMMIT id(v), step ← precommit. -/
  | precommitValue (s : Sys) (p : Addr) (l : LState) (v : Val) :
      ¬ E.byz p → s.loc p = l → l.started = true → l.step = .prevote →
      Polka E s.hist l.height l.round v →
      Step E s ⟨addPrecommit s.hist p l.height l.round (some v),
                setLoc s p { l with step := .precommit, lockedValue := some v, lockedRound := l.round }⟩
  /-- lines 49–54: decide, next height (not started), locks reset. -/
  | commit (s : Sys) (p : Addr) (l : LState) (r : Round) (v : Val) :
      ¬ E.byz p → s.loc p = l → l.started = true →
      PCQuorum E s.hist l.height r v → E.valid v = true →
      (E.byz (E.proposer l.height r) ∨ s.hist.proposal (E.proposer l.height r) l.height r v) →
      Step E s ⟨addDecision s.hist p l.height r v, setLoc s p (initL (l.height + 1))⟩

/-- Reachable states of the system. -/
inductive Reach (E : AEnv) (h0 : Addr → Height) : Sys → Prop
  | init : Reach E h0 (Sys.init h0)
  | step {s s' : Sys} : Reach E h0 s → Step E s s' → Reach E h0 s'

end Juno.C12.Abs
