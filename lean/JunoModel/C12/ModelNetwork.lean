import JunoModel.C12.ModelAbstract
import JunoModel.C12.ProofsExec
/-!
C12 — the composed system: every correct validator runs the executable machine (`Exec`) inside the
loop of `consensus/driver.Driver.listen`, the network delivers any authentic message at any time.

`driver.listen` (driver.go:113):

    for {
        actions := stateMachine.ProcessStart(0); isCommitted := execute(actions)
        for !isCommitted {
            select { timeout | proposal | prevote | precommit | sync } -> actions := stateMachine.Process…(…)
            isCommitted = execute(actions)      // true iff a Commit action was executed
        }
    }

is the node below: `needStart` is "at the head of the outer loop"; `execute` reports a commit iff the
returned action list contains a `Commit`. Timers: any timeout may fire at any moment (the real
driver only fires scheduled ones: fewer behaviours). Byzantine validators are not nodes: whatever
they send is deliverable at any time to anybody (`Deliverable`).
-/
namespace Juno.C12
open Juno.C12.Abs

def Action.isCommit : Action → Bool
  | .commit _ => true
  | _ => false

/-- what `execute` returns: was a `Commit` among the actions -/
def hasCommit (acts : List Action) : Bool := acts.any Action.isCommit

/-- One validator process: the state machine and the driver's position in `listen`. -/
structure DNode where
  m : Machine
  needStart : Bool
  out : List Action

/-- Events `listen` selects on that this model covers: timeouts and gossiped proposals / prevotes /
precommits. Excluded: `ProcessStart` (only the loop head calls it), `ProcessWAL` (only `replay`), and
the block-sync branch: juno's `ProcessSync` input is fabricated by `consensus/sync.MessageExtractor`
(a proposal nobody broadcast plus one precommit of a pseudo-sender that holds quorum power); it is
not `Deliverable`, and trusting it is an assumption outside these theorems (see notes, finding 4). -/
def IsEvent : Input → Prop
  | .start _ => False
  | .wal _ => False
  | .sync _ _ => False
  | _ => True

structure NetEnv where
  E : AEnv
  envOf : Addr → Env
  h0 : Addr → Height
  /-- sender addresses whose gossiped messages `driver.listen` drops before they reach the state
  machine (d65a60f: `isSyncPseudoSender`); nobody runs a validator under such an address -/
  excl : Addr → Prop := fun _ => False

structure Net where
  node : Addr → DNode

def Net.init (N : NetEnv) : Net :=
  ⟨fun p => ⟨Machine.new (N.envOf p) p (N.h0 p), true, []⟩⟩

/-- The network can hand message `c` to a validator: its sender is Byzantine, or the sender's
machine has broadcast exactly this message (authenticity; delay, loss, duplication and reordering
are all allowed — a message stays deliverable forever and need never be delivered). -/
def Deliverable (E : AEnv) (net : Net) : VCChange → Prop
  | .vote v .prevote => E.byz v.sender ∨ Action.bcastPrevote v ∈ (net.node v.sender).out
  | .vote v .precommit => E.byz v.sender ∨ Action.bcastPrecommit v ∈ (net.node v.sender).out
  | .proposal p => E.byz p.sender ∨ Action.bcastProposal p ∈ (net.node p.sender).out
  | .futureQ _ _ _ => True

/-- `listen` hands the message to the state machine: its sender is not an excluded address -/
def Passes (X : Addr → Prop) : VCChange → Prop
  | .vote v _ => ¬ X v.sender
  | .proposal p => ¬ X p.sender
  | .futureQ _ _ _ => True

/-- the node after the driver fed input `i` to the state machine and executed the actions -/
def DNode.feed (env : Env) (d : DNode) (i : Input) : DNode :=
  let r := d.m.step env i
  ⟨r.1, hasCommit r.2, d.out ++ r.2⟩

def Net.set (net : Net) (p : Addr) (d : DNode) : Net := ⟨fun a => if a = p then d else net.node a⟩

inductive NetStep (N : NetEnv) : Net → Net → Prop
  /-- head of the outer loop: `ProcessStart(0)` -/
  | start (net : Net) (p : Addr) :
      ¬ N.E.byz p → (net.node p).needStart = true →
      NetStep N net (net.set p ((net.node p).feed (N.envOf p) (.start 0)))
  /-- inner loop: one event (a timeout, a delivered message, a sync result) -/
  | event (net : Net) (p : Addr) (i : Input) :
      ¬ N.E.byz p → (net.node p).needStart = false → IsEvent i →
      (∀ c, RecvOf i c → Deliverable N.E net c ∧ Passes N.excl c) →
      NetStep N net (net.set p ((net.node p).feed (N.envOf p) i))

inductive NetReach (N : NetEnv) : Net → Prop
  | init : NetReach N (Net.init N)
  | step {a b : Net} : NetReach N a → NetStep N a b → NetReach N b

end Juno.C12
