import JunoModel.C12.ProofsExec
/-! C12 — a Commit is the last action of every returned list (what `hasCommit` vs the early return of `driver.execute` relies on). -/
namespace Juno.C12

/-- the action list ends with its only commit, if it has one -/
def CommitLast (acts : List Action) : Prop :=
  ∀ pre post p, acts = pre ++ Action.commit p :: post → post = []

theorem startRound_not_commit (env : Env) (m : Machine) (r : Round) (p : Proposal) :
    (m.startRound env r).2 ≠ Action.commit p := by
  unfold Machine.startRound
  simp only
  split
  · split <;> simp [Machine.sendProposal]
  · simp [Machine.scheduleTimeout]

/-- `process` emits a commit only in the `commitValue` branch, which stops the loop and leaves the
(next) height not started -/
theorem process_commit (env : Env) (m : Machine) (rr : Option Round) (p : Proposal)
    (h : (m.process env rr).2.1 = some (Action.commit p)) :
    (m.process env rr).2.2 = false ∧ (m.process env rr).1.isHeightStarted = false := by
  unfold Machine.process at h ⊢
  split at h <;> simp only at h ⊢
  · simp [Machine.doFirstProposal, Machine.setStepAndSendPrevote] at h
  · simp [Machine.doProposalAndPolkaPrevious, Machine.setStepAndSendPrevote] at h
  · simp [Machine.doPolkaAny, Machine.scheduleTimeout] at h
  · exfalso
    unfold Machine.doProposalAndPolkaCurrent at h
    by_cases hst : (m.state.step == Step.prevote) = true
    · simp [hst, Machine.setStepAndSendPrecommit] at h
    · simp [hst] at h
  · simp [Machine.doPolkaNil, Machine.setStepAndSendPrecommit] at h
  · simp [Machine.doPrecommitAny, Machine.scheduleTimeout] at h
  · simp [Machine.doCommitValue]
  · exfalso
    simp only [Machine.doSkipRound, Option.some.injEq] at h
    exact startRound_not_commit env m _ p h
  · cases h


def NoCommit (acts : List Action) : Prop := ∀ p, Action.commit p ∉ acts

theorem CommitLast_nil : CommitLast [] := by
  intro pre post p h; cases pre <;> simp at h

theorem CommitLast_single (a : Action) : CommitLast [a] := by
  intro pre post p h
  cases pre with
  | nil => simp at h; exact h.2
  | cons x t => cases t <;> simp at h

theorem CommitLast_append (a b : List Action) (ha : NoCommit a) (hb : CommitLast b) : CommitLast (a ++ b) := by
  induction a with
  | nil => simpa using hb
  | cons x t ih =>
    have ht : NoCommit t := fun p hp => ha p (List.mem_cons_of_mem _ hp)
    intro pre post p h
    cases pre with
    | nil =>
      simp at h
      exact (ha p (by rw [← h.1]; exact List.mem_cons_self)).elim
    | cons y pre' =>
      simp at h
      exact ih ht pre' post p h.2

theorem NoCommit_of_not_mem_commitLast (acts : List Action) (h : NoCommit acts) : CommitLast acts := by
  intro pre post p e
  exact (h p (by rw [e]; simp)).elim

theorem optToList_noCommit (a : Option Action) (h : ∀ p, a ≠ some (Action.commit p)) : NoCommit a.toList := by
  intro p hp
  cases a with
  | none => simp at hp
  | some x => simp at hp; exact h p (by rw [hp])

/-- the rule loop: what it appends ends with its only commit (if any), and then the height is not
started -/
theorem loop_commit_last (env : Env) (rr : Option Round) : ∀ (fuel : Nat) (m : Machine) (acc : List Action),
    ∃ out, (Machine.processLoopAux env rr fuel m acc).2.1 = acc ++ out ∧ CommitLast out ∧
      ((∃ p, Action.commit p ∈ out) → (Machine.processLoopAux env rr fuel m acc).1.isHeightStarted = false) := by
  intro fuel
  induction fuel with
  | zero =>
    intro m acc
    exact ⟨[], by simp [Machine.processLoopAux], CommitLast_nil, fun ⟨p, hp⟩ => by cases hp⟩
  | succ n ih =>
    intro m acc
    have hpc := process_commit env m rr
    unfold Machine.processLoopAux
    generalize m.process env rr = res at hpc
    obtain ⟨m', a, cont⟩ := res
    simp only at hpc ⊢
    cases a with
    | none =>
      cases cont with
      | false =>
        exact ⟨[], by simp, CommitLast_nil, fun ⟨p, hp⟩ => by cases hp⟩
      | true =>
        simp only [if_true]
        exact ih m' acc
    | some x =>
      cases cont with
      | false =>
        refine ⟨[x], by simp, CommitLast_single x, ?_⟩
        intro ⟨p, hp⟩
        simp at hp; subst hp; exact (hpc p rfl).2
      | true =>
        simp only [if_true]
        have hnc : NoCommit [x] := by
          intro p hp
          simp at hp; subst hp
          have := (hpc p rfl).1
          cases this
        obtain ⟨out, e1, e2, e3⟩ := ih m' (acc ++ [x])
        refine ⟨[x] ++ out, by rw [e1, List.append_assoc], CommitLast_append _ _ hnc e2, ?_⟩
        intro ⟨p, hp⟩
        rcases List.mem_append.mp hp with h | h
        · exact (hnc p h).elim
        · exact e3 ⟨p, h⟩

/-- result of one call: the actions end with the only commit, and after a commit the height is not
started -/
def CallOK (r : Machine × List Action) : Prop :=
  CommitLast r.2 ∧ ((∃ p, Action.commit p ∈ r.2) → r.1.isHeightStarted = false)

theorem loop_callOK (env : Env) (m : Machine) (acts : List Action) (rr : Option Round) (hn : NoCommit acts) :
    CallOK (m.processLoop env acts rr) := by
  unfold Machine.processLoop
  obtain ⟨out, e1, e2, e3⟩ := loop_commit_last env rr loopFuel m acts
  refine ⟨?_, ?_⟩
  · show CommitLast (Machine.processLoopAux env rr loopFuel m acts).2.1
    rw [e1]; exact CommitLast_append _ _ hn e2
  · intro ⟨p, hp⟩
    have hp' : Action.commit p ∈ (Machine.processLoopAux env rr loopFuel m acts).2.1 := hp
    rw [e1] at hp'
    rcases List.mem_append.mp hp' with h | h
    · exact (hn p h).elim
    · exact e3 ⟨p, h⟩

theorem callOK_noCommit (m : Machine) (acts : List Action) (hn : NoCommit acts) : CallOK (m, acts) :=
  ⟨NoCommit_of_not_mem_commitLast acts hn, fun ⟨p, hp⟩ => (hn p hp).elim⟩

theorem processMessage_callOK (env : Env) (m : Machine) (h : Height) (r : Round) (w : WalEntry) :
    CallOK (m.processMessage env h r w) := by
  unfold Machine.processMessage
  split
  · exact callOK_noCommit m _ (by intro p hp; simp at hp)
  · exact loop_callOK env m _ _ (by intro p hp; simp at hp)

theorem processStart_callOK (env : Env) (m : Machine) (r : Round) : CallOK (m.processStart env r) := by
  unfold Machine.processStart
  split
  · exact callOK_noCommit m _ (by intro p hp; cases hp)
  · simp only
    have h := loop_callOK env (Machine.startRound env { m with isHeightStarted := true } r).1
      [(Machine.startRound env { m with isHeightStarted := true } r).2] none
      (by intro p hp; simp at hp; exact startRound_not_commit env _ r p hp.symm)
    refine ⟨?_, ?_⟩
    · have := CommitLast_append [Action.writeWAL (.start m.state.height)] _ (by intro p hp; simp at hp) h.1
      simpa using this
    · intro ⟨p, hp⟩
      simp at hp
      exact h.2 ⟨p, hp⟩


theorem processProposal_callOK (env : Env) (m : Machine) (p : Proposal) : CallOK (m.processProposal env p) := by
  unfold Machine.processProposal
  simp only
  split
  · exact callOK_noCommit _ _ (by intro q hq; cases hq)
  · exact processMessage_callOK env _ _ _ _

theorem processPrevote_callOK (env : Env) (m : Machine) (v : Vote) : CallOK (m.processPrevote env v) := by
  unfold Machine.processPrevote
  simp only
  split
  · exact callOK_noCommit _ _ (by intro q hq; cases hq)
  · exact processMessage_callOK env _ _ _ _

theorem processPrecommit_callOK (env : Env) (m : Machine) (v : Vote) : CallOK (m.processPrecommit env v) := by
  unfold Machine.processPrecommit
  simp only
  split
  · exact callOK_noCommit _ _ (by intro q hq; cases hq)
  · split
    · split
      · exact callOK_noCommit _ _ (by intro q hq; simp at hq)
      · exact processMessage_callOK env _ _ _ _
    · exact processMessage_callOK env _ _ _ _

theorem onTimeout_noCommit (env : Env) (m : Machine) (s : Step) (h : Height) (r : Round) :
    NoCommit (m.onTimeout env s h r).2 := by
  unfold Machine.onTimeout
  cases s <;> simp only <;> split <;> intro p hp
  · simp [Machine.setStepAndSendPrevote] at hp
  · cases hp
  · simp [Machine.setStepAndSendPrecommit] at hp
  · cases hp
  · simp at hp; exact startRound_not_commit env m _ p hp.symm
  · cases hp

theorem processTimeout_callOK (env : Env) (m : Machine) (s : Step) (h : Height) (r : Round) :
    CallOK (m.processTimeout env s h r) := by
  unfold Machine.processTimeout
  have hn := onTimeout_noCommit env m s h r
  generalize m.onTimeout env s h r = res at hn
  obtain ⟨m', acts⟩ := res
  simp only
  split
  · exact callOK_noCommit _ _ (by intro q hq; simp at hq)
  · exact loop_callOK env _ _ none hn

/-- a call into a height that is not started (after a commit) returns nothing and leaves it so -/
theorem processPrecommit_unstarted (env : Env) (m : Machine) (v : Vote) (h : m.isHeightStarted = false) :
    (m.processPrecommit env v).2 = [] ∧ (m.processPrecommit env v).1.isHeightStarted = false := by
  unfold Machine.processPrecommit
  simp [h]

theorem processSyncVotes_callOK (env : Env) : ∀ (vs : List Vote) (m : Machine) (acc : List Action),
    CallOK (m, acc) → CallOK (Machine.processSyncVotes env m acc vs) := by
  intro vs
  induction vs with
  | nil => intro m acc h; exact h
  | cons v rest ih =>
    intro m acc h
    simp only [Machine.processSyncVotes]
    apply ih
    by_cases hc : ∃ p, Action.commit p ∈ acc
    · -- already committed: the rest of the sync input is ignored
      have hns := h.2 hc
      have := processPrecommit_unstarted env m v hns
      rw [this.1, List.append_nil]
      exact ⟨h.1, fun _ => this.2⟩
    · have hn : NoCommit acc := fun p hp => hc ⟨p, hp⟩
      have h1 := processPrecommit_callOK env m v
      refine ⟨CommitLast_append _ _ hn h1.1, ?_⟩
      intro ⟨p, hp⟩
      rcases List.mem_append.mp hp with hp | hp
      · exact (hn p hp).elim
      · exact h1.2 ⟨p, hp⟩

theorem processSync_callOK (env : Env) (m : Machine) (p : Proposal) (vs : List Vote) :
    CallOK (m.processSync env p vs) := by
  unfold Machine.processSync
  exact processSyncVotes_callOK env vs _ _ (processProposal_callOK env m p)

/-- **A Commit is always the last action of the list a call returns, and the height is then not
started** — what makes `hasCommit` (any Commit in the list) equal to what `driver.execute` reports
(it returns at the first Commit and drops the rest: there is no rest). For every input, no
hypothesis. -/
theorem step_commit_last (env : Env) (m : Machine) (i : Input) : CallOK (m.step env i) := by
  cases i with
  | start r => exact processStart_callOK env m r
  | proposal p => exact processProposal_callOK env m p
  | prevote v => exact processPrevote_callOK env m v
  | precommit v => exact processPrecommit_callOK env m v
  | timeout s h r => exact processTimeout_callOK env m s h r
  | sync p vs => exact processSync_callOK env m p vs
  | wal e =>
    cases e with
    | start h => exact processStart_callOK env m 0
    | proposal p => exact processProposal_callOK env m p
    | prevote v => exact processPrevote_callOK env m v
    | precommit v => exact processPrecommit_callOK env m v
    | timeout s h r => exact processTimeout_callOK env m s h r

end Juno.C12
