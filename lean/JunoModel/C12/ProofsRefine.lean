import JunoModel.C12.ProofsTrace
import JunoModel.C12.ProofsAbstract
/-!
C12 — `Exec` refines `Abstract`: every micro-step of the executable machine of a correct validator
is a transition of that validator in the abstract system (or leaves the abstract state unchanged),
provided the machine's vote counter is sound with respect to the global history (`VCSound`: a
quorum reported by the vote counter is a quorum of messages that were sent or whose sender is
Byzantine — authenticity of messages plus correctness of the tallies).
-/
namespace Juno.C12
open Juno.C12.Abs

/-- Abstraction of the machine: the Tendermint variables. -/
def absL (m : Machine) : LState :=
  ⟨m.state.height, m.isHeightStarted, m.state.round, m.state.step, m.state.lockedValue, m.state.lockedRound⟩

theorem absL_of_core {m m' : Machine} (h : m'.core = m.core) : absL m' = absL m := by
  have h1 := congrArg Core.height h; have h2 := congrArg Core.started h
  have h3 := congrArg Core.round h; have h4 := congrArg Core.step h
  have h5 := congrArg Core.lockedValue h; have h6 := congrArg Core.lockedRound h
  simp only [Machine.core] at h1 h2 h3 h4 h5 h6
  simp [absL, h1, h2, h3, h4, h5, h6]

theorem absL_eq {m' : Machine} {c : Core} (h : m'.core = c) :
    absL m' = ⟨c.height, c.started, c.round, c.step, c.lockedValue, c.lockedRound⟩ := by
  subst h; rfl

/-- Soundness of the machine's vote counter with respect to the global history. -/
structure VCSound (E : AEnv) (s : Sys) (m : Machine) : Prop where
  polka : ∀ r v, m.vc.hasQuorumForVote r .prevote (some v) = true → Polka E s.hist m.state.height r v
  pcq : ∀ r v, m.vc.hasQuorumForVote r .precommit (some v) = true → PCQuorum E s.hist m.state.height r v
  prop : ∀ r p, m.vc.getProposal r = some p →
    E.byz p.sender ∨ s.hist.proposal p.sender p.height p.round p.value

/-- What a list of emitted actions must leave in the history. -/
def Recorded (acts : List Action) (p : Addr) (H : Hist) : Prop :=
  ∀ a ∈ acts, match a with
    | .bcastProposal q => H.proposal p q.height q.round q.value
    | .bcastPrevote v => H.prevote p v.height v.round v.id
    | .bcastPrecommit v => H.precommit p v.height v.round v.id
    | .commit q => H.decision p q.height q.value
    | _ => True

theorem setLoc_self (s : Sys) (p : Addr) (l : LState) : setLoc s p l p = l := by simp [setLoc]

theorem micro_refines (E : AEnv) (env : Env) (s : Sys) (m m' : Machine) (a : List Action)
    (hv : E.valid = env.valid) (hp : E.proposer = env.proposer)
    (hb : ¬ E.byz m.nodeAddr) (hloc : s.loc m.nodeAddr = absL m)
    (hsound : VCSound E s m) (hm : XMicro env m a m') (sc : SC m m') (hr : 0 ≤ m'.state.round) :
    ∃ s', (s' = s ∨ Abs.Step E s s') ∧ s'.loc m.nodeAddr = absL m' ∧ m'.nodeAddr = m.nodeAddr ∧
      (∀ q, q ≠ m.nodeAddr → s'.loc q = s.loc q) ∧ s.hist.le s'.hist ∧ Recorded a m.nodeAddr s'.hist := by
  -- started, whenever the Tendermint variables change and the height was not just started
  have hstarted : m'.core ≠ m.core → m'.isHeightStarted = m.isHeightStarted → m.isHeightStarted = true := by
    intro hne hsame
    rcases sc with h | h | h
    · exact (hne h).elim
    · exact h
    · rw [← hsame]; exact h
  cases hm with
  | silent _ _ hc hn hs =>
    refine ⟨s, Or.inl rfl, by rw [hloc, absL_of_core hc], hn, fun _ _ => rfl, Hist.le_refl _, ?_⟩
    intro x hx
    have := hs x hx
    cases x <;> simp [silentAct] at this <;> trivial
  | propose _ q hc hn h1 h2 h3 =>
    refine ⟨⟨addProposal s.hist m.nodeAddr (absL m).height (absL m).round q.value, s.loc⟩,
      Or.inr (Abs.Step.propose s m.nodeAddr (absL m) q.value hb hloc), by rw [hloc, absL_of_core hc], hn,
      fun _ _ => rfl, le_addProposal _ _ _ _ _, ?_⟩
    intro x hx
    simp at hx; subst hx
    exact Or.inr ⟨rfl, h1, h2, rfl⟩
  | start _ r hs hn hc =>
    have hround : m'.core.round = r := by rw [hc]
    refine ⟨⟨s.hist, setLoc s m.nodeAddr { absL m with started := true, round := r, step := .propose }⟩,
      Or.inr (Abs.Step.start s m.nodeAddr (absL m) r hb hloc hs (by rw [← hround]; exact hr)), ?_, hn,
      fun q hq => by simp [setLoc, hq], Hist.le_refl _, fun x hx => by cases hx⟩
    show setLoc s m.nodeAddr _ m.nodeAddr = absL m'
    rw [setLoc_self, absL_eq hc]; rfl
  | newRound _ r hlt hn hc =>
    have hst : m.isHeightStarted = true := by
      apply hstarted
      · intro h; rw [hc] at h
        have := congrArg Core.round h
        simp only [Machine.core] at this; omega
      · have : m'.core.started = m.core.started := by rw [hc]
        exact this
    refine ⟨⟨s.hist, setLoc s m.nodeAddr { absL m with round := r, step := .propose }⟩,
      Or.inr (Abs.Step.newRound s m.nodeAddr (absL m) r hb hloc hst hlt), ?_, hn,
      fun q hq => by simp [setLoc, hq], Hist.le_refl _, fun x hx => by cases hx⟩
    show setLoc s m.nodeAddr _ m.nodeAddr = absL m'
    rw [setLoc_self, absL_eq hc]; rfl
  | prevote _ id hstep hg hn hc =>
    have hst : m.isHeightStarted = true := by
      apply hstarted
      · intro h; rw [hc] at h
        have := congrArg Core.step h
        simp only [Machine.core] at this; rw [hstep] at this; cases this
      · have : m'.core.started = m.core.started := by rw [hc]
        exact this
    have hguard : PrevoteGuard E s.hist (absL m) id := by
      cases id with
      | none => trivial
      | some v =>
        obtain ⟨q, _, _, _, hcase⟩ := hg
        rcases hcase with ⟨_, h | h⟩ | ⟨_, hlt, hq, h | h⟩
        · exact Or.inl h
        · exact Or.inr (Or.inl h)
        · exact Or.inr (Or.inr ⟨q.validRound, h, hlt, hsound.polka _ _ hq⟩)
        · exact Or.inr (Or.inl h)
    refine ⟨⟨addPrevote s.hist m.nodeAddr (absL m).height (absL m).round id,
             setLoc s m.nodeAddr { absL m with step := .prevote }⟩,
      Or.inr (Abs.Step.prevote s m.nodeAddr (absL m) id hb hloc hst hstep hguard), ?_, hn,
      fun q hq => by simp [setLoc, hq], le_addPrevote _ _ _ _ _, ?_⟩
    · show setLoc s m.nodeAddr _ m.nodeAddr = absL m'
      rw [setLoc_self, absL_eq hc]; rfl
    · intro x hx; simp at hx; subst hx; exact Or.inr ⟨rfl, rfl, rfl, rfl⟩
  | precommitNil _ hstep hn hc =>
    have hst : m.isHeightStarted = true := by
      apply hstarted
      · intro h; rw [hc] at h
        have := congrArg Core.step h
        simp only [Machine.core] at this; rw [hstep] at this; cases this
      · have : m'.core.started = m.core.started := by rw [hc]
        exact this
    refine ⟨⟨addPrecommit s.hist m.nodeAddr (absL m).height (absL m).round none,
             setLoc s m.nodeAddr { absL m with step := .precommit }⟩,
      Or.inr (Abs.Step.precommitNil s m.nodeAddr (absL m) hb hloc hst hstep), ?_, hn,
      fun q hq => by simp [setLoc, hq], le_addPrecommit _ _ _ _ _, ?_⟩
    · show setLoc s m.nodeAddr _ m.nodeAddr = absL m'
      rw [setLoc_self, absL_eq hc]; rfl
    · intro x hx; simp at hx; subst hx; exact Or.inr ⟨rfl, rfl, rfl, rfl⟩
  | precommitValue _ v hstep _ hq hn hc =>
    have hst : m.isHeightStarted = true := by
      apply hstarted
      · intro h; rw [hc] at h
        have := congrArg Core.step h
        simp only [Machine.core] at this; rw [hstep] at this; cases this
      · have : m'.core.started = m.core.started := by rw [hc]
        exact this
    refine ⟨⟨addPrecommit s.hist m.nodeAddr (absL m).height (absL m).round (some v),
             setLoc s m.nodeAddr { absL m with step := .precommit, lockedValue := some v, lockedRound := (absL m).round }⟩,
      Or.inr (Abs.Step.precommitValue s m.nodeAddr (absL m) v hb hloc hst hstep (hsound.polka _ _ hq)), ?_, hn,
      fun q hq => by simp [setLoc, hq], le_addPrecommit _ _ _ _ _, ?_⟩
    · show setLoc s m.nodeAddr _ m.nodeAddr = absL m'
      rw [setLoc_self, absL_eq hc]; rfl
    · intro x hx; simp at hx; subst hx; exact Or.inr ⟨rfl, rfl, rfl, rfl⟩
  | commit _ q hg hval hq hh hs hn hc =>
    have hst : m.isHeightStarted = true := by
      rcases sc with h | h | h
      · rw [hc] at h
        have := congrArg Core.height h
        simp only [Machine.core] at this; omega
      · exact h
      · have : m'.core.started = true := h
        rw [hc] at this; cases this
    have hprop : E.byz (E.proposer (absL m).height q.round) ∨
        s.hist.proposal (E.proposer (absL m).height q.round) (absL m).height q.round q.value := by
      have := hsound.prop _ _ hg
      rw [hs, ← hp, hh] at this
      exact this
    refine ⟨⟨addDecision s.hist m.nodeAddr (absL m).height q.value, setLoc s m.nodeAddr (initL ((absL m).height + 1))⟩,
      Or.inr (Abs.Step.commit s m.nodeAddr (absL m) q.round q.value hb hloc hst (hsound.pcq _ _ hq)
        (by rw [hv]; exact hval) hprop), ?_, hn,
      fun x hx => by simp [setLoc, hx], le_addDecision _ _ _ _, ?_⟩
    · show setLoc s m.nodeAddr _ m.nodeAddr = absL m'
      rw [setLoc_self, absL_eq hc]; rfl
    · intro x hx; simp at hx; subst hx; exact Or.inr ⟨rfl, hh, rfl⟩

end Juno.C12
