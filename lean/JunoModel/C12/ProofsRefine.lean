import JunoModel.C12.ProofsTrace
import JunoModel.C12.ProofsAbstract
import JunoModel.C12.ProofsTally
/-!
C12 — `Exec` refines `Abstract`: every micro-step of the executable machine of a correct validator
is a transition of that validator in the abstract system (or leaves the abstract state unchanged),
provided the machine's vote counter is sound with respect to the global history (`VCSound`: a
quorum reported by the vote counter is a quorum of messages that were sent or whose sender is
Byzantine — authenticity of messages plus correctness of the tallies).
-/
namespace Juno.C12
open Juno.C12.Abs

/-- Abstraction of the machine: the Tendermint variables. -/
def absL (m : Machine) : LState :=
  ⟨m.state.height, m.isHeightStarted, m.state.round, m.state.step, m.state.lockedValue, m.state.lockedRound⟩

theorem absL_of_core {m m' : Machine} (h : m'.core = m.core) : absL m' = absL m := by
  have h1 := congrArg Core.height h; have h2 := congrArg Core.started h
  have h3 := congrArg Core.round h; have h4 := congrArg Core.step h
  have h5 := congrArg Core.lockedValue h; have h6 := congrArg Core.lockedRound h
  simp only [Machine.core] at h1 h2 h3 h4 h5 h6
  simp [absL, h1, h2, h3, h4, h5, h6]

theorem absL_eq {m' : Machine} {c : Core} (h : m'.core = c) :
    absL m' = ⟨c.height, c.started, c.round, c.step, c.lockedValue, c.lockedRound⟩ := by
  subst h; rfl

/-- Soundness of the machine's vote counter with respect to the global history. -/
structure VCSound (E : AEnv) (s : Sys) (m : Machine) : Prop where
  polka : ∀ r v, m.vc.hasQuorumForVote r .prevote (some v) = true → Polka E s.hist m.state.height r v
  pcq : ∀ r v, m.vc.hasQuorumForVote r .precommit (some v) = true → PCQuorum E s.hist m.state.height r v
  prop : ∀ r p, m.vc.getProposal r = some p →
    E.byz p.sender ∨ s.hist.proposal p.sender p.height p.round p.value

/-- What a list of emitted actions must leave in the history. -/
def Recorded (acts : List Action) (p : Addr) (H : Hist) : Prop :=
  ∀ a ∈ acts, match a with
    | .bcastProposal q => H.proposal p q.height q.round q.value
    | .bcastPrevote v => H.prevote p v.height v.round v.id
    | .bcastPrecommit v => H.precommit p v.height v.round v.id
    | .commit q => H.decision p q.height q.round q.value
    | _ => True

/-- Completeness: what a step of validator `p` adds to the history is exactly what its machine
emitted (so the history never contains a message of a correct validator that its machine did not
broadcast). -/
structure HistFrom (H H' : Hist) (p : Addr) (acts : List Action) : Prop where
  proposal : ∀ a h r v, H'.proposal a h r v → H.proposal a h r v ∨
    (a = p ∧ ∃ q, Action.bcastProposal q ∈ acts ∧ q.height = h ∧ q.round = r ∧ q.value = v ∧ q.sender = p)
  prevote : ∀ a h r id, H'.prevote a h r id → H.prevote a h r id ∨
    (a = p ∧ Action.bcastPrevote ⟨h, r, p, id⟩ ∈ acts)
  precommit : ∀ a h r id, H'.precommit a h r id → H.precommit a h r id ∨
    (a = p ∧ Action.bcastPrecommit ⟨h, r, p, id⟩ ∈ acts)

theorem HistFrom_refl (H : Hist) (p : Addr) (acts : List Action) : HistFrom H H p acts :=
  ⟨fun _ _ _ _ x => Or.inl x, fun _ _ _ _ x => Or.inl x, fun _ _ _ _ x => Or.inl x⟩

theorem HistFrom_trans {H1 H2 H3 : Hist} {p : Addr} {a b : List Action}
    (h1 : HistFrom H1 H2 p a) (h2 : HistFrom H2 H3 p b) : HistFrom H1 H3 p (a ++ b) := by
  refine ⟨?_, ?_, ?_⟩
  · intro x h r v hx
    rcases h2.proposal x h r v hx with hh | ⟨e, q, hq, r1, r2, r3, r4⟩
    · rcases h1.proposal x h r v hh with hh | ⟨e, q, hq, r1, r2, r3, r4⟩
      · exact Or.inl hh
      · exact Or.inr ⟨e, q, List.mem_append_left _ hq, r1, r2, r3, r4⟩
    · exact Or.inr ⟨e, q, List.mem_append_right _ hq, r1, r2, r3, r4⟩
  · intro x h r v hx
    rcases h2.prevote x h r v hx with hh | ⟨e, hq⟩
    · rcases h1.prevote x h r v hh with hh | ⟨e, hq⟩
      · exact Or.inl hh
      · exact Or.inr ⟨e, List.mem_append_left _ hq⟩
    · exact Or.inr ⟨e, List.mem_append_right _ hq⟩
  · intro x h r v hx
    rcases h2.precommit x h r v hx with hh | ⟨e, hq⟩
    · rcases h1.precommit x h r v hh with hh | ⟨e, hq⟩
      · exact Or.inl hh
      · exact Or.inr ⟨e, List.mem_append_left _ hq⟩
    · exact Or.inr ⟨e, List.mem_append_right _ hq⟩

theorem setLoc_self (s : Sys) (p : Addr) (l : LState) : setLoc s p l p = l := by simp [setLoc]

theorem micro_refines {A : VCChange → Prop} (E : AEnv) (env : Env) (s : Sys) (m m' : Machine) (a : List Action)
    (hv : E.valid = env.valid) (hp : E.proposer = env.proposer)
    (hb : ¬ E.byz m.nodeAddr) (hloc : s.loc m.nodeAddr = absL m)
    (hsound : VCSound E s m) (hm : XMicro env A m a m') (sc : SC m m') :
    ∃ s', (s' = s ∨ Abs.Step E s s') ∧ s'.loc m.nodeAddr = absL m' ∧ m'.nodeAddr = m.nodeAddr ∧
      (∀ q, q ≠ m.nodeAddr → s'.loc q = s.loc q) ∧ s.hist.le s'.hist ∧ Recorded a m.nodeAddr s'.hist ∧
      HistFrom s.hist s'.hist m.nodeAddr a := by
  -- started, whenever the Tendermint variables change and the height was not just started
  have hstarted : m'.core ≠ m.core → m'.isHeightStarted = m.isHeightStarted → m.isHeightStarted = true := by
    intro hne hsame
    rcases sc with h | h | h
    · exact (hne h).elim
    · exact h
    · rw [← hsame]; exact h
  cases hm with
  | silent _ _ hc hn _ hs =>
    refine ⟨s, Or.inl rfl, by rw [hloc, absL_of_core hc], hn, fun _ _ => rfl, Hist.le_refl _, ?_, HistFrom_refl _ _ _⟩
    intro x hx
    have := hs x hx
    cases x <;> simp [silentAct] at this <;> trivial
  | recv _ c _ hc hn _ =>
    exact ⟨s, Or.inl rfl, by rw [hloc, absL_of_core hc], hn, fun _ _ => rfl, Hist.le_refl _, (fun x hx => by cases hx), HistFrom_refl _ _ _⟩
  | propose _ q hc hn _ h1 h2 h3 =>
    refine ⟨⟨addProposal s.hist m.nodeAddr (absL m).height (absL m).round q.value, s.loc⟩,
      Or.inr (Abs.Step.propose s m.nodeAddr (absL m) q.value hb hloc), by rw [hloc, absL_of_core hc], hn,
      fun _ _ => rfl, le_addProposal _ _ _ _ _, ?_, ?_⟩
    · intro x hx
      simp at hx; subst hx
      exact Or.inr ⟨rfl, h1, h2, rfl⟩
    · refine ⟨?_, fun _ _ _ _ x => Or.inl x, fun _ _ _ _ x => Or.inl x⟩
      intro a h r v hx
      rcases hx with hx | ⟨ha, hh', hr', hv'⟩
      · exact Or.inl hx
      · exact Or.inr ⟨ha, q, List.mem_singleton.mpr rfl, by rw [hh', h1]; rfl, by rw [hr', h2]; rfl, hv'.symm, h3⟩
  | start _ r hs hr0 hn _ hc =>
    refine ⟨⟨s.hist, setLoc s m.nodeAddr { absL m with started := true, round := r, step := .propose }⟩,
      Or.inr (Abs.Step.start s m.nodeAddr (absL m) r hb hloc hs hr0), ?_, hn,
      fun q hq => by simp [setLoc, hq], Hist.le_refl _, (fun x hx => by cases hx), HistFrom_refl _ _ _⟩
    show setLoc s m.nodeAddr _ m.nodeAddr = absL m'
    rw [setLoc_self, absL_eq hc]; rfl
  | newRound _ r hlt hn _ hc =>
    have hst : m.isHeightStarted = true := by
      apply hstarted
      · intro h; rw [hc] at h
        have := congrArg Core.round h
        simp only [Machine.core] at this; omega
      · have : m'.core.started = m.core.started := by rw [hc]
        exact this
    refine ⟨⟨s.hist, setLoc s m.nodeAddr { absL m with round := r, step := .propose }⟩,
      Or.inr (Abs.Step.newRound s m.nodeAddr (absL m) r hb hloc hst hlt), ?_, hn,
      fun q hq => by simp [setLoc, hq], Hist.le_refl _, (fun x hx => by cases hx), HistFrom_refl _ _ _⟩
    show setLoc s m.nodeAddr _ m.nodeAddr = absL m'
    rw [setLoc_self, absL_eq hc]; rfl
  | prevote _ id hstep hg hn _ hc =>
    have hst : m.isHeightStarted = true := by
      apply hstarted
      · intro h; rw [hc] at h
        have := congrArg Core.step h
        simp only [Machine.core] at this; rw [hstep] at this; cases this
      · have : m'.core.started = m.core.started := by rw [hc]
        exact this
    have hguard : PrevoteGuard E s.hist (absL m) id := by
      cases id with
      | none => trivial
      | some v =>
        obtain ⟨q, _, _, _, hcase⟩ := hg
        rcases hcase with ⟨_, h | h⟩ | ⟨_, hlt, hq, h | h⟩
        · exact Or.inl h
        · exact Or.inr (Or.inl h)
        · exact Or.inr (Or.inr ⟨q.validRound, h, hlt, hsound.polka _ _ hq⟩)
        · exact Or.inr (Or.inl h)
    refine ⟨⟨addPrevote s.hist m.nodeAddr (absL m).height (absL m).round id,
             setLoc s m.nodeAddr { absL m with step := .prevote }⟩,
      Or.inr (Abs.Step.prevote s m.nodeAddr (absL m) id hb hloc hst hstep hguard), ?_, hn,
      fun q hq => by simp [setLoc, hq], le_addPrevote _ _ _ _ _, ?_, ?_⟩
    · show setLoc s m.nodeAddr _ m.nodeAddr = absL m'
      rw [setLoc_self, absL_eq hc]; rfl
    · intro x hx; simp at hx; subst hx; exact Or.inr ⟨rfl, rfl, rfl, rfl⟩
    · refine ⟨fun _ _ _ _ x => Or.inl x, ?_, fun _ _ _ _ x => Or.inl x⟩
      intro a h r id' hx
      rcases hx with hx | ⟨ha, hh', hr', hid'⟩
      · exact Or.inl hx
      · subst ha; subst hh'; subst hr'; subst hid'
        exact Or.inr ⟨rfl, List.mem_singleton.mpr rfl⟩
  | precommitNil _ hstep hn _ hc =>
    have hst : m.isHeightStarted = true := by
      apply hstarted
      · intro h; rw [hc] at h
        have := congrArg Core.step h
        simp only [Machine.core] at this; rw [hstep] at this; cases this
      · have : m'.core.started = m.core.started := by rw [hc]
        exact this
    refine ⟨⟨addPrecommit s.hist m.nodeAddr (absL m).height (absL m).round none,
             setLoc s m.nodeAddr { absL m with step := .precommit }⟩,
      Or.inr (Abs.Step.precommitNil s m.nodeAddr (absL m) hb hloc hst hstep), ?_, hn,
      fun q hq => by simp [setLoc, hq], le_addPrecommit _ _ _ _ _, ?_, ?_⟩
    · show setLoc s m.nodeAddr _ m.nodeAddr = absL m'
      rw [setLoc_self, absL_eq hc]; rfl
    · intro x hx; simp at hx; subst hx; exact Or.inr ⟨rfl, rfl, rfl, rfl⟩
    · refine ⟨fun _ _ _ _ x => Or.inl x, fun _ _ _ _ x => Or.inl x, ?_⟩
      intro a h r id' hx
      rcases hx with hx | ⟨ha, hh', hr', hid'⟩
      · exact Or.inl hx
      · subst ha; subst hh'; subst hr'; subst hid'
        exact Or.inr ⟨rfl, List.mem_singleton.mpr rfl⟩
  | precommitValue _ v hstep _ hq hn _ hc =>
    have hst : m.isHeightStarted = true := by
      apply hstarted
      · intro h; rw [hc] at h
        have := congrArg Core.step h
        simp only [Machine.core] at this; rw [hstep] at this; cases this
      · have : m'.core.started = m.core.started := by rw [hc]
        exact this
    refine ⟨⟨addPrecommit s.hist m.nodeAddr (absL m).height (absL m).round (some v),
             setLoc s m.nodeAddr { absL m with step := .precommit, lockedValue := some v, lockedRound := (absL m).round }⟩,
      Or.inr (Abs.Step.precommitValue s m.nodeAddr (absL m) v hb hloc hst hstep (hsound.polka _ _ hq)), ?_, hn,
      fun q hq => by simp [setLoc, hq], le_addPrecommit _ _ _ _ _, ?_, ?_⟩
    · show setLoc s m.nodeAddr _ m.nodeAddr = absL m'
      rw [setLoc_self, absL_eq hc]; rfl
    · intro x hx; simp at hx; subst hx; exact Or.inr ⟨rfl, rfl, rfl, rfl⟩
    · refine ⟨fun _ _ _ _ x => Or.inl x, fun _ _ _ _ x => Or.inl x, ?_⟩
      intro a h r id' hx
      rcases hx with hx | ⟨ha, hh', hr', hid'⟩
      · exact Or.inl hx
      · subst ha; subst hh'; subst hr'; subst hid'
        exact Or.inr ⟨rfl, List.mem_singleton.mpr rfl⟩
  | commit _ q hg hval hq hh hs hn _ hc =>
    have hst : m.isHeightStarted = true := by
      rcases sc with h | h | h
      · rw [hc] at h
        have := congrArg Core.height h
        simp only [Machine.core] at this; omega
      · exact h
      · have : m'.core.started = true := h
        rw [hc] at this; cases this
    have hprop : E.byz (E.proposer (absL m).height q.round) ∨
        s.hist.proposal (E.proposer (absL m).height q.round) (absL m).height q.round q.value := by
      have := hsound.prop _ _ hg
      rw [hs, ← hp, hh] at this
      exact this
    refine ⟨⟨addDecision s.hist m.nodeAddr (absL m).height q.round q.value, setLoc s m.nodeAddr (initL ((absL m).height + 1))⟩,
      Or.inr (Abs.Step.commit s m.nodeAddr (absL m) q.round q.value hb hloc hst (hsound.pcq _ _ hq)
        (by rw [hv]; exact hval) hprop), ?_, hn,
      fun x hx => by simp [setLoc, hx], le_addDecision _ _ _ _ _, ?_,
      ⟨fun _ _ _ _ x => Or.inl x, fun _ _ _ _ x => Or.inl x, fun _ _ _ _ x => Or.inl x⟩⟩
    · show setLoc s m.nodeAddr _ m.nodeAddr = absL m'
      rw [setLoc_self, absL_eq hc]; rfl
    · intro x hx; simp at hx; subst hx; exact Or.inr ⟨rfl, hh, rfl, rfl⟩


/-! ## the unconditional simulation: `VCSound` follows from the ballot bookkeeping -/

/-- A message handed to the machine is authentic w.r.t. the history: its sender is Byzantine or
really sent it (unforgeable signatures; the network may delay, drop, duplicate, reorder). -/
def AuthC (E : AEnv) (H : Hist) : VCChange → Prop
  | .vote v t => VJ E H v.height v.round v.id v.sender t
  | .proposal p => E.byz p.sender ∨ H.proposal p.sender p.height p.round p.value
  | .futureQ _ _ _ => True

/-- the message's sender is not one of the excluded addresses `X` (whose messages the driver drops) -/
def NotExcl (X : Addr → Prop) : VCChange → Prop
  | .vote v _ => ¬ X v.sender
  | _ => True

/-- Simulation relation between the abstract system and the machine of correct validator
`m.nodeAddr`: the abstract local state is the machine's Tendermint variables, and every ballot and
proposal in the vote counter is justified by the global history. -/
structure Sim (E : AEnv) (env : Env) (s : Sys) (m : Machine) : Prop where
  loc : s.loc m.nodeAddr = absL m
  just : VCJust E s.hist m.vc
  inv : MInv env m

theorem Sim_sound {X : Addr → Prop} (E : AEnv) (env : Env) (ok : EnvOK E env X) (wf : E.WF) (s : Sys) (m : Machine)
    (hsim : Sim E env s m) : VCSound E s m := by
  refine ⟨?_, ?_, ?_⟩
  · intro r v hq
    have := VCJust_polka E s.hist env ok wf m.vc hsim.inv.vc.q hsim.just r v hq
    rw [hsim.inv.cur] at this; exact this
  · intro r v hq
    have := VCJust_pcq E s.hist env ok wf m.vc hsim.inv.vc.q hsim.just r v hq
    rw [hsim.inv.cur] at this; exact this
  · intro r p hg; exact VCJust_prop E s.hist m.vc hsim.just r p hg

/-- The simulation is stable under steps of the rest of the system (the history only grows, the
validator's own local state is untouched). -/
theorem Sim_stable (E : AEnv) (env : Env) (s s' : Sys) (m : Machine) (hsim : Sim E env s m)
    (hle : s.hist.le s'.hist) (hloc : s'.loc m.nodeAddr = s.loc m.nodeAddr) : Sim E env s' m :=
  ⟨by rw [hloc]; exact hsim.loc, VCJust_mono E hle hsim.just, hsim.inv⟩

theorem micro_sim {A : VCChange → Prop} {X : Addr → Prop} (E : AEnv) (env : Env) (ok : EnvOK E env X) (wf : E.WF) (s : Sys)
    (m m' : Machine) (a : List Action) (hb : ¬ E.byz m.nodeAddr) (hX : ¬ X m.nodeAddr) (hsim : Sim E env s m)
    (hauth : ∀ c, A c → AuthC E s.hist c ∧ NotExcl X c)
    (hm : XMicro env A m a m') (sc : SC m m') (hinv' : MInv env m') :
    ∃ s', (s' = s ∨ Abs.Step E s s') ∧ Sim E env s' m' ∧ m'.nodeAddr = m.nodeAddr ∧
      (∀ q, q ≠ m.nodeAddr → s'.loc q = s.loc q) ∧ s.hist.le s'.hist ∧ Recorded a m.nodeAddr s'.hist ∧
      HistFrom s.hist s'.hist m.nodeAddr a := by
  obtain ⟨s', hstep, hloc', hn, hoth, hle, hrec, hfrom⟩ :=
    micro_refines E env s m m' a ok.valid ok.proposer hb hsim.loc (Sim_sound E env ok wf s m hsim) hm sc
  refine ⟨s', hstep, ⟨by rw [hn]; exact hloc', ?_, hinv'⟩, hn, hoth, hle, hrec, hfrom⟩
  have base := VCJust_mono E hle hsim.just
  cases hm with
  | silent _ _ _ _ hvc _ => rw [hvc]; exact base
  | recv _ c hA _ _ hvc =>
    rw [hvc]
    obtain ⟨hau, hnx⟩ := hauth c hA
    cases c with
    | vote v t => exact VCJust_addVote E s'.hist env m.vc v t (ok.power _ _ hnx) base (VJ_mono E hle hau)
    | proposal p =>
      exact VCJust_addProposal E s'.hist env m.vc p base (hau.imp (fun x => x) (hle.proposal _ _ _ _))
    | futureQ h r id => exact VCJust_futureQ E s'.hist m.vc h r id base
  | propose _ q _ _ hvc h1 h2 h3 =>
    rw [hvc]
    have := hrec (.bcastProposal q) (List.mem_singleton.mpr rfl)
    simp only at this
    exact VCJust_addProposal E s'.hist env m.vc q base (Or.inr (by rw [h3]; exact this))
  | start _ r _ _ _ hvc _ => rw [hvc]; exact base
  | newRound _ r _ _ hvc _ => rw [hvc]; exact base
  | prevote _ id _ _ _ hvc _ =>
    rw [hvc]
    have := hrec (.bcastPrevote ⟨m.state.height, m.state.round, m.nodeAddr, id⟩) (List.mem_singleton.mpr rfl)
    exact VCJust_addVote E s'.hist env m.vc _ .prevote (ok.power _ _ hX) base (Or.inr this)
  | precommitNil _ _ _ hvc _ =>
    rw [hvc]
    have := hrec (.bcastPrecommit ⟨m.state.height, m.state.round, m.nodeAddr, none⟩) (List.mem_singleton.mpr rfl)
    exact VCJust_addVote E s'.hist env m.vc _ .precommit (ok.power _ _ hX) base (Or.inr this)
  | precommitValue _ v _ _ _ _ hvc _ =>
    rw [hvc]
    have := hrec (.bcastPrecommit ⟨m.state.height, m.state.round, m.nodeAddr, some v⟩) (List.mem_singleton.mpr rfl)
    exact VCJust_addVote E s'.hist env m.vc _ .precommit (ok.power _ _ hX) base (Or.inr this)
  | commit _ q _ _ _ _ _ _ hvc _ =>
    rw [hvc]; exact VCJust_startNewHeight E s'.hist env m.vc base

theorem micro_MInv {A : VCChange → Prop} (env : Env) (m m' : Machine) (a : List Action)
    (hm : XMicro env A m a m') (hi : MInv env m) : MInv env m' := by
  have hgt : ∀ (c : Core), m'.core = c → m'.state.height = c.height := by
    intro c h; rw [← h]; rfl
  cases hm with
  | silent _ _ hc _ hvc _ => exact ⟨by rw [hvc]; exact hi.vc, by rw [hvc, hgt _ hc]; exact hi.cur⟩
  | recv _ c _ hc _ hvc =>
    cases c with
    | vote v t =>
      have := addVote_inv env m.vc v t hi.vc
      exact ⟨by rw [hvc]; exact this.1, by rw [hvc, hgt _ hc]; show (m.vc.addVote env v t).1.cur = _; rw [this.2.1]; exact hi.cur⟩
    | proposal p =>
      have := addProposal_inv env m.vc p hi.vc
      exact ⟨by rw [hvc]; exact this.1, by rw [hvc, hgt _ hc]; show (m.vc.addProposal env p).1.cur = _; rw [this.2.1]; exact hi.cur⟩
    | futureQ h r id =>
      have := hasFuturePrecommitQuorum_inv env m.vc h r id hi.vc
      exact ⟨by rw [hvc]; exact this.1, by rw [hvc, hgt _ hc]; show (m.vc.hasFuturePrecommitQuorum h r id).1.cur = _; rw [this.2]; exact hi.cur⟩
  | propose _ q hc _ hvc _ _ _ =>
    have := addProposal_inv env m.vc q hi.vc
    exact ⟨by rw [hvc]; exact this.1, by rw [hvc, hgt _ hc, this.2.1]; exact hi.cur⟩
  | start _ r _ _ _ hvc hc => exact ⟨by rw [hvc]; exact hi.vc, by rw [hvc, hgt _ hc]; exact hi.cur⟩
  | newRound _ r _ _ hvc hc => exact ⟨by rw [hvc]; exact hi.vc, by rw [hvc, hgt _ hc]; exact hi.cur⟩
  | prevote _ id _ _ _ hvc hc =>
    have := addVote_inv env m.vc ⟨m.state.height, m.state.round, m.nodeAddr, id⟩ .prevote hi.vc
    exact ⟨by rw [hvc]; exact this.1, by rw [hvc, hgt _ hc, this.2.1]; exact hi.cur⟩
  | precommitNil _ _ _ hvc hc =>
    have := addVote_inv env m.vc ⟨m.state.height, m.state.round, m.nodeAddr, none⟩ .precommit hi.vc
    exact ⟨by rw [hvc]; exact this.1, by rw [hvc, hgt _ hc, this.2.1]; exact hi.cur⟩
  | precommitValue _ v _ _ _ _ hvc hc =>
    have := addVote_inv env m.vc ⟨m.state.height, m.state.round, m.nodeAddr, some v⟩ .precommit hi.vc
    exact ⟨by rw [hvc]; exact this.1, by rw [hvc, hgt _ hc, this.2.1]; exact hi.cur⟩
  | commit _ q _ _ _ _ _ _ hvc hc =>
    have := startNewHeight_inv env m.vc hi.vc
    exact ⟨by rw [hvc]; exact this.1, by rw [hvc, hgt _ hc, this.2, hi.cur]⟩

/-- finitely many transitions of the abstract system -/
inductive Steps (E : AEnv) : Sys → Sys → Prop
  | refl (s : Sys) : Steps E s s
  | tail {s s1 s2 : Sys} : Steps E s s1 → Abs.Step E s1 s2 → Steps E s s2

theorem Steps.trans {E : AEnv} {s s1 s2 : Sys} (h1 : Steps E s s1) (h2 : Steps E s1 s2) : Steps E s s2 := by
  induction h2 with
  | refl => exact h1
  | tail _ hs ih => exact Steps.tail ih hs

theorem Reach_steps (E : AEnv) (h0 : Addr → Height) (s s' : Sys) (hr : Reach E h0 s) (hs : Steps E s s') :
    Reach E h0 s' := by
  induction hs with
  | refl => exact hr
  | tail _ hstep ih => exact Reach.step ih hstep

theorem AuthC_mono (E : AEnv) {H H' : Hist} (hle : H.le H') {c : VCChange} (h : AuthC E H c) : AuthC E H' c := by
  cases c with
  | vote v t => exact VJ_mono E hle h
  | proposal p => exact h.imp (fun x => x) (hle.proposal _ _ _ _)
  | futureQ _ _ _ => trivial

theorem Hist.le_trans {H1 H2 H3 : Hist} (h1 : H1.le H2) (h2 : H2.le H3) : H1.le H3 :=
  ⟨fun a h r v x => h2.proposal a h r v (h1.proposal a h r v x),
   fun a h r v x => h2.prevote a h r v (h1.prevote a h r v x),
   fun a h r v x => h2.precommit a h r v (h1.precommit a h r v x),
   fun a h r v x => h2.decision a h r v (h1.decision a h r v x)⟩

theorem Recorded_mono {acts : List Action} {p : Addr} {H H' : Hist} (hle : H.le H') (h : Recorded acts p H) :
    Recorded acts p H' := by
  intro a ha
  have := h a ha
  cases a with
  | bcastProposal q => exact hle.proposal _ _ _ _ this
  | bcastPrevote v => exact hle.prevote _ _ _ _ this
  | bcastPrecommit v => exact hle.precommit _ _ _ _ this
  | commit q => exact hle.decision _ _ _ _ this
  | writeWAL _ => trivial
  | schedule _ _ _ => trivial
  | triggerSync _ _ => trivial

theorem Recorded_append {a b : List Action} {p : Addr} {H : Hist} (h1 : Recorded a p H) (h2 : Recorded b p H) :
    Recorded (a ++ b) p H := by
  intro x hx
  rcases List.mem_append.mp hx with h | h
  · exact h1 x h
  · exact h2 x h

/-- A chain of micro-steps of a correct validator's machine is simulated by transitions of that
validator in the abstract system. -/
theorem chain_sim {A : VCChange → Prop} {X : Addr → Prop} (E : AEnv) (env : Env) (ok : EnvOK E env X) (wf : E.WF)
    (m m' : Machine) (acts : List Action) (hc : XChain env A m acts m') :
    ∀ (s : Sys), ¬ E.byz m.nodeAddr → ¬ X m.nodeAddr → Sim E env s m →
    (∀ c, A c → AuthC E s.hist c ∧ NotExcl X c) →
    ∃ s', Steps E s s' ∧ Sim E env s' m' ∧ m'.nodeAddr = m.nodeAddr ∧
      (∀ q, q ≠ m.nodeAddr → s'.loc q = s.loc q) ∧ s.hist.le s'.hist ∧ Recorded acts m.nodeAddr s'.hist ∧
      HistFrom s.hist s'.hist m.nodeAddr acts := by
  induction hc with
  | nil m0 =>
    intro s _ _ hsim _
    exact ⟨s, Steps.refl s, hsim, rfl, fun _ _ => rfl, Hist.le_refl _, (fun a ha => by cases ha), HistFrom_refl _ _ _⟩
  | @cons m0 m1 m2 a as hm sc _ ih =>
    intro s hb hx hsim hauth
    obtain ⟨s1, hstep, hsim1, hn1, hoth1, hle1, hrec1, hfrom1⟩ :=
      micro_sim E env ok wf s m0 m1 a hb hx hsim hauth hm sc (micro_MInv env m0 m1 a hm hsim.inv)
    obtain ⟨s2, hsteps, hsim2, hn2, hoth2, hle2, hrec2, hfrom2⟩ :=
      ih s1 (by rw [hn1]; exact hb) (by rw [hn1]; exact hx) hsim1
        (fun c hc => ⟨AuthC_mono E hle1 (hauth c hc).1, (hauth c hc).2⟩)
    rw [hn1] at hfrom2
    refine ⟨s2, ?_, hsim2, by rw [hn2, hn1], ?_, Hist.le_trans hle1 hle2, ?_, HistFrom_trans hfrom1 hfrom2⟩
    · rcases hstep with h | h
      · subst h; exact hsteps
      · exact Steps.trans (Steps.tail (Steps.refl s) h) hsteps
    · intro q hq; rw [hoth2 q (by rw [hn1]; exact hq), hoth1 q hq]
    · exact Recorded_append (Recorded_mono hle2 hrec1) (by rw [hn1] at hrec2; exact hrec2)

/-- **Exec refines Abstract**: one input to the machine of a correct validator. -/
theorem step_sim {X : Addr → Prop} (E : AEnv) (env : Env) (ok : EnvOK E env X) (wf : E.WF) (s : Sys) (m : Machine) (i : Input)
    (hb : ¬ E.byz m.nodeAddr) (hX : ¬ X m.nodeAddr) (hsim : Sim E env s m) (hok : InputOK m i)
    (hauth : ∀ c, RecvOf i c → AuthC E s.hist c ∧ NotExcl X c) :
    ∃ s', Steps E s s' ∧ Sim E env s' (m.step env i).1 ∧ (m.step env i).1.nodeAddr = m.nodeAddr ∧
      (∀ q, q ≠ m.nodeAddr → s'.loc q = s.loc q) ∧ s.hist.le s'.hist ∧
      Recorded (m.step env i).2 m.nodeAddr s'.hist ∧ HistFrom s.hist s'.hist m.nodeAddr (m.step env i).2 := by
  have hc := step_chain (A := RecvOf i) env m i (fun c h => h) hok hsim.inv
  exact chain_sim E env ok wf m _ _ hc.1 s hb hX hsim hauth

theorem Sim_init (E : AEnv) (env : Env) (h0 : Addr → Height) (p : Addr) :
    Sim E env (Sys.init h0) (Machine.new env p (h0 p)) :=
  ⟨rfl, VCJust_new E _ env _, new_MInv env p (h0 p)⟩


end Juno.C12
